#!/bin/sh
# Build the framework from files on disk only (offline). Run once in /verif after a fresh restore.
set -e
cd "$(dirname "$0")"
export GOFLAGS=-mod=mod GOPROXY=off GOSUMDB=off GOTOOLCHAIN=local CGO_ENABLED=0
mkdir -p bin evidence/replays work lean/FitModel/Generated
(cd translators/astfacts && go build -o ../../bin/astfacts .)
(cd translators/go2lean && go build -o ../../bin/go2lean .)
(cd translators/sharedstate && go build -o ../../bin/sharedstate .)   # C15: shared-state inventory (needs golang.org/x/tools v0.29.0 from the module cache)
cp /repo/go.sum harness/go.sum
(cd harness && go build -tags verif -o ../bin/fitharness .)
# regenerate the data parts of the model from /repo, then build model, theorems and driver
python3 - <<'PY'
import sys, os
sys.path.insert(0, 'checklib')
import framework as F
from props import REGEN_EXTRA
F.REGEN.update(REGEN_EXTRA)
ctx = F.Ctx('setup', 'quick', 1)
ok = True
from props import REGEN_EXTRA          # translators registered by the per-property configuration files
F.REGEN.update(REGEN_EXTRA)
import gen_registry
gen_registry.main()                    # registry files of the lake project (git-ignored)
for name, f in F.REGEN.items():
    ok = f(ctx) and ok
sys.exit(0 if ok else 1)
PY
python3 checklib/gen_registry.py
(cd lean && lake build)
echo setup-ok
