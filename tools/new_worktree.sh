#!/bin/sh
# tools/new_worktree.sh <name>: a git worktree of /verif on branch wt-<name> under /tmp/vwt/<name>, with the build
# output of /verif (lean/.lake, bin, generated model parts) copied so that the first ./check there is incremental
set -e
n=$1
d=/tmp/vwt/$n
mkdir -p /tmp/vwt
git -C /verif worktree add -b wt-$n $d HEAD
cp -r /verif/lean/.lake $d/lean/.lake
mkdir -p $d/lean/FitModel/Generated && cp -r /verif/lean/FitModel/Generated/. $d/lean/FitModel/Generated/
for f in FitModel.lean FitProps.lean Driver.lean Driver/Dispatch.lean; do [ -f /verif/lean/$f ] && cp /verif/lean/$f $d/lean/$f; done
cp -r /verif/bin $d/bin
cp /verif/harness/go.sum $d/harness/go.sum 2>/dev/null || true
mkdir -p $d/work $d/evidence/replays
echo $d
