#!/usr/bin/env python3
"""regenerate the three tables of DESIGN.md §7 in place (status, findings, seeded changes)"""
import os, re, subprocess
ROOT = os.path.dirname(os.path.dirname(os.path.abspath(__file__)))
p = os.path.join(ROOT, 'DESIGN.md'); s = open(p).read()
def tab(tool): return subprocess.run(['python3', os.path.join(ROOT, 'tools', tool)], stdout=subprocess.PIPE, text=True).stdout
for head, tool in (('| id | property | level |', 'status_table.py'), ('| property | finding | status |', 'findings_table.py'), ('| id | files changed | confirmed', 'seeded_table.py')):
    i = s.index(head); j = i
    while j < len(s) and s[j] == '|':
        j = s.index('\n', j) + 1
    s = s[:i] + tab(tool) + s[j:]
open(p, 'w').write(s)
