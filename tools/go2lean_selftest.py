#!/usr/bin/env python3
"""Self-test of the Go→Lean tie: apply small edits to a scratch worktree of /repo and run a check against it.

  tools/go2lean_selftest.py <cases.json> [name-prefix]

cases.json: list of {"name":…, "check":"C18", "file":"kit/hash/crc16/crc16.go", "old":…, "new":…, "count":1, "expect":"red"|"green"}
(old → new is a literal replacement of the `count`-th occurrence, 1-based; 0 = all occurrences).
Prints one line per case: name, expectation, exit status, the FAIL kinds, whether the proof stage failed, the VIOLATION line.
Nothing is ever applied to /repo itself; the scratch worktree is removed at the end.
"""
import json, os, subprocess, sys, re, shutil
ROOT = os.path.dirname(os.path.dirname(os.path.abspath(__file__)))
WT = os.environ.get('GO2LEAN_SELFTEST_WT', '/tmp/go2lean-scratch-' + os.path.basename(ROOT))   # one scratch worktree of /repo per framework worktree

def sh(cmd, **kw):
    p = subprocess.run(cmd, stdout=subprocess.PIPE, stderr=subprocess.STDOUT, text=True, **kw)
    return p.returncode, p.stdout

def main():
    cases = json.load(open(sys.argv[1]))
    pref = sys.argv[2] if len(sys.argv) > 2 else ''
    sh(['git', '-C', '/repo', 'worktree', 'remove', '--force', WT]); shutil.rmtree(WT, ignore_errors=True)
    rc, out = sh(['git', '-C', '/repo', 'worktree', 'add', '--detach', WT, os.environ.get('GO2LEAN_SELFTEST_BASE', 'HEAD')])
    if rc: sys.exit(out)
    env = dict(os.environ, VERIF_REPO=WT, GOFLAGS='-mod=mod', GOPROXY='off', GOSUMDB='off', GOTOOLCHAIN='local')
    results = []
    try:
        for c in cases:
            if not c['name'].startswith(pref):
                continue
            edits = c.get('edits') or [c]
            ok = True
            for e in edits:
                path = os.path.join(WT, e['file'])
                src = open(path).read()
                n = e.get('count', 1)
                if e['old'] not in src:
                    ok = False; break
                if n == 0:
                    src = src.replace(e['old'], e['new'])
                else:
                    idx = -1
                    for _ in range(n):
                        idx = src.find(e['old'], idx + 1)
                    if idx < 0:
                        ok = False; break
                    src = src[:idx] + e['new'] + src[idx + len(e['old']):]
                open(path, 'w').write(src)
            if not ok:
                print(f"{c['name']}: EDIT DOES NOT APPLY"); sh(['git', '-C', WT, 'checkout', '.']); continue
            rcb, outb = sh(['go', 'build', './...'], cwd=WT, env=env)
            rc, out = sh([os.path.join(ROOT, 'check'), c['check']], cwd=ROOT, env=env)
            fails = re.findall(r'FAIL\[(\w+)\] ([^\n]{0,200})', out)
            viol = re.findall(r'^VIOLATION.*$', out, re.M)
            diff = re.findall(r'go2lean: ([^\n]{0,160})', out)
            kinds = sorted(set(k for k, _ in fails))
            proof = [w for k, w in fails if k == 'proof']
            verdict = 'red' if rc != 0 else 'green'
            r = dict(name=c['name'], expect=c['expect'], got=verdict, compiles=rcb == 0, kinds=kinds,
                     proof=proof[:1], tool=[w for k, w in fails if k == 'tool'][:1], violation=viol[:1], go2lean=diff[:2])
            results.append(r)
            flag = 'OK ' if verdict == c['expect'] and (c['expect'] == 'green' or 'proof' in kinds or c.get('stage') == 'tool' and 'tool' in kinds) else 'BAD'
            print(f"{flag} {c['name']}: expect {c['expect']} got {verdict} kinds={kinds} compiles={rcb == 0}")
            for w in (proof[:1] + r['tool'] + diff[:2] + viol[:1]):
                print('      ' + w[:220])
            sys.stdout.flush()
            sh(['git', '-C', WT, 'checkout', '.'])
    finally:
        sh(['git', '-C', '/repo', 'worktree', 'remove', '--force', WT]); shutil.rmtree(WT, ignore_errors=True)
        # leave the generated files as they are for /repo
        rc, units = sh([os.path.join(ROOT, 'bin', 'go2lean'), '-list'])
        sh([os.path.join(ROOT, 'bin', 'go2lean'), '/repo', os.path.join(ROOT, 'lean', 'FitModel', 'Generated')] + [l.split()[0] for l in units.split('\n') if l.strip()])
    json.dump(results, open(os.path.join(ROOT, 'work', 'go2lean-selftest-' + (pref or 'all') + '.json'), 'w'), indent=1)

if __name__ == '__main__':
    main()
