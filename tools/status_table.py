#!/usr/bin/env python3
"""print the per-property status table from checklib/props (what is claimed, theorem count, families)"""
import json, os, sys
ROOT = os.path.dirname(os.path.dirname(os.path.abspath(__file__)))
sys.path.insert(0, os.path.join(ROOT, 'checklib'))
from props import PROPS
kf = {}
for l in open(os.path.join(ROOT, 'known_findings.jsonl')):
    if l.strip() and not l.startswith('#'):
        d = json.loads(l); kf.setdefault(d['property'], []).append(f"{d['id']} ({d['status']})")
titles = {json.loads(l)['id']: json.loads(l)['title'] for l in open(os.path.join(ROOT, 'properties.jsonl'))}
print('| id | property | level | property theorems (audited each run) | correspondence families | findings |')
print('|---|---|---|---|---|---|')
for pid in sorted(titles):
    if pid in PROPS:
        p = PROPS[pid]
        ev = {}
        try: ev = json.load(open(os.path.join(ROOT, 'evidence', pid + '.json')))
        except Exception: pass
        c = ev.get('coverage', {})
        fams = ', '.join(f['name'] + ('+spec' if f.get('spec') else '') + ('+prop' if f.get('prop') else '') for f in p.get('families', []))
        print(f"| {pid} | {titles[pid]} | {p.get('level','proof')} | {len(p.get('theorems', []))} (last run: {c.get('discharged','?')}/{c.get('obligations','?')}) | {fams} ({c.get('evaluations','?')} ops last quick run) | {', '.join(kf.get(pid, [])) or '—'} |")
    else:
        print(f"| {pid} | {titles[pid]} | not claimed yet | | | |")
