#!/bin/sh
# merge a builder branch into main: registries are generated, evidence is rewritten by the checks,
# known_findings.jsonl is the union of both sides
set -e
cd /verif
b=$1
if ! git diff --quiet || ! git diff --cached --quiet; then echo "working tree dirty: commit first"; exit 1; fi
git merge --no-commit --no-ff "$b" >/tmp/merge.out 2>&1 || true
cat /tmp/merge.out | grep -i conflict || true
for f in $(git diff --name-only --diff-filter=U); do
  case "$f" in
    MANIFEST.json) git checkout --ours -- "$f"; git add "$f" ;;
    evidence/*) git checkout --ours -- "$f"; git add "$f" ;;
    seeded/*/meta.json) git checkout --theirs -- "$f"; git add "$f" ;;
    known_findings.jsonl)
      git show :2:known_findings.jsonl > /tmp/kf_ours; git show :3:known_findings.jsonl > /tmp/kf_theirs
      python3 - <<'PY'
import json
out=[]; pos={}
for p in ('/tmp/kf_ours','/tmp/kf_theirs'):
    for l in open(p):
        l=l.rstrip('\n')
        if not l.strip(): continue
        key=l; st=None
        if not l.startswith('#'):
            try:
                d=json.loads(l); key=d['id']; st=d.get('status')
            except Exception: pass
        if key in pos:
            # same finding on both sides: a 'fixed' entry wins over an 'open' one
            if st=='fixed' and '"status": "fixed"' not in out[pos[key]] and '"status":"fixed"' not in out[pos[key]]:
                out[pos[key]]=l
            continue
        pos[key]=len(out); out.append(l)
open('/verif/known_findings.jsonl','w').write('\n'.join(out)+'\n')
PY
      git add known_findings.jsonl
      ;;
    *) echo "UNRESOLVED: $f" ;;
  esac
done
git status --short | grep '^UU\|^AA' || true
if git diff --name-only --diff-filter=U | grep -q .; then echo "UNRESOLVED conflicts remain: resolve by hand before committing"; exit 1; fi
