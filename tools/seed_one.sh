#!/bin/bash
# usage: value-seed.sh <name> <file> <python-replace-old> <python-replace-new> <checks...>
export GOFLAGS=-mod=mod GOPROXY=off GOSUMDB=off GOTOOLCHAIN=local
name=$1; file=$2; old=$3; new=$4; shift 4
rm -rf /tmp/value-seed; git -C /repo worktree add /tmp/value-seed HEAD >/dev/null 2>&1 || exit 1
python3 - "$file" "$old" "$new" <<'PY'
import sys
p='/tmp/value-seed/'+sys.argv[1]; s=open(p).read()
assert s.count(sys.argv[2])>=1, 'pattern not found'
s=s.replace(sys.argv[2], sys.argv[3],1); open(p,'w').write(s)
PY
[ $? -eq 0 ] || { git -C /repo worktree remove --force /tmp/value-seed; exit 1; }
(cd /tmp/value-seed && go build ./... && go build -tags verif ./... ) || { echo "DOES NOT COMPILE"; git -C /repo worktree remove --force /tmp/value-seed; exit 1; }
for c in "$@"; do
  echo "== $name vs $c"
  (cd $(cd "$(dirname "$0")/.." && pwd) && VERIF_REPO=/tmp/value-seed ./check $c 2>&1 | grep -v "^KNOWN" | grep "FAIL\|VIOLATION\|done in\|proof:" | cut -c1-260)
  python3 - $c <<'PY'
import json,sys
try:
    d=json.load(open(f'$(cd "$(dirname "$0")/.." && pwd)/work/evidence-scratch/replays/{sys.argv[1]}-0.json'))
    print('   replay:', {k:str(d.get(k))[:300] for k in ('kind','what','op','impl','model','demanded')})
except Exception as e: print('   no replay', e)
PY
  rm -f $(cd "$(dirname "$0")/.." && pwd)/work/evidence-scratch/replays/$c-0.json
done
git -C /repo worktree remove --force /tmp/value-seed
