#!/usr/bin/env python3
"""Seeded-change self test for C13 / C17 / the C14<->C13 content link: applies ONE edit at a time to a scratch worktree of /repo, confirms that the
repository still compiles, runs `VERIF_REPO=<scratch> ./check <prop>`, records what the check reported, restores the
scratch tree. Nothing is applied to /repo.   usage: selftest_typed.py C13|C17|C14 [ids…]   → markdown rows on stdout"""
import json, os, re, subprocess, sys, zipfile, shutil

ROOT = os.path.dirname(os.path.dirname(os.path.abspath(__file__)))
WT = '/tmp/typed-seed'
GOENV = dict(os.environ, GOFLAGS='-mod=mod', GOPROXY='off', GOSUMDB='off', GOTOOLCHAIN='local')

REC = 'profile/mesgdef/record_gen.go'
FAC = 'profile/factory/factory_gen.go'


def sub(path, old, new, count=1):
    def f():
        p = os.path.join(WT, path)
        s = open(p).read()
        assert s.count(old) >= 1, f'{path}: pattern not found: {old[:60]}'
        open(p, 'w').write(s.replace(old, new, count))
    return f


def xlsx_cell(old_v, new_v, near):
    """change one <v> of sheet2.xml (Messages) following the cell reference `near`"""
    def f():
        p = os.path.join(WT, 'internal/cmd/fitgen/Profile.xlsx')
        zin = zipfile.ZipFile(p)
        items = [(i, zin.read(i.filename)) for i in zin.infolist()]
        zin.close()
        out = zipfile.ZipFile(p, 'w', zipfile.ZIP_DEFLATED)
        done = False
        for i, data in items:
            if i.filename == 'xl/worksheets/sheet2.xml':
                s = data.decode('utf-8')
                pat = f'<x:c r="{near}"'
                k = s.index(pat)
                j = s.index('<x:v>', k)
                e = s.index('</x:v>', j)
                assert s[j + 5:e] == old_v, (s[j + 5:e], old_v)
                s = s[:j + 5] + new_v + s[e:]
                data = s.encode('utf-8')
                done = True
            out.writestr(i, data)
        out.close()
        assert done
    return f


def add_file(path, content):
    def f():
        open(os.path.join(WT, path), 'w').write(content)
    return f


MUT = {
    'C13': [
        ('T1', 'DESIGN §6: one `vals[k]` index edited (record.Altitude read from vals[22])', sub(REC, 'Altitude:     vals[2].Uint16(),', 'Altitude:     vals[22].Uint16(),')),
        ('T2', 'DESIGN §6: one invalid sentinel edited (hrm_profile.HrmAntId compared with Uint16Invalid instead of Uint16zInvalid)',
         sub('profile/mesgdef/hrm_profile_gen.go', 'if m.HrmAntId != basetype.Uint16zInvalid {', 'if m.HrmAntId != basetype.Uint16Invalid {')),
        ('T3', 'guard loosened (`Num > 254`): a named field 254 indexes vals[254] out of range', sub(REC, 'mesg.Fields[i].Num > 253 ||', 'mesg.Fields[i].Num > 254 ||')),
        ('T4', 'one fill element of a fixed array edited (record.CompressedSpeedDistance pre-filled with 0 at [0])',
         sub(REC, 'arr = [3]uint8{\n\t\t\t\tbasetype.ByteInvalid,', 'arr = [3]uint8{\n\t\t\t\t0,')),
        ('T5', 'expanded bitmap bound lowered (`Num < 10`): marks of enhanced_speed (73) … are lost', sub(REC, 'mesg.Fields[i].Num < 109 &&', 'mesg.Fields[i].Num < 10 &&')),
        ('T6', 'ToMesg emits heart_rate under number 4', sub(REC, 'field := fac.CreateField(mesg.Num, 3)', 'field := fac.CreateField(mesg.Num, 4)')),
        ('T7', 'ToMesg forgets the unknown fields', sub(REC, 'fields = append(fields, m.UnknownFields[i])', '_ = m.UnknownFields[i]')),
        ('T8', 'Reset forgets the developer fields', sub(REC, 'developerFields = mesg.DeveloperFields', 'developerFields = nil')),
        ('T9', 'accessor with the wrong mismatch default (record.HeartRate read with Uint8z: a value of another type reads as 0)', sub(REC, 'HeartRate:    vals[3].Uint8(),', 'HeartRate:    vals[3].Uint8z(),')),
        ('T10', 'last-wins broken: Reset keeps the FIRST occurrence of a number',
         sub(REC, 'vals[mesg.Fields[i].Num] = mesg.Fields[i].Value', 'if vals[mesg.Fields[i].Num].Type() == proto.TypeInvalid {\n\t\t\t\tvals[mesg.Fields[i].Num] = mesg.Fields[i].Value\n\t\t\t}')),
        ('T11', 'expanded flag not copied to the emitted field (record.distance)',
         sub(REC, 'field.Value = proto.Uint32(m.Distance)\n\t\t\tfield.IsExpandedField = expanded', 'field.Value = proto.Uint32(m.Distance)')),
        ('T12', 'time conversion off by one second in ToMesg (record.Timestamp)',
         sub(REC, 'proto.Uint32(uint32(m.Timestamp.Sub(datetime.Epoch()).Seconds()))', 'proto.Uint32(uint32(m.Timestamp.Sub(datetime.Epoch()).Seconds()) + 1)')),
        ('T13', 'a slice field treated as invalid when empty (record.Speed1S `len != 0`)', sub(REC, 'if m.Speed1S != nil {', 'if len(m.Speed1S) != 0 {')),
        ('T14', 'shared template bug seeded in ONE other file: lap.TotalElapsedTime sentinel', sub('profile/mesgdef/lap_gen.go', 'if m.TotalElapsedTime != basetype.Uint32Invalid {', 'if m.TotalElapsedTime != 0 {')),
    ],
    'C14': [
        ('L1', 'activity.ToFIT converts the records with default options instead of the given ones (`f.Records[i].ToMesg(nil)`)',
         sub('profile/filedef/activity.go', 'f.Records[i].ToMesg(options)', 'f.Records[i].ToMesg(nil)')),
        ('L2', 'activity.Add drops the developer fields of unrelated messages (`mesg.DeveloperFields = nil` in the default branch)',
         sub('profile/filedef/activity.go', '\t\tmesg.Fields = sliceutil.Clone(mesg.Fields)\n', '\t\tmesg.Fields = sliceutil.Clone(mesg.Fields)\n\t\tmesg.DeveloperFields = nil\n')),
        ('L3', 'course.Add keeps the caller\'s Fields slice of an unrelated message (no clone)',
         sub('profile/filedef/course.go', 'mesg.Fields = sliceutil.Clone(mesg.Fields)', '_ = sliceutil.Clone(mesg.Fields)')),
        ('L4', 'index slip in activity.ToFIT: every lap is emitted as the first one (`f.Laps[0].ToMesg(options)`)',
         sub('profile/filedef/activity.go', 'for i := range f.Laps {\n\t\tfit.Messages = append(fit.Messages, f.Laps[i].ToMesg(options))', 'for range f.Laps {\n\t\tfit.Messages = append(fit.Messages, f.Laps[0].ToMesg(options))')),
        ('L5', 'settings.ToFIT strips the unknown fields of user_profile messages',
         sub('profile/filedef/settings.go', 'fit.Messages = append(fit.Messages, f.UserProfiles[i].ToMesg(options))',
             'um := f.UserProfiles[i].ToMesg(options)\n\t\tfor k := range um.Fields {\n\t\t\tif um.Fields[k].Name == "unknown" {\n\t\t\t\tum.Fields = um.Fields[:k]\n\t\t\t\tbreak\n\t\t\t}\n\t\t}\n\t\tfit.Messages = append(fit.Messages, um)')),
        ('L6', 'weight.Add stores weight_scale messages unconverted as unrelated ones (case removed: no normalisation, emitted last)',
         sub('profile/filedef/weight.go', '\tcase mesgnum.WeightScale:\n\t\tf.WeightScales = append(f.WeightScales, mesgdef.NewWeightScale(&mesg))\n', '')),
    ],
    'C17': [
        ('G1', 'DESIGN §6: one scale edited in factory_gen.go (user_profile.height 100 → 10)',
         sub(FAC, '{Name: "height", Num: 3, Type: profile.Uint8, BaseType: basetype.Uint8, Scale: 100, Units: "m"}', '{Name: "height", Num: 3, Type: profile.Uint8, BaseType: basetype.Uint8, Scale: 10, Units: "m"}')),
        ('G2', 'DESIGN §6: one ref value edited (mesg_capabilities.count sub-field max_per_file: 1 → 3)',
         sub(FAC, '0: {RefFieldNum: 2 /* count_type */, RefFieldValue: 1 /* max_per_file */}', '0: {RefFieldNum: 2 /* count_type */, RefFieldValue: 3 /* max_per_file */}')),
        ('G3', 'DESIGN §6: one base type edited (record.distance uint32 → uint32z)',
         sub(FAC, '5: {Name: "distance", Num: 5, Type: profile.Uint32, BaseType: basetype.Uint32, Scale: 100, Accumulate: true, Units: "m"},', '5: {Name: "distance", Num: 5, Type: profile.Uint32, BaseType: basetype.Uint32z, Scale: 100, Accumulate: true, Units: "m"},')),
        ('G4', 'DESIGN §6: template changed without regeneration (mesgdef.tmpl: comment of ToMesg reworded)',
         sub('internal/cmd/fitgen/profile/mesgdef/mesgdef.tmpl', 'into proto.Message. If options is nil, default options will be used.', 'into proto.Message. A nil options means default options.')),
        ('G5', 'Profile.xlsx edited without regeneration (record.altitude scale cell 5 → 50)', 'xlsx'),
        ('G6', 'one component bit width changed (record.compressed_speed_distance: 12 → 13 bits)',
         sub(FAC, '0: {FieldNum: 6 /* speed */, Scale: 100, Bits: 12},', '0: {FieldNum: 6 /* speed */, Scale: 100, Bits: 13},')),
        ('G7', 'an accumulate flag flipped (record.distance)',
         sub(FAC, '5: {Name: "distance", Num: 5, Type: profile.Uint32, BaseType: basetype.Uint32, Scale: 100, Accumulate: true, Units: "m"},', '5: {Name: "distance", Num: 5, Type: profile.Uint32, BaseType: basetype.Uint32, Scale: 100, Units: "m"},')),
        ('G8', 'FromString of one constant returns another constant (typedef.Activity "manual")',
         sub('profile/typedef/activity_gen.go', 'case "manual":\n\t\treturn ActivityManual', 'case "manual":\n\t\treturn ActivityAutoMultiSport')),
        ('G9', 'version constant edited, doc comment not (version_gen.go 21158 → 21159)', sub('profile/version_gen.go', 'const Version uint16 = 21158', 'const Version uint16 = 21159')),
        ('G10', 'one typedef constant value edited (typedef.ActivityAutoMultiSport = 2)', sub('profile/typedef/activity_gen.go', 'ActivityAutoMultiSport Activity = 1', 'ActivityAutoMultiSport Activity = 2')),
        ('G11', 'a leftover generated file (profile/typedef/zzz_gen.go)', add_file('profile/typedef/zzz_gen.go', '// Code generated by internal/cmd/fitgen/main.go. DO NOT EDIT.\n\npackage typedef\n\ntype Zzz byte\n')),
        ('G12', 'a component redirected to a field of another number (record.compressed_speed_distance → field 66, not in record)',
         sub(FAC, '0: {FieldNum: 6 /* speed */, Scale: 100, Bits: 12},', '0: {FieldNum: 66 /* speed */, Scale: 100, Bits: 12},')),
        ('G13', 'one untyped constant edited (fieldnum.RecordHeartRate = 4)', sub('profile/untyped/fieldnum/fieldnum_gen.go', 'RecordHeartRate                                   = 3   //', 'RecordHeartRate                                   = 4   //')),
        ('G14', 'profile type mapped to another base type (profile_gen.go: profile.File → basetype.Uint8)', 'ptbase'),
        ('G16', 'a type constant renamed in String() only (typedef.Activity: "manual" → "Manual")',
         sub('profile/typedef/activity_gen.go', 'case ActivityManual:\n\t\treturn "manual"', 'case ActivityManual:\n\t\treturn "Manual"')),
        ('G17', 'version_gen.go: the doc comment names another version than the constant (v21.158 → v21.159 in the comment only)',
         sub('profile/version_gen.go', 'profile version, v21.158,', 'profile version, v21.159,')),
        ('G18', 'one untyped message number edited (mesgnum.SkinTempOvernight = 399)',
         sub('profile/untyped/mesgnum/mesgnum_gen.go', 'SkinTempOvernight           = 398', 'SkinTempOvernight           = 399')),
        ('G19', 'profile_gen.go: String() of one profile type renamed (profile.Sint8 → "int8"), FromString untouched',
         sub('profile/profile_gen.go', 'case Sint8:\n\t\treturn "sint8"', 'case Sint8:\n\t\treturn "int8"')),
        ('G20', 'typedef template changed without regeneration (shared/constant.tmpl: doc comment of FromString reworded)', 'tmpl-typedef'),
        ('G21', 'untyped constant template changed without regeneration (shared/untyped_constant.tmpl)', 'tmpl-untyped'),
        ('G22', 'factory template changed without regeneration (factory.tmpl)', 'tmpl-factory'),
        ('G23', 'profile template changed without regeneration (profile.tmpl)', 'tmpl-profile'),
        ('G15', 'units string of one field edited (record.heart_rate "bpm" → "BPM")',
         sub(FAC, '3: {Name: "heart_rate", Num: 3, Type: profile.Uint8, BaseType: basetype.Uint8, Scale: 1, Units: "bpm"},', '3: {Name: "heart_rate", Num: 3, Type: profile.Uint8, BaseType: basetype.Uint8, Scale: 1, Units: "BPM"},')),
    ],
}


def sh(cmd, cwd=None, env=None, timeout=3600):
    p = subprocess.run(cmd, cwd=cwd, env=env or GOENV, timeout=timeout, stdout=subprocess.PIPE, stderr=subprocess.STDOUT, text=True)
    return p.returncode, p.stdout


def reset():
    sh(['git', 'checkout', '-q', '.'], cwd=WT)
    sh(['git', 'clean', '-fdq'], cwd=WT)


def main(argv):
    prop = argv[0]
    want = set(argv[1:])
    if not os.path.isdir(WT):
        sh(['git', '-C', '/repo', 'worktree', 'add', '--detach', WT, 'HEAD'])
    for mid, what, edit in MUT[prop]:
        if want and mid not in want:
            continue
        reset()
        if edit == 'xlsx':
            # find the scale cell of record.altitude: row with Field Name altitude under message record
            edit = find_xlsx_edit()
        elif edit == 'ptbase':
            edit = find_ptbase_edit()
        elif isinstance(edit, str) and edit.startswith('tmpl-'):
            edit = tmpl_edit({'tmpl-typedef': 'internal/cmd/fitgen/shared/constant.tmpl',
                              'tmpl-untyped': 'internal/cmd/fitgen/shared/untyped_constant.tmpl',
                              'tmpl-factory': 'internal/cmd/fitgen/profile/factory/factory.tmpl',
                              'tmpl-profile': 'internal/cmd/fitgen/profile/profile.tmpl'}[edit])
        try:
            edit()
        except AssertionError as e:
            print(f'| {mid} | {what} | EDIT FAILED: {e} | |', flush=True)
            continue
        rc, out = sh(['go', 'build', './...'], cwd=WT)
        if rc != 0:
            print(f'| {mid} | {what} | does not compile: {out.strip().splitlines()[-1][:120]} | |', flush=True)
            continue
        rc, out = sh([os.path.join(ROOT, 'check'), prop], cwd=ROOT, env=dict(os.environ, VERIF_REPO=WT))
        kinds = re.findall(r'FAIL\[(\w+)\] ([^\n]*)', out)
        m = re.search(r'VIOLATION property=\S+ replay=(\S+)( no-failing-input-found)?', out)
        replay = ''
        if m:
            try:
                d = json.load(open(m.group(1)))
                replay = (d.get('op') or d.get('what') or '')[:160]
                if d.get('impl') and d.get('demanded') and len(d['impl']) < 200:
                    replay += f" → impl `{d['impl'][:120]}` demanded `{d['demanded'][:120]}`"
            except Exception as e:  # noqa
                replay = repr(e)
        t = re.search(r'done in ([\d.]+)s', out)
        caught = 'exit %d; ' % rc + '; '.join(f'{k}: {w[:150]}' for k, w in kinds)
        print(f"| {mid} | {what} | {caught} ({t.group(1) if t else '?'} s) | `{replay}` |", flush=True)
    reset()


def find_xlsx_edit():
    sys.path.insert(0, os.path.join(ROOT, 'translators'))
    import xlsx
    sheets = xlsx.read_workbook(os.path.join(WT, 'internal/cmd/fitgen/Profile.xlsx'))
    cur = None
    for idx, c in sheets['Messages'][1:]:
        if c.get('A'):
            cur = c['A']
        if cur == 'record' and c.get('C') == 'altitude':
            return xlsx_cell(c['G'], '50', f'G{idx}')
    raise AssertionError('record.altitude not found')


def tmpl_edit(path):
    """reword the first Go comment line of a template that ends up in the generated code (a line starting with `// ` that
    is not the licence header and not inside a template action)"""
    def f():
        p = os.path.join(WT, path)
        lines = open(p).read().split('\n')
        for i, l in enumerate(lines):
            t = l.strip()
            if re.match(r'// (FromString parse|[A-Z][A-Za-z]+ (handles|creates|returns|is|occurs|converts|registers)) ', t):
                lines[i] = l + ' (reworded)'
                open(p, 'w').write('\n'.join(lines))
                return
        raise AssertionError(f'{path}: no comment line found')
    return f


def find_ptbase_edit():
    p = os.path.join(WT, 'profile/profile_gen.go')
    s = open(p).read()
    m = re.search(r'(\tcase File:\n\t\treturn )basetype\.Enum', s)
    assert m, 'case File: return basetype.Enum not found in profile_gen.go'
    return sub('profile/profile_gen.go', m.group(0), m.group(1) + 'basetype.Uint8')


if __name__ == '__main__':
    main(sys.argv[1:])
