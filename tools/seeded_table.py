#!/usr/bin/env python3
"""print the table of seeded changes (seeded/*/meta.json): which check caught which change"""
import json, glob, os
rows = []
for p in sorted(glob.glob(os.path.join(os.path.dirname(os.path.dirname(os.path.abspath(__file__))), 'seeded', '*', 'meta.json'))):
    m = json.load(open(p))
    files = ', '.join(x.split('|')[0].strip() for x in m.get('files_changed', [])[:-1])
    res = []
    for c, r in sorted(m.get('checks', {}).items()):
        res.append(f"{c}: {'caught' if r['exit'] == 1 and r['violation'] else 'missed'} ({r['tier']}, {r['wall_s']} s)")
    note = m.get('history', '')
    rows.append(f"| {m['id']} | {files} | {'yes' if m.get('confirmed') else 'NO'} | {'; '.join(res)} | {note} |")
print('| id | files changed | confirmed (suite green, demo fails only with it) | checks run against it (last result each) | history |')
print('|---|---|---|---|---|')
print('\n'.join(rows))
