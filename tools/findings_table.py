#!/usr/bin/env python3
"""print the table of findings (known_findings.jsonl): open ones and those repaired by a fix: commit in /repo"""
import json, os
ROOT = os.path.dirname(os.path.dirname(os.path.abspath(__file__)))
rows = []
for l in open(os.path.join(ROOT, 'known_findings.jsonl')):
    if not l.strip() or l.startswith('#'):
        continue
    d = json.loads(l)
    what = d['what'].replace('|', '\\|')
    if len(what) > 260:
        what = what[:257] + '…'
    rows.append((d['property'], d['id'], d['status'], d.get('commit', ''), what))
rows.sort()
print('| property | finding | status | fix commit in /repo | what fails |')
print('|---|---|---|---|---|')
for r in rows:
    print('| ' + ' | '.join(r) + ' |')
