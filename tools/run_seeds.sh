#!/bin/sh
# tools/run_seeds.sh <worktree-name> <seed-id>[:check,check…] …   run stored seeded changes against the checks in the /verif
# worktree /tmp/vwt/<name> (so /verif itself stays free); the outcome is written back to /verif/seeded/<id>/meta.json
wt=/tmp/vwt/$1; shift
for a in "$@"; do
  id=${a%%:*}; cs=""; case "$a" in *:*) cs=$(echo "${a#*:}" | tr ',' ' ');; esac
  rm -rf $wt/seeded/$id; cp -r /verif/seeded/$id $wt/seeded/$id
  (cd $wt && python3 checklib/seedtool.py run $id $cs 2>&1 | grep " vs ")
  cp $wt/seeded/$id/meta.json /verif/seeded/$id/meta.json
done
