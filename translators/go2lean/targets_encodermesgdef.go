package main

// encoder/encoder.go newMessageDefinition: the statements that set the fixed part of the message definition (header =
// MesgDefinitionMask, reserved, architecture = the encoder's byte order, global message number; the developer-data flag).
// The loops that fill the field definitions call proto.Value.Size() — outside the subset.
func init() {
	units = append(units, Unit{Name: "encodermesgdef", Dir: "encoder", Items: []Item{
		{Kind: "block", Name: "newMessageDefinition_fixed", Func: "Encoder.newMessageDefinition", Anchor: "e.mesgDef.Header", Occur: 1},
		{Kind: "block", Name: "newMessageDefinition_devHeader", Func: "Encoder.newMessageDefinition", Anchor: "e.mesgDef.Header", Occur: 2},
	}})
}
