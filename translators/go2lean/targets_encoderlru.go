package main

// encoder/lru.go: the LRU of local message definitions (C01's Fit.Wire.Lru). Further units live in files of their own
// (targets_<unit>.go), each appending to `units` from an init function, so that independent work never edits one list.
func init() {
	units = append(units, Unit{Name: "encoderlru", Dir: "encoder", Items: []Item{}})
}
