package main

// encoder/lru.go: the LRU of local message definitions (C01's Fit.Wire.Lru). Further units live in files of their own
// (targets_<unit>.go), each appending to `units` from an init function, so that independent work never edits one list.
func init() {
	units = append(units, Unit{Name: "encoderlru", Dir: "encoder", Items: []Item{
		{Kind: "func", Name: "lru.bucketIndex"},
		{Kind: "func", Name: "lru.markAsRecentlyUsed"},
		{Kind: "func", Name: "lru.store"},
		{Kind: "func", Name: "lru.replaceLeastRecentlyUsed"},
		{Kind: "func", Name: "lru.Put"},
		{Kind: "func", Name: "lru.Reset"},
		{Kind: "func", Name: "lru.ResetWithNewSize"},
		{Kind: "func", Name: "lru.Reset"},
		{Kind: "func", Name: "lru.ResetWithNewSize"},
		{Kind: "methodset", Name: "lru", Methods: "bucketIndex markAsRecentlyUsed store replaceLeastRecentlyUsed Put Reset ResetWithNewSize"},
	}})
}
