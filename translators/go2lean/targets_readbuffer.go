package main

// decoder/readbuffer.go: the index arithmetic of readBuffer.ReadN and readBuffer.Reset (C08's Fit.ReadBuffer.RB). The
// io.Reader call, `copy`, `make` and `cap` are outside the subset: the blocks are the runs around them, the `arg` / `slice`
// items are the integer expressions handed to them (see item_expr.go). Agreement: lean/FitProps/Go2LeanReadBuffer.lean.
func init() {
	const rn, rs = "readBuffer.ReadN", "readBuffer.Reset"
	units = append(units, Unit{Name: "readbuffer", Dir: "decoder", Items: []Item{
		{Kind: "const", Name: "reservedbuf"},
		{Kind: "const", Name: "minReadBufferSize"},
		{Kind: "const", Name: "maxReadBufferSize"},
		{Kind: "const", Name: "defaultReadBufferSize"},
		// remaining := b.last - b.cur
		{Kind: "block", Name: "ReadN_remaining", Func: rn, Anchor: "remaining", Solo: true},
		// if n > remaining { fill }
		{Kind: "cond", Name: "ReadN_needFill", Func: rn, Anchor: "remaining", Occur: 1}, // 1st condition mentioning remaining
		// cur := reservedbuf
		{Kind: "block", Name: "ReadN_curInit", Func: rn, Anchor: "cur", Occur: 1, Solo: true},
		// if remaining != 0 { move the unread tail }
		{Kind: "cond", Name: "ReadN_hasTail", Func: rn, Anchor: "remaining", Occur: 2}, // 2nd condition mentioning remaining
		// cur = reservedbuf - remaining
		{Kind: "block", Name: "ReadN_curTail", Func: rn, Anchor: "cur", Occur: 2, Solo: true},
		// copy(b.buf[cur:], b.buf[b.last-remaining:])
		{Kind: "slice", Name: "ReadN_copyDst", Func: rn, Anchor: "b.buf", Occur: 1, Part: "lo"},
		{Kind: "slice", Name: "ReadN_copySrc", Func: rn, Anchor: "b.buf", Occur: 2, Part: "lo"},
		// io.ReadAtLeast(b.r, b.buf[reservedbuf:], n-remaining)
		{Kind: "slice", Name: "ReadN_fillLo", Func: rn, Anchor: "b.buf", Occur: 3, Part: "lo"},
		{Kind: "arg", Name: "ReadN_fillMin", Func: rn, Anchor: "io.ReadAtLeast", Arg: 2},
		// b.cur = cur; b.last = reservedbuf + nr
		{Kind: "block", Name: "ReadN_refill", Func: rn, Anchor: "b.last"},
		// buf := b.buf[b.cur : b.cur+n]; b.cur += n; return buf, nil
		{Kind: "slice", Name: "ReadN_winLo", Func: rn, Anchor: "b.buf", Occur: 4, Part: "lo:"},
		{Kind: "slice", Name: "ReadN_winHi", Func: rn, Anchor: "b.buf", Occur: 4, Part: ":hi"},
		{Kind: "block", Name: "ReadN_window", Func: rn, Anchor: "b.cur", Occur: 1, Solo: true},
		// Reset: the clamp of size, the grow decision, the allocated and the re-sliced length
		{Kind: "block", Name: "Reset_clamp", Func: rs, Anchor: "size", Occur: 1, Up: 1, Solo: true},
		{Kind: "cond", Name: "Reset_grow", Func: rs, Anchor: "size > ", Occur: 2},
		{Kind: "arg", Name: "Reset_allocLen", Func: rs, Anchor: "make", Arg: 1},
		{Kind: "slice", Name: "Reset_len", Func: rs, Anchor: "b.buf", Part: "hi"},
		{Kind: "methodset", Name: "readBuffer", Methods: "Reset ReadN"},
	}})
	// a unit of its own, so that a change of Reset that loses this anchor does not take the other items' theorems with it:
	// oldsize := cap(b.buf) - reservedbuf (the hidden tail of b.buf — what lies between len and cap — is a parameter)
	units = append(units, Unit{Name: "readbuffercap", Dir: "decoder", Items: []Item{
		{Kind: "block", Name: "Reset_oldsize", Func: rs, Anchor: "oldsize", Solo: true},
	}})
}
