package main

// proto/proto_marshal.go: the bytes of a message definition record (C01's Fit.Wire.defBytes / defRecord), the header byte
// a data record starts with; proto/proto.go NewMessageDefinition: the developer-data flag of the header and the
// truncation of a value's size to a byte; proto/value*.go: the clamping of typedef.Bool (anything above 1 is invalid, 255).
func init() {
	units = append(units, Unit{Name: "protomarshal", Dir: "proto", Items: []Item{
		{Kind: "const", Name: "MesgDefinitionMask"},
		{Kind: "const", Name: "DevDataMask"},
		{Kind: "const", Name: "LittleEndian"},
		{Kind: "const", Name: "BigEndian"},
		{Kind: "func", Name: "MessageDefinition.MarshalAppend"},
		// b = append(b, m.Header): the first byte of a data record
		{Kind: "block", Name: "Message_MarshalAppend_header", Func: "Message.MarshalAppend", Anchor: "b", Occur: 1},
		// mesgDef.Header |= DevDataMask (the definition of a message with developer fields)
		{Kind: "block", Name: "NewMessageDefinition_devHeader", Func: "NewMessageDefinition", Anchor: "mesgDef.Header"},
		// num := uint64(v); if v > 1 { num = uint64(typedef.BoolInvalid) }
		{Kind: "block", Name: "Bool_clamp", Func: "Bool", Anchor: "num", Occur: 1},
		// Value.MarshalAppend, case TypeBool: if val > 1 { b = append(b, 255) } else { b = append(b, byte(val)) }
		{Kind: "block", Name: "Value_MarshalAppend_bool", Func: "Value.MarshalAppend", Anchor: "b", Occur: 1, Up: 1},
		// Value.MarshalAppend, the fixed-width scalar cases: if arch == LittleEndian { b = binary.LittleEndian.AppendUintN(b, uintN(v.num)) }
		// else { b = binary.BigEndian.AppendUintN(…) }; return b, nil   (the n-th assignment to b of the function, one list up)
		{Kind: "block", Name: "Value_MarshalAppend_int16", Func: "Value.MarshalAppend", Anchor: "b", Occur: 3, Up: 1},
		{Kind: "block", Name: "Value_MarshalAppend_uint16", Func: "Value.MarshalAppend", Anchor: "b", Occur: 5, Up: 1},
		{Kind: "block", Name: "Value_MarshalAppend_int32", Func: "Value.MarshalAppend", Anchor: "b", Occur: 7, Up: 1},
		{Kind: "block", Name: "Value_MarshalAppend_uint32", Func: "Value.MarshalAppend", Anchor: "b", Occur: 9, Up: 1},
		{Kind: "block", Name: "Value_MarshalAppend_int64", Func: "Value.MarshalAppend", Anchor: "b", Occur: 11, Up: 1},
		{Kind: "block", Name: "Value_MarshalAppend_uint64", Func: "Value.MarshalAppend", Anchor: "b", Occur: 13, Up: 1},
		{Kind: "block", Name: "Value_MarshalAppend_float32", Func: "Value.MarshalAppend", Anchor: "b", Occur: 15, Up: 1},
		{Kind: "block", Name: "Value_MarshalAppend_float64", Func: "Value.MarshalAppend", Anchor: "b", Occur: 17, Up: 1},
		// case TypeSliceBool: for i := range vals { if vals[i] > 1 { b = append(b, 255) } else { b = append(b, byte(vals[i])) } }; return b, nil
		{Kind: "block", Name: "Value_MarshalAppend_sliceBool", Func: "Value.MarshalAppend", Anchor: "b", Occur: 21, Up: 2},
		// the unsigned fixed-width array cases: if arch == LittleEndian { for i := range vals { b = binary.LittleEndian.AppendUintN(b, vals[i]) } }
		// else { …BigEndian… }; return b, nil   (two lists up from the assignment inside the first loop)
		{Kind: "block", Name: "Value_MarshalAppend_sliceUint16", Func: "Value.MarshalAppend", Anchor: "b", Occur: 26, Up: 2},
		{Kind: "block", Name: "Value_MarshalAppend_sliceUint32", Func: "Value.MarshalAppend", Anchor: "b", Occur: 30, Up: 2},
		{Kind: "block", Name: "Value_MarshalAppend_sliceUint64", Func: "Value.MarshalAppend", Anchor: "b", Occur: 34, Up: 2},
		// UnmarshalValue, a typedef.Bool array: v := typedef.Bool(b[i]); if v > 1 { v = typedef.BoolInvalid }; vals = append(vals, v)
		{Kind: "block", Name: "UnmarshalValue_boolElem", Func: "UnmarshalValue", Anchor: "v", Occur: 2, Up: 1},
	}})
}
