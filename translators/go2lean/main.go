// go2lean: translates the CURRENT bodies of selected functions of /repo (a small, well-defined subset of Go:
// see notes/go2lean.md) into Lean 4 definitions, on every run of a check. The output
// (lean/FitModel/Generated/Go_<unit>.lean) is what the agreement theorems FitProps/Cxx Go2Lean*.lean are about.
//
//	go2lean <repo> <outdir> <unit>...        (units: see targets.go; `go2lean -list` prints them)
//
// Anything outside the subset makes the translation of that unit FAIL LOUDLY: exit status 1, the construct and
// its position on stderr, and the unit's output file replaced by a stub that does not compile (never a stale or
// guessed definition).
package main

import (
	"bytes"
	"fmt"
	"go/ast"
	"go/build"
	"go/importer"
	"go/parser"
	"go/token"
	"go/types"
	"os"
	"path/filepath"
	"strings"
)

// ---------------------------------------------------------------- loading and type checking (go/types)

type pkgInfo struct {
	path  string
	dir   string
	pkg   *types.Package
	files []*ast.File
	info  *types.Info
}

type loader struct {
	repo    string
	modPath string
	fset    *token.FileSet
	std     types.Importer
	pkgs    map[string]*pkgInfo
	loading map[string]bool
}

func newLoader(repo string) (*loader, error) {
	gm, err := os.ReadFile(filepath.Join(repo, "go.mod"))
	if err != nil {
		return nil, err
	}
	mod := ""
	for _, l := range strings.Split(string(gm), "\n") {
		l = strings.TrimSpace(l)
		if strings.HasPrefix(l, "module ") {
			mod = strings.TrimSpace(strings.TrimPrefix(l, "module "))
		}
	}
	if mod == "" {
		return nil, fmt.Errorf("no module line in %s/go.mod", repo)
	}
	fset := token.NewFileSet()
	return &loader{repo: repo, modPath: mod, fset: fset, std: importer.ForCompiler(fset, "source", nil),
		pkgs: map[string]*pkgInfo{}, loading: map[string]bool{}}, nil
}

// Import implements types.Importer: packages of the repository's module are parsed from the working tree
// (default build tags: `verif` hook files are excluded), everything else comes from GOROOT sources.
func (l *loader) Import(path string) (*types.Package, error) {
	if path == l.modPath || strings.HasPrefix(path, l.modPath+"/") {
		p, err := l.load(path, false)
		if err != nil {
			return nil, err
		}
		return p.pkg, nil
	}
	return l.std.Import(path)
}

func (l *loader) load(path string, bodies bool) (*pkgInfo, error) {
	if p, ok := l.pkgs[path]; ok && (!bodies || p.info != nil) {
		return p, nil
	}
	if l.loading[path] {
		return nil, fmt.Errorf("import cycle through %s", path)
	}
	l.loading[path] = true
	defer delete(l.loading, path)
	dir := filepath.Join(l.repo, strings.TrimPrefix(strings.TrimPrefix(path, l.modPath), "/"))
	bctx := build.Default
	bctx.CgoEnabled = false
	bp, err := bctx.ImportDir(dir, 0)
	if err != nil {
		return nil, fmt.Errorf("%s: %v", dir, err)
	}
	var files []*ast.File
	for _, f := range bp.GoFiles {
		af, err := parser.ParseFile(l.fset, filepath.Join(dir, f), nil, parser.ParseComments)
		if err != nil {
			return nil, err
		}
		files = append(files, af)
	}
	p := &pkgInfo{path: path, dir: dir, files: files}
	conf := types.Config{Importer: l, IgnoreFuncBodies: !bodies}
	if bodies {
		p.info = &types.Info{Types: map[ast.Expr]types.TypeAndValue{}, Defs: map[*ast.Ident]types.Object{},
			Uses: map[*ast.Ident]types.Object{}, Selections: map[*ast.SelectorExpr]*types.Selection{},
			Implicits: map[ast.Node]types.Object{}}
	}
	pkg, err := conf.Check(path, l.fset, files, p.info)
	if err != nil {
		return nil, fmt.Errorf("type check of %s: %v", path, err)
	}
	p.pkg = pkg
	l.pkgs[path] = p
	return p, nil
}

// ---------------------------------------------------------------- errors

type unsupported struct {
	pos token.Position
	msg string
}

func (u unsupported) Error() string { return fmt.Sprintf("%s: %s", u.pos, u.msg) }

// ---------------------------------------------------------------- unit

type fnInfo struct {
	name    string   // Lean name inside the unit's namespace
	partial bool     // may panic: result is `Option …`
	mutPtrs []int    // indexes (into params incl. receiver at 0) of pointer parameters written through
	nres    int      // number of results kept (error results that are always nil are dropped)
	hidden  []string // Lean types of the hidden slice tails the function takes as trailing parameters (notes/go2lean.md "Capacity")
}

type unitCtx struct {
	l       *loader
	p       *pkgInfo
	unit    *Unit
	done    map[types.Object]*fnInfo
	busy    map[types.Object]bool
	structs map[*types.Named]string
	out     []string // emitted declarations, in dependency order
	vars    map[types.Object]string
	imports map[string]bool // other units whose generated definitions this unit refers to (calls across packages)
}

func (u *unitCtx) fail(n ast.Node, f string, a ...any) {
	pos := token.Position{}
	if n != nil {
		pos = u.l.fset.Position(n.Pos())
		if rel, err := filepath.Rel(u.l.repo, pos.Filename); err == nil {
			pos.Filename = rel
		}
	}
	panic(unsupported{pos, fmt.Sprintf(f, a...)})
}

var leanKeywords = map[string]bool{}
var leanReserved = map[string]bool{}

func init() {
	for _, k := range strings.Fields(`at from end open in then fun do let have show with match if else for return mut where by def theorem
		instance structure class namespace section variable universe import export private protected partial unsafe Type Prop Sort
		deriving extends macro syntax notation infix infixl infixr prefix postfix abbrev axiom example inductive mutual opaque
		set_option attribute local scoped using calc suffices obtain fix assume break continue unless try catch finally throw
		nomatch nofun this it`) {
		leanKeywords[k] = true
	}
	for _, k := range strings.Fields(`List Nat Int Bool String Option Id Prod Unit Go some none true false pure failure decide not and or
		Fit id Array Char Fin UInt8 UInt16 UInt32 UInt64 Type`) {
		leanReserved[k] = true
	}
}

func leanIdent(s string) string {
	if leanReserved[s] {
		return s + "_"
	}
	if leanKeywords[s] {
		return "«" + s + "»"
	}
	return s
}

// ---------------------------------------------------------------- types

func intKind(t types.Type) (w int, signed bool, ok bool) {
	b, isb := t.Underlying().(*types.Basic)
	if !isb {
		return 0, false, false
	}
	switch b.Kind() {
	case types.Uint8:
		return 8, false, true
	case types.Uint16:
		return 16, false, true
	case types.Uint32:
		return 32, false, true
	case types.Uint64, types.Uint, types.Uintptr:
		return 64, false, true
	case types.Int8:
		return 8, true, true
	case types.Int16:
		return 16, true, true
	case types.Int32:
		return 32, true, true
	case types.Int64, types.Int:
		return 64, true, true
	}
	return 0, false, false
}

func isBool(t types.Type) bool {
	b, ok := t.Underlying().(*types.Basic)
	return ok && b.Info()&types.IsBoolean != 0
}
func isString(t types.Type) bool {
	b, ok := t.Underlying().(*types.Basic)
	return ok && b.Info()&types.IsString != 0
}
func isErrorType(t types.Type) bool {
	return types.Identical(t, types.Universe.Lookup("error").Type())
}

// leanType: the Lean type that represents Go type t (notes/go2lean.md "Representation").
func (u *unitCtx) leanType(n ast.Node, t types.Type) string {
	if _, s, ok := intKind(t); ok {
		if s {
			return "Int"
		}
		return "Nat"
	}
	if isBool(t) {
		return "Bool"
	}
	if isString(t) {
		return "String"
	}
	switch tt := t.Underlying().(type) {
	case *types.Slice:
		return "(List " + u.leanType(n, tt.Elem()) + ")"
	case *types.Array:
		return "(List " + u.leanType(n, tt.Elem()) + ")"
	case *types.Pointer:
		// pointers exist only as parameters/receivers: the pointee is passed in and (if written) passed back
		return u.leanType(n, tt.Elem())
	case *types.Struct:
		named, ok := t.(*types.Named)
		if !ok {
			u.fail(n, "anonymous struct type %s", t)
		}
		return u.structType(n, named)
	}
	u.fail(n, "type %s is outside the subset", t)
	return ""
}

func (u *unitCtx) structType(n ast.Node, named *types.Named) string {
	if s, ok := u.structs[named]; ok {
		return s
	}
	if named.Obj().Pkg() != u.p.pkg {
		u.fail(n, "struct type %s of another package", named)
	}
	name := leanIdent(named.Obj().Name())
	u.structs[named] = name // before the fields: a recursive struct would loop otherwise (it fails below: pointer field)
	st := named.Underlying().(*types.Struct)
	var b strings.Builder
	fmt.Fprintf(&b, "/-- Go: `type %s struct` -/\nstructure %s where\n", named.Obj().Name(), name)
	for i := 0; i < st.NumFields(); i++ {
		f := st.Field(i)
		if f.Embedded() {
			u.fail(n, "embedded field %s of struct %s", f.Name(), named)
		}
		if _, isPtr := f.Type().Underlying().(*types.Pointer); isPtr {
			u.fail(n, "pointer field %s of struct %s", f.Name(), named)
		}
		fmt.Fprintf(&b, "  %s : %s\n", leanIdent(f.Name()), u.leanType(n, f.Type()))
	}
	b.WriteString("  deriving Repr, DecidableEq\n")
	u.out = append(u.out, b.String())
	return name
}

func pow2(w int) string { return fmt.Sprintf("2^%d", w) }

// zero value of a Go type
func (u *unitCtx) zero(n ast.Node, t types.Type) string {
	if _, s, ok := intKind(t); ok {
		if s {
			return "(0 : Int)"
		}
		return "0"
	}
	if isBool(t) {
		return "false"
	}
	if isString(t) {
		return `""`
	}
	switch tt := t.Underlying().(type) {
	case *types.Slice:
		return "[]"
	case *types.Array:
		return fmt.Sprintf("(List.replicate %d %s)", tt.Len(), u.zero(n, tt.Elem()))
	case *types.Struct:
		named, ok := t.(*types.Named)
		if !ok {
			u.fail(n, "anonymous struct type %s", t)
		}
		u.structType(n, named)
		var fs []string
		for i := 0; i < tt.NumFields(); i++ {
			fs = append(fs, fmt.Sprintf("%s := %s", leanIdent(tt.Field(i).Name()), u.zero(n, tt.Field(i).Type())))
		}
		return "{ " + strings.Join(fs, ", ") + " }"
	}
	u.fail(n, "zero value of type %s is outside the subset", t)
	return ""
}

// ---------------------------------------------------------------- function context

type flatVar struct {
	name     string
	typ      types.Type
	assigned bool
	order    int
}

type fnCtx struct {
	u          *unitCtx
	info       *types.Info
	names      map[types.Object]string
	used       map[string]bool
	partial    bool
	nparts     int                   // number of partial operations emitted so far (to detect them inside && / ||)
	ptrs       map[types.Object]bool // pointer parameters (receiver included)
	muts       []types.Object        // pointer parameters written through, in parameter order
	mutSet     map[types.Object]bool
	assigned   map[types.Object]bool // objects that are re-assigned somewhere (need `let mut`)
	results    []*types.Var          // kept results
	dropErr    []bool                // per Go result: dropped (error that is always nil)
	named      []types.Object        // named results (all of them, in order) or nil
	lines      []string
	loop       int
	inSwitch   int
	tmp        int
	loopVars   map[types.Object]bool // variables of the enclosing range/for loops (immutable inside the body)
	loopBodies []*ast.BlockStmt
	aliasInd   int
	scope      ast.Node                  // the function body (or the statements of the block) being translated
	safeIdx    map[string]bool           // index expressions already evaluated (without panic) by the left operand of the enclosing && / ||
	alias      map[types.Object]ast.Expr // `p := &s[i]`: p stands for the element s[i] (notes/go2lean.md "Aliases")
	// block mode
	block   bool
	inside  map[types.Object]bool // objects declared inside the block
	flats   map[string]*flatVar   // outer variables / field paths, by Go source text
	hasRet  bool
	retType string
	// capacity (notes/go2lean.md "Capacity"): hidden tails of slices, as extra parameters
	hidden     []string          // "name : type" of the hidden parameters, in order of first use
	hiddenType []string          // their Lean types
	tails      map[string]string // slice operand (source text) → the hidden parameter that is its tail NOW
	params     []types.Object    // the parameters of the function (receiver first)
}

func (c *fnCtx) fail(n ast.Node, f string, a ...any) { c.u.fail(n, f, a...) }

func (c *fnCtx) fresh(base string) string {
	base = leanIdent(base)
	name := base
	for i := 1; c.used[name]; i++ {
		name = fmt.Sprintf("%s_%d", strings.TrimSuffix(strings.TrimPrefix(base, "«"), "»"), i)
	}
	c.used[name] = true
	return name
}

func (c *fnCtx) declare(obj types.Object) string {
	if obj == nil {
		return "_"
	}
	if n, ok := c.names[obj]; ok {
		return n
	}
	n := c.fresh(obj.Name())
	c.names[obj] = n
	if c.block {
		c.inside[obj] = true
	}
	return n
}

func (c *fnCtx) emit(ind int, s string) {
	c.lines = append(c.lines, strings.Repeat("  ", ind)+s)
}

func (c *fnCtx) part() { c.partial = true; c.nparts++ }

// ---------------------------------------------------------------- expressions

func (c *fnCtx) constant(e ast.Expr, tv types.TypeAndValue) (string, bool) {
	if tv.Value == nil {
		return "", false
	}
	t := tv.Type
	src := ""
	switch e.(type) {
	case *ast.BasicLit:
	default:
		src = " /- " + strings.ReplaceAll(exprText(c.u.l.fset, e), "-/", "- /") + " -/"
	}
	if _, s, ok := intKind(t); ok {
		v := tv.Value.ExactString()
		if s {
			return "(" + v + " : Int)" + src, true
		}
		if src != "" {
			return "(" + v + src + ")", true
		}
		return v, true
	}
	if b, ok := t.Underlying().(*types.Basic); ok {
		switch {
		case b.Info()&types.IsBoolean != 0:
			return tv.Value.ExactString(), true
		case b.Info()&types.IsString != 0:
			return leanString(c, e, constantString(tv)), true
		case b.Kind() == types.UntypedInt || b.Kind() == types.UntypedRune:
			// an untyped integer constant that kept its untyped type: only as a shift count or the like
			return tv.Value.ExactString(), true
		}
	}
	c.fail(e, "constant of type %s is outside the subset", t)
	return "", false
}

func constantString(tv types.TypeAndValue) string {
	s := tv.Value.ExactString() // a quoted Go string
	var out string
	if _, err := fmt.Sscanf(s, "%q", &out); err != nil {
		return s
	}
	return out
}

func leanString(c *fnCtx, n ast.Node, s string) string {
	var b strings.Builder
	b.WriteByte('"')
	for _, r := range s {
		switch {
		case r == 0xFFFD:
			c.fail(n, "string constant that is not valid UTF-8 (or contains U+FFFD)")
		case r == '"':
			b.WriteString(`\"`)
		case r == '\\':
			b.WriteString(`\\`)
		case r >= 0x20 && r < 0x7f:
			b.WriteRune(r)
		default:
			fmt.Fprintf(&b, `\u{%x}`, r)
		}
	}
	b.WriteByte('"')
	return b.String()
}

func exprText(fset *token.FileSet, e ast.Node) string {
	var b bytes.Buffer
	_ = (&printerCfg).Fprint(&b, fset, e)
	return strings.Join(strings.Fields(b.String()), " ")
}

func unparen(e ast.Expr) ast.Expr {
	for {
		p, ok := e.(*ast.ParenExpr)
		if !ok {
			return e
		}
		e = p.X
	}
}

// root variable of an addressable expression (through *, .field, [index])
func rootIdent(e ast.Expr) *ast.Ident {
	for {
		switch x := unparen(e).(type) {
		case *ast.Ident:
			return x
		case *ast.StarExpr:
			e = x.X
		case *ast.SelectorExpr:
			e = x.X
		case *ast.IndexExpr:
			e = x.X
		default:
			return nil
		}
	}
}

// flat (block mode): an outer variable or a field path rooted at an outer variable becomes one variable of the block
func (c *fnCtx) flatFor(e ast.Expr) (string, bool) {
	if !c.block {
		return "", false
	}
	x := unparen(e)
	// accept only ident or chains of field selections (through implicit pointer dereference)
	var chain func(ast.Expr) bool
	chain = func(e ast.Expr) bool {
		switch y := unparen(e).(type) {
		case *ast.Ident:
			obj := c.info.Uses[y]
			if obj == nil {
				obj = c.info.Defs[y]
			}
			v, ok := obj.(*types.Var)
			return ok && !c.inside[obj] && !v.IsField() && v.Pkg() != nil && v.Parent() != v.Pkg().Scope()
		case *ast.SelectorExpr:
			sel := c.info.Selections[y]
			if sel == nil || sel.Kind() != types.FieldVal {
				return false
			}
			return chain(y.X)
		case *ast.StarExpr:
			return chain(y.X)
		}
		return false
	}
	if !chain(x) {
		return "", false
	}
	key := exprText(c.u.l.fset, x)
	if fv, ok := c.flats[key]; ok {
		return fv.name, true
	}
	t := c.info.TypeOf(x)
	c.u.leanType(x, t) // must be representable
	if _, isPtr := t.Underlying().(*types.Pointer); isPtr {
		c.fail(x, "pointer-typed outer variable %s used as a value", key)
	}
	name := strings.NewReplacer(".", "_", "*", "", "(", "", ")", "").Replace(key)
	name = c.fresh(name)
	c.flats[key] = &flatVar{name: name, typ: t, order: len(c.flats)}
	return name, true
}

func (c *fnCtx) expr(e ast.Expr) string {
	tv, ok := c.info.Types[e]
	if ok {
		if s, isc := c.constant(e, tv); isc {
			return s
		}
	}
	switch x := e.(type) {
	case *ast.ParenExpr:
		return c.expr(x.X)
	case *ast.Ident:
		if x.Name == "nil" {
			if _, isSlice := c.info.TypeOf(e).Underlying().(*types.Slice); isSlice {
				return "[]"
			}
			c.fail(e, "nil of type %s", c.info.TypeOf(e))
		}
		if x.Name == "true" || x.Name == "false" {
			return x.Name
		}
		obj := c.info.Uses[x]
		if obj == nil {
			obj = c.info.Defs[x]
		}
		if target, ok := c.alias[obj]; ok {
			// the bounds check was made where the alias was defined (`p := &s[i]` panics there, and only there): reading
			// through it again cannot panic, so it does not count as a panicking operation under && / ||
			n := c.nparts
			t := c.expr(target)
			c.nparts = n
			return t
		}
		if n, ok := c.names[obj]; ok {
			return n
		}
		if n, ok := c.flatFor(x); ok {
			return n
		}
		if v, ok := obj.(*types.Var); ok && v.Pkg() == c.u.p.pkg && v.Parent() == v.Pkg().Scope() {
			return c.u.packageVar(x, v)
		}
		c.fail(e, "identifier %s (%T) is outside the subset", x.Name, obj)
	case *ast.StarExpr:
		if id, ok := unparen(x.X).(*ast.Ident); ok {
			if obj := c.info.Uses[id]; obj != nil && c.ptrs[obj] {
				return c.names[obj]
			}
			if target, ok := c.alias[c.info.Uses[id]]; ok {
				return c.expr(target)
			}
		}
		if n, ok := c.flatFor(x); ok {
			return n
		}
		c.fail(e, "pointer dereference other than of a pointer parameter")
	case *ast.SelectorExpr:
		if n, ok := c.flatFor(x); ok {
			return n
		}
		sel := c.info.Selections[x]
		if sel == nil {
			c.fail(e, "qualified identifier %s that is not a constant", exprText(c.u.l.fset, e))
		}
		if sel.Kind() != types.FieldVal {
			c.fail(e, "method value %s", exprText(c.u.l.fset, e))
		}
		if len(sel.Index()) != 1 {
			c.fail(e, "selection through an embedded field")
		}
		c.u.leanType(e, c.info.TypeOf(x.X)) // declares the structure
		return "(" + c.expr(x.X) + ")." + leanIdent(x.Sel.Name)
	case *ast.UnaryExpr:
		return c.unary(x)
	case *ast.BinaryExpr:
		return c.binary(x)
	case *ast.CallExpr:
		return c.call(x)
	case *ast.IndexExpr:
		bt := c.info.TypeOf(x.X)
		switch bt.Underlying().(type) {
		case *types.Slice, *types.Array:
		default:
			if isString(bt) {
				c.fail(e, "indexing a string")
			}
			c.fail(e, "indexing a value of type %s", bt)
		}
		base := c.expr(x.X)
		idx := c.expr(x.Index)
		_, signed, ok := intKind(c.info.TypeOf(x.Index))
		if !ok {
			c.fail(e, "index of type %s", c.info.TypeOf(x.Index))
		}
		c.part()
		if c.safeIdx[exprText(c.u.l.fset, x)] {
			c.nparts-- // the same (pure) index expression did not panic in the left operand: it cannot panic here
		}
		if signed {
			return fmt.Sprintf("(← Go.idxI %s %s)", base, idx)
		}
		return fmt.Sprintf("(← Go.idx %s %s)", base, idx)
	case *ast.SliceExpr:
		if x.Slice3 {
			c.fail(e, "3-index slice expression")
		}
		bt := c.info.TypeOf(x.X)
		if _, ok := bt.Underlying().(*types.Slice); !ok {
			c.fail(e, "slice expression on a value of type %s", bt)
		}
		base := c.expr(x.X)
		lo, hi := "0", ""
		conv := func(e ast.Expr) string {
			s := c.expr(e)
			_, signed, ok := intKind(c.info.TypeOf(e))
			if !ok {
				c.fail(e, "slice bound of type %s", c.info.TypeOf(e))
			}
			if cv := c.info.Types[e].Value; cv != nil && !strings.HasPrefix(cv.ExactString(), "-") {
				return cv.ExactString()
			}
			if signed {
				c.part()
				return fmt.Sprintf("(← Go.natOfInt %s)", s)
			}
			return s
		}
		if x.Low != nil {
			lo = conv(x.Low)
		}
		if x.High != nil {
			hi = conv(x.High)
		} else {
			hi = "(" + base + ").length"
		}
		c.part()
		return fmt.Sprintf("(← Go.slice %s %s %s)", base, lo, hi)
	case *ast.CompositeLit:
		return c.composite(x)
	}
	c.fail(e, "expression %T (%s) is outside the subset", e, exprText(c.u.l.fset, e))
	return ""
}

func (c *fnCtx) composite(x *ast.CompositeLit) string {
	t := c.info.TypeOf(x)
	switch tt := t.Underlying().(type) {
	case *types.Slice:
		var items []string
		for _, el := range x.Elts {
			if _, ok := el.(*ast.KeyValueExpr); ok {
				c.fail(el, "keyed element in a slice literal")
			}
			items = append(items, c.expr(el))
		}
		return "[" + strings.Join(items, ", ") + "]"
	case *types.Struct:
		c.u.leanType(x, t)
		vals := map[string]string{}
		for i, el := range x.Elts {
			if kv, ok := el.(*ast.KeyValueExpr); ok {
				vals[kv.Key.(*ast.Ident).Name] = c.expr(kv.Value)
			} else {
				vals[tt.Field(i).Name()] = c.expr(el)
			}
		}
		var fs []string
		for i := 0; i < tt.NumFields(); i++ {
			f := tt.Field(i)
			v, ok := vals[f.Name()]
			if !ok {
				v = c.u.zero(x, f.Type())
			}
			fs = append(fs, fmt.Sprintf("%s := %s", leanIdent(f.Name()), v))
		}
		return "({ " + strings.Join(fs, ", ") + " } : " + c.u.leanType(x, t) + ")"
	case *types.Array:
		// `[N]T{}`: the zero value of the array (an array literal with elements stays outside)
		if len(x.Elts) == 0 {
			return c.u.zero(x, t)
		}
	}
	c.fail(x, "composite literal of type %s", t)
	return ""
}

func (c *fnCtx) unary(x *ast.UnaryExpr) string {
	t := c.info.TypeOf(x)
	a := c.expr(x.X)
	switch x.Op {
	case token.NOT:
		return "(!" + a + ")"
	case token.ADD:
		return a
	case token.SUB:
		w, s, ok := intKind(t)
		if !ok {
			c.fail(x, "unary - on type %s", t)
		}
		if s {
			return fmt.Sprintf("(Go.wrapI %d (-%s))", w, a)
		}
		return fmt.Sprintf("((%s - %s) %% %s)", pow2(w), a, pow2(w))
	case token.XOR:
		w, s, ok := intKind(t)
		if !ok || s {
			c.fail(x, "unary ^ on type %s", t)
		}
		return fmt.Sprintf("((%s - 1) ^^^ %s)", pow2(w), a)
	}
	c.fail(x, "unary operator %s", x.Op)
	return ""
}

func (c *fnCtx) binary(x *ast.BinaryExpr) string {
	lt, rt := c.info.TypeOf(x.X), c.info.TypeOf(x.Y)
	t := c.info.TypeOf(x)
	switch x.Op {
	case token.LAND, token.LOR:
		a := c.expr(x.X)
		before := c.nparts
		saved := c.safeIdx
		c.safeIdx = map[string]bool{}
		for k := range saved {
			c.safeIdx[k] = true
		}
		ast.Inspect(x.X, func(n ast.Node) bool {
			if ie, ok := n.(*ast.IndexExpr); ok {
				c.safeIdx[exprText(c.u.l.fset, ie)] = true
			}
			return true
		})
		b := c.expr(x.Y)
		c.safeIdx = saved
		if c.nparts != before {
			// the right operand can panic and Go evaluates it only when the left one does not decide: keep that order —
			// its panicking operations are lifted inside the branch, not in front of the whole expression
			c.nparts = before + 1
			if x.Op == token.LAND {
				return "(← (if " + a + " then (do pure " + b + ") else pure false))"
			}
			return "(← (if " + a + " then pure true else (do pure " + b + ")))"
		}
		if x.Op == token.LAND {
			return "(" + a + " && " + b + ")"
		}
		return "(" + a + " || " + b + ")"
	case token.EQL, token.NEQ, token.LSS, token.LEQ, token.GTR, token.GEQ:
		a, b := c.expr(x.X), c.expr(x.Y)
		_, _, li := intKind(lt)
		_, _, ri := intKind(rt)
		okEq := (li && ri) || (isBool(lt) && isBool(rt)) || (isString(lt) && isString(rt))
		switch x.Op {
		case token.EQL:
			if !okEq {
				c.fail(x, "== on types %s, %s", lt, rt)
			}
			return "(" + a + " == " + b + ")"
		case token.NEQ:
			if !okEq {
				c.fail(x, "!= on types %s, %s", lt, rt)
			}
			return "(" + a + " != " + b + ")"
		}
		if !(li && ri) {
			c.fail(x, "ordering comparison on types %s, %s", lt, rt)
		}
		op := map[token.Token]string{token.LSS: "<", token.LEQ: "≤", token.GTR: ">", token.GEQ: "≥"}[x.Op]
		return "(decide (" + a + " " + op + " " + b + "))"
	}
	if isString(t) && x.Op == token.ADD {
		return "(" + c.expr(x.X) + " ++ " + c.expr(x.Y) + ")"
	}
	w, signed, ok := intKind(t)
	if !ok {
		c.fail(x, "operator %s on type %s", x.Op, t)
	}
	a := c.expr(x.X)
	if x.Op == token.SHL || x.Op == token.SHR {
		var cnt string
		if rtv := c.info.Types[x.Y]; rtv.Value != nil {
			cnt = rtv.Value.ExactString()
			if strings.HasPrefix(cnt, "-") {
				c.fail(x, "negative shift count")
			}
		} else {
			_, rs, rok := intKind(rt)
			if !rok || rs {
				c.fail(x.Y, "shift count of signed or non-integer type %s (a negative count panics in Go)", rt)
			}
			cnt = c.expr(x.Y)
		}
		if x.Op == token.SHL {
			if signed {
				return fmt.Sprintf("(Go.wrapI %d (%s * 2^%s))", w, a, cnt)
			}
			return fmt.Sprintf("((%s <<< %s) %% %s)", a, cnt, pow2(w))
		}
		return fmt.Sprintf("(%s >>> %s)", a, cnt)
	}
	b := c.expr(x.Y)
	return c.arith(x, x.Op, w, signed, a, b, c.info.Types[x.Y].Value != nil && c.info.Types[x.Y].Value.ExactString() != "0")
}

// arith: a op b on integers of width w; nonzeroConst: b is a constant other than 0 (for / and %)
func (c *fnCtx) arith(n ast.Node, op token.Token, w int, signed bool, a, b string, nonzeroConst bool) string {
	if signed {
		switch op {
		case token.ADD:
			return fmt.Sprintf("(Go.wrapI %d (%s + %s))", w, a, b)
		case token.SUB:
			return fmt.Sprintf("(Go.wrapI %d (%s - %s))", w, a, b)
		case token.MUL:
			return fmt.Sprintf("(Go.wrapI %d (%s * %s))", w, a, b)
		case token.QUO:
			if !nonzeroConst {
				c.part()
				return fmt.Sprintf("(Go.wrapI %d (← Go.divI %s %s))", w, a, b)
			}
			return fmt.Sprintf("(Go.wrapI %d (Int.tdiv %s %s))", w, a, b)
		case token.REM:
			if !nonzeroConst {
				c.part()
				return fmt.Sprintf("(← Go.modI %s %s)", a, b)
			}
			return fmt.Sprintf("(Int.tmod %s %s)", a, b)
		}
		c.fail(n, "operator %s on a signed integer", op)
	}
	switch op {
	case token.ADD:
		return fmt.Sprintf("((%s + %s) %% %s)", a, b, pow2(w))
	case token.SUB:
		return fmt.Sprintf("((%s + %s - %s) %% %s)", a, pow2(w), b, pow2(w))
	case token.MUL:
		return fmt.Sprintf("((%s * %s) %% %s)", a, b, pow2(w))
	case token.QUO:
		if !nonzeroConst {
			c.part()
			return fmt.Sprintf("(← Go.divN %s %s)", a, b)
		}
		return fmt.Sprintf("(%s / %s)", a, b)
	case token.REM:
		if !nonzeroConst {
			c.part()
			return fmt.Sprintf("(← Go.modN %s %s)", a, b)
		}
		return fmt.Sprintf("(%s %% %s)", a, b)
	case token.AND:
		return fmt.Sprintf("(%s &&& %s)", a, b)
	case token.OR:
		return fmt.Sprintf("(%s ||| %s)", a, b)
	case token.XOR:
		return fmt.Sprintf("(%s ^^^ %s)", a, b)
	case token.AND_NOT:
		return fmt.Sprintf("(%s &&& ((%s - 1) ^^^ %s))", a, pow2(w), b)
	}
	c.fail(n, "operator %s", op)
	return ""
}

// conversion T(x) between integer types
func (c *fnCtx) convert(n ast.Node, to, from types.Type, a string) string {
	if types.Identical(to.Underlying(), from.Underlying()) {
		return a
	}
	tw, ts, tok := intKind(to)
	fw, fs, fok := intKind(from)
	if !tok || !fok {
		c.fail(n, "conversion from %s to %s", from, to)
	}
	switch {
	case !fs && !ts:
		if tw >= fw {
			return a
		}
		return fmt.Sprintf("(%s %% %s)", a, pow2(tw))
	case !fs && ts:
		if tw > fw {
			return fmt.Sprintf("(%s : Int)", a)
		}
		return fmt.Sprintf("(Go.wrapI %d (%s : Int))", tw, a)
	case fs && !ts:
		return fmt.Sprintf("(Int.toNat (%s %% %s))", a, pow2(tw))
	default:
		if tw >= fw {
			return a
		}
		return fmt.Sprintf("(Go.wrapI %d %s)", tw, a)
	}
}

// externCall: a call of a function of ANOTHER package of the repository that is a `func` item of a unit of that package
// becomes a reference to that unit's generated definition `Go.<unit>.<name>` (the generated file imports that unit's file;
// the check that uses this unit must list the other unit's regeneration step as well). What is known about the callee —
// its Lean name, whether it can panic — comes from translating it, in a loader of its own.
func (c *fnCtx) externCall(x *ast.CallExpr, fn *types.Func, recv ast.Expr) (string, bool) {
	u := c.u
	if fn.Pkg() == nil || !strings.HasPrefix(fn.Pkg().Path(), u.l.modPath+"/") {
		return "", false
	}
	rel := strings.TrimPrefix(fn.Pkg().Path(), u.l.modPath+"/")
	full := fn.Name()
	if r := fn.Type().(*types.Signature).Recv(); r != nil {
		t := r.Type()
		if p, ok := t.(*types.Pointer); ok {
			t = p.Elem()
		}
		if n, ok := t.(*types.Named); ok {
			full = n.Obj().Name() + "." + fn.Name()
		}
	}
	for i := range units {
		ou := &units[i]
		if ou.Dir != rel || ou == u.unit {
			continue
		}
		found := false
		for _, it := range ou.Items {
			if it.Kind == "func" && it.Name == full {
				found = true
			}
		}
		if !found {
			continue
		}
		l2, err := newLoader(u.l.repo)
		if err != nil {
			c.fail(x, "call of %s.%s: %v", rel, full, err)
		}
		p2, err := l2.load(l2.modPath+"/"+ou.Dir, true)
		if err != nil {
			c.fail(x, "call of %s.%s: %v", rel, full, err)
		}
		u2 := &unitCtx{l: l2, p: p2, unit: ou, done: map[types.Object]*fnInfo{}, busy: map[types.Object]bool{},
			structs: map[*types.Named]string{}, vars: map[types.Object]string{}, imports: map[string]bool{}}
		fd := u2.lookupFunc(full)
		if fd == nil {
			c.fail(x, "call of %s.%s: not found in unit %s", rel, full, ou.Name)
		}
		fi := u2.function(fd, p2.info.Defs[fd.Name].(*types.Func))
		if len(fi.mutPtrs) > 0 || len(fi.hidden) > 0 {
			c.fail(x, "call of %s.%s across packages: the callee writes through a pointer or depends on a capacity", rel, full)
		}
		var args []string
		if recv != nil {
			args = append(args, c.argValue(recv))
		}
		for _, a := range x.Args {
			args = append(args, c.argValue(a))
		}
		s := "Go." + ou.Name + "." + fi.name
		for _, a := range args {
			s += " " + a
		}
		if u.imports == nil {
			u.imports = map[string]bool{}
		}
		u.imports[ou.Name] = true
		if fi.partial {
			c.part()
			return "(← " + s + ")", true
		}
		return "(" + s + ")", true
	}
	return "", false
}

// natOf: an integer expression as a natural number (a negative value is a panic where Go panics on it: slice bounds, make)
func (c *fnCtx) natOf(e ast.Expr) string {
	s := c.expr(e)
	_, signed, ok := intKind(c.info.TypeOf(e))
	if !ok {
		c.fail(e, "length of type %s", c.info.TypeOf(e))
	}
	if cv := c.info.Types[e].Value; cv != nil && !strings.HasPrefix(cv.ExactString(), "-") {
		return cv.ExactString()
	}
	if signed {
		c.part()
		return fmt.Sprintf("(← Go.natOfInt %s)", s)
	}
	return s
}

// newHidden: a hidden parameter (the tail of a slice between its length and its capacity) of the function being translated
func (c *fnCtx) newHidden(n ast.Node, base, leanType string) string {
	if c.loop > 0 {
		c.fail(n, "the capacity of a slice inside a loop (every iteration would need a hidden tail of its own)")
	}
	name := c.fresh(base)
	c.hidden = append(c.hidden, fmt.Sprintf("(%s : %s)", name, leanType))
	c.hiddenType = append(c.hiddenType, leanType)
	return name
}

// tailFor: the hidden tail of the slice operand e as it is now (same operand text, nothing assigned since: same tail)
func (c *fnCtx) tailFor(e ast.Expr) string {
	key := exprText(c.u.l.fset, unparen(e))
	if t, ok := c.tails[key]; ok {
		return t
	}
	if c.tails == nil {
		c.tails = map[string]string{}
	}
	t := c.newHidden(e, "tail", c.u.leanType(e, c.info.TypeOf(e)))
	c.tails[key] = t
	return t
}

// callee of a call expression within the package being translated: (function object, receiver expression or nil)
func (c *fnCtx) callee(x *ast.CallExpr) (*types.Func, ast.Expr) {
	switch f := unparen(x.Fun).(type) {
	case *ast.Ident:
		if fn, ok := c.info.Uses[f].(*types.Func); ok {
			return fn, nil
		}
	case *ast.SelectorExpr:
		if sel := c.info.Selections[f]; sel != nil && sel.Kind() == types.MethodVal {
			if fn, ok := sel.Obj().(*types.Func); ok {
				return fn, f.X
			}
		} else if fn, ok := c.info.Uses[f.Sel].(*types.Func); ok {
			return fn, nil
		}
	}
	return nil, nil
}

func (c *fnCtx) call(x *ast.CallExpr) string {
	// conversion
	if tv, ok := c.info.Types[x.Fun]; ok && tv.IsType() {
		if len(x.Args) != 1 {
			c.fail(x, "conversion with %d arguments", len(x.Args))
		}
		return c.convert(x, tv.Type, c.info.TypeOf(x.Args[0]), c.expr(x.Args[0]))
	}
	if id, ok := unparen(x.Fun).(*ast.Ident); ok {
		if _, isb := c.info.Uses[id].(*types.Builtin); isb {
			switch id.Name {
			case "len":
				at := c.info.TypeOf(x.Args[0])
				switch at.Underlying().(type) {
				case *types.Slice, *types.Array:
					return "(" + c.expr(x.Args[0]) + ".length : Int)"
				}
				if isString(at) {
					return "(" + c.expr(x.Args[0]) + ".utf8ByteSize : Int)"
				}
				c.fail(x, "len of type %s", at)
			case "append":
				if x.Ellipsis.IsValid() {
					if len(x.Args) != 2 {
						c.fail(x, "append with ... and %d arguments", len(x.Args))
					}
					return "(" + c.expr(x.Args[0]) + " ++ " + c.expr(x.Args[1]) + ")"
				}
				var items []string
				for _, a := range x.Args[1:] {
					items = append(items, c.expr(a))
				}
				return "(" + c.expr(x.Args[0]) + " ++ [" + strings.Join(items, ", ") + "])"
			case "panic":
				c.fail(x, "panic(...) as an expression")
			case "make":
				// make([]T, n) / make([]T, n, m): n zero values. A capacity beyond the length is not part of the slice value
				// (whoever looks at it later takes the hidden tail as a parameter: "Capacity" in notes/go2lean.md)
				st, ok := c.info.TypeOf(x).Underlying().(*types.Slice)
				if !ok || len(x.Args) < 2 || len(x.Args) > 3 {
					c.fail(x, "make of type %s (only make([]T, n) and make([]T, n, m) are in the subset)", c.info.TypeOf(x))
				}
				zero := c.u.zero(x, st.Elem())
				n := c.natOf(x.Args[1])
				if len(x.Args) == 2 {
					return fmt.Sprintf("(List.replicate %s %s)", n, zero)
				}
				m := c.natOf(x.Args[2])
				c.part()
				return fmt.Sprintf("(← Go.make %s %s %s)", n, m, zero)
			case "cap":
				if _, ok := c.info.TypeOf(x.Args[0]).Underlying().(*types.Slice); !ok {
					c.fail(x, "cap of type %s", c.info.TypeOf(x.Args[0]))
				}
				tail := c.tailFor(x.Args[0])
				return fmt.Sprintf("(Go.capOf %s %s)", c.expr(x.Args[0]), tail)
			case "copy":
				c.fail(x, "copy(...) as an expression (its result is used); only the statement `copy(dst, src)` is in the subset")
			}
			c.fail(x, "builtin %s is outside the subset", id.Name)
		}
	}
	fn, recv := c.callee(x)
	if fn == nil {
		c.fail(x, "call of %s is outside the subset (not a function of the package)", exprText(c.u.l.fset, x.Fun))
	}
	if fn.Pkg() != c.u.p.pkg {
		if s, ok := c.stdcall(x, fn); ok {
			return s
		}
		if s, ok := c.externCall(x, fn, recv); ok {
			return s
		}
		c.fail(x, "call of %s.%s: function of another package (and not a func item of a unit of that package)", fn.Pkg().Path(), fn.Name())
	}
	fi := c.u.function(x, fn)
	if len(fi.mutPtrs) > 0 {
		c.fail(x, "call of %s, which writes through a pointer parameter, inside an expression (only as a statement, `x := f()`, `x = f()` or `return f()`)", fn.Name())
	}
	return c.callText(x, fn, fi, recv)
}

// callText: application of the translated function to receiver and arguments
func (c *fnCtx) callText(x *ast.CallExpr, fn *types.Func, fi *fnInfo, recv ast.Expr) string {
	var args []string
	if recv != nil {
		args = append(args, c.argValue(recv))
	}
	sig := fn.Type().(*types.Signature)
	if sig.Variadic() {
		c.fail(x, "call of variadic function %s", fn.Name())
	}
	for _, a := range x.Args {
		args = append(args, c.argValue(a))
	}
	s := fi.name
	for _, a := range args {
		s += " " + a
	}
	// the callee looks at the capacity of slices: this function takes the hidden tails as parameters of its own and passes them on
	// (one set per call site; inside a loop every iteration would need its own: refused)
	for _, ht := range fi.hidden {
		if c.loop > 0 {
			c.fail(x, "call of %s, which depends on the capacity of a slice, inside a loop", fn.Name())
		}
		s += " " + c.newHidden(x, fn.Name()+"_tail", ht)
	}
	if fi.partial {
		c.part()
		return "(← " + s + ")"
	}
	return "(" + s + ")"
}

// argValue: an argument; `&x` / a pointer parameter passed on stand for the pointee
func (c *fnCtx) argValue(a ast.Expr) string {
	if ue, ok := unparen(a).(*ast.UnaryExpr); ok && ue.Op == token.AND {
		c.fail(a, "address-of expression as an argument")
	}
	if id, ok := unparen(a).(*ast.Ident); ok {
		if obj := c.info.Uses[id]; obj != nil && c.ptrs[obj] {
			return c.names[obj]
		}
	}
	s := c.expr(a)
	if strings.ContainsAny(s, " ") && !strings.HasPrefix(s, "(") {
		s = "(" + s + ")"
	}
	return s
}

// the few standard-library functions given a meaning (notes/go2lean.md "Trusted")
func (c *fnCtx) stdcall(x *ast.CallExpr, fn *types.Func) (string, bool) {
	switch fn.Pkg().Path() + "." + fn.Name() {
	case "strconv.Itoa":
		return "(toString " + c.expr(x.Args[0]) + ")", true
	case "bytes.Equal":
		return "(" + c.expr(x.Args[0]) + " == " + c.expr(x.Args[1]) + ")", true
	}
	if s, ok := c.stdBinaryAppend(x, fn); ok {
		return s, true
	}
	return "", false
}

// binary.LittleEndian.AppendUintN(b, v) / binary.BigEndian.AppendUintN(b, v), N = 16, 32, 64: `b ++ Go.leN v` / `b ++ Go.beN v`
// (GoPrelude: the N/8 bytes of v, least / most significant first). Only when the receiver is exactly the package variable
// binary.LittleEndian / binary.BigEndian (a value of the unexported types littleEndian / bigEndian); anything else of
// encoding/binary stays outside the subset.
func (c *fnCtx) stdBinaryAppend(x *ast.CallExpr, fn *types.Func) (string, bool) {
	if fn.Pkg().Path() != "encoding/binary" {
		return "", false
	}
	sel, ok := unparen(x.Fun).(*ast.SelectorExpr)
	if !ok {
		return "", false
	}
	rsel, ok := unparen(sel.X).(*ast.SelectorExpr)
	if !ok {
		return "", false
	}
	rv, ok := c.info.Uses[rsel.Sel].(*types.Var)
	if !ok || rv.Pkg() == nil || rv.Pkg().Path() != "encoding/binary" || rv.Parent() != rv.Pkg().Scope() {
		return "", false
	}
	var order string
	switch rv.Name() {
	case "LittleEndian":
		order = "le"
	case "BigEndian":
		order = "be"
	default:
		return "", false
	}
	var width string
	switch fn.Name() {
	case "AppendUint16":
		width = "16"
	case "AppendUint32":
		width = "32"
	case "AppendUint64":
		width = "64"
	default:
		return "", false
	}
	if len(x.Args) != 2 {
		return "", false
	}
	return "(" + c.expr(x.Args[0]) + " ++ Go." + order + width + " " + c.argValue(x.Args[1]) + ")", true
}

// ---------------------------------------------------------------- package-level tables

func (u *unitCtx) packageVar(n ast.Node, v *types.Var) string {
	if s, ok := u.vars[v]; ok {
		return s
	}
	// find the declaration: `var name = [N]T{…}` / `var name = []T{…}` with constant elements (keys allowed)
	for _, f := range u.p.files {
		for _, d := range f.Decls {
			gd, ok := d.(*ast.GenDecl)
			if !ok || gd.Tok != token.VAR {
				continue
			}
			for _, sp := range gd.Specs {
				vs := sp.(*ast.ValueSpec)
				for i, nm := range vs.Names {
					if u.p.info.Defs[nm] != v {
						continue
					}
					if len(vs.Values) != len(vs.Names) {
						u.fail(nm, "package variable %s has no initialiser of its own", v.Name())
					}
					cl, ok := unparen(vs.Values[i]).(*ast.CompositeLit)
					if !ok {
						u.fail(nm, "package variable %s is not initialised by a composite literal", v.Name())
					}
					if w := u.writesTo(v); w != nil {
						u.fail(w, "package variable %s is assigned to (it is translated as an immutable table)", v.Name())
					}
					name := leanIdent(v.Name())
					text := u.tableLiteral(cl, v)
					u.out = append(u.out, fmt.Sprintf("/-- Go: `var %s %s` -/\ndef %s : %s :=\n  %s\n", v.Name(), v.Type(), name, u.leanType(nm, v.Type()), text))
					u.vars[v] = name
					return name
				}
			}
		}
	}
	u.fail(n, "declaration of package variable %s not found", v.Name())
	return ""
}

// writesTo: a statement of the package that assigns to (an element of) package variable v, or takes its address
func (u *unitCtx) writesTo(v *types.Var) ast.Node {
	var found ast.Node
	isV := func(e ast.Expr) bool {
		id := rootIdent(e)
		return id != nil && u.p.info.Uses[id] == v
	}
	for _, f := range u.p.files {
		ast.Inspect(f, func(n ast.Node) bool {
			if found != nil {
				return false
			}
			switch s := n.(type) {
			case *ast.AssignStmt:
				for _, l := range s.Lhs {
					if isV(l) {
						found = s
					}
				}
			case *ast.IncDecStmt:
				if isV(s.X) {
					found = s
				}
			case *ast.UnaryExpr:
				if s.Op == token.AND && isV(s.X) {
					found = s
				}
			case *ast.SliceExpr:
				if isV(s.X) { // a slice of the array aliases it
					found = s
				}
			case *ast.RangeStmt:
				if s.Tok == token.ASSIGN && (s.Key != nil && isV(s.Key) || s.Value != nil && isV(s.Value)) {
					found = s
				}
			}
			return true
		})
	}
	return found
}

func (u *unitCtx) tableLiteral(cl *ast.CompositeLit, v *types.Var) string {
	var elem types.Type
	n := int64(-1)
	switch tt := v.Type().Underlying().(type) {
	case *types.Array:
		elem, n = tt.Elem(), tt.Len()
	case *types.Slice:
		elem = tt.Elem()
	default:
		u.fail(cl, "package variable %s of type %s", v.Name(), v.Type())
	}
	zero := u.zero(cl, elem)
	vals := map[int64]string{}
	next, max := int64(0), int64(0)
	for _, el := range cl.Elts {
		val := el
		if kv, ok := el.(*ast.KeyValueExpr); ok {
			ktv := u.p.info.Types[kv.Key]
			if ktv.Value == nil {
				u.fail(kv.Key, "non-constant key in the literal of %s", v.Name())
			}
			var k int64
			if _, err := fmt.Sscan(ktv.Value.ExactString(), &k); err != nil {
				u.fail(kv.Key, "key %s in the literal of %s", ktv.Value, v.Name())
			}
			next = k
			val = kv.Value
		}
		vtv := u.p.info.Types[val]
		if vtv.Value == nil {
			u.fail(val, "non-constant element in the literal of %s", v.Name())
		}
		c := &fnCtx{u: u, info: u.p.info}
		s, _ := c.constant(&ast.BasicLit{}, types.TypeAndValue{Type: elem, Value: vtv.Value})
		vals[next] = s
		next++
		if next > max {
			max = next
		}
	}
	if n < 0 {
		n = max
	}
	items := make([]string, n)
	for i := int64(0); i < n; i++ {
		if s, ok := vals[i]; ok {
			items[i] = s
		} else {
			items[i] = zero
		}
	}
	// 16 per line
	var b strings.Builder
	b.WriteString("[")
	for i, it := range items {
		if i > 0 {
			b.WriteString(",")
			if i%16 == 0 {
				b.WriteString("\n   ")
			} else {
				b.WriteString(" ")
			}
		}
		b.WriteString(it)
	}
	b.WriteString("]")
	return b.String()
}
