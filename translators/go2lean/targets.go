package main

// Item: what to translate.
//
//	{Kind: "func", Name: "Recv.Method" | "Func"}
//	{Kind: "var", Name: "table"}                      package-level table with constant elements
//	{Kind: "const", Name: "MesgDefinitionMask"}        package-level constant (value computed by go/types)
//	{Kind: "cond", Name: <Lean name>, Func: "Recv.Method", Anchor: <text the condition contains>, Occur: n}
//	{Kind: "methodset", Name: "crc16", Methods: "Write Sum16 …"}   the type has exactly these methods
//	{Kind: "block", Name: <Lean name>, Func: "Recv.Method", Anchor: "d.lastTimeOffset", Occur: n, Up: k}
//	{Kind: "arg" | "slice" | "loopcond", …}            expressions at a structural position: see item_expr.go
type Item struct {
	Kind    string
	Name    string
	Func    string
	Anchor  string
	Occur   int    // 0: the anchor must be unique in the function; n ≥ 1: the n-th statement (source order) assigning to it
	Up      int    // go this many statement lists outwards from the anchor before taking the run
	Methods string // methodset: the space-separated names of ALL methods of type Name (each translated by a func item)
	Arg     int    // arg: which argument of the call (0-based)                                  (item_expr.go)
	Part    string // slice: which bound of the slice expression: "lo" | "hi" | "lo:" | ":hi"    (item_expr.go)
	Solo    bool   // block: the run is the anchored statement alone (after going Up), not the maximal run around it
}

// Unit: one Go package → lean/FitModel/Generated/Go_<Name>.lean (namespace Go.<Name>)
type Unit struct {
	Name  string
	Dir   string
	Items []Item
}

var units = []Unit{
	{Name: "crc16", Dir: "kit/hash/crc16", Items: []Item{
		{Kind: "var", Name: "table"},
		{Kind: "func", Name: "crc16.compute"},
		{Kind: "func", Name: "crc16.Write"},
		{Kind: "func", Name: "crc16.Sum16"},
		{Kind: "func", Name: "crc16.Sum"},
		{Kind: "func", Name: "crc16.Reset"},
		{Kind: "func", Name: "crc16.Size"},
		{Kind: "func", Name: "crc16.BlockSize"},
		{Kind: "methodset", Name: "crc16", Methods: "Write compute Sum16 Sum Reset Size BlockSize"},
	}},
	{Name: "basetype", Dir: "profile/basetype", Items: []Item{
		{Kind: "const", Name: "BaseTypeNumMask"},
		{Kind: "const", Name: "EndianAbilityMask"},
		{Kind: "const", Name: "EnumInvalid"},
		{Kind: "const", Name: "Sint8Invalid"},
		{Kind: "const", Name: "Uint8Invalid"},
		{Kind: "const", Name: "Sint16Invalid"},
		{Kind: "const", Name: "Uint16Invalid"},
		{Kind: "const", Name: "Sint32Invalid"},
		{Kind: "const", Name: "Uint32Invalid"},
		{Kind: "const", Name: "Float32Invalid"},
		{Kind: "const", Name: "Float64Invalid"},
		{Kind: "const", Name: "Uint8zInvalid"},
		{Kind: "const", Name: "Uint16zInvalid"},
		{Kind: "const", Name: "Uint32zInvalid"},
		{Kind: "const", Name: "ByteInvalid"},
		{Kind: "const", Name: "Sint64Invalid"},
		{Kind: "const", Name: "Uint64Invalid"},
		{Kind: "const", Name: "Uint64zInvalid"},
		{Kind: "var", Name: "sizes"},
		{Kind: "func", Name: "BaseType.Size"},
		{Kind: "func", Name: "BaseType.Valid"},
		{Kind: "func", Name: "FromString"},
		{Kind: "func", Name: "BaseType.String"},
		{Kind: "func", Name: "BaseType.GoType"},
		{Kind: "func", Name: "List"},
	}},
	{Name: "proto", Dir: "proto", Items: []Item{
		{Kind: "const", Name: "MesgDefinitionMask"},
		{Kind: "const", Name: "MesgNormalHeaderMask"},
		{Kind: "const", Name: "MesgCompressedHeaderMask"},
		{Kind: "const", Name: "LocalMesgNumMask"},
		{Kind: "const", Name: "CompressedLocalMesgNumMask"},
		{Kind: "const", Name: "CompressedTimeMask"},
		{Kind: "const", Name: "DevDataMask"},
		{Kind: "const", Name: "CompressedBitShift"},
		{Kind: "const", Name: "FieldNumTimestamp"},
		{Kind: "const", Name: "DefaultFileHeaderSize"},
		{Kind: "const", Name: "V1"},
		{Kind: "const", Name: "V2"},
		{Kind: "func", Name: "LocalMesgNum"},
		{Kind: "func", Name: "CreateVersion"},
		{Kind: "func", Name: "Version.Major"},
		{Kind: "func", Name: "Version.Minor"},
		{Kind: "cond", Name: "ValidateMessageDefinition_isV1", Func: "Validator.ValidateMessageDefinition", Anchor: "p.ProtocolVersion"},
		{Kind: "cond", Name: "ValidateMessageDefinition_afterV1", Func: "Validator.ValidateMessageDefinition", Anchor: "BaseTypeNumMask"},
		{Kind: "cond", Name: "ValidateMessage_isV1", Func: "Validator.ValidateMessage", Anchor: "p.ProtocolVersion"},
		{Kind: "cond", Name: "ValidateMessage_afterV1", Func: "Validator.ValidateMessage", Anchor: "BaseTypeNumMask"},
	}},
	{Name: "decoder", Dir: "decoder", Items: []Item{
		// the compressed-timestamp arithmetic of decodeMessageData: timeOffset, d.timestamp, d.lastTimeOffset
		{Kind: "block", Name: "decodeMessageData_timestamp", Func: "Decoder.decodeMessageData", Anchor: "d.lastTimeOffset"},
		// timestamp tracking of decodeFields: d.timestamp = timestamp; d.lastTimeOffset = byte(timestamp & mask)
		{Kind: "block", Name: "decodeFields_timestamp", Func: "Decoder.decodeFields", Anchor: "d.lastTimeOffset"},
		// which definition a data record uses: localMesgNum := header; if compressed { localMesgNum = (header & mask) >> shift }
		{Kind: "block", Name: "decodeMessageData_localMesgNum", Func: "Decoder.decodeMessageData", Anchor: "localMesgNum", Occur: 2, Up: 1},
		{Kind: "cond", Name: "decodeMessage_isDefinition", Func: "Decoder.decodeMessage", Anchor: "MesgDefinitionMask"},
		{Kind: "cond", Name: "decodeMessageDefinition_hasDevData", Func: "Decoder.decodeMessageDefinition", Anchor: "DevDataMask"},
		{Kind: "cond", Name: "decodeMessageData_isCompressed", Func: "Decoder.decodeMessageData", Anchor: "MesgCompressedHeaderMask", Occur: 1},
	}},
	// component expansion: the bit store and the accumulator (a unit of its own: C05 does not depend on the timestamp blocks)
	{Name: "decoderbits", Dir: "decoder", Items: []Item{
		{Kind: "func", Name: "bits.Pull"},
		{Kind: "func", Name: "Accumulator.Collect"},
		{Kind: "func", Name: "Accumulator.Accumulate"},
		{Kind: "func", Name: "Accumulator.Reset"},
		{Kind: "methodset", Name: "Accumulator", Methods: "Collect Accumulate Reset"},
	}},
	{Name: "encoder", Dir: "encoder", Items: []Item{
		// the decision and header composition of compressTimestampIntoHeader (after the loop over the fields)
		// the local message type goes into the record header: bits 5-6 of a compressed-timestamp header, bits 0-3 otherwise
		{Kind: "block", Name: "encodeMessage_header", Func: "Encoder.encodeMessage", Anchor: "mesg.Header", Occur: 2, Up: 1},
		{Kind: "block", Name: "compressTimestampIntoHeader_decide", Func: "Encoder.compressTimestampIntoHeader", Anchor: "e.timestampReference", Up: 1},
	}},
}
