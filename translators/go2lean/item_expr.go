package main

// Expression items: integer expressions that sit at a fixed structural position of a function which as a whole is
// outside the subset (it calls an io.Reader, a callback, …). Like a `cond` item the expression becomes a function of the
// variables / field paths it mentions (parameters sorted by their source text). Nothing is guessed: the position is
// found structurally (by the call / the sliced operand and its occurrence number in source order), never by the text of
// the expression itself, so an edit of the expression changes the translated definition (and breaks the agreement
// theorem) instead of losing the anchor.
//
//	{Kind: "arg",      Name, Func, Anchor: "io.ReadAtLeast", Occur: n, Arg: k}
//	     the k-th argument (0-based) of the n-th call (source order; 0 = the only one) whose callee text is Anchor
//	{Kind: "slice",    Name, Func, Anchor: "b.buf", Occur: n, Part: "lo" | "hi" | "lo:" | ":hi"}
//	     a bound of the n-th slice expression (source order; 0 = the only one) whose operand text is Anchor:
//	     "lo"  the low bound of `x[lo:]`   (a high bound must be absent),   "hi"  the high bound of `x[:hi]` (no low bound),
//	     "lo:" / ":hi" the low / high bound of `x[lo:hi]` (both present). Three-index slices are refused.
//	{Kind: "loopcond", Name, Func, Anchor: <text the condition contains>, Occur: n}
//	     the condition of a `for cond {}` statement (no init, no post; as `cond` does for `if`): the loop itself is outside
//	     the subset, its condition is an expression like any other. Anchor "" = any; Occur counts these loops in source order.

import (
	"fmt"
	"go/ast"
	"go/types"
	"sort"
	"strings"
)

func (u *unitCtx) exprItem(it Item) {
	fd := u.lookupFunc(it.Func)
	if fd == nil {
		u.fail(nil, "%s %s: function %s not found in package %s", it.Kind, it.Name, it.Func, u.p.path)
	}
	var hits []ast.Node
	ast.Inspect(fd.Body, func(n ast.Node) bool {
		switch x := n.(type) {
		case *ast.CallExpr:
			if it.Kind == "arg" && exprText(u.l.fset, unparen(x.Fun)) == it.Anchor {
				hits = append(hits, x)
			}
		case *ast.SliceExpr:
			if it.Kind == "slice" && exprText(u.l.fset, unparen(x.X)) == it.Anchor {
				hits = append(hits, x)
			}
		case *ast.ForStmt:
			if it.Kind == "loopcond" && x.Cond != nil && x.Init == nil && x.Post == nil && strings.Contains(exprText(u.l.fset, x.Cond), it.Anchor) {
				hits = append(hits, x)
			}
		}
		return true
	})
	what := map[string]string{"arg": "call of", "slice": "slice expression of", "loopcond": "for condition mentioning"}[it.Kind]
	var hit ast.Node
	switch {
	case len(hits) == 0:
		u.fail(fd, "%s %s: no %s %s in %s (anchor not found)", it.Kind, it.Name, what, it.Anchor, it.Func)
	case it.Occur == 0 && len(hits) != 1:
		u.fail(fd, "%s %s: %d %s %s in %s, expected exactly one", it.Kind, it.Name, len(hits), what, it.Anchor, it.Func)
	case it.Occur > len(hits):
		u.fail(fd, "%s %s: only %d %s %s in %s", it.Kind, it.Name, len(hits), what, it.Anchor, it.Func)
	case it.Occur == 0:
		hit = hits[0]
	default:
		hit = hits[it.Occur-1]
	}
	var e ast.Expr
	switch x := hit.(type) {
	case *ast.CallExpr:
		if x.Ellipsis.IsValid() {
			u.fail(x, "arg %s: variadic call", it.Name)
		}
		if it.Arg < 0 || it.Arg >= len(x.Args) {
			u.fail(x, "arg %s: the call of %s has %d arguments, argument %d wanted", it.Name, it.Anchor, len(x.Args), it.Arg)
		}
		e = x.Args[it.Arg]
	case *ast.SliceExpr:
		if x.Slice3 || x.Max != nil {
			u.fail(x, "slice %s: three-index slice", it.Name)
		}
		shape := map[bool]string{true: "lo", false: ""}[x.Low != nil] + ":" + map[bool]string{true: "hi", false: ""}[x.High != nil]
		want := map[string]string{"lo": "lo:", "hi": ":hi", "lo:": "lo:hi", ":hi": "lo:hi"}[it.Part]
		if want == "" {
			u.fail(x, "slice %s: unknown part %q", it.Name, it.Part)
		}
		if shape != want {
			u.fail(x, "slice %s: the slice expression `%s` has the bounds [%s], the unit expects [%s]", it.Name, exprText(u.l.fset, x), shape, want)
		}
		if it.Part == "lo" || it.Part == "lo:" {
			e = x.Low
		} else {
			e = x.High
		}
	case *ast.ForStmt:
		e = x.Cond
	}
	tv, ok := u.p.info.Types[e]
	if !ok {
		u.fail(e, "%s %s: expression without a type", it.Kind, it.Name)
	}
	c := &fnCtx{u: u, info: u.p.info, names: map[types.Object]string{}, used: map[string]bool{},
		ptrs: map[types.Object]bool{}, mutSet: map[types.Object]bool{}, block: true,
		inside: map[types.Object]bool{}, flats: map[string]*flatVar{}}
	text := c.expr(e)
	t := tv.Type
	if b, isb := t.Underlying().(*types.Basic); isb && b.Info()&types.IsUntyped != 0 {
		// an untyped constant in a position that makes it an int (a slice bound, an int parameter)
		t = types.Default(t)
	}
	lt := u.leanType(e, t)
	var keys []string
	for k := range c.flats {
		keys = append(keys, k)
	}
	sort.Strings(keys)
	var params []string
	for _, k := range keys {
		params = append(params, fmt.Sprintf("(%s : %s)", c.flats[k].name, u.leanType(fd, c.flats[k].typ)))
	}
	var where string
	switch it.Kind {
	case "arg":
		where = fmt.Sprintf("argument %d of `%s`", it.Arg, exprText(u.l.fset, hit))
	case "slice":
		where = fmt.Sprintf("bound `%s` of `%s`", it.Part, exprText(u.l.fset, hit))
	case "loopcond":
		where = fmt.Sprintf("the condition `for %s`", exprText(u.l.fset, e))
	}
	var b strings.Builder
	fmt.Fprintf(&b, "/-- Go (%s, inside `%s`): %s: `%s` -/\n", relFile(u, fd), it.Func,
		strings.ReplaceAll(where, "-/", "- /"), strings.ReplaceAll(exprText(u.l.fset, e), "-/", "- /"))
	sep := ""
	if len(params) > 0 {
		sep = " "
	}
	if c.partial {
		fmt.Fprintf(&b, "def %s%s%s : Option %s := do\n  return %s\n", leanIdent(it.Name), sep, strings.Join(params, " "), parenType(lt), text)
	} else {
		fmt.Fprintf(&b, "def %s%s%s : %s :=\n  %s\n", leanIdent(it.Name), sep, strings.Join(params, " "), lt, text)
	}
	u.out = append(u.out, b.String())
}

func parenType(t string) string {
	if strings.Contains(t, " ") {
		return "(" + t + ")"
	}
	return t
}
