package main

// kit/datetime (integer parts only: time.Time, Duration.Seconds() and every float are outside the subset): the guard of
// ToTime (the invalid sentinel), TzOffsetHoursFromUint32. kit/semicircles: the guard of ToDegrees (unit kitangle; a unit is
// one Go package).
func init() {
	units = append(units, Unit{Name: "kitint", Dir: "kit/datetime", Items: []Item{
		{Kind: "cond", Name: "ToTime_isInvalid", Func: "ToTime", Anchor: "Uint32Invalid"},
		{Kind: "func", Name: "TzOffsetHoursFromUint32"},
	}})
	units = append(units, Unit{Name: "kitangle", Dir: "kit/semicircles", Items: []Item{
		{Kind: "const", Name: "piRadians"},
		{Kind: "cond", Name: "ToDegrees_isInvalid", Func: "ToDegrees", Anchor: "Sint32Invalid"},
	}})
}
