package main

// decoder/raw.go: the message-length bookkeeping of (*RawDecoder).Decode (C16's Fit.Raw.msgs / Fit.Raw.decode): the length of
// a data record computed at definition time (1 + the sizes of the fields and developer fields), stored per local message
// number, looked up for a data record; how many bytes each io.ReadFull asks for; the data-size loop condition. The calls of
// io.ReadFull and of the callback are outside the subset: the blocks are the runs around them, the `slice` items the bounds
// of the slices of d.BytesArray handed to them (see item_expr.go). Agreement: lean/FitProps/Go2LeanRawSize.lean.
func init() {
	const f = "RawDecoder.Decode"
	units = append(units, Unit{Name: "rawsize", Dir: "decoder", Items: []Item{
		// lenMesgs := [proto.LocalMesgNumMask + 1]uint32{}   (per sequence: definitions do not survive a file header)
		{Kind: "block", Name: "Decode_lensInit", Func: f, Anchor: "lenMesgs", Solo: true},
		// fileHeaderSize := d.BytesArray[0]
		{Kind: "block", Name: "Decode_headerSize", Func: f, Anchor: "fileHeaderSize", Solo: true},
		// nFields := uint16(d.BytesArray[5])
		{Kind: "block", Name: "Decode_nFields", Func: f, Anchor: "nFields", Solo: true},
		// if fileHeaderSize != 12 && fileHeaderSize != 14 { ErrNotFITFile }
		{Kind: "cond", Name: "Decode_badHeaderSize", Func: f, Anchor: "fileHeaderSize != 12"},
		// for uint32(n-pos) < fileHeaderDataSize
		{Kind: "loopcond", Name: "Decode_moreData", Func: f, Anchor: "", Occur: 1}, // the first `for cond {}` loop of Decode
		// if header & (compressed | definition) == definition
		{Kind: "cond", Name: "Decode_isDefinition", Func: f, Anchor: "proto.MesgDefinitionMask"},
		// lenMesgDef += nFields * 3; lenMesg := uint32(1); for i := uint16(0); i < nFields*3; i += 3 { lenMesg += uint32(d.BytesArray[fieldFirstIndex+i+1]) }
		{Kind: "block", Name: "Decode_fieldSizes", Func: f, Anchor: "lenMesg", Occur: 2},
		// if header & DevDataMask == DevDataMask
		{Kind: "cond", Name: "Decode_hasDevData", Func: f, Anchor: "proto.DevDataMask"},
		// nDevFields := uint16(d.BytesArray[lenMesgDef]); lenMesgDef += 1; devFieldFirstIndex := lenMesgDef
		{Kind: "block", Name: "Decode_devCount", Func: f, Anchor: "devFieldFirstIndex"},
		// lenMesgDef += nDevFields * 3; for i … { lenMesg += uint32(d.BytesArray[devFieldFirstIndex+i+1]) }
		{Kind: "block", Name: "Decode_devFieldSizes", Func: f, Anchor: "lenMesg", Occur: 4, Up: 1},
		// localMesgNum := d.BytesArray[0] & proto.LocalMesgNumMask; lenMesgs[localMesgNum] = lenMesg
		{Kind: "block", Name: "Decode_store", Func: f, Anchor: "lenMesgs[localMesgNum]"},
		// lenMesg := lenMesgs[localMesgNum]
		{Kind: "block", Name: "Decode_lookup", Func: f, Anchor: "lenMesg", Occur: 1, Solo: true},
		// if lenMesg == 0 { ErrMesgDefMissing }
		{Kind: "cond", Name: "Decode_defMissing", Func: f, Anchor: "lenMesg == 0"},
		// the header byte handed to proto.LocalMesgNum (translated in unit proto, tied by C16_go2lean_localMesgNum)
		{Kind: "arg", Name: "Decode_lookupHeader", Func: f, Anchor: "proto.LocalMesgNum", Arg: 0},
		// how many bytes each io.ReadFull asks for and which bytes the callback sees: the bounds of every slice of d.BytesArray
		{Kind: "slice", Name: "Decode_s1_hi", Func: f, Anchor: "d.BytesArray", Occur: 1, Part: "hi"},  // ReadFull [:1] header size
		{Kind: "slice", Name: "Decode_s2_lo", Func: f, Anchor: "d.BytesArray", Occur: 2, Part: "lo:"}, // ReadFull [1:fileHeaderSize]
		{Kind: "slice", Name: "Decode_s2_hi", Func: f, Anchor: "d.BytesArray", Occur: 2, Part: ":hi"},
		{Kind: "slice", Name: "Decode_s3_lo", Func: f, Anchor: "d.BytesArray", Occur: 3, Part: "lo:"}, // [8:12] data type
		{Kind: "slice", Name: "Decode_s3_hi", Func: f, Anchor: "d.BytesArray", Occur: 3, Part: ":hi"},
		{Kind: "slice", Name: "Decode_s4_lo", Func: f, Anchor: "d.BytesArray", Occur: 4, Part: "lo:"}, // [4:8] data size
		{Kind: "slice", Name: "Decode_s4_hi", Func: f, Anchor: "d.BytesArray", Occur: 4, Part: ":hi"},
		{Kind: "slice", Name: "Decode_s5_hi", Func: f, Anchor: "d.BytesArray", Occur: 5, Part: "hi"},  // fn [:fileHeaderSize]
		{Kind: "slice", Name: "Decode_s6_hi", Func: f, Anchor: "d.BytesArray", Occur: 6, Part: "hi"},  // ReadFull [:1] record header
		{Kind: "slice", Name: "Decode_s7_lo", Func: f, Anchor: "d.BytesArray", Occur: 7, Part: "lo:"}, // ReadFull [1:fixedSize]
		{Kind: "slice", Name: "Decode_s7_hi", Func: f, Anchor: "d.BytesArray", Occur: 7, Part: ":hi"},
		{Kind: "slice", Name: "Decode_s8_lo", Func: f, Anchor: "d.BytesArray", Occur: 8, Part: "lo:"}, // ReadFull [lenMesgDef:lenMesgDef+nFields*3]
		{Kind: "slice", Name: "Decode_s8_hi", Func: f, Anchor: "d.BytesArray", Occur: 8, Part: ":hi"},
		{Kind: "slice", Name: "Decode_s9_lo", Func: f, Anchor: "d.BytesArray", Occur: 9, Part: "lo:"}, // ReadFull [lenMesgDef:lenMesgDef+1]
		{Kind: "slice", Name: "Decode_s9_hi", Func: f, Anchor: "d.BytesArray", Occur: 9, Part: ":hi"},
		{Kind: "slice", Name: "Decode_s10_lo", Func: f, Anchor: "d.BytesArray", Occur: 10, Part: "lo:"}, // ReadFull [devFieldFirstIndex:devFieldFirstIndex+nDevFields*3]
		{Kind: "slice", Name: "Decode_s10_hi", Func: f, Anchor: "d.BytesArray", Occur: 10, Part: ":hi"},
		{Kind: "slice", Name: "Decode_s11_hi", Func: f, Anchor: "d.BytesArray", Occur: 11, Part: "hi"},  // fn [:lenMesgDef]
		{Kind: "slice", Name: "Decode_s12_lo", Func: f, Anchor: "d.BytesArray", Occur: 12, Part: "lo:"}, // ReadFull [1:lenMesg]
		{Kind: "slice", Name: "Decode_s12_hi", Func: f, Anchor: "d.BytesArray", Occur: 12, Part: ":hi"},
		{Kind: "slice", Name: "Decode_s13_hi", Func: f, Anchor: "d.BytesArray", Occur: 13, Part: "hi"}, // fn [:lenMesg]
		{Kind: "slice", Name: "Decode_s14_hi", Func: f, Anchor: "d.BytesArray", Occur: 14, Part: "hi"}, // ReadFull [:2] CRC
		{Kind: "slice", Name: "Decode_s15_hi", Func: f, Anchor: "d.BytesArray", Occur: 15, Part: "hi"}, // fn [:2]
		// n += int64(nr) after each of the nine io.ReadFull calls (the model's `used`, and the byte count Decode returns)
		{Kind: "block", Name: "Decode_count1", Func: f, Anchor: "n", Occur: 1, Solo: true},
		{Kind: "block", Name: "Decode_count2", Func: f, Anchor: "n", Occur: 2, Solo: true},
		{Kind: "block", Name: "Decode_count3", Func: f, Anchor: "n", Occur: 3, Solo: true},
		{Kind: "block", Name: "Decode_count4", Func: f, Anchor: "n", Occur: 4, Solo: true},
		{Kind: "block", Name: "Decode_count5", Func: f, Anchor: "n", Occur: 5, Solo: true},
		{Kind: "block", Name: "Decode_count6", Func: f, Anchor: "n", Occur: 6, Solo: true},
		{Kind: "block", Name: "Decode_count7", Func: f, Anchor: "n", Occur: 7, Solo: true},
		{Kind: "block", Name: "Decode_count8", Func: f, Anchor: "n", Occur: 8, Solo: true},
		{Kind: "block", Name: "Decode_count9", Func: f, Anchor: "n", Occur: 9, Solo: true},
		// seq++ after the CRC
		{Kind: "block", Name: "Decode_nextSeq", Func: f, Anchor: "seq", Solo: true},
	}})
}
