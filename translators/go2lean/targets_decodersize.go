package main

// decoder/decoder.go: the size arithmetic of the message loop — what decides array-ness of a field the profile does not
// know and of a developer field, the position counters, the loop test (C03's Fit.DecApi; audited by C03 and C01).
// NOTE: the undersized fallback of decodeFields (`fieldDef.Size < baseType.Size()`) is deliberately not an item here.
func init() {
	units = append(units, Unit{Name: "decodersize", Dir: "decoder", Items: []Item{
		// unknown field: base type / profile type from the definition, array iff the size is a proper multiple of the base type's size
		{Kind: "block", Name: "decodeFields_unknownShape", Func: "Decoder.decodeFields", Anchor: "field.Array"},
		// developer field: base type from the field description, array iff …
		{Kind: "block", Name: "decodeDeveloperFields_shape", Func: "Decoder.decodeDeveloperFields", Anchor: "isArray", Occur: 1},
		// readN: d.n, d.cur = d.n+int64(n), d.cur+uint32(n)
		{Kind: "block", Name: "readN_counters", Func: "Decoder.readN", Anchor: "d.cur"},
		// for d.cur < d.fileHeader.DataSize
		{Kind: "cond", Name: "decodeMessages_more", Func: "Decoder.decodeMessages", Anchor: "d.fileHeader.DataSize"},
		{Kind: "cond", Name: "decodeFields_sizeZero", Func: "Decoder.decodeFields", Anchor: "fieldDef.Size == 0"},
		{Kind: "cond", Name: "decodeDeveloperFields_sizeZero", Func: "Decoder.decodeDeveloperFields", Anchor: "devFieldDef.Size == 0"},
		{Kind: "cond", Name: "decodeFileHeader_badSize", Func: "Decoder.decodeFileHeader", Anchor: "12"},
		{Kind: "cond", Name: "decodeFileHeader_noData", Func: "Decoder.decodeFileHeader", Anchor: "d.fileHeader.DataSize == 0"},
	}})
}
