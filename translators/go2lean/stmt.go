package main

import (
	"fmt"
	"go/ast"
	"go/constant"
	"go/printer"
	"go/token"
	"go/types"
	"strings"
)

var printerCfg = printer.Config{Mode: printer.RawFormat}

// ---------------------------------------------------------------- statements

func (c *fnCtx) stmts(ind int, list []ast.Stmt) {
	n0 := len(c.lines)
	endsWithDecl := false
	for _, s := range list {
		before := len(c.lines)
		c.stmt(ind, s)
		if len(c.lines) > before {
			last := strings.TrimSpace(c.lines[len(c.lines)-1])
			endsWithDecl = strings.HasPrefix(last, "let ")
		}
	}
	if len(c.lines) == n0 || endsWithDecl {
		c.emit(ind, "pure ()")
	}
}

func (c *fnCtx) tmpName(base string) string {
	c.tmp++
	return c.fresh(fmt.Sprintf("%s_%d", base, c.tmp))
}

// rhsValue: the value of e; a call of a function that writes through a pointer parameter is emitted as
// statements first (the written pointees are assigned back), and the text of its single result is returned
func (c *fnCtx) rhsValue(ind int, e ast.Expr) string {
	if call, ok := unparen(e).(*ast.CallExpr); ok {
		if fn, _ := c.callee(call); fn != nil && fn.Pkg() == c.u.p.pkg {
			fi := c.u.function(call, fn)
			if len(fi.mutPtrs) > 0 {
				res := c.callStmt(ind, call)
				if len(res) != 1 {
					c.fail(e, "call of %s yields %d values where one is needed", fn.Name(), len(res))
				}
				return res[0]
			}
		}
	}
	return c.expr(e)
}

func proj(t string, i, n int) string {
	if n == 1 {
		return t
	}
	s := t
	for k := 0; k < i; k++ {
		s += ".2"
	}
	if i < n-1 {
		s += ".1"
	}
	return s
}

// callStmt: a call at statement level; returns the texts of the Go results
func (c *fnCtx) callStmt(ind int, x *ast.CallExpr) []string {
	fn, recv := c.callee(x)
	if fn == nil || fn.Pkg() != c.u.p.pkg {
		if id, ok := unparen(x.Fun).(*ast.Ident); ok && id.Name == "copy" && len(x.Args) == 2 {
			if _, isb := c.info.Uses[id].(*types.Builtin); isb {
				c.copyStmt(ind, x)
				return nil
			}
		}
		if id, ok := unparen(x.Fun).(*ast.Ident); ok && id.Name == "panic" {
			if _, isb := c.info.Uses[id].(*types.Builtin); isb {
				c.part()
				c.emit(ind, "failure")
				return nil
			}
		}
		c.fail(x, "call of %s is outside the subset", exprText(c.u.l.fset, x.Fun))
	}
	fi := c.u.function(x, fn)
	text := c.callText(x, fn, fi, recv)
	n := len(fi.mutPtrs) + fi.nres
	if n == 0 {
		c.emit(ind, "let _ := "+text)
		return nil
	}
	r := c.tmpName("r")
	c.emit(ind, fmt.Sprintf("let %s := %s", r, text))
	var actual []ast.Expr
	if recv != nil {
		actual = append(actual, recv)
	}
	actual = append(actual, x.Args...)
	for k, pi := range fi.mutPtrs {
		c.assignTo(ind, actual[pi], proj(r, k, n), false, true)
	}
	var res []string
	for k := 0; k < fi.nres; k++ {
		res = append(res, proj(r, len(fi.mutPtrs)+k, n))
	}
	return res
}

// copyStmt: `copy(dst, src)` with its result discarded. dst is an assignable slice-valued operand (`p`, `p[i]`) or a slice
// `p[lo:hi]` of one; the elements written are elements of p, so p must be a slice the pointee of a pointer parameter owns
// (checked by assignTo → ownedSlice). src is evaluated first, as it is before the call (Go's copy is a memmove).
func (c *fnCtx) copyStmt(ind int, x *ast.CallExpr) {
	dst, src := unparen(x.Args[0]), x.Args[1]
	if _, ok := c.info.TypeOf(src).Underlying().(*types.Slice); !ok {
		c.fail(x, "copy from a value of type %s", c.info.TypeOf(src))
	}
	t := c.tmpName("src")
	c.emit(ind, fmt.Sprintf("let %s := %s", t, c.expr(src)))
	if se, ok := dst.(*ast.SliceExpr); ok {
		if se.Slice3 {
			c.fail(x, "3-index slice expression")
		}
		if _, ok := c.info.TypeOf(se.X).Underlying().(*types.Slice); !ok {
			c.fail(x, "copy into a slice of a value of type %s", c.info.TypeOf(se.X))
		}
		base := c.expr(se.X)
		lo, hi := "0", "("+base+").length"
		if se.Low != nil {
			lo = c.natOf(se.Low)
		}
		if se.High != nil {
			hi = c.natOf(se.High)
		}
		c.part()
		c.writeElems(ind, se.X, fmt.Sprintf("(← Go.copySlice %s %s %s %s)", base, lo, hi, t))
		return
	}
	if _, ok := c.info.TypeOf(dst).Underlying().(*types.Slice); !ok {
		c.fail(x, "copy into a value of type %s", c.info.TypeOf(dst))
	}
	c.writeElems(ind, dst, fmt.Sprintf("(Go.copyInto %s %s)", c.expr(dst), t))
}

// writeElems: the elements of the slice-valued operand p are overwritten (p keeps its length): allowed where an element
// assignment `p[i] = v` is allowed
func (c *fnCtx) writeElems(ind int, p ast.Expr, val string) {
	switch q := unparen(p).(type) {
	case *ast.Ident:
		// a slice variable (parameter or local) may share its elements with another slice: value semantics would be wrong
		c.fail(p, "copy into the slice variable %s (its elements may be shared with another slice)", q.Name)
	case *ast.IndexExpr:
		// an element (itself a slice) of a slice: the outer slice must be owned; assignTo checks it
	default:
		if why := c.ownedSlice(p); why != "" {
			c.fail(p, "copy into %s: %s", exprText(c.u.l.fset, p), why)
		}
	}
	c.assignTo(ind, p, val, false, true)
}

// assignTo: lhs = val. define: `:=` (new variables are declared). internal: write-back through a pointer parameter.
func (c *fnCtx) assignTo(ind int, lhs ast.Expr, val string, define, internal bool) {
	switch l := unparen(lhs).(type) {
	case *ast.Ident:
		if l.Name == "_" {
			c.emit(ind, "let _ := "+val)
			return
		}
		if obj := c.info.Defs[l]; obj != nil && define {
			name := c.declare(obj)
			c.emit(ind, fmt.Sprintf("let mut %s : %s := %s", name, c.u.leanType(l, obj.Type()), val))
			return
		}
		obj := c.info.Uses[l]
		if target, ok := c.alias[obj]; ok {
			if !internal {
				c.fail(lhs, "assignment to the alias %s itself", l.Name)
			}
			c.assignTo(ind, target, val, false, true)
			return
		}
		if c.ptrs[obj] && !internal {
			c.fail(lhs, "assignment to the pointer parameter %s itself", l.Name)
		}
		if name, ok := c.names[obj]; ok {
			c.emit(ind, fmt.Sprintf("%s := %s", name, val))
			return
		}
		if name, ok := c.flatFor(l); ok {
			c.flats[exprText(c.u.l.fset, l)].assigned = true
			c.emit(ind, fmt.Sprintf("%s := %s", name, val))
			return
		}
		c.fail(lhs, "assignment to %s (not a local variable or parameter)", l.Name)
	case *ast.StarExpr:
		if id, ok := unparen(l.X).(*ast.Ident); ok {
			if obj := c.info.Uses[id]; obj != nil && c.ptrs[obj] {
				c.emit(ind, fmt.Sprintf("%s := %s", c.names[obj], val))
				return
			}
			if target, ok := c.alias[c.info.Uses[id]]; ok {
				c.assignTo(ind, target, val, false, true)
				return
			}
		}
		if name, ok := c.flatFor(l); ok {
			c.flats[exprText(c.u.l.fset, l)].assigned = true
			c.emit(ind, fmt.Sprintf("%s := %s", name, val))
			return
		}
		c.fail(lhs, "assignment through a pointer that is not a pointer parameter")
	case *ast.SelectorExpr:
		if name, ok := c.flatFor(l); ok {
			c.flats[exprText(c.u.l.fset, l)].assigned = true
			c.emit(ind, fmt.Sprintf("%s := %s", name, val))
			return
		}
		sel := c.info.Selections[l]
		if sel == nil || sel.Kind() != types.FieldVal || len(sel.Index()) != 1 {
			c.fail(lhs, "assignment to %s", exprText(c.u.l.fset, lhs))
		}
		base := c.expr(l.X)
		c.assignTo(ind, l.X, fmt.Sprintf("{ %s with %s := %s }", base, leanIdent(l.Sel.Name), val), false, true)
	case *ast.IndexExpr:
		bt := c.info.TypeOf(l.X)
		if _, ok := bt.Underlying().(*types.Array); !ok {
			// an element of a slice may be shared with other slices. Allowed only for a slice that is a field (path) of
			// the pointee of a pointer parameter and that this function never copies: the pointee is taken to OWN its
			// slices (no other live slice shares their backing array) — stated in notes/go2lean.md, "Ownership".
			if why := c.ownedSlice(l.X); why != "" {
				c.fail(lhs, "assignment to an element of a value of type %s: %s", bt, why)
			}
		}
		base := c.expr(l.X)
		idx := c.expr(l.Index)
		_, signed, ok := intKind(c.info.TypeOf(l.Index))
		if !ok {
			c.fail(lhs, "index of type %s", c.info.TypeOf(l.Index))
		}
		c.part()
		f := "Go.setIdx"
		if signed {
			f = "Go.setIdxI"
		}
		c.assignTo(ind, l.X, fmt.Sprintf("(← %s %s %s %s)", f, base, idx, val), false, true)
	default:
		c.fail(lhs, "assignment to %s", exprText(c.u.l.fset, lhs))
	}
}

var opOfAssign = map[token.Token]token.Token{
	token.ADD_ASSIGN: token.ADD, token.SUB_ASSIGN: token.SUB, token.MUL_ASSIGN: token.MUL, token.QUO_ASSIGN: token.QUO,
	token.REM_ASSIGN: token.REM, token.AND_ASSIGN: token.AND, token.OR_ASSIGN: token.OR, token.XOR_ASSIGN: token.XOR,
	token.SHL_ASSIGN: token.SHL, token.SHR_ASSIGN: token.SHR, token.AND_NOT_ASSIGN: token.AND_NOT,
}

func (c *fnCtx) stmt(ind int, s ast.Stmt) {
	// hidden tails ("Capacity"): a tail names what lies beyond the length of a slice operand NOW. Any statement that can
	// change a variable ends the life of every tail (an `if` keeps the tails its condition introduced for both branches)
	switch st := s.(type) {
	case *ast.IfStmt:
		defer func() { c.tails = nil }()
	case *ast.ReturnStmt, *ast.EmptyStmt, *ast.BranchStmt:
	case *ast.BlockStmt:
		_ = st
	default:
		defer func() { c.tails = nil }()
	}
	switch s := s.(type) {
	case *ast.EmptyStmt:
	case *ast.BlockStmt:
		for _, x := range s.List {
			c.stmt(ind, x)
		}
	case *ast.ExprStmt:
		call, ok := unparen(s.X).(*ast.CallExpr)
		if !ok {
			c.fail(s, "expression statement")
		}
		c.callStmt(ind, call)
	case *ast.IncDecStmt:
		op := token.ADD
		if s.Tok == token.DEC {
			op = token.SUB
		}
		t := c.info.TypeOf(s.X)
		w, signed, ok := intKind(t)
		if !ok {
			c.fail(s, "%s on type %s", s.Tok, t)
		}
		one := "1"
		if signed {
			one = "(1 : Int)"
		}
		c.assignTo(ind, s.X, c.arith(s, op, w, signed, c.expr(s.X), one, true), false, false)
	case *ast.AssignStmt:
		c.assign(ind, s)
	case *ast.DeclStmt:
		gd := s.Decl.(*ast.GenDecl)
		if gd.Tok == token.CONST || gd.Tok == token.TYPE {
			if gd.Tok == token.TYPE {
				c.fail(s, "local type declaration")
			}
			return // constants are resolved by the type checker where they are used
		}
		for _, sp := range gd.Specs {
			vs := sp.(*ast.ValueSpec)
			if len(vs.Values) != 0 && len(vs.Values) != len(vs.Names) {
				c.fail(s, "var declaration with a multi-valued initialiser")
			}
			var vals []string
			for i := range vs.Names {
				if len(vs.Values) > 0 {
					vals = append(vals, c.rhsValue(ind, vs.Values[i]))
				}
			}
			for i, nm := range vs.Names {
				obj := c.info.Defs[nm]
				v := ""
				if len(vals) > 0 {
					v = vals[i]
				} else {
					v = c.u.zero(nm, obj.Type())
				}
				if nm.Name == "_" {
					c.emit(ind, "let _ := "+v)
					continue
				}
				c.emit(ind, fmt.Sprintf("let mut %s : %s := %s", c.declare(obj), c.u.leanType(nm, obj.Type()), v))
			}
		}
	case *ast.ReturnStmt:
		c.ret(ind, s)
	case *ast.IfStmt:
		if s.Init != nil {
			c.stmt(ind, s.Init)
		}
		c.emit(ind, "if "+c.expr(s.Cond)+" then")
		tails := map[string]string{}
		for k, v := range c.tails {
			tails[k] = v
		}
		restore := func() {
			c.tails = map[string]string{}
			for k, v := range tails {
				c.tails[k] = v
			}
		}
		c.stmts(ind+1, s.Body.List)
		switch e := s.Else.(type) {
		case nil:
		case *ast.BlockStmt:
			c.emit(ind, "else")
			restore()
			c.stmts(ind+1, e.List)
		case *ast.IfStmt:
			c.emit(ind, "else")
			restore()
			c.stmts(ind+1, []ast.Stmt{e})
		default:
			c.fail(s, "else branch %T", e)
		}
	case *ast.SwitchStmt:
		c.switchStmt(ind, s)
	case *ast.RangeStmt:
		c.rangeStmt(ind, s)
	case *ast.ForStmt:
		c.forStmt(ind, s)
	case *ast.BranchStmt:
		if s.Label != nil {
			c.fail(s, "%s with a label", s.Tok)
		}
		switch s.Tok {
		case token.BREAK:
			if c.loop == 0 || c.inSwitch > 0 {
				c.fail(s, "break outside a loop or inside a switch")
			}
			c.emit(ind, "break")
		case token.CONTINUE:
			if c.loop == 0 {
				c.fail(s, "continue outside a loop")
			}
			c.emit(ind, "continue")
		default:
			c.fail(s, "%s statement", s.Tok)
		}
	default:
		c.fail(s, "statement %T is outside the subset", s)
	}
}

func (c *fnCtx) assign(ind int, s *ast.AssignStmt) {
	if op, ok := opOfAssign[s.Tok]; ok {
		if len(s.Lhs) != 1 || len(s.Rhs) != 1 {
			c.fail(s, "operator assignment with several operands")
		}
		// x op= y  is  x = x op (y), with the type of x
		be := &ast.BinaryExpr{X: s.Lhs[0], Op: op, Y: s.Rhs[0], OpPos: s.TokPos}
		t := c.info.TypeOf(s.Lhs[0])
		if isString(t) && op == token.ADD {
			c.assignTo(ind, s.Lhs[0], "("+c.expr(s.Lhs[0])+" ++ "+c.expr(s.Rhs[0])+")", false, false)
			return
		}
		w, signed, ok := intKind(t)
		if !ok {
			c.fail(s, "%s on type %s", s.Tok, t)
		}
		a := c.expr(s.Lhs[0])
		var val string
		if op == token.SHL || op == token.SHR {
			// reuse the shift translation: the type checker has no entry for the synthetic node, so do it here
			rt := c.info.TypeOf(s.Rhs[0])
			var cnt string
			if rtv := c.info.Types[s.Rhs[0]]; rtv.Value != nil {
				cnt = rtv.Value.ExactString()
				if strings.HasPrefix(cnt, "-") {
					c.fail(s, "negative shift count")
				}
			} else {
				_, rs, rok := intKind(rt)
				if !rok || rs {
					c.fail(s, "shift count of signed or non-integer type %s", rt)
				}
				cnt = c.expr(s.Rhs[0])
			}
			switch {
			case op == token.SHR:
				val = fmt.Sprintf("(%s >>> %s)", a, cnt)
			case signed:
				val = fmt.Sprintf("(Go.wrapI %d (%s * 2^%s))", w, a, cnt)
			default:
				val = fmt.Sprintf("((%s <<< %s) %% %s)", a, cnt, pow2(w))
			}
		} else {
			rv := c.info.Types[s.Rhs[0]].Value
			val = c.arith(be, op, w, signed, a, c.expr(s.Rhs[0]), rv != nil && rv.ExactString() != "0")
		}
		c.assignTo(ind, s.Lhs[0], val, false, false)
		return
	}
	if s.Tok != token.DEFINE && s.Tok != token.ASSIGN {
		c.fail(s, "assignment operator %s", s.Tok)
	}
	define := s.Tok == token.DEFINE
	if len(s.Lhs) == len(s.Rhs) {
		if len(s.Lhs) == 1 && define {
			if ue, ok := unparen(s.Rhs[0]).(*ast.UnaryExpr); ok && ue.Op == token.AND {
				c.aliasInd = ind
				c.defineAlias(s, s.Lhs[0], ue.X)
				return
			}
		}
		if len(s.Lhs) == 1 {
			if !define {
				if se, ok := unparen(s.Rhs[0]).(*ast.SliceExpr); ok && !se.Slice3 && se.Low == nil && se.High != nil &&
					exprText(c.u.l.fset, unparen(se.X)) == exprText(c.u.l.fset, unparen(s.Lhs[0])) {
					if _, isSl := c.info.TypeOf(se.X).Underlying().(*types.Slice); isSl {
						if cv := c.info.Types[se.High].Value; cv == nil || cv.ExactString() != "0" {
							// x = x[:n]: the re-slice in place, the one form that may go beyond the length (up to the capacity)
							tail := c.tailFor(se.X)
							n := c.natOf(se.High)
							c.part()
							c.assignTo(ind, s.Lhs[0], fmt.Sprintf("(← Go.reslice %s %s %s)", c.expr(se.X), n, tail), false, false)
							return
						}
					}
				}
				c.checkNoSharing(s)
				if id, ok := unparen(s.Rhs[0]).(*ast.Ident); ok && id.Name == "nil" && c.info.Uses[id] == types.Universe.Lookup("nil") {
					if _, isSl := c.info.TypeOf(s.Lhs[0]).Underlying().(*types.Slice); isSl {
						c.assignTo(ind, s.Lhs[0], "[]", false, false) // a nil slice is the empty slice (len 0; nothing distinguishes them in the subset)
						return
					}
				}
			}
			c.assignTo(ind, s.Lhs[0], c.rhsValue(ind, s.Rhs[0]), define, false)
			return
		}
		// tuple assignment: all right-hand sides are evaluated before any assignment
		var tmps []string
		for i, r := range s.Rhs {
			v := c.rhsValue(ind, r)
			t := c.tmpName("t")
			c.emit(ind, fmt.Sprintf("let %s : %s := %s", t, c.u.leanType(r, c.info.TypeOf(s.Lhs[i])), v))
			tmps = append(tmps, t)
		}
		for i, l := range s.Lhs {
			c.assignTo(ind, l, tmps[i], define, false)
		}
		return
	}
	if len(s.Rhs) != 1 {
		c.fail(s, "assignment of %d values to %d operands", len(s.Rhs), len(s.Lhs))
	}
	call, ok := unparen(s.Rhs[0]).(*ast.CallExpr)
	if !ok {
		c.fail(s, "multi-valued right-hand side that is not a call (map index, type assertion, receive)")
	}
	res := c.callStmt(ind, call)
	if len(res) != len(s.Lhs) {
		c.fail(s, "call yields %d kept results for %d operands (a dropped error result is assigned?)", len(res), len(s.Lhs))
	}
	for i, l := range s.Lhs {
		c.assignTo(ind, l, res[i], define, false)
	}
}

func (c *fnCtx) tuple(vals []string) string {
	switch len(vals) {
	case 0:
		return "()"
	case 1:
		return vals[0]
	}
	return "(" + strings.Join(vals, ", ") + ")"
}

func (c *fnCtx) ret(ind int, s *ast.ReturnStmt) {
	var vals []string
	switch {
	case len(s.Results) == 0:
		for i, obj := range c.named {
			if !c.dropErr[i] {
				vals = append(vals, c.names[obj])
			}
		}
		if c.named == nil && len(c.dropErr) > 0 {
			c.fail(s, "bare return in a function with unnamed results")
		}
	case len(s.Results) == len(c.dropErr):
		for i, r := range s.Results {
			if c.dropErr[i] {
				continue
			}
			vals = append(vals, c.rhsValue(ind, r))
		}
	case len(s.Results) == 1:
		call, ok := unparen(s.Results[0]).(*ast.CallExpr)
		if !ok {
			c.fail(s, "return of a multi-valued expression that is not a call")
		}
		for _, d := range c.dropErr {
			if d {
				c.fail(s, "return f() in a function with an error result")
			}
		}
		vals = c.callStmt(ind, call)
	default:
		c.fail(s, "return of %d values in a function with %d results", len(s.Results), len(c.dropErr))
	}
	if c.block {
		c.hasRet = true
		c.emit(ind, "return ⟪OUT:some "+c.tuple(vals)+"⟫")
		return
	}
	var all []string
	for _, m := range c.muts {
		all = append(all, c.names[m])
	}
	all = append(all, vals...)
	c.emit(ind, "return "+c.tuple(all))
}

func (c *fnCtx) switchStmt(ind int, s *ast.SwitchStmt) {
	if s.Init != nil {
		c.stmt(ind, s.Init)
	}
	tag := ""
	if s.Tag != nil {
		tag = c.tmpName("sw")
		c.emit(ind, fmt.Sprintf("let %s : %s := %s", tag, c.u.leanType(s.Tag, c.info.TypeOf(s.Tag)), c.expr(s.Tag)))
	}
	var def *ast.CaseClause
	var clauses []*ast.CaseClause
	for _, cc := range s.Body.List {
		cl := cc.(*ast.CaseClause)
		for _, b := range cl.Body {
			if br, ok := b.(*ast.BranchStmt); ok && br.Tok == token.FALLTHROUGH {
				c.fail(br, "fallthrough")
			}
		}
		if cl.List == nil {
			def = cl
		} else {
			clauses = append(clauses, cl)
		}
	}
	c.inSwitch++
	defer func() { c.inSwitch-- }()
	cur := ind
	for _, cl := range clauses {
		var conds []string
		for _, e := range cl.List {
			before := c.nparts
			v := c.expr(e)
			if c.nparts != before {
				c.fail(e, "an operation that can panic in a case expression")
			}
			if tag != "" {
				tt, et := c.info.TypeOf(s.Tag), c.info.TypeOf(e)
				_, _, ti := intKind(tt)
				_, _, ei := intKind(et)
				if !((ti && ei) || (isString(tt) && isString(et)) || (isBool(tt) && isBool(et))) {
					c.fail(e, "switch on type %s", tt)
				}
				v = "(" + tag + " == " + v + ")"
			}
			conds = append(conds, v)
		}
		cond := conds[0]
		if len(conds) > 1 {
			cond = "(" + strings.Join(conds, " || ") + ")"
		}
		c.emit(cur, "if "+cond+" then")
		c.stmts(cur+1, cl.Body)
		c.emit(cur, "else")
		cur++
	}
	if def != nil {
		c.stmts(cur, def.Body)
	} else {
		c.emit(cur, "pure ()")
	}
}

// assignedRoots: root variables assigned (or written through, or whose address is taken, or that are the receiver of a
// method call) inside n
func assignedRoots(info *types.Info, n ast.Node) map[types.Object]bool {
	res := map[types.Object]bool{}
	mark := func(e ast.Expr) {
		if id := rootIdent(e); id != nil {
			if obj := info.Uses[id]; obj != nil {
				res[obj] = true
			}
			if obj := info.Defs[id]; obj != nil {
				res[obj] = true
			}
		}
	}
	ast.Inspect(n, func(n ast.Node) bool {
		switch s := n.(type) {
		case *ast.AssignStmt:
			for _, l := range s.Lhs {
				mark(l)
			}
		case *ast.IncDecStmt:
			mark(s.X)
		case *ast.UnaryExpr:
			if s.Op == token.AND {
				mark(s.X)
			}
		case *ast.RangeStmt:
			if s.Tok == token.ASSIGN {
				if s.Key != nil {
					mark(s.Key)
				}
				if s.Value != nil {
					mark(s.Value)
				}
			}
		case *ast.CallExpr:
			if se, ok := unparen(s.Fun).(*ast.SelectorExpr); ok {
				if sel := info.Selections[se]; sel != nil && sel.Kind() == types.MethodVal {
					mark(se.X)
				}
			}
			for _, a := range s.Args { // a pointer passed on may be written through
				if _, isPtr := info.TypeOf(a).Underlying().(*types.Pointer); isPtr {
					mark(a)
				}
			}
		}
		return true
	})
	return res
}

// freeRoots: variables mentioned in e
func freeVars(info *types.Info, e ast.Node) map[types.Object]bool {
	res := map[types.Object]bool{}
	ast.Inspect(e, func(n ast.Node) bool {
		if id, ok := n.(*ast.Ident); ok {
			if v, ok := info.Uses[id].(*types.Var); ok {
				res[v] = true
			}
		}
		return true
	})
	return res
}

func (c *fnCtx) loopBody(ind int, body *ast.BlockStmt, vars ...types.Object) {
	if c.loopVars == nil {
		c.loopVars = map[types.Object]bool{}
	}
	for _, v := range vars {
		if v != nil {
			c.loopVars[v] = true
		}
	}
	c.loopBodies = append(c.loopBodies, body)
	defer func() {
		c.loopBodies = c.loopBodies[:len(c.loopBodies)-1]
		for _, v := range vars {
			delete(c.loopVars, v)
		}
	}()
	c.loop++
	sw := c.inSwitch
	c.inSwitch = 0
	c.stmts(ind, body.List)
	c.inSwitch = sw
	c.loop--
}

func (c *fnCtx) rangeStmt(ind int, s *ast.RangeStmt) {
	if s.Tok == token.ASSIGN {
		c.fail(s, "range with = (assignment to existing variables)")
	}
	xt := c.info.TypeOf(s.X)
	switch xt.Underlying().(type) {
	case *types.Slice, *types.Array:
	default:
		c.fail(s, "range over a value of type %s", xt)
	}
	asg := assignedRoots(c.info, s.Body)
	if s.Value != nil {
		// `for _, v := range s` reads s[i] as the loop goes: the body must not write to s. (`for i := range s` only needs
		// len(s), evaluated once before the loop in Go and here alike.)
		for v := range freeVars(c.info, s.X) {
			if asg[v] {
				c.fail(s, "the loop body assigns to %s, whose elements the range statement reads", v.Name())
			}
		}
	}
	before := c.nparts
	x := c.expr(s.X)
	if c.nparts != before {
		// evaluated once, before the loop: bind it
		t := c.tmpName("rng")
		c.emit(ind, fmt.Sprintf("let %s := %s", t, x))
		x = t
	}
	name := func(e ast.Expr) (string, bool) {
		if e == nil {
			return "", false
		}
		id, ok := e.(*ast.Ident)
		if !ok {
			c.fail(e, "range variable that is not an identifier")
		}
		if id.Name == "_" {
			return "", false
		}
		obj := c.info.Defs[id]
		if asg[obj] {
			c.fail(e, "the loop body assigns to the range variable %s", id.Name)
		}
		return c.declare(obj), true
	}
	k, hasK := name(s.Key)
	v, hasV := name(s.Value)
	switch {
	case hasK && hasV:
		c.emit(ind, fmt.Sprintf("for (%s, %s) in Go.enumI %s do", k, v, x))
	case hasK:
		c.emit(ind, fmt.Sprintf("for %s in Go.rangeI (%s).length do", k, x))
	case hasV:
		c.emit(ind, fmt.Sprintf("for %s in %s do", v, x))
	default:
		c.emit(ind, fmt.Sprintf("for _ in %s do", x))
	}
	var kobj types.Object
	if kid, ok := s.Key.(*ast.Ident); ok && hasK {
		kobj = c.info.Defs[kid]
	}
	c.loopBody(ind+1, s.Body, kobj)
}

// forStmt: `for i := a; i < b; i++ { … }` (and <=, >, >= with ++/--) where the body assigns neither i nor anything b mentions
func (c *fnCtx) forStmt(ind int, s *ast.ForStmt) {
	bad := func(why string) { c.fail(s, "for loop without an obvious bound: %s", why) }
	if s.Init == nil || s.Cond == nil || s.Post == nil {
		bad("only the three-clause form `for i := a; i < b; i++` is in the subset")
	}
	init, ok := s.Init.(*ast.AssignStmt)
	if !ok || init.Tok != token.DEFINE || len(init.Lhs) != 1 || len(init.Rhs) != 1 {
		bad("init is not `i := a`")
	}
	iv := init.Lhs[0].(*ast.Ident)
	obj := c.info.Defs[iv]
	w, signed, isInt := intKind(obj.Type())
	if !isInt {
		bad("loop variable of type " + obj.Type().String())
	}
	cond, ok := unparen(s.Cond).(*ast.BinaryExpr)
	if !ok {
		bad("condition is not a comparison")
	}
	cid, ok := unparen(cond.X).(*ast.Ident)
	if !ok || c.info.Uses[cid] != obj {
		bad("condition does not compare the loop variable (on the left)")
	}
	up := false
	step := uint64(1)
	switch p := s.Post.(type) {
	case *ast.IncDecStmt:
		pid, ok := unparen(p.X).(*ast.Ident)
		if !ok || c.info.Uses[pid] != obj {
			bad("post statement does not step the loop variable")
		}
		up = p.Tok == token.INC
	case *ast.AssignStmt:
		// `i += k` with constants a (start) and k ≥ 1 such that (max of the type − a) is a multiple of k: the values a, a+k, …
		// never pass the maximum of the type without hitting it, and at the maximum `i < b` is false for every b, so the
		// Go loop cannot wrap around. Only with `<`. (decoder/raw.go: `for i := uint16(0); i < nFields*3; i += 3`.)
		pid, ok := unparen(p.Lhs[0]).(*ast.Ident)
		if p.Tok != token.ADD_ASSIGN || len(p.Lhs) != 1 || len(p.Rhs) != 1 || !ok || c.info.Uses[pid] != obj {
			bad("post statement is not i++ / i-- / i += k")
		}
		kv, av := c.info.Types[p.Rhs[0]].Value, c.info.Types[init.Rhs[0]].Value
		if kv == nil || av == nil || cond.Op != token.LSS {
			bad("a step `i += k` needs a constant start, a constant step and the comparison `<`")
		}
		k, okk := constant.Uint64Val(constant.ToInt(kv))
		a0, oka := constant.Uint64Val(constant.ToInt(av))
		max := ^uint64(0) >> (64 - uint(w))
		if signed {
			max >>= 1
		}
		if !okk || !oka || k == 0 || a0 > max || (max-a0)%k != 0 {
			bad("with this start and step the loop variable could pass the maximum of its type (the loop could wrap around)")
		}
		step = k
		up = true
	default:
		bad("post statement is not i++ / i-- / i += k")
	}
	asg := assignedRoots(c.info, s.Body)
	if asg[obj] {
		bad("the body assigns to the loop variable")
	}
	if c.info.Types[cond.Y].Value == nil { // a constant bound (e.g. len of an array) cannot move
		for v := range freeVars(c.info, cond.Y) {
			if asg[v] {
				bad("the body assigns to " + v.Name() + ", which the bound mentions")
			}
		}
	}
	before := c.nparts
	a := c.rhsValue(ind, init.Rhs[0])
	b := c.expr(cond.Y)
	if c.nparts != before {
		bad("start or bound can panic")
	}
	// a bound at the extreme of the type would make the Go loop wrap around: excluded
	extreme := func(incl bool) {
		if !incl {
			return
		}
		bv := c.info.Types[cond.Y].Value
		if bv == nil {
			bad("inclusive bound that is not a constant")
		}
		lim := map[bool]string{true: fmt.Sprint((uint64(1) << (w - 1)) - 1), false: "-" + fmt.Sprint(uint64(1)<<(w-1))}[up]
		if !signed {
			lim = map[bool]string{true: fmt.Sprint(^uint64(0) >> (64 - w)), false: "0"}[up]
		}
		if bv.ExactString() == lim {
			bad("inclusive bound at the extreme of the type (the loop would wrap around)")
		}
	}
	name := c.declare(obj)
	f := map[bool]string{true: "Go.upI", false: "Go.upN"}[signed]
	g := map[bool]string{true: "Go.downI", false: "Go.downN"}[signed]
	one := map[bool]string{true: "(1 : Int)", false: "1"}[signed]
	switch {
	case up && cond.Op == token.LSS && step != 1:
		c.emit(ind, fmt.Sprintf("for %s in %s %s %s %d do", name, map[bool]string{true: "Go.stepI", false: "Go.stepN"}[signed], a, b, step))
	case up && cond.Op == token.LSS:
		c.emit(ind, fmt.Sprintf("for %s in %s %s %s do", name, f, a, b))
	case up && cond.Op == token.LEQ:
		extreme(true)
		c.emit(ind, fmt.Sprintf("for %s in %s %s (%s + %s) do", name, f, a, b, one))
	case !up && cond.Op == token.GEQ:
		extreme(true)
		c.emit(ind, fmt.Sprintf("for %s in %s %s %s do", name, g, a, b))
	case !up && cond.Op == token.GTR:
		c.emit(ind, fmt.Sprintf("for %s in %s %s (%s + %s) do", name, g, a, b, one))
	default:
		bad("direction of the step and comparison " + cond.Op.String() + " do not match")
	}
	c.loopBody(ind+1, s.Body, obj)
}

// ownedSlice: may elements of the slice-valued expression e be assigned? "" if so, else the reason.
// (1) e is a field path of the pointee of a pointer parameter (the pointee is taken to own its slices: "Ownership" in
// notes/go2lean.md); (2) the function makes no copy of that slice value: every occurrence of e in it is the operand of an
// index expression, of len, of a range statement, the left-hand side of an assignment, or sits inside the right-hand side of
// an assignment to e itself (`e = append(e, x)`, `e = e[:0]`). Otherwise a second slice value could share the backing array
// and would have to see the write.
func (c *fnCtx) ownedSlice(e ast.Expr) string {
	sel, ok := unparen(e).(*ast.SelectorExpr)
	if !ok {
		return "only a slice that is a field of the pointee of a pointer parameter may be written (slices may alias)"
	}
	root := rootIdent(sel)
	if root == nil || !c.ptrs[c.info.Uses[root]] {
		return "only a slice that is a field of the pointee of a pointer parameter may be written (slices may alias)"
	}
	path := exprText(c.u.l.fset, sel)
	bad := ""
	var visit func(n ast.Node, allowed bool)
	is := func(x ast.Expr) bool { return x != nil && exprText(c.u.l.fset, unparen(x)) == path }
	visit = func(n ast.Node, inSelfAssign bool) {
		if n == nil || bad != "" {
			return
		}
		switch x := n.(type) {
		case *ast.AssignStmt:
			self := false
			for _, l := range x.Lhs {
				if is(l) {
					self = true
				} else {
					visit(l, inSelfAssign)
				}
			}
			for _, r := range x.Rhs {
				visit(r, inSelfAssign || self)
			}
			return
		case *ast.IndexExpr:
			if is(x.X) {
				visit(x.Index, inSelfAssign)
				return
			}
		case *ast.RangeStmt:
			if is(x.X) {
				visit(x.Body, inSelfAssign)
				return
			}
		case *ast.CallExpr:
			if id, ok := unparen(x.Fun).(*ast.Ident); ok && (id.Name == "len" || id.Name == "cap") && len(x.Args) == 1 && is(x.Args[0]) {
				if _, isb := c.info.Uses[id].(*types.Builtin); isb {
					return
				}
			}
			if id, ok := unparen(x.Fun).(*ast.Ident); ok && id.Name == "copy" && len(x.Args) == 2 {
				if _, isb := c.info.Uses[id].(*types.Builtin); isb {
					// copy(dst, src) keeps no reference to its operands: the slice and slices of it may be passed
					for _, a := range x.Args {
						if se, ok := unparen(a).(*ast.SliceExpr); ok && is(se.X) {
							visit(se.Low, inSelfAssign)
							visit(se.High, inSelfAssign)
						} else if !is(a) {
							visit(a, inSelfAssign)
						}
					}
					return
				}
			}
		case ast.Expr:
			if is(x) {
				if !inSelfAssign {
					bad = fmt.Sprintf("the slice %s is also used as a value at %s (a copy of it would share the elements that are written)", path, c.u.l.fset.Position(x.Pos()))
				}
				return
			}
		}
		// children
		ast.Inspect(n, func(ch ast.Node) bool {
			if ch == n || ch == nil {
				return ch == n
			}
			visit(ch, inSelfAssign)
			return false
		})
	}
	if c.scope != nil {
		visit(c.scope, false)
	}
	return bad
}

// checkNoSharing: `l.items[i] = item` would make the structure share the backing array of a slice somebody else holds;
// value semantics would no longer be what the code does. A slice stored into (a field path / an element of a field path
// of) the pointee of a pointer parameter must be new: nil, a literal, make(…), a call, or an append to / a slice of the
// operand itself.
func (c *fnCtx) checkNoSharing(s *ast.AssignStmt) {
	lhs, rhs := unparen(s.Lhs[0]), unparen(s.Rhs[0])
	if _, ok := c.info.TypeOf(lhs).Underlying().(*types.Slice); !ok {
		return
	}
	if _, isId := lhs.(*ast.Ident); isId {
		return
	}
	root := rootIdent(lhs)
	if root == nil || !c.ptrs[c.info.Uses[root]] {
		return
	}
	self := exprText(c.u.l.fset, lhs)
	var fresh func(e ast.Expr) bool
	fresh = func(e ast.Expr) bool {
		switch x := unparen(e).(type) {
		case *ast.Ident:
			return x.Name == "nil"
		case *ast.CompositeLit:
			return true
		case *ast.SliceExpr:
			return exprText(c.u.l.fset, unparen(x.X)) == self || fresh(x.X)
		case *ast.CallExpr:
			if id, ok := unparen(x.Fun).(*ast.Ident); ok {
				if _, isb := c.info.Uses[id].(*types.Builtin); isb {
					switch id.Name {
					case "make":
						return true
					case "append":
						return len(x.Args) > 0 && (exprText(c.u.l.fset, unparen(x.Args[0])) == self || fresh(x.Args[0]))
					}
					return false
				}
			}
			return true // a function of the package: translated, and subject to the same rule
		}
		return exprText(c.u.l.fset, unparen(e)) == self
	}
	if !fresh(rhs) {
		c.fail(s, "%s = %s stores a slice that something else may hold (shared backing array): outside the subset", self, exprText(c.u.l.fset, rhs))
	}
}

// defineAlias: `p := &s[i]` — p stands for the element s[i] for the rest of the enclosing statement list. Sound when, as long
// as p is in scope, neither i nor the slice/array s itself (as opposed to its elements) is assigned: checked over the whole
// enclosing function body for the index variable and the slice path.
func (c *fnCtx) defineAlias(s *ast.AssignStmt, lhs ast.Expr, target ast.Expr) {
	id, ok := lhs.(*ast.Ident)
	if !ok || id.Name == "_" {
		c.fail(s, "address-of assigned to something that is not a new variable")
	}
	ix, ok := unparen(target).(*ast.IndexExpr)
	if !ok {
		c.fail(s, "address-of expression &%s (only &s[i] is in the subset)", exprText(c.u.l.fset, target))
	}
	switch c.info.TypeOf(ix.X).Underlying().(type) {
	case *types.Slice:
		if why := c.ownedSlice(ix.X); why != "" {
			c.fail(s, "&%s: %s", exprText(c.u.l.fset, target), why)
		}
	case *types.Array:
	default:
		c.fail(s, "address of an element of a value of type %s", c.info.TypeOf(ix.X))
	}
	iid, ok := unparen(ix.Index).(*ast.Ident)
	if !ok {
		c.fail(s, "&s[e] with an index that is not a variable")
	}
	if c.loopVars == nil || !c.loopVars[c.info.Uses[iid]] {
		c.fail(s, "&s[%s]: the index is not the variable of an enclosing range/for loop (it could change while the alias is live)", iid.Name)
	}
	// the slice itself must not be re-assigned inside the loop body that declares the alias
	path := exprText(c.u.l.fset, unparen(ix.X))
	for _, body := range c.loopBodies {
		ast.Inspect(body, func(n ast.Node) bool {
			if as, ok := n.(*ast.AssignStmt); ok {
				for _, l := range as.Lhs {
					if exprText(c.u.l.fset, unparen(l)) == path {
						c.fail(as, "%s is assigned while the alias %s := &%s[%s] is live", path, id.Name, path, iid.Name)
					}
				}
			}
			return true
		})
	}
	obj := c.info.Defs[id]
	if c.alias == nil {
		c.alias = map[types.Object]ast.Expr{}
	}
	c.alias[obj] = target
	// Go evaluates &s[i] here: an index out of range panics at this point
	c.emit(c.aliasInd, "let _ := "+c.expr(target))
}
