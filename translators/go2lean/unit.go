package main

import (
	"bytes"
	"fmt"
	"go/ast"
	"go/token"
	"go/types"
	"os"
	"path/filepath"
	"sort"
	"strings"
)

// ---------------------------------------------------------------- functions

func (u *unitCtx) findDecl(fn *types.Func) *ast.FuncDecl {
	for _, f := range u.p.files {
		for _, d := range f.Decls {
			if fd, ok := d.(*ast.FuncDecl); ok && u.p.info.Defs[fd.Name] == fn {
				return fd
			}
		}
	}
	return nil
}

func funcLeanName(fn *types.Func) string {
	sig := fn.Type().(*types.Signature)
	if r := sig.Recv(); r != nil {
		t := r.Type()
		if p, ok := t.(*types.Pointer); ok {
			t = p.Elem()
		}
		if n, ok := t.(*types.Named); ok {
			return leanIdent(n.Obj().Name()) + "." + leanIdent(fn.Name())
		}
	}
	return leanIdent(fn.Name())
}

func sigText(fset *token.FileSet, fd *ast.FuncDecl) string {
	cp := *fd
	cp.Body = nil
	cp.Doc = nil
	return exprText(fset, &cp)
}

// function: translate fn (once) and return what callers need to know
func (u *unitCtx) function(n ast.Node, fn *types.Func) *fnInfo {
	if fi, ok := u.done[fn]; ok {
		return fi
	}
	if u.busy[fn] {
		u.fail(n, "recursive function %s", fn.Name())
	}
	u.busy[fn] = true
	defer delete(u.busy, fn)
	fd := u.findDecl(fn)
	if fd == nil || fd.Body == nil {
		u.fail(n, "function %s has no body in package %s", fn.Name(), u.p.path)
	}
	sig := fn.Type().(*types.Signature)
	if sig.TypeParams() != nil || sig.RecvTypeParams() != nil {
		u.fail(fd, "generic function %s", fn.Name())
	}
	if sig.Variadic() {
		u.fail(fd, "variadic function %s", fn.Name())
	}
	c := &fnCtx{u: u, info: u.p.info, names: map[types.Object]string{}, used: map[string]bool{},
		ptrs: map[types.Object]bool{}, mutSet: map[types.Object]bool{}, scope: fd.Body}

	// parameters (receiver first)
	var params []*types.Var
	var pidents []*ast.Ident
	if fd.Recv != nil {
		params = append(params, sig.Recv())
		if len(fd.Recv.List[0].Names) > 0 {
			pidents = append(pidents, fd.Recv.List[0].Names[0])
		} else {
			pidents = append(pidents, nil)
		}
	}
	for _, f := range fd.Type.Params.List {
		if len(f.Names) == 0 {
			pidents = append(pidents, nil)
		}
		for _, nm := range f.Names {
			pidents = append(pidents, nm)
		}
	}
	for i := 0; i < sig.Params().Len(); i++ {
		params = append(params, sig.Params().At(i))
	}
	var pnames, ptypes []string
	var pobjs []types.Object
	for i, p := range params {
		var obj types.Object = p
		if pidents[i] != nil && u.p.info.Defs[pidents[i]] != nil {
			obj = u.p.info.Defs[pidents[i]]
		}
		nm := obj.Name()
		if nm == "" || nm == "_" {
			nm = fmt.Sprintf("p%d", i)
		}
		name := c.fresh(nm)
		c.names[obj] = name
		pobjs = append(pobjs, obj)
		if _, isPtr := p.Type().Underlying().(*types.Pointer); isPtr {
			c.ptrs[obj] = true
		}
		pnames = append(pnames, name)
		ptypes = append(ptypes, u.leanType(fd, p.Type()))
	}

	c.params = pobjs
	// pre-scan: which pointer parameters are written through; which error results are always nil
	asg := assignedRoots(u.p.info, fd.Body)
	ast.Inspect(fd.Body, func(n ast.Node) bool {
		if fl, ok := n.(*ast.FuncLit); ok {
			u.fail(fl, "function literal")
		}
		return true
	})
	mutated := map[types.Object]bool{}
	// direct writes
	ast.Inspect(fd.Body, func(n ast.Node) bool {
		mark := func(e ast.Expr) {
			if id := rootIdent(e); id != nil {
				if obj := u.p.info.Uses[id]; obj != nil && c.ptrs[obj] {
					if _, isId := unparen(e).(*ast.Ident); !isId {
						mutated[obj] = true
					}
				}
			}
		}
		switch s := n.(type) {
		case *ast.AssignStmt:
			for _, l := range s.Lhs {
				mark(l)
			}
		case *ast.IncDecStmt:
			mark(s.X)
		case *ast.CallExpr:
			if id, ok := unparen(s.Fun).(*ast.Ident); ok && id.Name == "copy" && len(s.Args) == 2 {
				if _, isb := u.p.info.Uses[id].(*types.Builtin); isb {
					dst := unparen(s.Args[0]) // copy(dst, src) writes the elements of dst
					if se, ok := dst.(*ast.SliceExpr); ok {
						dst = se.X
					}
					mark(&ast.IndexExpr{X: dst}) // an element of dst is written
				}
			}
			// a callee of this package that writes through a pointer parameter we pass on
			tmp := &fnCtx{u: u, info: u.p.info}
			if cal, recv := tmp.callee(s); cal != nil && cal.Pkg() == u.p.pkg {
				fi := u.function(s, cal)
				var actual []ast.Expr
				if recv != nil {
					actual = append(actual, recv)
				}
				actual = append(actual, s.Args...)
				for _, pi := range fi.mutPtrs {
					if pi < len(actual) {
						if id := rootIdent(actual[pi]); id != nil {
							if obj := u.p.info.Uses[id]; obj != nil && c.ptrs[obj] {
								mutated[obj] = true
							}
						}
					}
				}
			}
		}
		return true
	})
	var mutIdx []int
	for i, obj := range pobjs {
		if mutated[obj] {
			c.muts = append(c.muts, obj)
			c.mutSet[obj] = true
			mutIdx = append(mutIdx, i)
		}
	}
	// results
	res := sig.Results()
	c.dropErr = make([]bool, res.Len())
	if fd.Type.Results != nil {
		for _, f := range fd.Type.Results.List {
			for _, nm := range f.Names {
				c.named = append(c.named, u.p.info.Defs[nm])
			}
		}
	}
	if c.named != nil && len(c.named) != res.Len() {
		u.fail(fd, "results partly named")
	}
	for i := 0; i < res.Len(); i++ {
		if isErrorType(res.At(i).Type()) {
			allNil := true
			ast.Inspect(fd.Body, func(n ast.Node) bool {
				if r, ok := n.(*ast.ReturnStmt); ok {
					if len(r.Results) != res.Len() {
						allNil = false
					} else if id, ok := unparen(r.Results[i]).(*ast.Ident); !ok || id.Name != "nil" {
						allNil = false
					}
				}
				return true
			})
			if c.named != nil && asg[c.named[i]] {
				allNil = false
			}
			if !allNil {
				u.fail(fd, "result %d of %s has type error and is not nil on every path (errors are outside the subset)", i, fn.Name())
			}
			c.dropErr[i] = true
		}
	}
	var rtypes []string
	for _, m := range c.muts {
		rtypes = append(rtypes, u.leanType(fd, m.Type()))
	}
	nres := 0
	for i := 0; i < res.Len(); i++ {
		if !c.dropErr[i] {
			rtypes = append(rtypes, u.leanType(fd, res.At(i).Type()))
			nres++
		}
	}
	rtype := "Unit"
	if len(rtypes) > 0 {
		rtype = strings.Join(rtypes, " × ")
	}

	// body
	for i, obj := range pobjs {
		if asg[obj] || mutated[obj] {
			c.emit(1, fmt.Sprintf("let mut %s : %s := %s", pnames[i], ptypes[i], pnames[i]))
		}
	}
	for i, obj := range c.named {
		if obj.Name() == "_" || obj.Name() == "" {
			continue
		}
		if c.dropErr[i] {
			continue
		}
		c.emit(1, fmt.Sprintf("let mut %s : %s := %s", c.declare(obj), u.leanType(fd, obj.Type()), u.zero(fd, obj.Type())))
	}
	single := ""
	if len(fd.Body.List) == 1 && len(c.lines) == 0 {
		if r, ok := fd.Body.List[0].(*ast.ReturnStmt); ok && len(r.Results) == 1 && res.Len() == 1 && len(c.muts) == 0 {
			if call, isCall := unparen(r.Results[0]).(*ast.CallExpr); !isCall || func() bool { f, _ := c.callee(call); return f == nil }() {
				single = c.expr(r.Results[0])
			}
		}
	}
	if single == "" {
		c.stmts(1, fd.Body.List)
		last := ast.Stmt(nil)
		if len(fd.Body.List) > 0 {
			last = fd.Body.List[len(fd.Body.List)-1]
		}
		if _, isRet := last.(*ast.ReturnStmt); !isRet && res.Len() == 0 {
			c.ret(1, &ast.ReturnStmt{})
		}
	}
	name := funcLeanName(fn)
	var b strings.Builder
	fmt.Fprintf(&b, "/-- Go (%s): `%s`", relFile(u, fd), sigText(u.l.fset, fd))
	if len(c.muts) > 0 || anyTrue(c.dropErr) {
		b.WriteString("\n  result:")
		for _, m := range c.muts {
			fmt.Fprintf(&b, " new *%s,", m.Name())
		}
		b.WriteString(" the Go results")
		if anyTrue(c.dropErr) {
			b.WriteString(" (the error result is nil on every path and is dropped)")
		}
	}
	b.WriteString(" -/\n")
	if len(c.hidden) > 0 {
		b.Reset()
		fmt.Fprintf(&b, "/-- Go (%s): `%s`\n  the trailing parameters are HIDDEN STATE: what the backing arrays of the slices whose capacity the code looks at\n  hold between length and capacity (notes/go2lean.md \"Capacity\"); result:", relFile(u, fd), sigText(u.l.fset, fd))
		for _, m := range c.muts {
			fmt.Fprintf(&b, " new *%s,", m.Name())
		}
		b.WriteString(" the Go results -/\n")
	}
	fmt.Fprintf(&b, "def %s", name)
	for i := range pnames {
		fmt.Fprintf(&b, " (%s : %s)", pnames[i], ptypes[i])
	}
	for _, h := range c.hidden {
		fmt.Fprintf(&b, " %s", h)
	}
	switch {
	case single != "" && !c.partial:
		fmt.Fprintf(&b, " : %s :=\n  %s\n", rtype, single)
	case single != "":
		fmt.Fprintf(&b, " : Option (%s) := do\n  return %s\n", rtype, single)
	case c.partial:
		fmt.Fprintf(&b, " : Option (%s) := do\n%s\n", rtype, strings.Join(c.lines, "\n"))
	default:
		fmt.Fprintf(&b, " : %s := Id.run do\n%s\n", rtype, strings.Join(c.lines, "\n"))
	}
	u.out = append(u.out, b.String())
	fi := &fnInfo{name: name, partial: c.partial, mutPtrs: mutIdx, nres: nres, hidden: c.hiddenType}
	u.done[fn] = fi
	return fi
}

func anyTrue(bs []bool) bool {
	for _, b := range bs {
		if b {
			return true
		}
	}
	return false
}

func relFile(u *unitCtx, n ast.Node) string {
	pos := u.l.fset.Position(n.Pos())
	if rel, err := filepath.Rel(u.l.repo, pos.Filename); err == nil {
		return rel
	}
	return pos.Filename
}

// ---------------------------------------------------------------- blocks (a run of statements inside a long function)

// block: in function fnName, find the `occur`-th statement (0 = it must be unique) that assigns to `anchor` (source text of
// the assigned operand, e.g. "d.lastTimeOffset"), go `up` statement lists outwards, and translate the maximal run of
// consecutive statements around it that lie in the subset. Outer variables and field paths rooted at them become the
// inputs (sorted by their source text); those assigned become the fields of the result structure.
func (u *unitCtx) blockItem(it Item) {
	fd := u.lookupFunc(it.Func)
	if fd == nil {
		u.fail(nil, "block %s: function %s not found in package %s", it.Name, it.Func, u.p.path)
	}
	// all statement lists, with parents
	type where struct {
		list []ast.Stmt
		idx  int
		path []ast.Node
	}
	var hits []where
	var stack []ast.Node
	ast.Inspect(fd.Body, func(n ast.Node) bool {
		if n == nil {
			stack = stack[:len(stack)-1]
			return true
		}
		stack = append(stack, n)
		var list []ast.Stmt
		switch b := n.(type) {
		case *ast.BlockStmt:
			list = b.List
		case *ast.CaseClause:
			list = b.Body
		}
		for i, s := range list {
			if assignsTo(u, s, it.Anchor) {
				hits = append(hits, where{list, i, append([]ast.Node(nil), stack...)})
			}
		}
		return true
	})
	if len(hits) == 0 {
		u.fail(fd, "block %s: no statement of %s assigns to %s (anchor not found)", it.Name, it.Func, it.Anchor)
	}
	var h where
	if it.Occur == 0 {
		h = hits[0] // uniqueness is checked after going up: several assignments inside one and the same run are one anchor
	} else {
		if it.Occur > len(hits) {
			u.fail(fd, "block %s: only %d statements of %s assign to %s", it.Name, len(hits), it.Func, it.Anchor)
		}
		h = hits[it.Occur-1]
	}
	goUp := func(h where) where {
		for k := 0; k < it.Up; k++ {
			// the statement list that contains the statement holding the current list
			found := false
			for i := len(h.path) - 2; i >= 0; i-- {
				var list []ast.Stmt
				switch b := h.path[i].(type) {
				case *ast.BlockStmt:
					list = b.List
				case *ast.CaseClause:
					list = b.Body
				}
				if list == nil {
					continue
				}
				for j, s := range list {
					if s == h.path[i+1] {
						h = where{list, j, h.path[:i+1]}
						found = true
						break
					}
				}
				if found {
					break
				}
			}
			if !found {
				u.fail(fd, "block %s: cannot go %d statement lists up from the anchor", it.Name, it.Up)
			}
		}
		return h
	}
	h = goUp(h)
	if it.Occur == 0 {
		for _, o := range hits[1:] {
			if g := goUp(o); len(g.list) == 0 || len(h.list) == 0 || &g.list[0] != &h.list[0] {
				u.fail(fd, "block %s: %d statements of %s assign to %s in different statement lists, expected one anchor", it.Name, len(hits), it.Func, it.Anchor)
			}
		}
	}
	sig := u.p.info.Defs[fd.Name].(*types.Func).Type().(*types.Signature)
	newCtx := func() *fnCtx {
		c := &fnCtx{u: u, info: u.p.info, names: map[types.Object]string{}, used: map[string]bool{},
			ptrs: map[types.Object]bool{}, mutSet: map[types.Object]bool{}, block: true,
			inside: map[types.Object]bool{}, flats: map[string]*flatVar{}}
		c.dropErr = make([]bool, sig.Results().Len())
		for i := range c.dropErr {
			if isErrorType(sig.Results().At(i).Type()) {
				c.dropErr[i] = true // checked below: a returned error must be the literal nil
			}
		}
		return c
	}
	// is statement s alone in the subset?
	try := func(s ast.Stmt) (ok bool) {
		defer func() {
			if r := recover(); r != nil {
				if _, isU := r.(unsupported); !isU {
					panic(r)
				}
				ok = false
			}
		}()
		restore := u.snapshot()
		defer restore()
		c := newCtx()
		c.checkBlockReturns(s)
		c.stmt(1, s)
		return true
	}
	if !try(h.list[h.idx]) {
		// report why
		c := newCtx()
		c.checkBlockReturns(h.list[h.idx])
		c.stmt(1, h.list[h.idx])
	}
	lo, hi := h.idx, h.idx
	for !it.Solo && lo > 0 && try(h.list[lo-1]) {
		lo--
	}
	for !it.Solo && hi+1 < len(h.list) && try(h.list[hi+1]) {
		hi++
	}
	run := h.list[lo : hi+1]
	c := newCtx()
	for _, s := range run {
		c.checkBlockReturns(s)
	}
	// variables declared by the run must not be needed by the code after it unless they are outputs: they are reported as
	// outputs too, so that nothing computed by the run is hidden
	c.stmts(1, run)
	// inputs / outputs
	var keys []string
	for k := range c.flats {
		keys = append(keys, k)
	}
	sort.Strings(keys)
	var outs []string
	var params, pre []string
	for _, k := range keys {
		fv := c.flats[k]
		lt := u.leanType(fd, fv.typ)
		params = append(params, fmt.Sprintf("(%s : %s)", fv.name, lt))
		if fv.assigned {
			pre = append(pre, fmt.Sprintf("  let mut %s : %s := %s", fv.name, lt, fv.name))
			outs = append(outs, fv.name)
		}
	}
	params = append(params, c.hidden...) // hidden tails of the slices whose capacity the run looks at ("Capacity")
	// locals declared in the run and still in scope at its end (declared at the top level of the run)
	var locals []string
	for _, s := range run {
		if c.hasRet {
			break // a block that may return early reports the outer variables it assigns and the returned value only
		}
		switch d := s.(type) {
		case *ast.AssignStmt:
			if d.Tok == token.DEFINE {
				for _, l := range d.Lhs {
					if id, ok := l.(*ast.Ident); ok && id.Name != "_" {
						if obj := u.p.info.Defs[id]; obj != nil {
							locals = append(locals, c.names[obj]+" : "+u.leanType(id, obj.Type()))
							outs = append(outs, c.names[obj])
						}
					}
				}
			}
		case *ast.DeclStmt:
			if gd := d.Decl.(*ast.GenDecl); gd.Tok == token.VAR {
				for _, sp := range gd.Specs {
					for _, id := range sp.(*ast.ValueSpec).Names {
						if obj := u.p.info.Defs[id]; obj != nil && id.Name != "_" {
							locals = append(locals, c.names[obj]+" : "+u.leanType(id, obj.Type()))
							outs = append(outs, c.names[obj])
						}
					}
				}
			}
		}
	}
	name := leanIdent(it.Name)
	var b strings.Builder
	fmt.Fprintf(&b, "/-- result of `%s`: the outer variables the block assigns, the variables it declares", name)
	var rtypes []string
	if c.hasRet {
		for i := 0; i < sig.Results().Len(); i++ {
			if !c.dropErr[i] {
				rtypes = append(rtypes, u.leanType(fd, sig.Results().At(i).Type()))
			}
		}
		if len(rtypes) == 0 {
			rtypes = []string{"Unit"}
		}
		b.WriteString(", and `ret`: `some r` when the block executed `return r`, `none` when control leaves it at its end")
	}
	b.WriteString(" -/\n")
	fmt.Fprintf(&b, "structure %s.Out where\n", name)
	for _, k := range keys {
		if fv := c.flats[k]; fv.assigned {
			fmt.Fprintf(&b, "  %s : %s\n", fv.name, u.leanType(fd, fv.typ))
		}
	}
	for _, l := range locals {
		fmt.Fprintf(&b, "  %s\n", l)
	}
	if c.hasRet {
		fmt.Fprintf(&b, "  ret : Option (%s)\n", strings.Join(rtypes, " × "))
	}
	b.WriteString("  deriving Repr, DecidableEq\n\n")
	outLit := func(ret string) string {
		var fs []string
		for _, o := range outs {
			fs = append(fs, fmt.Sprintf("%s := %s", o, o))
		}
		if c.hasRet {
			fs = append(fs, "ret := "+ret)
		}
		return "{ " + strings.Join(fs, ", ") + " }"
	}
	body := strings.Join(c.lines, "\n")
	for {
		i := strings.Index(body, "⟪OUT:")
		if i < 0 {
			break
		}
		j := strings.Index(body[i:], "⟫") + i
		body = body[:i] + outLit("("+body[i+len("⟪OUT:"):j]+")") + body[j+len("⟫"):]
	}
	first, last := u.l.fset.Position(run[0].Pos()), u.l.fset.Position(run[len(run)-1].End())
	_ = first
	_ = last
	fmt.Fprintf(&b, "/-- Go (%s, inside `%s`): the %d statements around the assignment to `%s`:\n", relFile(u, fd), it.Func, len(run), it.Anchor)
	for _, s := range run {
		fmt.Fprintf(&b, "    %s\n", strings.ReplaceAll(exprText(u.l.fset, s), "-/", "- /"))
	}
	b.WriteString("-/\n")
	fmt.Fprintf(&b, "def %s %s", name, strings.Join(params, " "))
	if c.partial {
		fmt.Fprintf(&b, " : Option %s.Out := do\n", name)
	} else {
		fmt.Fprintf(&b, " : %s.Out := Id.run do\n", name)
	}
	if len(pre) > 0 {
		b.WriteString(strings.Join(pre, "\n") + "\n")
	}
	b.WriteString(body + "\n")
	fmt.Fprintf(&b, "  return %s\n", outLit("none"))
	u.out = append(u.out, b.String())
}

// condItem: the condition of the if statement of function it.Func whose source text contains it.Anchor (the it.Occur-th such
// condition, or the only one when Occur is 0), as a Bool-valued function of the variables / field paths it mentions
// (parameters sorted by their source text).
func (u *unitCtx) condItem(it Item) {
	fd := u.lookupFunc(it.Func)
	if fd == nil {
		u.fail(nil, "cond %s: function %s not found in package %s", it.Name, it.Func, u.p.path)
	}
	var hits []ast.Expr
	ast.Inspect(fd.Body, func(n ast.Node) bool {
		if is, ok := n.(*ast.IfStmt); ok && strings.Contains(exprText(u.l.fset, is.Cond), it.Anchor) {
			hits = append(hits, is.Cond)
		}
		// the condition of a `for cond { … }` loop (the loop itself stays outside the subset: only its test is taken)
		if fs, ok := n.(*ast.ForStmt); ok && fs.Cond != nil && strings.Contains(exprText(u.l.fset, fs.Cond), it.Anchor) {
			hits = append(hits, fs.Cond)
		}
		return true
	})
	var cond ast.Expr
	switch {
	case len(hits) == 0:
		u.fail(fd, "cond %s: no if / for condition of %s mentions %q (anchor not found)", it.Name, it.Func, it.Anchor)
	case it.Occur == 0 && len(hits) != 1:
		u.fail(fd, "cond %s: %d if conditions of %s mention %q, expected exactly one", it.Name, len(hits), it.Func, it.Anchor)
	case it.Occur > len(hits):
		u.fail(fd, "cond %s: only %d if conditions of %s mention %q", it.Name, len(hits), it.Func, it.Anchor)
	case it.Occur == 0:
		cond = hits[0]
	default:
		cond = hits[it.Occur-1]
	}
	c := &fnCtx{u: u, info: u.p.info, names: map[types.Object]string{}, used: map[string]bool{},
		ptrs: map[types.Object]bool{}, mutSet: map[types.Object]bool{}, block: true,
		inside: map[types.Object]bool{}, flats: map[string]*flatVar{}}
	text := c.expr(cond)
	var keys []string
	for k := range c.flats {
		keys = append(keys, k)
	}
	sort.Strings(keys)
	var params []string
	for _, k := range keys {
		params = append(params, fmt.Sprintf("(%s : %s)", c.flats[k].name, u.leanType(fd, c.flats[k].typ)))
	}
	params = append(params, c.hidden...)
	var b strings.Builder
	fmt.Fprintf(&b, "/-- Go (%s, inside `%s`): the condition `if %s` -/\n", relFile(u, fd), it.Func,
		strings.ReplaceAll(exprText(u.l.fset, cond), "-/", "- /"))
	if c.partial {
		fmt.Fprintf(&b, "def %s %s : Option Bool := do\n  return %s\n", leanIdent(it.Name), strings.Join(params, " "), text)
	} else {
		fmt.Fprintf(&b, "def %s %s : Bool :=\n  %s\n", leanIdent(it.Name), strings.Join(params, " "), text)
	}
	u.out = append(u.out, b.String())
}

// snapshot: undo whatever a trial translation declared
func (u *unitCtx) snapshot() func() {
	nout := len(u.out)
	done, structs, vars := map[types.Object]*fnInfo{}, map[*types.Named]string{}, map[types.Object]string{}
	for k, v := range u.done {
		done[k] = v
	}
	for k, v := range u.structs {
		structs[k] = v
	}
	for k, v := range u.vars {
		vars[k] = v
	}
	return func() { u.out, u.done, u.structs, u.vars = u.out[:nout], done, structs, vars }
}

// checkBlockReturns: inside a block an error result may only be returned as the literal nil
func (c *fnCtx) checkBlockReturns(s ast.Stmt) {
	ast.Inspect(s, func(n ast.Node) bool {
		if r, ok := n.(*ast.ReturnStmt); ok {
			if len(r.Results) != len(c.dropErr) {
				c.fail(r, "return inside a block that does not list every result")
			}
			for i, d := range c.dropErr {
				if d {
					if id, ok := unparen(r.Results[i]).(*ast.Ident); !ok || id.Name != "nil" {
						c.fail(r, "return of a non-nil error inside a block")
					}
				}
			}
		}
		if fl, ok := n.(*ast.FuncLit); ok {
			c.fail(fl, "function literal")
		}
		return true
	})
}

func assignsTo(u *unitCtx, s ast.Stmt, anchor string) bool {
	norm := func(e ast.Expr) string { return exprText(u.l.fset, unparen(e)) }
	switch a := s.(type) {
	case *ast.AssignStmt:
		for _, l := range a.Lhs {
			if norm(l) == anchor {
				return true
			}
		}
	case *ast.IncDecStmt:
		return norm(a.X) == anchor
	case *ast.DeclStmt:
		// `var ( … x = e … )` declares x and assigns e to it (a declaration without an initial value is not an anchor)
		if gd, ok := a.Decl.(*ast.GenDecl); ok && gd.Tok == token.VAR {
			for _, sp := range gd.Specs {
				if len(sp.(*ast.ValueSpec).Values) == 0 {
					continue
				}
				for _, nm := range sp.(*ast.ValueSpec).Names {
					if nm.Name == anchor {
						return true
					}
				}
			}
		}
	}
	return false
}

// lookupFunc: "Name" or "Recv.Name"
func (u *unitCtx) lookupFunc(name string) *ast.FuncDecl {
	for _, f := range u.p.files {
		for _, d := range f.Decls {
			fd, ok := d.(*ast.FuncDecl)
			if !ok {
				continue
			}
			fn, ok := u.p.info.Defs[fd.Name].(*types.Func)
			if !ok {
				continue
			}
			full := fn.Name()
			if r := fn.Type().(*types.Signature).Recv(); r != nil {
				t := r.Type()
				if p, ok := t.(*types.Pointer); ok {
					t = p.Elem()
				}
				if n, ok := t.(*types.Named); ok {
					full = n.Obj().Name() + "." + fn.Name()
				}
			}
			if full == name {
				return fd
			}
		}
	}
	return nil
}

// ---------------------------------------------------------------- unit driver

func translateUnit(l *loader, unit *Unit) (text string, err error) {
	defer func() {
		if r := recover(); r != nil {
			if uerr, ok := r.(unsupported); ok {
				err = uerr
				return
			}
			panic(r)
		}
	}()
	p, e := l.load(l.modPath+"/"+unit.Dir, true)
	if e != nil {
		return "", e
	}
	u := &unitCtx{l: l, p: p, unit: unit, done: map[types.Object]*fnInfo{}, busy: map[types.Object]bool{},
		structs: map[*types.Named]string{}, vars: map[types.Object]string{}}
	for _, it := range unit.Items {
		switch it.Kind {
		case "func":
			fd := u.lookupFunc(it.Name)
			if fd == nil {
				u.fail(nil, "function %s not found in package %s", it.Name, p.path)
			}
			u.function(fd, p.info.Defs[fd.Name].(*types.Func))
		case "var":
			obj := p.pkg.Scope().Lookup(it.Name)
			v, ok := obj.(*types.Var)
			if !ok {
				u.fail(nil, "package variable %s not found in package %s", it.Name, p.path)
			}
			u.packageVar(nil, v)
		case "block":
			u.blockItem(it)
		case "const":
			obj := p.pkg.Scope().Lookup(it.Name)
			cn, ok := obj.(*types.Const)
			if !ok {
				u.fail(nil, "constant %s not found in package %s", it.Name, p.path)
			}
			c := &fnCtx{u: u, info: p.info}
			t := cn.Type()
			lt := ""
			if b, isb := t.Underlying().(*types.Basic); isb && b.Info()&types.IsUntyped != 0 {
				// an untyped integer constant: a natural number when it is not negative
				if b.Kind() != types.UntypedInt && b.Kind() != types.UntypedRune {
					u.fail(nil, "untyped constant %s of kind %s", it.Name, b.Name())
				}
				if strings.HasPrefix(cn.Val().ExactString(), "-") {
					t, lt = types.Typ[types.Int64], "Int"
				} else {
					t, lt = types.Typ[types.Uint64], "Nat"
				}
			} else {
				lt = u.leanType(nil, t)
			}
			v, _ := c.constant(&ast.BasicLit{}, types.TypeAndValue{Type: t, Value: cn.Val()})
			u.out = append(u.out, fmt.Sprintf("/-- Go: `const %s` (type %s; value computed by go/types) -/\ndef %s : %s := %s\n", it.Name, cn.Type(), leanIdent(it.Name), lt, v))
		case "cond":
			u.condItem(it)
		case "arg", "slice", "loopcond":
			u.exprItem(it)
		case "methodset":
			// every method of the named type must be listed (and exist): a new method is code that reaches the state
			// without being translated, so the tie would silently cover less than it says
			obj := p.pkg.Scope().Lookup(it.Name)
			tn, ok := obj.(*types.TypeName)
			if !ok {
				u.fail(nil, "type %s not found in package %s", it.Name, p.path)
			}
			named := tn.Type().(*types.Named)
			want := map[string]bool{}
			for _, m := range strings.Fields(it.Methods) {
				want[m] = true
			}
			for i := 0; i < named.NumMethods(); i++ {
				m := named.Method(i)
				if !want[m.Name()] {
					u.fail(u.findDecl(m), "type %s has a method %s that is not among the translated ones (%s)", it.Name, m.Name(), it.Methods)
				}
				delete(want, m.Name())
			}
			for m := range want {
				u.fail(nil, "type %s no longer has the method %s", it.Name, m)
			}
		default:
			return "", fmt.Errorf("unit %s: unknown item kind %q", unit.Name, it.Kind)
		}
	}
	var b strings.Builder
	fmt.Fprintf(&b, "-- GENERATED by translators/go2lean from the current source of %s/%s — do not edit.\n", "/repo", unit.Dir)
	b.WriteString("-- Subset, representation and what is trusted: notes/go2lean.md. Agreement theorems: FitProps/*Go2Lean*.lean.\n")
	b.WriteString("import FitModel.GoPrelude\n")
	var imps []string
	for k := range u.imports {
		imps = append(imps, k)
	}
	sort.Strings(imps)
	for _, k := range imps {
		fmt.Fprintf(&b, "import FitModel.Generated.Go_%s\n", k)
	}
	b.WriteString("set_option linter.unusedVariables false\n")
	fmt.Fprintf(&b, "namespace Go.%s\n\n", unit.Name)
	for _, o := range u.out {
		b.WriteString(o)
		b.WriteString("\n")
	}
	fmt.Fprintf(&b, "end Go.%s\n", unit.Name)
	return b.String(), nil
}

func writeIfChanged(path string, content []byte) error {
	old, err := os.ReadFile(path)
	if err == nil && bytes.Equal(old, content) {
		return nil
	}
	if err := os.MkdirAll(filepath.Dir(path), 0o755); err != nil {
		return err
	}
	return os.WriteFile(path, content, 0o644)
}

func main() {
	if len(os.Args) == 2 && os.Args[1] == "-list" {
		for _, u := range units {
			fmt.Println(u.Name, u.Dir)
		}
		return
	}
	if len(os.Args) < 4 {
		fmt.Fprintln(os.Stderr, "usage: go2lean <repo> <outdir> <unit>...")
		os.Exit(2)
	}
	repo, outdir := os.Args[1], os.Args[2]
	status := 0
	for _, name := range os.Args[3:] {
		var unit *Unit
		for i := range units {
			if units[i].Name == name {
				unit = &units[i]
			}
		}
		if unit == nil {
			fmt.Fprintf(os.Stderr, "go2lean: unknown unit %s\n", name)
			os.Exit(2)
		}
		out := filepath.Join(outdir, "Go_"+unit.Name+".lean")
		// a loader of its own for every unit: a package imported (without bodies) while an earlier unit was translated and
		// type-checked again (with bodies) for this one would exist twice, and its types would no longer be identical
		l, err := newLoader(repo)
		if err != nil {
			fmt.Fprintln(os.Stderr, "go2lean:", err)
			os.Exit(1)
		}
		text, err := translateUnit(l, unit)
		if err != nil {
			fmt.Fprintf(os.Stderr, "go2lean: unit %s: %v\n", name, err)
			status = 1
			msg := strings.ReplaceAll(strings.ReplaceAll(err.Error(), "\n", " "), "-/", "- /")
			text = "-- GENERATED by translators/go2lean — TRANSLATION FAILED, this file deliberately does not compile.\n" +
				"/- " + msg + " -/\n" +
				"theorem go2lean_translation_failed_" + unit.Name + " : False := by decide\n"
		}
		if err := writeIfChanged(out, []byte(text)); err != nil {
			fmt.Fprintln(os.Stderr, "go2lean:", err)
			os.Exit(1)
		}
	}
	os.Exit(status)
}
