#!/usr/bin/env python3
"""Independent reading of internal/cmd/fitgen/Profile.xlsx (python3 standard library only: zipfile + xml.etree).

    xlsx.py <repo> <out.lean> [<out.json>]

Nothing of the repository's generator (parser, lookup, xlsxreader, misspell) is used or imitated: the
workbook is read as the OOXML package it is, and the rows are interpreted by the reading rules every FIT
profile consumer applies (stated again, as the hypotheses of the comparison, in lean/FitProps/C17.lean):

  R0  sheet "Types": a row with a Type Name opens a type (name, base type); the following rows without one are
      its constants (Value Name, Value — decimal or 0x hex —, Comment). Base type names are resolved to their
      byte through the spreadsheet's own type `fit_base_type`.
  R1  sheet "Messages": a row with a Message Name opens a message (its number is the constant of that name in
      type `mesg_num`); a row with a Field Def # is a field; a row with a Field Name but no Field Def # is a
      sub-field of the preceding field; rows with neither (section headings) are skipped.
      A field's scale/offset are the first entries of its Scale/Offset cells (defaults 1 and 0), except that a
      row listing more than one component has scale 1, offset 0 (each component carries its own).
  R2  component i takes the i-th entry of the Components/Scale/Offset/Bits/Accumulate cells (defaults 1, 0, 0,
      false); its target is the field of the same message with that name (255 if there is none).
  R3  a field accumulates when its own row says so (first entry of the Accumulate cell) or when a component of
      a (main) field of the same message refers to it with accumulate set.
  R4  a sub-field's Ref Field Name / Ref Field Value cells are comma-separated parallel lists; each name is a
      field of the same message, each value a constant of that field's type (or a plain number).
  R5  array <=> the Array cell is not empty; "[n]" with a number declares a fixed length n.
  R6  the field type of a field is a base type name, "bool" (base type enum), or a type of the Types sheet.
  R7  a row of a type whose Comment contains "deprecated" (any case) and whose Value another row of the same type also
      carries is an ALIAS of that row, not a constant of its own (the generated String()/List()/FromString are functions
      of the value; the property demands that constants round-trip through their string forms and are listed once).
      This reader only MARKS such rows (`dep`); the rule itself is the Lean definition `TypeRow.drops` / `TypeRow.dedupe`
      (lean/FitModel/ProfileSpec.lean), and FitProps/C17.lean pins what it drops on the current sheet: exactly
      weather_report.forecast = 1 ("Deprecated use hourly_forecast"; hourly_forecast = 1 stays) — C17_dedupe_exact,
      C17_dedupe_no_value_lost, C17_types_without_R7_false.

Output: lean/FitModel/Generated/Xlsx.lean (messages) and XlsxTypes.lean (types), namespace Fit.Gen.Xlsx, and, optionally, the same data as JSON
(used by the check only to print a readable replay).
"""
import json, os, re, struct, sys, zipfile
import xml.etree.ElementTree as ET

NS = '{http://schemas.openxmlformats.org/spreadsheetml/2006/main}'
RNS = '{http://schemas.openxmlformats.org/officeDocument/2006/relationships}'
PNS = '{http://schemas.openxmlformats.org/package/2006/relationships}'


class ReadError(Exception):
    pass


def read_workbook(path):
    """{sheet name: [(row index, {column letters: text})]} — every cell as the text it holds"""
    z = zipfile.ZipFile(path)
    sst = []
    if 'xl/sharedStrings.xml' in z.namelist():
        for si in ET.fromstring(z.read('xl/sharedStrings.xml')).findall(NS + 'si'):
            sst.append(''.join(t.text or '' for t in si.iter(NS + 't')))
    rels = {}
    for r in ET.fromstring(z.read('xl/_rels/workbook.xml.rels')).findall(PNS + 'Relationship'):
        t = r.get('Target')
        rels[r.get('Id')] = t.lstrip('/') if t.startswith('/') else 'xl/' + t
    sheets = {}
    wb = ET.fromstring(z.read('xl/workbook.xml'))
    for s in wb.find(NS + 'sheets').findall(NS + 'sheet'):
        part = rels[s.get(RNS + 'id')]
        rows = []
        for r in ET.fromstring(z.read(part)).find(NS + 'sheetData').findall(NS + 'row'):
            cells = {}
            for c in r.findall(NS + 'c'):
                col = re.match(r'[A-Z]+', c.get('r')).group(0)
                t = c.get('t')
                if t == 'inlineStr':
                    txt = ''.join(x.text or '' for x in c.iter(NS + 't'))
                else:
                    v = c.find(NS + 'v')
                    if v is None or v.text is None:
                        continue
                    txt = sst[int(v.text)] if t == 's' else v.text
                if txt != '':
                    cells[col] = txt
            rows.append((int(r.get('r')), cells))
        sheets[s.get('name')] = rows
    return sheets


def header_columns(rows, wanted):
    """column letter of each wanted header text (the first row is the header)"""
    hdr = rows[0][1]
    inv = {v.strip(): k for k, v in hdr.items()}
    out = {}
    for w in wanted:
        if w not in inv:
            raise ReadError(f'header {w!r} not found')
        out[w] = inv[w]
    return out


def parse_int(s):
    s = s.strip()
    return int(s, 16) if s.lower().startswith('0x') else int(s, 10)


def split(s):
    s = (s or '').strip()
    return [x.strip() for x in s.split(',')] if s else []


def f64bits(text):
    """decimal text -> IEEE-754 binary64 bit pattern (python's float() is correctly rounded)"""
    return struct.unpack('<Q', struct.pack('<d', float(text)))[0]


ONE, ZERO = f64bits('1'), f64bits('0')


def parse_bool(s):
    s = s.strip().lower()
    if s in ('1', 'true', 't'):
        return True
    if s in ('0', 'false', 'f'):
        return False
    raise ReadError(f'not a boolean: {s!r}')


def read_types(rows):
    col = header_columns(rows, ['Type Name', 'Base Type', 'Value Name', 'Value', 'Comment'])
    types = []
    for idx, c in rows[1:]:
        if c.get(col['Type Name']):
            types.append(dict(name=c[col['Type Name']].strip(), base=c.get(col['Base Type'], '').strip(), consts=[], row=idx))
        elif c.get(col['Value Name']) is not None:
            if not types:
                raise ReadError(f'Types row {idx}: constant before any type')
            types[-1]['consts'].append(dict(name=c[col['Value Name']].strip(), value=parse_int(c[col['Value']]),
                                           dep='deprecated' in c.get(col['Comment'], '').lower(), row=idx))
    return types


def read_messages(rows, types):
    col = header_columns(rows, ['Message Name', 'Field Def #', 'Field Name', 'Field Type', 'Array', 'Components', 'Scale',
                                'Offset', 'Units', 'Bits', 'Accumulate', 'Ref Field Name', 'Ref Field Value'])
    tby = {t['name']: t for t in types}
    if 'fit_base_type' not in tby or 'mesg_num' not in tby:
        raise ReadError('types fit_base_type / mesg_num missing')
    basebyte = {c['name']: c['value'] for c in tby['fit_base_type']['consts']}
    mesgnum = {c['name']: c['value'] for c in tby['mesg_num']['consts']}

    def base_of(ftype):
        if ftype in basebyte:
            return basebyte[ftype]
        if ftype == 'bool':
            return basebyte['enum']
        if ftype in tby:
            return basebyte[tby[ftype]['base']]
        raise ReadError(f'unknown field type {ftype!r}')

    mesgs = []
    for idx, c in rows[1:]:
        g = lambda k: c.get(col[k], '')
        if g('Message Name'):
            name = g('Message Name').strip()
            if name not in mesgnum:
                raise ReadError(f'Messages row {idx}: message {name!r} has no mesg_num constant')
            mesgs.append(dict(name=name, num=mesgnum[name], fields=[], row=idx))
            continue
        if not g('Field Name'):
            continue                                    # section heading or blank row
        if not mesgs:
            raise ReadError(f'Messages row {idx}: field before any message')
        comps = split(g('Components'))
        scales, offsets = split(g('Scale')), split(g('Offset'))
        bits, accs = split(g('Bits')), split(g('Accumulate'))
        row = dict(name=g('Field Name').strip(), type=g('Field Type').strip(), units=g('Units').strip(), row=idx,
                   comp_names=comps, scales=scales, offsets=offsets, bits=bits, accs=accs)
        if g('Field Def #') != '':
            arr = g('Array').strip()
            m = re.fullmatch(r'\[(\d+)\]', arr)
            row.update(num=parse_int(g('Field Def #')), array=arr != '', fixed=int(m.group(1)) if m else 0, subs=[])
            mesgs[-1]['fields'].append(row)
        else:
            if not mesgs[-1]['fields']:
                raise ReadError(f'Messages row {idx}: sub-field before any field')
            row.update(ref_names=split(g('Ref Field Name')), ref_values=split(g('Ref Field Value')))
            mesgs[-1]['fields'][-1]['subs'].append(row)

    # interpretation (R1–R6)
    out = []
    for m in mesgs:
        byname = {}
        for f in m['fields']:
            byname.setdefault(f['name'], f)

        def nth(lst, i, conv, default):
            return conv(lst[i]) if i < len(lst) else default

        def components(r):
            return [dict(num=byname[n]['num'] if n in byname else 255, scale=nth(r['scales'], i, f64bits, ONE),
                         offset=nth(r['offsets'], i, f64bits, ZERO), bits=nth(r['bits'], i, parse_int, 0),
                         acc=nth(r['accs'], i, parse_bool, False)) for i, n in enumerate(r['comp_names'])]

        def scale_offset(r):
            if len(r['comp_names']) > 1:
                return ONE, ZERO
            return nth(r['scales'], 0, f64bits, ONE), nth(r['offsets'], 0, f64bits, ZERO)

        acc_by_ref = set()
        for f in m['fields']:
            for cp, n in zip(components(f), f['comp_names']):
                if cp['acc']:
                    acc_by_ref.add(n)
        fields = []
        for f in m['fields']:
            sc, off = scale_offset(f)
            subs = []
            for s in f['subs']:
                ssc, soff = scale_offset(s)
                if len(s['ref_names']) != len(s['ref_values']):
                    raise ReadError(f"row {s['row']}: {len(s['ref_names'])} reference names but {len(s['ref_values'])} values")
                maps = []
                for rn, rv in zip(s['ref_names'], s['ref_values']):
                    ref = byname.get(rn)
                    if ref is None:
                        maps.append(dict(refNum=255, refVal=-1))
                        continue
                    consts = {c['name']: c['value'] for c in tby.get(ref['type'], dict(consts=[]))['consts']}
                    if rv in consts:
                        val = consts[rv]
                    elif re.fullmatch(r'-?\d+|0x[0-9a-fA-F]+', rv):
                        val = parse_int(rv)
                    else:
                        val = -1
                    maps.append(dict(refNum=ref['num'], refVal=val))
                subs.append(dict(name=s['name'], ptype=s['type'], scale=ssc, offset=soff, units=s['units'],
                                 comps=components(s), maps=maps, row=s['row']))
            fields.append(dict(num=f['num'], name=f['name'], ptype=f['type'], baseType=base_of(f['type']), array=f['array'],
                               fixed=f['fixed'], acc=nth(f['accs'], 0, parse_bool, False) or f['name'] in acc_by_ref,
                               scale=sc, offset=off, units=f['units'], comps=components(f), subs=subs, row=f['row']))
        order = [f['num'] for f in fields]
        fields.sort(key=lambda f: f['num'])
        out.append(dict(num=m['num'], name=m['name'], fields=fields, row=m['row'], order=order))
    out.sort(key=lambda m: m['num'])
    return out, basebyte


# ------------------------------------------------------------------ Lean output

def pk(s):
    return '0x%x' % int.from_bytes(b'\x01' + s.encode('utf-8'), 'big')


def lb(b):
    return 'true' if b else 'false'


def lean_comp(c):
    return f"⟨{c['num']}, 0x{c['scale']:x}, 0x{c['offset']:x}, {c['bits']}, {lb(c['acc'])}⟩"


def lean_sub(s):
    maps = ', '.join(f"⟨{m['refNum']}, {m['refVal']}⟩" for m in s['maps'])
    return (f"⟨{pk(s['name'])}, {pk(s['ptype'])}, 0x{s['scale']:x}, 0x{s['offset']:x}, {pk(s['units'])}, "
            f"[{', '.join(lean_comp(c) for c in s['comps'])}], [{maps}]⟩")


def lean_field(f):
    return (f"⟨{f['num']}, {pk(f['name'])}, {pk(f['ptype'])}, {f['baseType']}, {lb(f['array'])}, {lb(f['acc'])}, "
            f"0x{f['scale']:x}, 0x{f['offset']:x}, {pk(f['units'])}, [{', '.join(lean_comp(c) for c in f['comps'])}], "
            f"[{', '.join(lean_sub(s) for s in f['subs'])}]⟩")


def lean_mesgs(mesgs, ns, origin):
    """shared by the factory dump: same syntax for both sides"""
    o = [f'import FitModel.ProfileSpec\n/-! GENERATED by {origin} — do not edit -/\nnamespace {ns}\nopen Fit.ProfileSpec\n']
    names = []
    for m in mesgs:
        nm = f"m{m['num']}"
        names.append(nm)
        o.append(f"/-- {m['name']} -/\ndef {nm} : Mesg := ⟨{m['num']}, {pk(m['name'])}, [\n")
        o.append(',\n'.join(f"  /- {f['name']} -/ {lean_field(f)}" for f in m['fields']))
        o.append(']⟩\n')
    o.append('def mesgs : List Mesg := [' + ', '.join(names) + ']\n')
    return ''.join(o)


def lean_types(types, basebyte):
    o = []
    names = []
    for i, t in enumerate(types):
        nm = f't{i}'
        names.append(nm)
        cs = ', '.join(f"⟨{c['value']}, {pk(c['name'])}, {lb(c['dep'])}⟩" for c in t['consts'])
        o.append(f"/-- {t['name']} -/\ndef {nm} : TypeRow := ⟨{pk(t['name'])}, {basebyte.get(t['base'], 255)}, [{cs}]⟩\n")
    o.append('def types : List TypeRow := [' + ', '.join(names) + ']\n')
    return ''.join(o)


def write_if_changed(path, content):
    try:
        if open(path).read() == content:
            return
    except OSError:
        pass
    os.makedirs(os.path.dirname(path), exist_ok=True)
    open(path, 'w').write(content)


def main(argv):
    repo, out = argv[0], argv[1]
    sheets = read_workbook(os.path.join(repo, 'internal', 'cmd', 'fitgen', 'Profile.xlsx'))
    for need in ('Types', 'Messages'):
        if need not in sheets:
            raise ReadError(f'sheet {need!r} not found')
    types = read_types(sheets['Types'])
    mesgs, basebyte = read_messages(sheets['Messages'], types)
    fixed = [(m['num'], f['num'], f['fixed']) for m in mesgs for f in m['fields'] if f['fixed']]
    origin = 'translators/xlsx.py from internal/cmd/fitgen/Profile.xlsx (independent reading)'
    s = lean_mesgs(mesgs, 'Fit.Gen.Xlsx', origin)
    t = f'import FitModel.ProfileSpec\n/-! GENERATED by {origin} — do not edit -/\nnamespace Fit.Gen.Xlsx\nopen Fit.ProfileSpec\n'
    t += lean_types(types, basebyte) + 'end Fit.Gen.Xlsx\n'
    write_if_changed(os.path.join(os.path.dirname(out), 'XlsxTypes.lean'), t)
    s += '/-- declared fixed array lengths (message, field, n) -/\ndef fixedLens : FixedLens := [' + \
         ', '.join(f'({a}, {b}, {c})' for a, b, c in fixed) + ']\n'
    s += '/-- field numbers of each message in the order of the sheet rows (message, numbers) -/\ndef fieldOrder : List (Nat × List Nat) := [' + \
         ', '.join(f"({m['num']}, [{', '.join(str(n) for n in m['order'])}])" for m in mesgs) + ']\n'
    s += f'def sheetRows : Nat × Nat := ({len(sheets["Types"])}, {len(sheets["Messages"])})\n'
    s += 'end Fit.Gen.Xlsx\n'
    write_if_changed(out, s)
    if len(argv) > 2:
        json.dump(dict(mesgs=mesgs, types=types, fixed=fixed), open(argv[2], 'w'))
    print(f'ok types={len(types)} consts={sum(len(t["consts"]) for t in types)} mesgs={len(mesgs)} '
          f'fields={sum(len(m["fields"]) for m in mesgs)} subs={sum(len(f["subs"]) for m in mesgs for f in m["fields"])}')


if __name__ == '__main__':
    try:
        main(sys.argv[1:])
    except ReadError as e:
        print('xlsx.py:', e, file=sys.stderr)
        sys.exit(1)
