module astfacts

go 1.21
