package main

import (
	"fmt"
	"go/constant"
	"go/token"
	"go/types"
	"os"
	"regexp"
	"sort"
	"strings"
	"time"

	"golang.org/x/tools/go/ssa"
)

type invWrite struct {
	fn       int
	kind     string // store elem mapupdate delete append copy clear call ext
	via      string // callee for call / ext
	once, mu int    // guarding row ids, -1 = none
	count    int
}

type invRead struct {
	fn      int
	kind    string // read | addr
	init    bool
	onces   []int
	mutexes []int
	count   int
}

type invAPI struct {
	fn     int
	method string
	count  int
}

type invEscape struct {
	fn  int
	how string
}

type row struct {
	id         int
	g          *ssa.Global
	pkg, name  string
	cat, typ   string
	initWrites int
	writes     []invWrite
	reads      []invRead
	apis       []invAPI
	escapes    []invEscape
	pooluses   []*poolUse
	poolNew    int
}

// atom: one fact about what a function's own instructions do to a row; touches of an entry point = the atoms of all
// functions reachable from it, folded per row
type atom struct {
	row  int
	kind string // r (direct read; arg = once rows dominating it) | w (unguarded post-init write; arg = fn id) | ow (once/mutex guarded write) | api (arg = method) | pool (arg = ok/bad)
	arg  string
}

type touch struct {
	row         int
	reads       bool
	readOnces   []int
	writers     []int
	onceWriters bool
	api         []string
	poolOK      bool
}

type paramWrite struct {
	fn    int
	param int
	typ   string
	locs  []string
}

type inventory struct {
	modpath               string
	roots                 []string
	pkgs                  []string
	funcs                 []string
	funcIdx               map[string]int
	rows                  []*row
	rowOf                 map[*ssa.Global]*row
	classes               [][]touch
	entries               []entryRec
	nEntries              int
	nEmpty                int
	pwrites               []paramWrite
	optTypes              []string
	nFuncs                int
	a                     *an
	nameUnknown           string
	fbLiterals, fbUnknown int
}

type entryRec struct {
	name  string
	class int
}

func (inv *inventory) short(s string) string { return strings.ReplaceAll(s, inv.modpath+"/", "") }

func (inv *inventory) fnID(fn *ssa.Function) int {
	n := inv.short(fn.String())
	if id, ok := inv.funcIdx[n]; ok {
		return id
	}
	inv.funcs = append(inv.funcs, n)
	inv.funcIdx[n] = len(inv.funcs) - 1
	return len(inv.funcs) - 1
}

func category(t types.Type) string {
	if n, ok := t.(*types.Named); ok && n.Obj().Pkg() != nil {
		switch n.Obj().Pkg().Path() + "." + n.Obj().Name() {
		case "sync.Pool":
			return "pool"
		case "sync.Once":
			return "once"
		case "sync.Mutex", "sync.RWMutex":
			return "mutex"
		}
	}
	if n, ok := t.(*types.Named); ok && n.Obj().Pkg() == nil && n.Obj().Name() == "error" {
		return "errSentinel"
	}
	switch u := t.Underlying().(type) {
	case *types.Map:
		return "map"
	case *types.Slice:
		return "slice"
	case *types.Array:
		return "array"
	case *types.Basic:
		if u.Info()&types.IsString != 0 {
			return "str"
		}
		return "scalar"
	case *types.Signature:
		return "func"
	case *types.Interface:
		return "iface"
	case *types.Pointer:
		return "pointer"
	case *types.Struct:
		return "struct"
	case *types.Chan:
		return "chan"
	}
	return "other"
}

func buildInventory(repo string) (*inventory, error) {
	tl := time.Now()
	l, err := newLoader(repo)
	if err != nil {
		return nil, err
	}
	roots, err := l.rootPaths()
	if err != nil {
		return nil, err
	}
	for _, r := range roots {
		if _, err := l.load(r); err != nil {
			return nil, err
		}
	}
	debug := os.Getenv("SHAREDSTATE_DEBUG") != ""
	if debug {
		fmt.Fprintln(os.Stderr, "loaded", time.Since(tl))
	}
	t0 := time.Now()
	prog, mine := l.buildSSA()
	if debug {
		fmt.Fprintln(os.Stderr, "ssa built", time.Since(t0))
	}
	a := newAn(prog, mine)
	if len(a.fns) < 500 {
		return nil, fmt.Errorf("only %d functions with bodies found: the analysis did not see the repository", len(a.fns))
	}
	if err := a.run(); err != nil {
		return nil, err
	}
	if debug {
		fmt.Fprintln(os.Stderr, "analysis done", time.Since(t0))
	}
	inv := &inventory{modpath: l.modpath, roots: roots, funcIdx: map[string]int{}, rowOf: map[*ssa.Global]*row{}, a: a, nFuncs: len(a.fns)}
	rootSet := map[string]bool{}
	for _, r := range roots {
		rootSet[r] = true
	}
	// rows: every package-level variable of the analysed packages
	var sps []*ssa.Package
	for p := range mine {
		sps = append(sps, p)
	}
	sort.Slice(sps, func(i, j int) bool { return sps[i].Pkg.Path() < sps[j].Pkg.Path() })
	for _, p := range sps {
		inv.pkgs = append(inv.pkgs, inv.short(p.Pkg.Path()))
		var names []string
		for n, m := range p.Members {
			if g, ok := m.(*ssa.Global); ok && !strings.Contains(g.Name(), "$") && n != "_" {
				names = append(names, n)
			}
		}
		sort.Strings(names)
		for _, n := range names {
			g := p.Members[n].(*ssa.Global)
			t := derefType(g.Type())
			ts := inv.short(typeStr(t))
			if len(ts) > 90 {
				ts = ts[:87] + "..."
			}
			r := &row{id: len(inv.rows), g: g, pkg: inv.short(p.Pkg.Path()), name: n, cat: category(t), typ: ts, poolNew: -1}
			inv.rows = append(inv.rows, r)
			inv.rowOf[g] = r
		}
	}
	gd := newGuards(a)
	rid := func(g *ssa.Global) int {
		if r, ok := inv.rowOf[g]; ok {
			return r.id
		}
		return -1
	}
	firstOf := func(m map[*ssa.Global]bool) int {
		best := -1
		for g := range m {
			if id := rid(g); id >= 0 && (best < 0 || id < best) {
				best = id
			}
		}
		return best
	}
	idsOf := func(m map[*ssa.Global]bool) []int {
		var r []int
		for g := range m {
			if id := rid(g); id >= 0 {
				r = append(r, id)
			}
		}
		sort.Ints(r)
		return r
	}
	// writes
	type wkey struct {
		row, fn   int
		kind, via string
		once, mu  int
	}
	wcount := map[wkey]int{}
	seenEv := map[string]bool{}
	for _, e := range a.events {
		r, ok := inv.rowOf[e.g]
		if !ok {
			continue
		}
		k := fmt.Sprintf("%d/%p/%s", r.id, e.instr, e.kind)
		if seenEv[k] {
			continue
		}
		seenEv[k] = true
		// a write is guarded by a Once only INSIDE the function handed to Do (or code reachable only from there);
		// a write after the Do call returned is an ordinary write. Mutexes: held at the instruction.
		gu := gd.at(e.fn, e.instr)
		ge := gd.entry(e.fn)
		if ge.init {
			r.initWrites++
			continue
		}
		gu.onces = ge.onces
		kind, via := e.kind, ""
		if strings.HasPrefix(kind, "call:") {
			kind, via = "call", inv.short(kind[5:])
		} else if strings.HasPrefix(kind, "ext:") {
			kind, via = "ext", inv.short(kind[4:])
		}
		wcount[wkey{r.id, inv.fnID(e.fn), kind, via, firstOf(gu.onces), firstOf(gu.mutexes)}]++
	}
	var wkeys []wkey
	for k := range wcount {
		wkeys = append(wkeys, k)
	}
	sort.Slice(wkeys, func(i, j int) bool { return fmt.Sprint(wkeys[i]) < fmt.Sprint(wkeys[j]) })
	for _, k := range wkeys {
		r := inv.rows[k.row]
		r.writes = append(r.writes, invWrite{fn: k.fn, kind: k.kind, via: k.via, once: k.once, mu: k.mu, count: wcount[k]})
	}
	// direct reads / api uses
	type rkey struct {
		row, fn int
		kind    string
		init    bool
		onces   string
		mus     string
	}
	rcount := map[rkey]int{}
	rstore := map[rkey]invRead{}
	type akey struct {
		row, fn int
		m       string
	}
	acount := map[akey]int{}
	for _, ac := range a.accesses {
		r, ok := inv.rowOf[ac.g]
		if !ok {
			continue
		}
		switch {
		case ac.kind == "store" || ac.kind == "elemstore":
			// already among the write events
		case strings.HasPrefix(ac.kind, "api:"):
			acount[akey{r.id, inv.fnID(ac.fn), ac.kind[4:]}]++
		default:
			gu := gd.at(ac.fn, ac.instr)
			k := rkey{r.id, inv.fnID(ac.fn), ac.kind, gu.init, fmt.Sprint(idsOf(gu.onces)), fmt.Sprint(idsOf(gu.mutexes))}
			rcount[k]++
			rstore[k] = invRead{fn: k.fn, kind: ac.kind, init: gu.init, onces: idsOf(gu.onces), mutexes: idsOf(gu.mutexes)}
		}
	}
	var rkeys []rkey
	for k := range rcount {
		rkeys = append(rkeys, k)
	}
	sort.Slice(rkeys, func(i, j int) bool { return fmt.Sprint(rkeys[i]) < fmt.Sprint(rkeys[j]) })
	for _, k := range rkeys {
		rd := rstore[k]
		rd.count = rcount[k]
		inv.rows[k.row].reads = append(inv.rows[k.row].reads, rd)
	}
	var akeys []akey
	for k := range acount {
		akeys = append(akeys, k)
	}
	sort.Slice(akeys, func(i, j int) bool { return fmt.Sprint(akeys[i]) < fmt.Sprint(akeys[j]) })
	for _, k := range akeys {
		inv.rows[k.row].apis = append(inv.rows[k.row].apis, invAPI{fn: k.fn, method: k.m, count: acount[k]})
	}
	// escapes
	seenEsc := map[string]bool{}
	for _, e := range a.escapes {
		r, ok := inv.rowOf[e.g]
		if !ok || isInitFn(e.fn) {
			continue
		}
		k := fmt.Sprintf("%d/%d/%s", r.id, inv.fnID(e.fn), e.how)
		if seenEsc[k] {
			continue
		}
		seenEsc[k] = true
		r.escapes = append(r.escapes, invEscape{fn: inv.fnID(e.fn), how: e.how})
	}
	for _, r := range inv.rows {
		sort.Slice(r.escapes, func(i, j int) bool {
			return inv.funcs[r.escapes[i].fn]+r.escapes[i].how < inv.funcs[r.escapes[j].fn]+r.escapes[j].how
		})
	}
	// pools
	pl := &pools{a: a, memo: map[*ssa.Function]map[*ssa.Global]*poolEffect{}, busy: map[*ssa.Function]bool{}}
	for _, r := range inv.rows {
		if r.cat != "pool" {
			continue
		}
		if f := a.poolNew[r.g]; f != nil {
			r.poolNew = inv.fnID(f)
		}
		seen := map[*ssa.Function]bool{}
		for _, ac := range a.accesses {
			if ac.g == r.g && strings.HasPrefix(ac.kind, "api:Pool.") && !seen[ac.fn] {
				seen[ac.fn] = true
			}
		}
		var fs []*ssa.Function
		for f := range seen {
			fs = append(fs, f)
		}
		sort.Slice(fs, func(i, j int) bool { return fs[i].String() < fs[j].String() })
		for _, f := range fs {
			inv.fnID(f)
			r.pooluses = append(r.pooluses, pl.use(f, r.g))
		}
	}
	inv.entriesAndTouches(rootSet)
	inv.paramWrites(rootSet)
	if err := inv.fieldBaseNames(); err != nil {
		return nil, err
	}
	return inv, nil
}

// classification of a data row from its writes (the same reading the Lean obligations make)
func (r *row) postInitWrites() []invWrite { return r.writes }

func (r *row) onceGuard() int { // the Once that guards every post-init write, or -1
	o := -1
	for _, w := range r.writes {
		if w.once < 0 {
			return -1
		}
		if o >= 0 && o != w.once {
			return -1
		}
		o = w.once
	}
	return o
}

func (r *row) mutexGuard() int {
	m := -1
	for _, w := range r.writes {
		if w.mu < 0 {
			return -1
		}
		if m >= 0 && m != w.mu {
			return -1
		}
		m = w.mu
	}
	return m
}

func has(xs []int, x int) bool {
	for _, y := range xs {
		if y == x {
			return true
		}
	}
	return false
}

func poolUseOK(u *poolUse) bool {
	if u.putsParam && u.gets == 0 { // a helper that only puts back what it is given: judged at its callers (balance)
		return !u.useAfterPut
	}
	return u.eff.minDip >= 0 && u.putFromGet && !u.useAfterPut && (u.zeroBeforePut || u.resetAfterGet || u.emptySliceOnly)
}

func (inv *inventory) entriesAndTouches(rootSet map[string]bool) {
	a := inv.a
	own := map[*ssa.Function]map[atom]bool{}
	add := func(fn *ssa.Function, t atom) {
		if fn == nil {
			return
		}
		if own[fn] == nil {
			own[fn] = map[atom]bool{}
		}
		own[fn][t] = true
	}
	fnByID := map[int]*ssa.Function{}
	for _, f := range a.fns {
		if id, ok := inv.funcIdx[inv.short(f.String())]; ok {
			fnByID[id] = f
		}
	}
	for _, r := range inv.rows {
		for _, u := range r.pooluses {
			ok := "ok"
			if !poolUseOK(u) {
				ok = "bad"
			}
			add(u.fn, atom{r.id, "pool", ok})
		}
		for _, ap := range r.apis {
			add(fnByID[ap.fn], atom{r.id, "api", ap.method})
		}
		for _, w := range r.writes {
			if w.once >= 0 || w.mu >= 0 {
				add(fnByID[w.fn], atom{r.id, "ow", ""})
			} else {
				add(fnByID[w.fn], atom{r.id, "w", fmt.Sprint(w.fn)})
			}
		}
		for _, rd := range r.reads {
			if rd.init {
				continue
			}
			add(fnByID[rd.fn], atom{r.id, "r", fmt.Sprint(rd.onces)})
		}
	}
	// transitive atoms of every function (fixpoint over the call graph)
	trans := map[*ssa.Function]map[atom]bool{}
	for _, f := range a.fns {
		m := map[atom]bool{}
		for t := range own[f] {
			m[t] = true
		}
		trans[f] = m
	}
	for changed := true; changed; {
		changed = false
		for _, f := range a.fns {
			m := trans[f]
			for y := range a.edges[f] {
				for t := range trans[y] {
					if !m[t] {
						m[t] = true
						changed = true
					}
				}
			}
		}
	}
	onceSets := map[string][]int{}
	for _, r := range inv.rows {
		for _, rd := range r.reads {
			onceSets[fmt.Sprint(rd.onces)] = rd.onces
		}
	}
	classIdx := map[string]int{}
	for _, f := range a.fns {
		p := a.pkgOf(f)
		if p == nil || !rootSet[p.Pkg.Path()] || !isExported(f) || f.Origin() != nil {
			continue
		}
		inv.nEntries++
		byRow := map[int]*touch{}
		firstRead := map[int]bool{}
		for t := range trans[f] {
			tc := byRow[t.row]
			if tc == nil {
				tc = &touch{row: t.row, poolOK: true}
				byRow[t.row] = tc
			}
			switch t.kind {
			case "r":
				os := onceSets[t.arg]
				if !firstRead[t.row] {
					firstRead[t.row] = true
					tc.reads = true
					tc.readOnces = append([]int{}, os...)
				} else {
					var keep []int
					for _, o := range tc.readOnces {
						if has(os, o) {
							keep = append(keep, o)
						}
					}
					tc.readOnces = keep
				}
			case "w":
				var id int
				fmt.Sscan(t.arg, &id)
				tc.writers = append(tc.writers, id)
			case "ow":
				tc.onceWriters = true
			case "api":
				tc.api = append(tc.api, t.arg)
			case "pool":
				if t.arg != "ok" {
					tc.poolOK = false
				}
			}
		}
		if len(byRow) == 0 {
			inv.nEmpty++
		}
		var list []touch
		for _, tc := range byRow {
			sort.Ints(tc.writers)
			sort.Strings(tc.api)
			sort.Ints(tc.readOnces)
			list = append(list, *tc)
		}
		sort.Slice(list, func(i, j int) bool { return list[i].row < list[j].row })
		key := fmt.Sprint(list)
		ci, ok := classIdx[key]
		if !ok {
			ci = len(inv.classes)
			classIdx[key] = ci
			inv.classes = append(inv.classes, list)
		}
		inv.entries = append(inv.entries, entryRec{name: inv.short(f.String()), class: ci})
	}
	sort.Slice(inv.entries, func(i, j int) bool { return inv.entries[i].name < inv.entries[j].name })
}

var optRe = regexp.MustCompile(`(Options?|Config)$`)

func (inv *inventory) paramWrites(rootSet map[string]bool) {
	a := inv.a
	for p := range a.mine {
		if !rootSet[p.Pkg.Path()] {
			continue
		}
		for _, m := range p.Members {
			if t, ok := m.(*ssa.Type); ok && token.IsExported(t.Name()) && optRe.MatchString(t.Name()) {
				if _, isStruct := t.Type().Underlying().(*types.Struct); isStruct {
					inv.optTypes = append(inv.optTypes, inv.short(typeStr(t.Type())))
				}
			}
		}
	}
	sort.Strings(inv.optTypes)
	for _, f := range a.fns {
		p := a.pkgOf(f)
		if p == nil || !rootSet[p.Pkg.Path()] || !isExported(f) || f.Origin() != nil {
			continue
		}
		s := a.state(f)
		for i, prm := range f.Params {
			if i == 0 && f.Signature.Recv() != nil {
				continue
			}
			locset := map[string]bool{}
			for depth := 0; depth <= 1; depth++ {
				if o, ok := a.objIdx[object{kind: kP, fn: f, idx: i, depth: depth}]; ok {
					for l := range s.sum.writes[o] {
						locset[l] = true
					}
				}
			}
			if len(locset) == 0 {
				continue
			}
			if !pointerLike(prm.Type()) {
				if _, isIface := prm.Type().Underlying().(*types.Interface); !isIface {
					continue
				}
			}
			var locs []string
			for l := range locset {
				locs = append(locs, inv.short(l))
			}
			sort.Strings(locs)
			inv.pwrites = append(inv.pwrites, paramWrite{fn: inv.fnID(f), param: i, typ: inv.short(typeStr(derefType(prm.Type()))), locs: locs})
		}
	}
	sort.Slice(inv.pwrites, func(i, j int) bool {
		if inv.funcs[inv.pwrites[i].fn] != inv.funcs[inv.pwrites[j].fn] {
			return inv.funcs[inv.pwrites[i].fn] < inv.funcs[inv.pwrites[j].fn]
		}
		return inv.pwrites[i].param < inv.pwrites[j].param
	})
}

// ---------------------------------------------------------------- text dump (for the notes and for debugging)

func (inv *inventory) dump() string {
	var sb strings.Builder
	fmt.Fprintf(&sb, "module %s: %d packages, %d functions with bodies, %d package-level variables\n", inv.modpath, len(inv.pkgs), inv.nFuncs, len(inv.rows))
	fmt.Fprintf(&sb, "entry points (exported functions/methods of the root packages): %d, of which %d touch no package-level variable; %d distinct touch classes\n\n",
		inv.nEntries, inv.nEmpty, len(inv.classes))
	for _, r := range inv.rows {
		interesting := len(r.writes) > 0 || r.cat == "pool" || r.cat == "once" || r.cat == "mutex" || len(r.escapes) > 0
		fmt.Fprintf(&sb, "#%d %s.%s [%s] %s  initWrites=%d reads=%d writes=%d escapes=%d\n", r.id, r.pkg, r.name, r.cat, r.typ, r.initWrites, len(r.reads), len(r.writes), len(r.escapes))
		if !interesting {
			continue
		}
		for _, w := range r.writes {
			fmt.Fprintf(&sb, "    WRITE %s %s via=%q once=%d mutex=%d x%d\n", inv.funcs[w.fn], w.kind, w.via, w.once, w.mu, w.count)
		}
		for _, rd := range r.reads {
			fmt.Fprintf(&sb, "    %s %s init=%v onces=%v mutexes=%v x%d\n", strings.ToUpper(rd.kind), inv.funcs[rd.fn], rd.init, rd.onces, rd.mutexes, rd.count)
		}
		for _, ap := range r.apis {
			fmt.Fprintf(&sb, "    API %s %s x%d\n", inv.funcs[ap.fn], ap.method, ap.count)
		}
		for i, e := range r.escapes {
			if i >= 12 {
				fmt.Fprintf(&sb, "    ESCAPE … %d more\n", len(r.escapes)-i)
				break
			}
			fmt.Fprintf(&sb, "    ESCAPE %s %s\n", e.how, inv.funcs[e.fn])
		}
		bad := 0
		for _, u := range r.pooluses {
			ok := poolUseOK(u)
			if !ok {
				bad++
			}
			if !ok || len(r.pooluses) < 8 {
				fmt.Fprintf(&sb, "    POOLUSE %s gets=%d puts=%d minDip=%d net=[%d,%d] putFromGet=%v putsParam=%v zeroBeforePut=%v resetAfterGet=%v emptySliceOnly=%v useAfterPut=%v\n",
					inv.short(u.fn.String()), u.gets, u.puts, u.eff.minDip, u.eff.netLo, u.eff.netHi, u.putFromGet, u.putsParam, u.zeroBeforePut, u.resetAfterGet, u.emptySliceOnly, u.useAfterPut)
			}
		}
		if r.cat == "pool" {
			fmt.Fprintf(&sb, "    pool users: %d, not obeying the discipline: %d\n", len(r.pooluses), bad)
		}
	}
	fmt.Fprintf(&sb, "\noption/config types: %v\n", inv.optTypes)
	for _, w := range inv.pwrites {
		fmt.Fprintf(&sb, "PARAMWRITE %s param %d (%s) locations %v\n", inv.funcs[w.fn], w.param, w.typ, w.locs)
	}
	fmt.Fprintf(&sb, "\n")
	for i, c := range inv.classes {
		n := 0
		ex := ""
		for _, e := range inv.entries {
			if e.class == i {
				n++
				if ex == "" {
					ex = e.name
				}
			}
		}
		fmt.Fprintf(&sb, "CLASS %d (%d entry points, e.g. %s):", i, n, ex)
		for _, t := range c {
			r := inv.rows[t.row]
			fmt.Fprintf(&sb, " %s.%s[", r.pkg, r.name)
			if t.reads {
				fmt.Fprintf(&sb, "r%v", t.readOnces)
			}
			if len(t.writers) > 0 {
				fmt.Fprintf(&sb, " W%v", t.writers)
			}
			if t.onceWriters {
				fmt.Fprintf(&sb, " ow")
			}
			if len(t.api) > 0 {
				fmt.Fprintf(&sb, " %v", t.api)
			}
			if !t.poolOK {
				fmt.Fprintf(&sb, " POOL-DISCIPLINE-BROKEN")
			}
			fmt.Fprintf(&sb, "]")
		}
		fmt.Fprintf(&sb, "\n")
	}
	return sb.String()
}

// ---------------------------------------------------------------- Lean output

func lstr(s string) string {
	s = strings.ReplaceAll(s, "\\", "\\\\")
	s = strings.ReplaceAll(s, "\"", "\\\"")
	// the framework's source scan rejects the Lean keyword `unsafe` anywhere in a model file, also inside a string
	// literal: spell the Go package name with an escape
	s = strings.ReplaceAll(s, "unsafe", "uns\\x61fe")
	return "\"" + s + "\""
}

func lnats(xs []int) string {
	ss := make([]string, len(xs))
	for i, x := range xs {
		ss[i] = fmt.Sprint(x)
	}
	return "[" + strings.Join(ss, ", ") + "]"
}

func lstrs(xs []string) string {
	ss := make([]string, len(xs))
	for i, x := range xs {
		ss[i] = lstr(x)
	}
	return "[" + strings.Join(ss, ", ") + "]"
}

func lopt(x int) string {
	if x < 0 {
		return "none"
	}
	return fmt.Sprintf("(some %d)", x)
}

func lbool(b bool) string {
	if b {
		return "true"
	}
	return "false"
}

func (inv *inventory) lean() string {
	// function table sorted by name (ids must not depend on the order in which the analysis met the functions)
	names := append([]string{}, inv.funcs...)
	sort.Strings(names)
	newID := map[int]int{}
	for old, n := range inv.funcs {
		newID[old] = sort.SearchStrings(names, n)
	}
	fid := func(x int) int { return newID[x] }
	var sb strings.Builder
	sb.WriteString("import FitModel.SharedInv\n")
	sb.WriteString("/-! GENERATED by translators/sharedstate from the Go source (go/types + go/ssa) on every run — do not edit.\n")
	sb.WriteString("Inventory of the package-level variables of the packages behind the public API, who writes and reads them under which\n")
	sb.WriteString("guard, the users of the sync.Pools, what escapes, which entry point touches what, writes through caller-supplied pointers. -/\n")
	sb.WriteString("namespace Fit.Gen.SharedState\nopen Fit.SharedInv\n\n")
	fmt.Fprintf(&sb, "def modulePath : String := %s\n", lstr(inv.modpath))
	fmt.Fprintf(&sb, "def packages : List String := %s\n", lstrs(inv.pkgs))
	fmt.Fprintf(&sb, "def nFunctions : Nat := %d\n", inv.nFuncs)
	fmt.Fprintf(&sb, "def nEntryPoints : Nat := %d\n", inv.nEntries)
	fmt.Fprintf(&sb, "def nEntryPointsTouchingNothing : Nat := %d\n", inv.nEmpty)
	fmt.Fprintf(&sb, "def nameUnknown : String := %s\n", lstr(inv.nameUnknown))
	fmt.Fprintf(&sb, "def fieldBaseLiterals : Nat := %d\n", inv.fbLiterals)
	fmt.Fprintf(&sb, "def fieldBaseLiteralsNamedUnknown : Nat := %d\n\n", inv.fbUnknown)
	sb.WriteString("def funcs : Array String := #[\n")
	for i, n := range names {
		sep := ","
		if i == len(names)-1 {
			sep = ""
		}
		fmt.Fprintf(&sb, "  %s%s\n", lstr(n), sep)
	}
	sb.WriteString("]\n\n")
	for _, r := range inv.rows {
		fmt.Fprintf(&sb, "def row%d : Row := {\n  id := %d, pkg := %s, name := %s, typ := %s, cat := Cat.%s, initWrites := %d,\n", r.id, r.id, lstr(r.pkg), lstr(r.name), lstr(r.typ), r.cat, r.initWrites)
		var ws []string
		for _, w := range r.writes {
			ws = append(ws, fmt.Sprintf("{ fn := %d, kind := WKind.%s, via := %s, once := %s, mutex := %s, count := %d }", fid(w.fn), w.kind, lstr(w.via), lopt(w.once), lopt(w.mu), w.count))
		}
		sort.Strings(ws)
		fmt.Fprintf(&sb, "  writes := [%s],\n", strings.Join(ws, ",\n    "))
		var rs []string
		for _, rd := range r.reads {
			if rd.init {
				continue
			}
			rs = append(rs, fmt.Sprintf("{ fn := %d, addr := %s, onces := %s, mutexes := %s, count := %d }", fid(rd.fn), lbool(rd.kind == "addr"), lnats(rd.onces), lnats(rd.mutexes), rd.count))
		}
		sort.Strings(rs)
		fmt.Fprintf(&sb, "  reads := [%s],\n", strings.Join(rs, ",\n    "))
		var as []string
		for _, ap := range r.apis {
			as = append(as, fmt.Sprintf("{ fn := %d, method := %s, count := %d }", fid(ap.fn), lstr(ap.method), ap.count))
		}
		sort.Strings(as)
		fmt.Fprintf(&sb, "  apis := [%s],\n", strings.Join(as, ",\n    "))
		var ps []string
		for _, u := range r.pooluses {
			ps = append(ps, fmt.Sprintf("{ fn := %d, gets := %d, puts := %d, dip := %d, putFromGet := %s, putsParam := %s, zeroBeforePut := %s, resetAfterGet := %s, emptySliceOnly := %s, useAfterPut := %s }",
				fid(inv.fnID(u.fn)), u.gets, u.puts, -u.eff.minDip, lbool(u.putFromGet), lbool(u.putsParam), lbool(u.zeroBeforePut), lbool(u.resetAfterGet), lbool(u.emptySliceOnly), lbool(u.useAfterPut)))
		}
		sort.Strings(ps)
		fmt.Fprintf(&sb, "  poolUses := [%s],\n", strings.Join(ps, ",\n    "))
		nret, nheap := 0, 0
		for _, e := range r.escapes {
			if e.how == "return" {
				nret++
			} else {
				nheap++
			}
		}
		fmt.Fprintf(&sb, "  escReturn := %d, escHeap := %d }\n", nret, nheap)
	}
	var ids []string
	for _, r := range inv.rows {
		ids = append(ids, fmt.Sprintf("row%d", r.id))
	}
	fmt.Fprintf(&sb, "\ndef rows : List Row := [%s]\n\n", strings.Join(ids, ", "))
	for i, c := range inv.classes {
		var ts []string
		for _, t := range c {
			ws := make([]int, len(t.writers))
			for j, w := range t.writers {
				ws[j] = fid(w)
			}
			sort.Ints(ws)
			ts = append(ts, fmt.Sprintf("{ row := %d, reads := %s, readOnces := %s, writers := %s, guardedWriters := %s, api := %s, poolOK := %s }",
				t.row, lbool(t.reads), lnats(t.readOnces), lnats(ws), lbool(t.onceWriters), lstrs(t.api), lbool(t.poolOK)))
		}
		fmt.Fprintf(&sb, "def class%d : List Touch := [%s]\n", i, strings.Join(ts, ",\n  "))
	}
	ids = ids[:0]
	for i := range inv.classes {
		ids = append(ids, fmt.Sprintf("class%d", i))
	}
	fmt.Fprintf(&sb, "\ndef classes : Array (List Touch) := #[%s]\n\n", strings.Join(ids, ", "))
	const chunk = 400
	nchunks := 0
	for i := 0; i < len(inv.entries); i += chunk {
		fmt.Fprintf(&sb, "def entries%d : List (String × Nat) := [\n", nchunks)
		end := i + chunk
		if end > len(inv.entries) {
			end = len(inv.entries)
		}
		for j := i; j < end; j++ {
			sep := ","
			if j == end-1 {
				sep = ""
			}
			fmt.Fprintf(&sb, "  (%s, %d)%s\n", lstr(inv.entries[j].name), inv.entries[j].class, sep)
		}
		sb.WriteString("]\n")
		nchunks++
	}
	sb.WriteString("\n/-- the entry points (every exported function and method of the root packages), each with the index of its touch class\n(the class `[]`: its call graph touches no package-level variable) -/\ndef entries : List (String × Nat) := ")
	var parts []string
	for i := 0; i < nchunks; i++ {
		parts = append(parts, fmt.Sprintf("entries%d", i))
	}
	if len(parts) == 0 {
		parts = []string{"[]"}
	}
	sb.WriteString(strings.Join(parts, " ++ ") + "\n\n")
	fmt.Fprintf(&sb, "def optionTypes : List String := %s\n\n", lstrs(inv.optTypes))
	sb.WriteString("def paramWrites : List ParamWrite := [\n")
	for i, w := range inv.pwrites {
		sep := ","
		if i == len(inv.pwrites)-1 {
			sep = ""
		}
		fmt.Fprintf(&sb, "  { fn := %d, param := %d, typ := %s, locs := %s }%s\n", fid(w.fn), w.param, lstr(w.typ), lstrs(w.locs), sep)
	}
	sb.WriteString("]\n\nend Fit.Gen.SharedState\n")
	return sb.String()
}

// fieldBaseNames: the FieldBase values built by the package initialisers (the factory tables): how many there are and
// how many carry the name by which the decoder recognises a field it may complete in place (factory.NameUnknown)
func (inv *inventory) fieldBaseNames() error {
	a := inv.a
	for p := range a.mine {
		if c, ok := p.Members["NameUnknown"].(*ssa.NamedConst); ok && strings.HasSuffix(p.Pkg.Path(), "profile/factory") {
			inv.nameUnknown = constantString(c)
		}
	}
	if inv.nameUnknown == "" {
		return fmt.Errorf("constant factory.NameUnknown not found")
	}
	for _, f := range a.fns {
		if !isInitFn(f) {
			continue
		}
		for _, b := range f.Blocks {
			for _, in := range b.Instrs {
				st, ok := in.(*ssa.Store)
				if !ok {
					continue
				}
				fa, ok := st.Addr.(*ssa.FieldAddr)
				if !ok || !strings.HasSuffix(typeStr(derefType(fa.X.Type())), "proto.FieldBase") {
					continue
				}
				sty := derefType(fa.X.Type()).Underlying().(*types.Struct)
				if sty.Field(fa.Field).Name() != "Name" {
					continue
				}
				inv.fbLiterals++
				if c, ok := st.Val.(*ssa.Const); !ok || constantStringV(c) == inv.nameUnknown {
					inv.fbUnknown++
				}
			}
		}
	}
	if inv.fbLiterals < 1000 {
		return fmt.Errorf("only %d FieldBase literals found in the package initialisers: the factory tables were not seen", inv.fbLiterals)
	}
	return nil
}

func constantString(c *ssa.NamedConst) string { return constantStringV(c.Value) }

func constantStringV(c *ssa.Const) string {
	if c.Value == nil || c.Value.Kind() != constant.String {
		return ""
	}
	return constant.StringVal(c.Value)
}
