module sharedstate

go 1.22.0

toolchain go1.23.5

require golang.org/x/tools v0.29.0

require (
	golang.org/x/mod v0.22.0 // indirect
	golang.org/x/sync v0.10.0 // indirect
)
