package main

// Discipline of the users of a package-level sync.Pool: per function that calls Get/Put on it (directly or through
// callees), the balance gets − puts along every path, where the object put back comes from, whether it is zeroed
// before Put / Reset after Get / only used as an empty append scratch, and whether it is used after Put.

import (
	"go/constant"
	"go/types"

	"golang.org/x/tools/go/ssa"
)

type poolEffect struct {
	minDip       int // lowest balance reached, relative to entry (≤ 0)
	netLo, netHi int
	touches      bool
}

type poolUse struct {
	g              *ssa.Global
	fn             *ssa.Function
	gets, puts     int
	eff            poolEffect
	putFromGet     bool
	putsParam      bool
	zeroBeforePut  bool
	resetAfterGet  bool
	emptySliceOnly bool
	useAfterPut    bool
}

type pools struct {
	a    *an
	memo map[*ssa.Function]map[*ssa.Global]*poolEffect
	busy map[*ssa.Function]bool
}

const capBal = 6

func clampB(x int) int {
	if x > capBal {
		return capBal
	}
	if x < -capBal {
		return -capBal
	}
	return x
}

func poolCall(in ssa.Instruction) (g *ssa.Global, method string, c *ssa.CallCommon) {
	ci, ok := in.(ssa.CallInstruction)
	if !ok || ci.Common().IsInvoke() {
		return nil, "", nil
	}
	c = ci.Common()
	typ, m := syncMethod(c.StaticCallee())
	if typ != "Pool" || len(c.Args) == 0 {
		return nil, "", nil
	}
	return dirGlobal(c.Args[0]), m, c
}

// effect of running fn on the balance of pool g (callees included)
func (p *pools) effect(fn *ssa.Function, g *ssa.Global) poolEffect {
	if m, ok := p.memo[fn]; ok {
		if e, ok := m[g]; ok {
			return *e
		}
	}
	if p.busy[fn] || !p.a.isMine(fn) {
		return poolEffect{}
	}
	p.busy[fn] = true
	defer delete(p.busy, fn)
	type iv struct {
		lo, hi   int // balance gets − puts
		dlo, dhi int // deferred Puts registered so far
		set      bool
	}
	in := make([]iv, len(fn.Blocks))
	in[0] = iv{set: true}
	eff := poolEffect{netLo: capBal, netHi: -capBal}
	returned := false
	work := []int{0}
	rounds := 0
	for len(work) > 0 && rounds < 10000 {
		rounds++
		bi := work[0]
		work = work[1:]
		b := fn.Blocks[bi]
		cur := in[bi]
		for _, ins := range b.Instrs {
			if pg, m, _ := poolCall(ins); pg == g {
				_, isDefer := ins.(*ssa.Defer)
				_, isGo := ins.(*ssa.Go)
				if isGo {
					continue
				}
				eff.touches = true
				if isDefer {
					if m == "Put" {
						cur.dlo, cur.dhi = clampB(cur.dlo+1), clampB(cur.dhi+1)
					}
					continue
				}
				if m == "Get" {
					cur.lo, cur.hi = clampB(cur.lo+1), clampB(cur.hi+1)
				} else if m == "Put" {
					cur.lo, cur.hi = clampB(cur.lo-1), clampB(cur.hi-1)
				}
			} else if _, ok := ins.(*ssa.RunDefers); ok {
				cur.lo, cur.hi = clampB(cur.lo-cur.dhi), clampB(cur.hi-cur.dlo)
				cur.dlo, cur.dhi = 0, 0
			} else if ci, ok := ins.(*ssa.Call); ok {
				if callee := ci.Call.StaticCallee(); callee != nil && p.a.isMine(callee) && callee != fn {
					ce := p.effect(callee, g)
					if ce.touches {
						eff.touches = true
						if cur.lo+ce.minDip < eff.minDip {
							eff.minDip = clampB(cur.lo + ce.minDip)
						}
						cur.lo, cur.hi = clampB(cur.lo+ce.netLo), clampB(cur.hi+ce.netHi)
					}
				}
			} else if _, ok := ins.(*ssa.Return); ok {
				returned = true
				if cur.lo < eff.netLo {
					eff.netLo = cur.lo
				}
				if cur.hi > eff.netHi {
					eff.netHi = cur.hi
				}
			}
			if cur.lo < eff.minDip {
				eff.minDip = cur.lo
			}
		}
		for _, s := range b.Succs {
			n := in[s.Index]
			if !n.set {
				in[s.Index] = iv{cur.lo, cur.hi, cur.dlo, cur.dhi, true}
				work = append(work, s.Index)
				continue
			}
			m := n
			if cur.lo < m.lo {
				m.lo = cur.lo
			}
			if cur.hi > m.hi {
				m.hi = cur.hi
			}
			if cur.dlo < m.dlo {
				m.dlo = cur.dlo
			}
			if cur.dhi > m.dhi {
				m.dhi = cur.dhi
			}
			if m != n {
				in[s.Index] = m
				work = append(work, s.Index)
			}
		}
	}
	if !returned {
		eff.netLo, eff.netHi = 0, 0
	}
	if p.memo[fn] == nil {
		p.memo[fn] = map[*ssa.Global]*poolEffect{}
	}
	e := eff
	p.memo[fn][g] = &e
	return eff
}

func stripIface(v ssa.Value) ssa.Value {
	for {
		switch x := v.(type) {
		case *ssa.MakeInterface:
			v = x.X
		case *ssa.ChangeType:
			v = x.X
		case *ssa.ChangeInterface:
			v = x.X
		default:
			return v
		}
	}
}

func isZeroValue(v ssa.Value) bool {
	switch x := v.(type) {
	case *ssa.Const:
		return x.Value == nil || (x.Value.Kind() == constant.Int && constant.Sign(x.Value) == 0)
	case *ssa.UnOp:
		al, ok := x.X.(*ssa.Alloc)
		if !ok {
			return false
		}
		for _, r := range *al.Referrers() {
			switch r.(type) {
			case *ssa.UnOp, *ssa.DebugRef:
			default:
				return false
			}
		}
		return true
	}
	return false
}

func constZero(v ssa.Value) bool {
	c, ok := v.(*ssa.Const)
	return ok && c.Value != nil && c.Value.Kind() == constant.Int && constant.Sign(c.Value) == 0
}

// use: the facts about fn's direct use of pool g
func (p *pools) use(fn *ssa.Function, g *ssa.Global) *poolUse {
	u := &poolUse{g: g, fn: fn, putFromGet: true, zeroBeforePut: true}
	s := p.a.state(fn)
	getObjs := set{}
	var getVals []ssa.Value // the typed pointers obtained from Get (after the type assertion)
	var puts []ssa.Instruction
	var putArgs []ssa.Value
	for _, b := range fn.Blocks {
		for _, in := range b.Instrs {
			pg, m, c := poolCall(in)
			if pg != g {
				continue
			}
			switch m {
			case "Get":
				u.gets++
				if v, ok := in.(ssa.Value); ok {
					getObjs[p.a.obj(object{kind: kA, fn: fn, site: v})] = struct{}{}
					for _, r := range *v.Referrers() {
						switch x := r.(type) {
						case *ssa.TypeAssert:
							if x.CommaOk {
								for _, rr := range *x.Referrers() {
									if ex, ok := rr.(*ssa.Extract); ok && ex.Index == 0 {
										getVals = append(getVals, ex)
									}
								}
							} else {
								getVals = append(getVals, x)
							}
						}
					}
				}
			case "Put":
				u.puts++
				puts = append(puts, in)
				putArgs = append(putArgs, stripIface(c.Args[1]))
			}
		}
	}
	u.eff = p.effect(fn, g)
	for _, arg := range putArgs {
		bs := s.b(p.a, arg)
		if len(bs) == 0 {
			u.putFromGet = false
		}
		for o := range bs {
			ob := p.a.objs[o]
			if ob.kind == kP || ob.kind == kF {
				u.putsParam = true
				u.putFromGet = false
			} else if _, ok := getObjs[o]; !ok {
				if _, isAlloc := ob.site.(*ssa.Alloc); !(ob.kind == kA && isAlloc) {
					u.putFromGet = false
				}
			}
		}
	}
	hasObj := func(v ssa.Value, objs set) bool {
		for o := range s.b(p.a, v) {
			if _, ok := objs[o]; ok {
				return true
			}
		}
		return false
	}
	// zeroed before every Put: a store of the zero value to the whole object that dominates the Put
	for i, put := range puts {
		objs := s.b(p.a, putArgs[i])
		ok := false
		for _, b := range fn.Blocks {
			for _, in := range b.Instrs {
				st, isStore := in.(*ssa.Store)
				if !isStore || !isZeroValue(st.Val) {
					continue
				}
				switch st.Addr.(type) {
				case *ssa.FieldAddr, *ssa.IndexAddr:
					continue
				}
				if hasObj(st.Addr, objs) && dominates(st, put) {
					ok = true
				}
			}
		}
		if _, isDefer := put.(*ssa.Defer); isDefer {
			ok = false
		}
		if !ok {
			u.zeroBeforePut = false
		}
	}
	if len(puts) == 0 {
		u.zeroBeforePut = false
	}
	// the pointer obtained from Get: how is it used
	u.emptySliceOnly = len(getVals) > 0
	var reset ssa.Instruction
	var others []ssa.Instruction
	for _, gv := range getVals {
		for _, r := range *gv.Referrers() {
			switch x := r.(type) {
			case *ssa.DebugRef:
				continue
			case *ssa.Slice:
				if x.X == gv && x.Low == nil && x.High != nil && constZero(x.High) {
					continue
				}
			case *ssa.Store:
				if x.Addr == gv && isZeroValue(x.Val) {
					continue
				}
			case *ssa.MakeInterface:
				onlyPut := true
				for _, rr := range *x.Referrers() {
					if pg, m, _ := poolCall(rr); !(pg == g && m == "Put") {
						onlyPut = false
					}
				}
				if onlyPut {
					continue
				}
			case ssa.CallInstruction:
				c := x.Common()
				if callee := c.StaticCallee(); callee != nil && callee.Name() == "Reset" && len(c.Args) > 0 && c.Args[0] == gv {
					if reset == nil {
						reset = x
					}
					u.emptySliceOnly = false
					continue
				}
			}
			u.emptySliceOnly = false
			others = append(others, r)
		}
	}
	if reset != nil {
		u.resetAfterGet = true
		for _, o := range others {
			if _, isDefer := o.(*ssa.Defer); isDefer {
				continue
			}
			if mi, ok := o.(*ssa.MakeInterface); ok {
				_ = mi
				continue
			}
			if !dominates(reset, o) {
				u.resetAfterGet = false
			}
		}
	}
	// use after Put: an instruction dominated by a (non-deferred) Put that still handles the object
	for i, put := range puts {
		if _, isDefer := put.(*ssa.Defer); isDefer {
			continue
		}
		objs := s.b(p.a, putArgs[i])
		for _, b := range fn.Blocks {
			for _, in := range b.Instrs {
				if in == put || !dominates(put, in) {
					continue
				}
				if _, ok := in.(*ssa.DebugRef); ok {
					continue
				}
				for _, op := range in.Operands(nil) {
					if *op != nil && hasObj(*op, objs) {
						u.useAfterPut = true
					}
				}
			}
		}
	}
	return u
}

var _ = types.Typ
