package main

// Loading /repo without go/packages: go/build selects the files of a directory (build constraints, no tests, no
// `verif` tag: the production code), go/parser + go/types check them; packages of the module are loaded from source
// recursively, everything else (standard library, third-party modules) comes from the "source" importer. go/ssa then
// builds bodies for the module's packages only; the others exist as type-only packages (calls into them are "external").

import (
	"fmt"
	"go/ast"
	"go/build"
	"go/importer"
	"go/parser"
	"go/token"
	"go/types"
	"os"
	"path/filepath"
	"sort"
	"strings"

	"golang.org/x/tools/go/ssa"
)

type lpkg struct {
	path, dir string
	files     []*ast.File
	types     *types.Package
	info      *types.Info
	loading   bool
}

type loader struct {
	fset    *token.FileSet
	repo    string
	modpath string
	pkgs    map[string]*lpkg
	order   []*lpkg // dependency order
	ext     types.ImporterFrom
	bctx    build.Context
}

func newLoader(repo string) (*loader, error) {
	gomod, err := os.ReadFile(filepath.Join(repo, "go.mod"))
	if err != nil {
		return nil, err
	}
	mod := ""
	for _, l := range strings.Split(string(gomod), "\n") {
		if strings.HasPrefix(l, "module ") {
			mod = strings.TrimSpace(strings.TrimPrefix(l, "module "))
		}
	}
	if mod == "" {
		return nil, fmt.Errorf("no module line in %s/go.mod", repo)
	}
	fset := token.NewFileSet()
	// the "source" importer works on &build.Default: module lookups (`go list`) must run inside the repository
	build.Default.Dir = repo
	build.Default.CgoEnabled = false
	bctx := build.Default
	ext, ok := importer.ForCompiler(fset, "source", nil).(types.ImporterFrom)
	if !ok {
		return nil, fmt.Errorf("source importer is not an ImporterFrom")
	}
	return &loader{fset: fset, repo: repo, modpath: mod, pkgs: map[string]*lpkg{}, ext: ext, bctx: bctx}, nil
}

func (l *loader) Import(path string) (*types.Package, error) { return l.ImportFrom(path, l.repo, 0) }

func (l *loader) ImportFrom(path, dir string, mode types.ImportMode) (*types.Package, error) {
	if path == "unsafe" {
		return types.Unsafe, nil
	}
	if path == l.modpath || strings.HasPrefix(path, l.modpath+"/") {
		p, err := l.load(path)
		if err != nil {
			return nil, err
		}
		return p.types, nil
	}
	return l.ext.ImportFrom(path, l.repo, 0)
}

func (l *loader) load(path string) (*lpkg, error) {
	if p, ok := l.pkgs[path]; ok {
		if p.loading {
			return nil, fmt.Errorf("import cycle through %s", path)
		}
		return p, nil
	}
	dir := filepath.Join(l.repo, strings.TrimPrefix(strings.TrimPrefix(path, l.modpath), "/"))
	p := &lpkg{path: path, dir: dir, loading: true}
	l.pkgs[path] = p
	bp, err := l.bctx.ImportDir(dir, 0)
	if err != nil {
		return nil, fmt.Errorf("%s: %v", path, err)
	}
	names := append([]string{}, bp.GoFiles...)
	sort.Strings(names)
	for _, n := range names {
		f, err := parser.ParseFile(l.fset, filepath.Join(dir, n), nil, parser.SkipObjectResolution)
		if err != nil {
			return nil, err
		}
		p.files = append(p.files, f)
	}
	p.info = &types.Info{
		Types: map[ast.Expr]types.TypeAndValue{}, Defs: map[*ast.Ident]types.Object{}, Uses: map[*ast.Ident]types.Object{},
		Implicits: map[ast.Node]types.Object{}, Selections: map[*ast.SelectorExpr]*types.Selection{}, Scopes: map[ast.Node]*types.Scope{},
		Instances: map[*ast.Ident]types.Instance{}, FileVersions: map[*ast.File]string{},
	}
	var terr error
	conf := types.Config{Importer: l, Error: func(e error) {
		if terr == nil {
			terr = e
		}
	}}
	tp, _ := conf.Check(path, l.fset, p.files, p.info)
	if terr != nil {
		return nil, fmt.Errorf("type-checking %s: %v", path, terr)
	}
	p.types = tp
	p.loading = false
	l.order = append(l.order, p)
	return p, nil
}

// rootDirs: the non-test, non-main packages behind the public API named in the task:
// decoder, encoder, proto, profile/**, kit/**, cmd/fitactivity/*, cmd/fitconv/fitcsv.
func (l *loader) rootPaths() ([]string, error) {
	var res []string
	add := func(rel string) {
		dir := filepath.Join(l.repo, rel)
		bp, err := l.bctx.ImportDir(dir, 0)
		if err != nil || bp.Name == "main" || len(bp.GoFiles) == 0 {
			return
		}
		res = append(res, l.modpath+"/"+filepath.ToSlash(rel))
	}
	for _, top := range []string{"decoder", "encoder", "proto", "profile", "kit"} {
		err := filepath.Walk(filepath.Join(l.repo, top), func(p string, fi os.FileInfo, err error) error {
			if err != nil {
				return err
			}
			if fi.IsDir() {
				if fi.Name() == "testdata" || strings.HasPrefix(fi.Name(), ".") {
					return filepath.SkipDir
				}
				rel, _ := filepath.Rel(l.repo, p)
				add(rel)
			}
			return nil
		})
		if err != nil {
			return nil, err
		}
	}
	ents, err := os.ReadDir(filepath.Join(l.repo, "cmd", "fitactivity"))
	if err != nil {
		return nil, err
	}
	for _, e := range ents {
		if e.IsDir() {
			add(filepath.Join("cmd", "fitactivity", e.Name()))
		}
	}
	add(filepath.Join("cmd", "fitconv", "fitcsv"))
	sort.Strings(res)
	if len(res) < 10 {
		return nil, fmt.Errorf("only %d root packages found under %s: layout changed?", len(res), l.repo)
	}
	return res, nil
}

// buildSSA creates SSA packages: with bodies for the module's packages, type-only for everything they import.
func (l *loader) buildSSA() (*ssa.Program, map[*ssa.Package]bool) {
	prog := ssa.NewProgram(l.fset, ssa.InstantiateGenerics)
	var createDeps func(ps []*types.Package)
	inModule := map[*types.Package]bool{}
	for _, p := range l.order {
		inModule[p.types] = true
	}
	createDeps = func(ps []*types.Package) {
		for _, p := range ps {
			if inModule[p] || prog.Package(p) != nil {
				continue
			}
			prog.CreatePackage(p, nil, nil, true)
			createDeps(p.Imports())
		}
	}
	mine := map[*ssa.Package]bool{}
	for _, p := range l.order {
		createDeps(p.types.Imports())
		sp := prog.CreatePackage(p.types, p.files, p.info, true)
		mine[sp] = true
	}
	prog.Build()
	return prog, mine
}
