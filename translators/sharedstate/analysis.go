package main

// Reference analysis over go/ssa: for every SSA value, the set of abstract objects it may point to or hold pointers to.
//
//	G(g)      a package-level variable and everything reachable from it (collapsed)
//	P0(f,i)   what parameter i of f refers to directly (its pointee, backing array, map, the pointers inside a struct value);
//	P1(f,i)   everything reachable from there through loads (collapsed). F0/F1: the same for captured variables of closures
//	A(v)      an object created in the function (Alloc, make, append's new array); A(call,0)/A(call,1): fresh memory returned
//	          by a call and what is reachable inside it
//
// plus a one-level type-based heap: a pointer into G(g) stored DIRECTLY into field f of struct type T anywhere is seen
// by every load of T.f, so that package state installed into an object by one method and used by another is followed
// (encoder.options.messageValidator). Pointers into package state buried deeper in heap objects of unknown provenance
// are not followed (they are "reachable from the parameter", resolved where the argument is local or package-level).
//
// Inclusion based, flow-insensitive (SSA form gives most of the flow sensitivity), field-insensitive inside objects, with
// function summaries (what is written through parameters / captured variables at depth 0 and deeper, what the result
// refers to, what is stored where) applied at call sites; interface and func-value calls are resolved by class hierarchy /
// signature. A write through a pointer is attributed to G(g) only if the written location's type occurs in the type graph
// of g (bases conflate "points into" and "holds pointers into"; the type filter separates most of it).

import (
	"errors"
	"fmt"
	"go/token"
	"go/types"
	"os"
	"sort"
	"strings"

	"golang.org/x/tools/go/ssa"
	"golang.org/x/tools/go/ssa/ssautil"
)

var errNoFixpoint = errors.New("the reference analysis did not reach a fixpoint in 60 rounds")

type objKind byte

const (
	kG objKind = 'G'
	kP objKind = 'P'
	kF objKind = 'F'
	kA objKind = 'A'
)

type object struct {
	kind  objKind
	g     *ssa.Global
	fn    *ssa.Function
	idx   int
	depth int
	site  ssa.Value
}

type set map[int]struct{}

func (s set) add(x int) bool {
	if _, ok := s[x]; ok {
		return false
	}
	s[x] = struct{}{}
	return true
}

var singles = map[int]set{}

// single: a shared, never mutated singleton set
func single(x int) set {
	if r, ok := singles[x]; ok {
		return r
	}
	r := set{x: {}}
	singles[x] = r
	return r
}

type fieldKey struct {
	typ   string
	field int
}

type summary struct {
	writes  map[int]map[string]bool         // own P/F object -> types of the locations written through it
	exts    map[int]map[string]bool         // own P/F object -> external functions it is handed to
	ret     retInfo                         // what the results refer to (all results and fields together)
	retS    map[int]map[int]*retInfo        // result index -> field -> what that field of a struct-typed result refers to
	pstores map[int]set                     // own P/F object o -> own P/F, G, H objects stored into o's memory
	ptags   map[int]map[int]map[string]bool // … and, for the package-level ones, the types of the stored values
	fstores map[fieldKey]set                // struct field -> own P/F objects it is made to refer to
	version int
}

// retInfo: what a returned reference refers to, in the callee's terms
type retInfo struct {
	roots set  // own P/F and G objects it may be / point to
	fresh bool // it may be memory created by the callee …
	cont  set  // … which refers directly to these own P/F and G objects
	deepF bool // … and to further fresh memory …
	deep  set  // … which refers to these
}

func newRetInfo() retInfo { return retInfo{roots: set{}, cont: set{}, deep: set{}} }

type fstate struct {
	fn        *ssa.Function
	bases     map[ssa.Value]set
	contents  map[int]set
	sum       summary
	callees   map[*ssa.Function]int // summary version seen
	heapSeen  int
	analysed  bool
	cver      int
	deepCache map[int]deepEntry
	fb        map[ssa.Value]map[int]set         // struct-typed value -> field -> what that field refers to
	tfb       map[ssa.Value]map[int]map[int]set // tuple-typed call result -> result index -> field -> …
	insens    map[ssa.Value]bool                // struct-typed value that also got references not told apart by field
	ctype     map[int]map[int]map[string]bool   // collapsed object (P/F) -> package object stored in it -> types of the stored values ("*" = unknown)
	curTags   []string                          // types of the value being stored by the current addContents (nil = unknown)
	paramIdx  map[*ssa.Parameter]int
	freeIdx   map[*ssa.FreeVar]int
}

type event struct {
	g     *ssa.Global
	fn    *ssa.Function
	instr ssa.Instruction
	kind  string // store elem mapupdate delete append copy clear call:<f> ext:<f>
	loc   string
}

type access struct { // direct access: an instruction using an address inside the variable's own storage
	g     *ssa.Global
	fn    *ssa.Function
	instr ssa.Instruction
	kind  string // read | store | elemstore | api:<Method> | addr (address handed on)
}

type escape struct {
	g   *ssa.Global
	fn  *ssa.Function
	how string // return | heap
}

type use struct {
	in    *ssa.Function
	instr ssa.Instruction
	role  string // callee | doarg | other
	once  *ssa.Global
}

type an struct {
	prog        *ssa.Program
	mine        map[*ssa.Package]bool
	objs        []object
	objIdx      map[object]int
	fns         []*ssa.Function
	st          map[*ssa.Function]*fstate
	fieldG      map[fieldKey]set // what field T.f may refer to: G and H objects
	heapVer     int
	nAnalysed   int
	dirty       bool
	sumDirty    bool
	emit        bool
	events      []event
	accesses    []access
	escapes     []escape
	edges       map[*ssa.Function]map[*ssa.Function]bool
	uses        map[*ssa.Function][]use
	concrete    []types.Type // named non-interface types of the analysed packages (T and *T)
	implMemo    map[string][]*ssa.Function
	sigMemo     map[string][]*ssa.Function
	addrTaken   map[*ssa.Function]bool
	reachMemo   map[string]*reach
	carryMemo   map[types.Type]bool
	poolNew     map[*ssa.Global]*ssa.Function
	compatMemo  map[compatKey]bool
	unsafeTaken map[*ssa.Global]bool
}

type reach struct {
	types    map[string]bool
	arrElems map[string]bool // element types of the arrays and slices in the graph
	wildcard bool
}

type compatKey struct {
	t types.Type
	g *ssa.Global
}

// compat: can a value of type t point into (or hold a pointer into) the memory of package variable g? Judged by types:
// a pointer/slice/map/chan inside t must refer to a location type that occurs in g's type graph; interfaces by their
// implementations (the empty interface and func values: anything); unsafe.Pointer only if g holds unsafe pointers or
// its address was converted to one.
func (a *an) compat(t types.Type, g *ssa.Global) bool {
	k := compatKey{t, g}
	if v, ok := a.compatMemo[k]; ok {
		return v
	}
	a.compatMemo[k] = true // recursive types
	r := a.typeReach(derefType(g.Type()))
	res := r.wildcard
	if !res {
		switch u := t.Underlying().(type) {
		case *types.Pointer:
			res = r.types[typeStr(u.Elem())]
		case *types.Slice:
			res = r.types[typeStr(t)] || r.types[typeStr(u)] || r.arrElems[typeStr(u.Elem())]
		case *types.Map, *types.Chan:
			res = r.types[typeStr(t)] || r.types[typeStr(u)]
		case *types.Struct:
			for i := 0; i < u.NumFields() && !res; i++ {
				res = a.compat(u.Field(i).Type(), g)
			}
		case *types.Array:
			res = a.compat(u.Elem(), g)
		case *types.Tuple:
			for i := 0; i < u.Len() && !res; i++ {
				res = a.compat(u.At(i).Type(), g)
			}
		case *types.Interface:
			if u.NumMethods() == 0 {
				res = true
			} else {
				for _, c := range a.concrete {
					if types.Implements(c, u) && a.compat(c, g) {
						res = true
						break
					}
				}
			}
		case *types.Signature, *types.TypeParam:
			res = true
		case *types.Basic:
			res = u.Kind() == types.UnsafePointer && (r.types["unsafe.Pointer"] || a.unsafeTaken[g])
		}
	}
	a.compatMemo[k] = res
	return res
}

func (a *an) obj(o object) int {
	if id, ok := a.objIdx[o]; ok {
		return id
	}
	a.objs = append(a.objs, o)
	a.objIdx[o] = len(a.objs) - 1
	return len(a.objs) - 1
}

func (a *an) pkgOf(fn *ssa.Function) *ssa.Package {
	for f := fn; f != nil; f = f.Parent() {
		if f.Pkg != nil {
			return f.Pkg
		}
		if o := f.Origin(); o != nil && o.Pkg != nil {
			return o.Pkg
		}
	}
	if fn.Signature != nil && fn.Signature.Recv() != nil {
		t := fn.Signature.Recv().Type()
		if p, ok := t.(*types.Pointer); ok {
			t = p.Elem()
		}
		if n, ok := t.(*types.Named); ok && n.Obj().Pkg() != nil {
			return a.prog.Package(n.Obj().Pkg())
		}
	}
	return nil
}

func (a *an) isMine(fn *ssa.Function) bool {
	return fn != nil && len(fn.Blocks) > 0 && a.mine[a.pkgOf(fn)]
}

func (a *an) state(fn *ssa.Function) *fstate {
	if s, ok := a.st[fn]; ok {
		return s
	}
	s := &fstate{fn: fn, bases: map[ssa.Value]set{}, contents: map[int]set{}, callees: map[*ssa.Function]int{},
		paramIdx: map[*ssa.Parameter]int{}, freeIdx: map[*ssa.FreeVar]int{}, heapSeen: -1,
		fb: map[ssa.Value]map[int]set{}, tfb: map[ssa.Value]map[int]map[int]set{}, insens: map[ssa.Value]bool{}, ctype: map[int]map[int]map[string]bool{}}
	for i, p := range fn.Params {
		s.paramIdx[p] = i
	}
	for i, p := range fn.FreeVars {
		s.freeIdx[p] = i
	}
	s.sum = summary{writes: map[int]map[string]bool{}, exts: map[int]map[string]bool{}, ret: newRetInfo(), retS: map[int]map[int]*retInfo{},
		pstores: map[int]set{}, ptags: map[int]map[int]map[string]bool{}, fstores: map[fieldKey]set{}}
	a.st[fn] = s
	return s
}

// carries: can a value of this type hold a pointer?
func (a *an) carries(t types.Type) bool {
	if v, ok := a.carryMemo[t]; ok {
		return v
	}
	a.carryMemo[t] = true // recursive types carry
	r := true
	switch u := t.Underlying().(type) {
	case *types.Basic:
		r = u.Kind() == types.UnsafePointer
	case *types.Struct:
		r = false
		for i := 0; i < u.NumFields(); i++ {
			if a.carries(u.Field(i).Type()) {
				r = true
			}
		}
	case *types.Array:
		r = a.carries(u.Elem())
	case *types.Tuple:
		r = false
		for i := 0; i < u.Len(); i++ {
			if a.carries(u.At(i).Type()) {
				r = true
			}
		}
	}
	a.carryMemo[t] = r
	return r
}

func (s *fstate) b(a *an, v ssa.Value) set {
	switch x := v.(type) {
	case *ssa.Global:
		return single(a.obj(object{kind: kG, g: x}))
	case *ssa.Parameter:
		if !a.carries(x.Type()) {
			return nil
		}
		if i, ok := s.paramIdx[x]; ok {
			return single(a.obj(object{kind: kP, fn: s.fn, idx: i}))
		}
		return nil
	case *ssa.FreeVar:
		if i, ok := s.freeIdx[x]; ok {
			return single(a.obj(object{kind: kF, fn: s.fn, idx: i}))
		}
		return nil
	case *ssa.Const, *ssa.Function, *ssa.Builtin:
		return nil
	}
	return s.bases[v]
}

func (s *fstate) addBases(a *an, v ssa.Value, src set) {
	if len(src) == 0 || !a.carries(v.Type()) {
		return
	}
	if _, isSt := isStructVal(v.Type()); isSt && !s.insens[v] {
		s.insens[v] = true
		a.dirty = true
	}
	s.addBasesRaw(a, v, src)
}

func (s *fstate) addBasesRaw(a *an, v ssa.Value, src set) {
	if len(src) == 0 || !a.carries(v.Type()) {
		return
	}
	d := s.bases[v]
	if d == nil {
		d = set{}
		s.bases[v] = d
	}
	for x := range src {
		if ob := &a.objs[x]; ob.kind == kG && !a.compat(v.Type(), ob.g) {
			continue
		}
		if d.add(x) {
			a.dirty = true
		}
	}
}

// eachContent: what pointers stored inside object o may refer to
func (s *fstate) eachContent(a *an, o int, f func(int)) {
	ob := &a.objs[o]
	switch ob.kind {
	case kG:
		f(o)
	case kP, kF:
		if ob.depth == 1 {
			f(o)
		} else {
			d := *ob
			d.depth = 1
			f(a.obj(d))
		}
		for x := range s.contents[o] {
			f(x)
		}
	default:
		for x := range s.contents[o] {
			f(x)
		}
		if ob.idx > 0 { // a field of a local struct: also what was stored into the struct as a whole
			w := *ob
			w.idx = 0
			for x := range s.contents[a.obj(w)] {
				f(x)
			}
		} else if n := a.nFields(ob); n > 0 { // the whole struct: every field
			for i := 1; i <= n; i++ {
				w := *ob
				w.idx = i
				if id, ok := a.objIdx[w]; ok {
					for x := range s.contents[id] {
						f(x)
					}
				}
			}
		}
	}
}

// nFields: number of fields if the object is a local variable of struct type (tracked per field), else 0
func (a *an) nFields(ob *object) int {
	if ob.kind != kA || ob.depth != 0 {
		return 0
	}
	al, ok := ob.site.(*ssa.Alloc)
	if !ok {
		return 0
	}
	if st, ok := derefType(al.Type()).Underlying().(*types.Struct); ok {
		return st.NumFields()
	}
	return 0
}

// fieldObjs: the objects FieldAddr(x, f) points to: field f of a local struct variable, the object itself otherwise
func (s *fstate) fieldObjs(a *an, bases set, f int) set {
	var r set
	for o := range bases {
		ob := &a.objs[o]
		if ob.idx == 0 && a.nFields(ob) > 0 {
			if r == nil {
				r = set{}
				for x := range bases {
					r[x] = struct{}{}
				}
			}
			delete(r, o)
			w := *ob
			w.idx = f + 1
			r[a.obj(w)] = struct{}{}
		}
	}
	if r == nil {
		return bases
	}
	return r
}

func (s *fstate) addFB(a *an, v ssa.Value, f int, src set) {
	if len(src) == 0 {
		return
	}
	m := s.fb[v]
	if m == nil {
		m = map[int]set{}
		s.fb[v] = m
	}
	d := m[f]
	if d == nil {
		d = set{}
		m[f] = d
	}
	for x := range src {
		if d.add(x) {
			a.dirty = true
		}
	}
	s.addBasesRaw(a, v, src)
}

func isStructVal(t types.Type) (*types.Struct, bool) {
	st, ok := t.Underlying().(*types.Struct)
	return st, ok
}

func (s *fstate) contentsOf(a *an, o int) set {
	r := set{}
	s.eachContent(a, o, func(x int) { r[x] = struct{}{} })
	return r
}

type deepEntry struct {
	cver, hver int
	res        set
}

// deepOf: the package-level objects (G) and own parameter/captured objects (depth 1) reachable from object o in one or
// more steps; local objects are walked, the type-based heap is summarised by a.hreach (recomputed every round)
func (s *fstate) deepOf(a *an, o int) set {
	if e, ok := s.deepCache[o]; ok && e.cver == s.cver && e.hver == a.heapVer {
		return e.res
	}
	r := set{}
	seen := set{}
	var work []int
	visit := func(x int) {
		if !seen.add(x) {
			return
		}
		ob := &a.objs[x]
		switch ob.kind {
		case kG:
			r[x] = struct{}{}
		case kP, kF:
			if ob.depth == 1 {
				r[x] = struct{}{}
			} else {
				d := *ob
				d.depth = 1
				r[a.obj(d)] = struct{}{}
			}
			work = append(work, x)
		default:
			work = append(work, x)
		}
	}
	s.eachContent(a, o, visit)
	for len(work) > 0 {
		y := work[len(work)-1]
		work = work[:len(work)-1]
		for x := range s.contents[y] {
			visit(x)
		}
	}
	if s.deepCache == nil {
		s.deepCache = map[int]deepEntry{}
	}
	s.deepCache[o] = deepEntry{s.cver, a.heapVer, r}
	return r
}

// deep: see deepOf
func (s *fstate) deep(a *an, src set) set {
	if len(src) == 1 {
		for o := range src {
			return s.deepOf(a, o)
		}
	}
	r := set{}
	for o := range src {
		for x := range s.deepOf(a, o) {
			r[x] = struct{}{}
		}
	}
	return r
}

func (s *fstate) sumChanged(a *an) { a.dirty = true; a.sumDirty = true }

func (a *an) heapChanged() { a.dirty = true; a.heapVer++ }

// storeField: field k is made to refer DIRECTLY to the given objects: package-level objects go to the type-based heap
// (a.fieldG: every load of that field anywhere sees them), own parameter/captured objects to the summary (resolved at
// the call sites). Local objects are not followed through the heap (one level only).
func (s *fstate) storeField(a *an, k fieldKey, val set) {
	for o := range val {
		switch a.objs[o].kind {
		case kG:
			d := a.fieldG[k]
			if d == nil {
				d = set{}
				a.fieldG[k] = d
			}
			if d.add(o) {
				a.heapChanged()
			}
		case kP, kF:
			d := s.sum.fstores[k]
			if d == nil {
				d = set{}
				s.sum.fstores[k] = d
			}
			if d.add(o) {
				s.sumChanged(a)
			}
		}
	}
}

// addContentsT: as addContents, remembering the static type of the stored value (used to tell, in a collapsed object,
// a stored struct that holds a pointer into package state from a stored reference to that state)
func (s *fstate) addContentsT(a *an, o int, src set, t types.Type) {
	if t != nil {
		s.curTags = []string{typeStr(t)}
	}
	s.addContents(a, o, src)
	s.curTags = nil
}

// storedAs: may a value of type t loaded from collapsed object o be (or hold) the reference to package object x that
// was stored there? Only if t occurs in the type graph of one of the stored values' types.
func (s *fstate) storedAs(a *an, o, x int, t types.Type) bool {
	tags := s.ctype[o][x]
	if len(tags) == 0 {
		return true // the collapsed object's own deep memory (its depth-1 self reference etc.)
	}
	want := typeStr(t)
	for tag := range tags {
		if tag == "*" || tag == want {
			return true
		}
		if r, ok := a.reachMemo[tag]; ok && (r.wildcard || r.types[want]) {
			return true
		}
	}
	return false
}

func (s *fstate) addContents(a *an, o int, src set) {
	if len(src) == 0 {
		return
	}
	ob := a.objs[o]
	switch ob.kind {
	case kG:
		return
	}
	d := s.contents[o]
	if d == nil {
		d = set{}
		s.contents[o] = d
	}
	for x := range src {
		if d.add(x) {
			a.dirty = true
			s.cver++
		}
	}
	if ob.kind == kP || ob.kind == kF {
		tags := s.curTags
		if tags == nil {
			tags = []string{"*"}
		}
		for x := range src {
			if a.objs[x].kind != kG {
				continue
			}
			m := s.ctype[o]
			if m == nil {
				m = map[int]map[string]bool{}
				s.ctype[o] = m
			}
			if m[x] == nil {
				m[x] = map[string]bool{}
			}
			pt := s.sum.ptags[o]
			if pt == nil {
				pt = map[int]map[string]bool{}
				s.sum.ptags[o] = pt
			}
			if pt[x] == nil {
				pt[x] = map[string]bool{}
			}
			for _, tag := range tags {
				if !m[x][tag] {
					m[x][tag] = true
					a.dirty = true
					s.cver++
				}
				if !pt[x][tag] {
					pt[x][tag] = true
					s.sumChanged(a)
				}
			}
		}
	}
	if ob.kind == kP || ob.kind == kF { // visible to callers: summary
		ps := s.sum.pstores[o]
		if ps == nil {
			ps = set{}
			s.sum.pstores[o] = ps
		}
		// a local object stored into caller-visible memory becomes part of what is reachable from there (depth 1);
		// what it refers to is recorded one level below
		d1 := ob
		d1.depth = 1
		deepID := a.obj(d1)
		for x := range src {
			if a.objs[x].kind != kA {
				if x != o && ps.add(x) {
					s.sumChanged(a)
				}
				continue
			}
			if deepID != o && ps.add(deepID) {
				s.sumChanged(a)
			}
			pd := s.sum.pstores[deepID]
			if pd == nil {
				pd = set{}
				s.sum.pstores[deepID] = pd
			}
			for y := range s.visible(a, s.contentsOf(a, x)) {
				if y != deepID && pd.add(y) {
					s.sumChanged(a)
				}
			}
		}
	}
}

// visible: the caller-visible objects (own P/F, G, H) reachable from a set of objects through local objects
func (s *fstate) visible(a *an, src set) set {
	r := set{}
	seen := set{}
	var walk func(o int)
	walk = func(o int) {
		if !seen.add(o) {
			return
		}
		if a.objs[o].kind == kA {
			for x := range s.contents[o] {
				walk(x)
			}
			return
		}
		r[o] = struct{}{}
	}
	for o := range src {
		walk(o)
	}
	return r
}

func typeStr(t types.Type) string { return types.TypeString(t, nil) }

func derefType(t types.Type) types.Type {
	if p, ok := t.Underlying().(*types.Pointer); ok {
		return p.Elem()
	}
	return t
}

func (a *an) fieldKeyOf(x ssa.Value, field int, viaPtr bool) fieldKey {
	t := x.Type()
	if viaPtr {
		t = derefType(t)
	}
	return fieldKey{typeStr(t), field}
}

// writeThrough: a write of a location of type loc through an address/reference with the given bases
func (s *fstate) writeThrough(a *an, instr ssa.Instruction, bases set, kind, loc string) {
	for o := range bases {
		ob := a.objs[o]
		switch ob.kind {
		case kG:
			if a.emit && a.locMatches(ob.g, loc) {
				a.events = append(a.events, event{g: ob.g, fn: s.fn, instr: instr, kind: kind, loc: loc})
			}
		case kP, kF:
			m := s.sum.writes[o]
			if m == nil {
				m = map[string]bool{}
				s.sum.writes[o] = m
			}
			if !m[loc] {
				m[loc] = true
				s.sumChanged(a)
			}
		}
	}
}

// extThrough: a reference handed to a function without body; callee = "<name>|<type of what the argument refers to>"
func (s *fstate) extThrough(a *an, instr ssa.Instruction, bases set, callee string) {
	name, loc := callee, ""
	if i := strings.LastIndex(callee, "|"); i >= 0 {
		name, loc = callee[:i], callee[i+1:]
	}
	for o := range bases {
		ob := a.objs[o]
		switch ob.kind {
		case kG:
			if a.emit && a.locMatches(ob.g, loc) {
				a.events = append(a.events, event{g: ob.g, fn: s.fn, instr: instr, kind: "ext:" + name, loc: loc})
			}
		case kP, kF:
			m := s.sum.exts[o]
			if m == nil {
				m = map[string]bool{}
				s.sum.exts[o] = m
			}
			if !m[callee] {
				m[callee] = true
				s.sumChanged(a)
			}
		}
	}
}

// addContentBases: bases[v] ⊇ contentsOf(o), without building the set
func (s *fstate) addContentBases(a *an, v ssa.Value, o int) {
	if !a.carries(v.Type()) {
		return
	}
	d := s.bases[v]
	kind := a.objs[o].kind
	s.eachContent(a, o, func(x int) {
		if ob := &a.objs[x]; ob.kind == kG && !a.compat(v.Type(), ob.g) {
			return
		}
		if (kind == kP || kind == kF) && a.objs[x].kind == kG && !s.storedAs(a, o, x, v.Type()) {
			return
		}
		if d == nil {
			d = set{}
			s.bases[v] = d
		}
		if d.add(x) {
			a.dirty = true
		}
	})
}

func (s *fstate) load(a *an, v ssa.Value, addr ssa.Value) {
	if !a.carries(v.Type()) {
		return
	}
	if st, ok := isStructVal(v.Type()); ok {
		// a struct value read from a local struct variable keeps its fields apart
		all := true
		for o := range s.b(a, addr) {
			ob := &a.objs[o]
			if !(ob.idx == 0 && a.nFields(ob) == st.NumFields()) {
				all = false
			}
		}
		if all && len(s.b(a, addr)) > 0 {
			for o := range s.b(a, addr) {
				ob := a.objs[o]
				for f := 0; f < st.NumFields(); f++ {
					if !a.carries(st.Field(f).Type()) {
						continue
					}
					w := ob
					w.idx = f + 1
					s.addFB(a, v, f, s.contentsOf(a, a.obj(w)))
				}
			}
			return
		}
	}
	for o := range s.b(a, addr) {
		s.addContentBases(a, v, o)
	}
	if fa, ok := addr.(*ssa.FieldAddr); ok {
		s.addBases(a, v, a.fieldG[a.fieldKeyOf(fa.X, fa.Field, true)])
	}
}

func (a *an) analyseFn(fn *ssa.Function) {
	s := a.state(fn)
	if s.analysed && !a.emit && s.heapSeen == a.heapVer {
		same := true
		for c, v := range s.callees {
			if a.state(c).sum.version != v {
				same = false
				break
			}
		}
		if same {
			return
		}
	}
	a.nAnalysed++
	outer, outerSum := a.dirty, a.sumDirty
	a.sumDirty = false
	for {
		a.dirty = false
		s.heapSeen = a.heapVer
		for _, b := range fn.Blocks {
			for _, in := range b.Instrs {
				s.transfer(a, in)
			}
		}
		if !a.dirty || a.emit {
			break
		}
		outer = true
	}
	s.analysed = true
	if a.sumDirty {
		s.sum.version++
		outer = true
	}
	a.dirty, a.sumDirty = outer, outerSum || a.sumDirty
}

func (s *fstate) fresh(a *an, v ssa.Value) set {
	return single(a.obj(object{kind: kA, fn: s.fn, site: v}))
}

func (s *fstate) transfer(a *an, in ssa.Instruction) {
	switch i := in.(type) {
	case *ssa.Alloc:
		s.addBases(a, i, s.fresh(a, i))
	case *ssa.MakeMap:
		s.addBases(a, i, s.fresh(a, i))
	case *ssa.MakeSlice:
		s.addBases(a, i, s.fresh(a, i))
	case *ssa.MakeChan:
		s.addBases(a, i, s.fresh(a, i))
	case *ssa.FieldAddr:
		s.addBases(a, i, s.fieldObjs(a, s.b(a, i.X), i.Field))
	case *ssa.IndexAddr:
		s.addBases(a, i, s.b(a, i.X))
	case *ssa.UnOp:
		if i.Op == token.MUL || i.Op == token.ARROW {
			s.load(a, i, i.X)
		}
	case *ssa.Store:
		val := s.b(a, i.Val)
		addr := s.b(a, i.Addr)
		fbv := s.fb[i.Val]
		for o := range addr {
			ob := a.objs[o]
			if st, ok := isStructVal(i.Val.Type()); ok && fbv != nil && !s.insens[i.Val] && ob.idx == 0 && a.nFields(&ob) == st.NumFields() {
				for f, vs := range fbv {
					w := ob
					w.idx = f + 1
					s.addContents(a, a.obj(w), vs)
				}
				continue
			}
			a.typeReach(i.Val.Type())
			s.addContentsT(a, o, val, i.Val.Type())
		}
		if fa, ok := i.Addr.(*ssa.FieldAddr); ok && len(val) > 0 {
			s.storeField(a, a.fieldKeyOf(fa.X, fa.Field, true), val)
		}
		kind := "elem"
		if _, ok := i.Addr.(*ssa.Global); ok {
			kind = "store"
		}
		s.writeThrough(a, in, addr, kind, typeStr(derefType(i.Addr.Type())))
		if a.emit {
			s.noteEscape(a, val, addr)
		}
	case *ssa.Send:
		val := s.b(a, i.X)
		for o := range s.b(a, i.Chan) {
			s.addContents(a, o, val)
		}
		if a.emit {
			s.noteEscape(a, val, s.b(a, i.Chan))
		}
	case *ssa.MapUpdate:
		val := set{}
		for x := range s.b(a, i.Key) {
			val[x] = struct{}{}
		}
		for x := range s.b(a, i.Value) {
			val[x] = struct{}{}
		}
		for o := range s.b(a, i.Map) {
			s.addContents(a, o, val)
		}
		s.writeThrough(a, in, s.b(a, i.Map), "mapupdate", typeStr(i.Map.Type()))
		if a.emit {
			s.noteEscape(a, val, s.b(a, i.Map))
		}
	case *ssa.Lookup:
		if _, isMap := i.X.Type().Underlying().(*types.Map); isMap {
			for o := range s.b(a, i.X) {
				s.addContentBases(a, i, o)
			}
		}
	case *ssa.Field:
		if m := s.fb[i.X]; m != nil && !s.insens[i.X] {
			s.addBases(a, i, m[i.Field])
		} else {
			s.addBases(a, i, s.b(a, i.X))
		}
		s.addBases(a, i, a.fieldG[a.fieldKeyOf(i.X, i.Field, false)])
	case *ssa.Index:
		s.addBases(a, i, s.b(a, i.X))
	case *ssa.Extract:
		if m := s.tfb[i.Tuple]; m != nil {
			if fm, ok := m[i.Index]; ok {
				if _, isSt := isStructVal(i.Type()); isSt {
					for f, vs := range fm {
						s.addFB(a, i, f, vs)
					}
					break
				}
			}
		}
		s.addBases(a, i, s.b(a, i.Tuple))
	case *ssa.Slice:
		if i.Max != nil && constZero(i.Max) {
			break // s[:0:0]: no capacity, nothing of the old backing array can be reached
		}
		s.addBases(a, i, s.b(a, i.X))
	case *ssa.ChangeType:
		s.addBases(a, i, s.b(a, i.X))
	case *ssa.Convert:
		if b, ok := i.Type().Underlying().(*types.Basic); ok && b.Kind() == types.UnsafePointer {
			for o := range s.b(a, i.X) {
				if ob := &a.objs[o]; ob.kind == kG && !a.unsafeTaken[ob.g] {
					a.unsafeTaken[ob.g] = true
					a.compatMemo = map[compatKey]bool{}
					a.heapChanged()
				}
			}
		}
		s.addBases(a, i, s.b(a, i.X))
	case *ssa.MultiConvert:
		s.addBases(a, i, s.b(a, i.X))
	case *ssa.ChangeInterface:
		s.addBases(a, i, s.b(a, i.X))
	case *ssa.MakeInterface:
		s.addBases(a, i, s.b(a, i.X))
	case *ssa.TypeAssert:
		s.addBases(a, i, s.b(a, i.X))
	case *ssa.SliceToArrayPointer:
		s.addBases(a, i, s.b(a, i.X))
	case *ssa.Phi:
		if _, isSt := isStructVal(i.Type()); isSt {
			allFB := true
			for _, e := range i.Edges {
				if _, isC := e.(*ssa.Const); !isC && (s.insens[e] || (s.fb[e] == nil && len(s.b(a, e)) > 0)) {
					allFB = false
				}
			}
			if allFB {
				for _, e := range i.Edges {
					for f, vs := range s.fb[e] {
						s.addFB(a, i, f, vs)
					}
				}
				break
			}
		}
		for _, e := range i.Edges {
			s.addBases(a, i, s.b(a, e))
		}
	case *ssa.Range:
		s.addBases(a, i, s.b(a, i.X))
	case *ssa.Next:
		for o := range s.b(a, i.Iter) {
			s.addContentBases(a, i, o)
		}
	case *ssa.Select:
		for _, st := range i.States {
			if st.Dir == types.SendOnly {
				for o := range s.b(a, st.Chan) {
					s.addContents(a, o, s.b(a, st.Send))
				}
			} else {
				for o := range s.b(a, st.Chan) {
					s.addContentBases(a, i, o)
				}
			}
		}
	case *ssa.MakeClosure:
		fn := i.Fn.(*ssa.Function)
		for _, bnd := range i.Bindings {
			s.addBases(a, i, s.b(a, bnd))
		}
		a.edge(s.fn, fn) // creating a closure = it may run (conservative)
		if a.isMine(fn) {
			s.applySummary(a, in, fn, nil, i.Bindings, nil)
		}
	case *ssa.Call:
		s.call(a, in, &i.Call, i)
	case *ssa.Go:
		s.call(a, in, &i.Call, nil)
	case *ssa.Defer:
		s.call(a, in, &i.Call, nil)
	case *ssa.Return:
		for k, r := range i.Results {
			if !a.carries(r.Type()) {
				continue
			}
			if _, isC := r.(*ssa.Const); isC {
				continue
			}
			s.retAdd(a, &s.sum.ret, s.b(a, r))
			if st, ok := isStructVal(r.Type()); ok {
				if s.insens[r] || (s.fb[r] == nil && len(s.b(a, r)) > 0) {
					if s.sum.retS[k] == nil || s.sum.retS[k][-1] == nil { // field -1 present = not told apart
						if s.sum.retS[k] == nil {
							s.sum.retS[k] = map[int]*retInfo{}
						}
						bad := newRetInfo()
						s.sum.retS[k][-1] = &bad
						s.sumChanged(a)
					}
				} else {
					if s.sum.retS[k] == nil {
						s.sum.retS[k] = map[int]*retInfo{}
						s.sumChanged(a)
					}
					for f := 0; f < st.NumFields(); f++ {
						vs := s.fb[r][f]
						if len(vs) == 0 {
							continue
						}
						info := s.sum.retS[k][f]
						if info == nil {
							ni := newRetInfo()
							info = &ni
							s.sum.retS[k][f] = info
						}
						s.retAdd(a, info, vs)
					}
				}
			}
			if a.emit && isExported(s.fn) {
				all := s.deep(a, s.b(a, r))
				for o := range s.b(a, r) {
					if a.objs[o].kind == kG {
						a.escapes = append(a.escapes, escape{g: a.objs[o].g, fn: s.fn, how: "return"})
					}
				}
				for o := range all {
					if a.objs[o].kind == kG {
						a.escapes = append(a.escapes, escape{g: a.objs[o].g, fn: s.fn, how: "return"})
					}
				}
			}
		}
	}
}

// retAdd: record in the callee's terms what a returned reference refers to
func (s *fstate) retAdd(a *an, info *retInfo, objs set) {
	for o := range objs {
		if a.objs[o].kind != kA {
			if info.roots.add(o) {
				s.sumChanged(a)
			}
			continue
		}
		if !info.fresh {
			info.fresh = true
			s.sumChanged(a)
		}
		s.eachContent(a, o, func(x int) {
			if a.objs[x].kind != kA {
				if info.cont.add(x) {
					s.sumChanged(a)
				}
				return
			}
			if !info.deepF {
				info.deepF = true
				s.sumChanged(a)
			}
			for y := range s.visible(a, s.contentsOf(a, x)) {
				if info.deep.add(y) {
					s.sumChanged(a)
				}
			}
		})
	}
}

// instRet: a returned reference in the caller's terms; fresh memory becomes objects of the call site (tag tells the
// results and fields of one call apart)
func (s *fstate) instRet(a *an, callee *ssa.Function, info *retInfo, site ssa.Value, tag int, args, bindings []ssa.Value) set {
	r := set{}
	for x := range s.translateAll(a, callee, info.roots, args, bindings) {
		r[x] = struct{}{}
	}
	if info.fresh {
		d1 := 1
		if tag != 0 {
			d1 = -tag
		}
		f0 := a.obj(object{kind: kA, fn: s.fn, site: site, depth: tag})
		r[f0] = struct{}{}
		s.addContents(a, f0, s.translateAll(a, callee, info.cont, args, bindings))
		if info.deepF {
			f1 := a.obj(object{kind: kA, fn: s.fn, site: site, depth: d1})
			s.addContents(a, f0, single(f1))
			s.addContents(a, f1, single(f1))
			s.addContents(a, f1, s.translateAll(a, callee, info.deep, args, bindings))
		}
	}
	return r
}

func isExported(fn *ssa.Function) bool {
	if fn.Parent() != nil || fn.Synthetic != "" {
		return false
	}
	if !token.IsExported(fn.Name()) {
		return false
	}
	if fn.Signature.Recv() != nil {
		t := fn.Signature.Recv().Type()
		if p, ok := t.(*types.Pointer); ok {
			t = p.Elem()
		}
		if n, ok := t.(*types.Named); ok {
			return n.Obj().Exported()
		}
	}
	return true
}

// noteEscape: a reference to package state stored into memory that is not local to the function
func (s *fstate) noteEscape(a *an, val, into set) {
	nonlocal := false
	for o := range into {
		if k := a.objs[o].kind; k == kP || k == kF || k == kG {
			nonlocal = true
		}
	}
	if !nonlocal {
		return
	}
	for o := range s.visible(a, val) {
		if a.objs[o].kind == kG {
			if _, same := into[o]; same {
				continue
			}
			a.escapes = append(a.escapes, escape{g: a.objs[o].g, fn: s.fn, how: "heap"})
		}
	}
}

func (a *an) edge(from, to *ssa.Function) {
	m := a.edges[from]
	if m == nil {
		m = map[*ssa.Function]bool{}
		a.edges[from] = m
	}
	m[to] = true
}

func (s *fstate) translate(a *an, callee *ssa.Function, o int, args []ssa.Value, bindings []ssa.Value) set {
	ob := a.objs[o]
	var top set
	switch ob.kind {
	case kG:
		return single(o)
	case kP:
		if ob.fn == callee && args != nil && ob.idx < len(args) {
			top = s.b(a, args[ob.idx])
		}
	case kF:
		if ob.fn == callee && bindings != nil && ob.idx < len(bindings) {
			top = s.b(a, bindings[ob.idx])
		}
	}
	if ob.depth == 0 || len(top) == 0 {
		return top
	}
	// deeper than the argument itself: the argument's own package-level / parameter roots (everything below them is
	// collapsed into them); what a LOCAL object of the caller holds in its fields is not walked — package state that an
	// object carries in a field is met where that field is loaded (type-based heap), not by reachability
	r := set{}
	for o := range top {
		ob := &a.objs[o]
		switch ob.kind {
		case kG:
			r[o] = struct{}{}
		case kP, kF:
			d := *ob
			d.depth = 1
			r[a.obj(d)] = struct{}{}
		}
	}
	return r
}

func (s *fstate) translateAll(a *an, callee *ssa.Function, src set, args []ssa.Value, bindings []ssa.Value) set {
	v := set{}
	for x := range src {
		for y := range s.translate(a, callee, x, args, bindings) {
			v[y] = struct{}{}
		}
	}
	return v
}

// applySummary: the effects of a (possible) invocation of callee. args / bindings may be nil (unknown at this site).
func (s *fstate) applySummary(a *an, in ssa.Instruction, callee *ssa.Function, args []ssa.Value, bindings []ssa.Value, result ssa.Value) {
	cs := a.state(callee)
	s.callees[callee] = cs.sum.version
	name := callee.String()
	for o, locs := range cs.sum.writes {
		tr := s.translate(a, callee, o, args, bindings)
		if len(tr) == 0 {
			continue
		}
		for loc := range locs {
			s.writeThrough(a, in, tr, "call:"+name, loc)
		}
	}
	for o, names := range cs.sum.exts {
		tr := s.translate(a, callee, o, args, bindings)
		if len(tr) == 0 {
			continue
		}
		for n := range names {
			s.extThrough(a, in, tr, n)
		}
	}
	for o, vals := range cs.sum.pstores {
		into := s.translate(a, callee, o, args, bindings)
		if len(into) == 0 {
			continue
		}
		v := s.translateAll(a, callee, vals, args, bindings)
		for x := range vals {
			if a.objs[x].kind != kG {
				continue
			}
			// a package-level object: keep the types it was stored as
			delete(v, x)
			var tags []string
			for tg := range cs.sum.ptags[o][x] {
				tags = append(tags, tg)
			}
			if len(tags) == 0 {
				tags = []string{"*"}
			}
			s.curTags = tags
			for t := range into {
				s.addContents(a, t, single(x))
			}
			s.curTags = nil
			if a.emit {
				s.noteEscape(a, single(x), into)
			}
		}
		for t := range into {
			s.addContents(a, t, v)
		}
		if a.emit {
			s.noteEscape(a, v, into)
		}
	}
	for k, vals := range cs.sum.fstores {
		s.storeField(a, k, s.translateAll(a, callee, vals, args, bindings))
	}
	if result != nil && a.carries(result.Type()) {
		nres := callee.Signature.Results().Len()
		valid := func(k int) bool { m := cs.sum.retS[k]; return m != nil && m[-1] == nil }
		if st, ok := isStructVal(result.Type()); ok && nres == 1 && valid(0) {
			for f, info := range cs.sum.retS[0] {
				if f < st.NumFields() {
					s.addFB(a, result, f, s.instRet(a, callee, info, result, 2+f, args, bindings))
				}
			}
			return
		}
		s.addBases(a, result, s.instRet(a, callee, &cs.sum.ret, result, 0, args, bindings))
		if nres > 1 {
			for k := 0; k < nres; k++ {
				if _, ok := isStructVal(callee.Signature.Results().At(k).Type()); !ok || !valid(k) {
					continue
				}
				m := s.tfb[result]
				if m == nil {
					m = map[int]map[int]set{}
					s.tfb[result] = m
				}
				if m[k] == nil {
					m[k] = map[int]set{}
				}
				for f, info := range cs.sum.retS[k] {
					objs := s.instRet(a, callee, info, result, 2+k*256+f, args, bindings)
					d := m[k][f]
					if d == nil {
						d = set{}
						m[k][f] = d
					}
					for x := range objs {
						if d.add(x) {
							a.dirty = true
						}
					}
				}
			}
		}
	}
}

func syncMethod(fn *ssa.Function) (typ, method string) {
	if fn == nil || fn.Signature.Recv() == nil {
		return "", ""
	}
	t := fn.Signature.Recv().Type()
	if p, ok := t.(*types.Pointer); ok {
		t = p.Elem()
	}
	n, ok := t.(*types.Named)
	if !ok || n.Obj().Pkg() == nil || n.Obj().Pkg().Path() != "sync" {
		return "", ""
	}
	return n.Obj().Name(), fn.Name()
}

func funcOperand(v ssa.Value) *ssa.Function {
	switch x := v.(type) {
	case *ssa.Function:
		return x
	case *ssa.MakeClosure:
		return x.Fn.(*ssa.Function)
	case *ssa.ChangeType:
		return funcOperand(x.X)
	case *ssa.MakeInterface:
		return funcOperand(x.X)
	}
	return nil
}

func closureBindings(v ssa.Value) []ssa.Value {
	switch x := v.(type) {
	case *ssa.MakeClosure:
		return x.Bindings
	case *ssa.ChangeType:
		return closureBindings(x.X)
	}
	return nil
}

func (s *fstate) call(a *an, in ssa.Instruction, c *ssa.CallCommon, result ssa.Value) {
	if b, ok := c.Value.(*ssa.Builtin); ok {
		s.builtin(a, in, b.Name(), c.Args, result)
		return
	}
	if c.IsInvoke() {
		any := false
		for _, callee := range a.implementers(c) {
			a.edge(s.fn, callee)
			if a.isMine(callee) {
				any = true
				args := append([]ssa.Value{c.Value}, c.Args...)
				s.applySummary(a, in, callee, args, nil, result)
			}
		}
		if !any {
			s.external(a, in, "(interface)."+c.Method.Name(), append([]ssa.Value{c.Value}, c.Args...), result)
		}
		return
	}
	callee := c.StaticCallee()
	if callee == nil { // call of a func value: every address-taken function of that signature
		cands := a.bySignature(c.Value.Type())
		for _, f := range cands {
			a.edge(s.fn, f)
			s.applySummary(a, in, f, c.Args, nil, result)
		}
		if len(cands) == 0 {
			s.external(a, in, "(func value)", c.Args, result)
		}
		return
	}
	a.edge(s.fn, callee)
	if typ, m := syncMethod(callee); typ != "" {
		switch {
		case typ == "Pool" && m == "Get":
			if result != nil {
				s.addBases(a, result, s.fresh(a, result))
			}
			// Get may run the pool's New function
			if g := dirGlobal(c.Args[0]); g != nil && a.poolNew[g] != nil {
				a.edge(s.fn, a.poolNew[g])
			}
			return
		case typ == "Pool" && m == "Put":
			return
		case typ == "Once" && m == "Do":
			if f := funcOperand(c.Args[1]); f != nil {
				a.edge(s.fn, f)
				if a.isMine(f) {
					s.applySummary(a, in, f, nil, closureBindings(c.Args[1]), nil)
				}
			}
			return
		case typ == "Mutex" || typ == "RWMutex" || typ == "WaitGroup":
			return
		}
	}
	if a.isMine(callee) {
		s.applySummary(a, in, callee, c.Args, closureBindings(c.Value), result)
		return
	}
	s.external(a, in, callee.String(), c.Args, result)
}

// external: a function without body (standard library, third party). Its result may refer to whatever the arguments
// refer to; pointers into package state handed to it are recorded (`ext:` events, judged by name in the obligations);
// function values handed to it may be called.
func (s *fstate) external(a *an, in ssa.Instruction, name string, args []ssa.Value, result ssa.Value) {
	for _, arg := range args {
		if f := funcOperand(arg); f != nil {
			a.edge(s.fn, f)
			if a.isMine(f) {
				s.applySummary(a, in, f, nil, closureBindings(arg), nil)
			}
			continue
		}
		if !a.carries(arg.Type()) {
			continue
		}
		bs := s.b(a, arg)
		if _, isIface := arg.Type().Underlying().(*types.Interface); isIface {
			s.extThrough(a, in, bs, name+"|")
		} else if pointerLike(arg.Type()) {
			s.extThrough(a, in, bs, name+"|"+typeStr(referentType(arg.Type())))
		}
		if result != nil {
			s.addBases(a, result, bs)
		}
	}
	if result != nil && a.carries(result.Type()) {
		s.addBases(a, result, s.fresh(a, result))
	}
}

func referentType(t types.Type) types.Type {
	switch u := t.Underlying().(type) {
	case *types.Pointer:
		return u.Elem()
	case *types.Slice:
		return u.Elem()
	}
	return t
}

func pointerLike(t types.Type) bool {
	switch t.Underlying().(type) {
	case *types.Pointer, *types.Slice, *types.Map, *types.Chan:
		return true
	}
	return false
}

func (s *fstate) elemsOf(a *an, v ssa.Value) set {
	elems := set{}
	if a.carries(v.Type()) {
		for o := range s.b(a, v) {
			s.eachContent(a, o, func(x int) { elems[x] = struct{}{} })
		}
	}
	return elems
}

func (s *fstate) builtin(a *an, in ssa.Instruction, name string, args []ssa.Value, result ssa.Value) {
	switch name {
	case "append":
		if result == nil || len(args) < 2 {
			return
		}
		fresh := a.obj(object{kind: kA, fn: s.fn, site: result})
		elems := s.elemsOf(a, args[1])
		s.addBases(a, result, s.b(a, args[0]))
		s.addBases(a, result, single(fresh))
		var et types.Type
		if sl, ok := args[1].Type().Underlying().(*types.Slice); ok {
			et = sl.Elem()
			a.typeReach(et)
		}
		for o := range s.b(a, args[0]) {
			s.addContents(a, fresh, s.contentsOf(a, o))
			s.addContentsT(a, o, elems, et)
		}
		s.addContents(a, fresh, elems)
		if sl, ok := args[0].Type().Underlying().(*types.Slice); ok {
			s.writeThrough(a, in, s.b(a, args[0]), "append", typeStr(sl.Elem()))
		}
		if a.emit {
			s.noteEscape(a, elems, s.b(a, args[0]))
		}
	case "copy":
		if len(args) < 2 {
			return
		}
		elems := s.elemsOf(a, args[1])
		var et types.Type
		if sl, ok := args[1].Type().Underlying().(*types.Slice); ok {
			et = sl.Elem()
			a.typeReach(et)
		}
		for o := range s.b(a, args[0]) {
			s.addContentsT(a, o, elems, et)
		}
		if sl, ok := args[0].Type().Underlying().(*types.Slice); ok {
			s.writeThrough(a, in, s.b(a, args[0]), "copy", typeStr(sl.Elem()))
		}
		if a.emit {
			s.noteEscape(a, elems, s.b(a, args[0]))
		}
	case "delete":
		s.writeThrough(a, in, s.b(a, args[0]), "delete", typeStr(args[0].Type()))
	case "clear":
		s.writeThrough(a, in, s.b(a, args[0]), "clear", typeStr(args[0].Type()))
	}
}

// ---------------------------------------------------------------- call resolution

func (a *an) implementers(c *ssa.CallCommon) []*ssa.Function {
	iface, ok := c.Value.Type().Underlying().(*types.Interface)
	if !ok {
		return nil
	}
	key := typeStr(c.Value.Type()) + "." + c.Method.Name()
	if r, ok := a.implMemo[key]; ok {
		return r
	}
	var res []*ssa.Function
	for _, t := range a.concrete {
		if types.Implements(t, iface) {
			if f := a.prog.LookupMethod(t, c.Method.Pkg(), c.Method.Name()); f != nil {
				res = append(res, f)
			}
		}
	}
	a.implMemo[key] = res
	return res
}

func (a *an) bySignature(t types.Type) []*ssa.Function {
	sig, ok := t.Underlying().(*types.Signature)
	if !ok {
		return nil
	}
	key := typeStr(sig)
	if r, ok := a.sigMemo[key]; ok {
		return r
	}
	var res []*ssa.Function
	want := types.NewSignatureType(nil, nil, nil, sig.Params(), sig.Results(), sig.Variadic())
	for _, f := range a.fns {
		if !a.addrTaken[f] {
			continue
		}
		fs := f.Signature
		if fs.Recv() != nil {
			continue
		}
		if types.Identical(types.NewSignatureType(nil, nil, nil, fs.Params(), fs.Results(), fs.Variadic()), want) {
			res = append(res, f)
		}
	}
	a.sigMemo[key] = res
	return res
}

// dirGlobal: v is an address inside the storage of a package-level variable itself (the variable, a field of it, an
// element of an array variable) — no load in between
func dirGlobal(v ssa.Value) *ssa.Global {
	switch x := v.(type) {
	case *ssa.Global:
		return x
	case *ssa.FieldAddr:
		return dirGlobal(x.X)
	case *ssa.IndexAddr:
		if _, isPtr := x.X.Type().Underlying().(*types.Pointer); isPtr {
			return dirGlobal(x.X)
		}
	}
	return nil
}

// ---------------------------------------------------------------- type reach

func (a *an) typeReach(t types.Type) *reach {
	key := typeStr(t)
	if r, ok := a.reachMemo[key]; ok {
		return r
	}
	r := &reach{types: map[string]bool{}, arrElems: map[string]bool{}}
	a.reachMemo[key] = r
	seen := map[string]bool{}
	var rec func(t types.Type)
	rec = func(t types.Type) {
		k := typeStr(t)
		if seen[k] {
			return
		}
		seen[k] = true
		r.types[k] = true
		switch u := t.Underlying().(type) {
		case *types.Pointer:
			rec(u.Elem())
		case *types.Slice:
			r.arrElems[typeStr(u.Elem())] = true
			rec(u.Elem())
		case *types.Array:
			r.arrElems[typeStr(u.Elem())] = true
			rec(u.Elem())
		case *types.Map:
			rec(u.Key())
			rec(u.Elem())
		case *types.Chan:
			rec(u.Elem())
		case *types.Struct:
			for i := 0; i < u.NumFields(); i++ {
				rec(u.Field(i).Type())
			}
		case *types.Interface:
			if u.NumMethods() == 0 {
				r.wildcard = true
				return
			}
			for _, c := range a.concrete {
				if types.Implements(c, u) {
					rec(c)
				}
			}
		case *types.TypeParam:
			r.wildcard = true
		}
	}
	rec(t)
	return r
}

func (a *an) locMatches(g *ssa.Global, loc string) bool {
	r := a.typeReach(derefType(g.Type()))
	return r.wildcard || loc == "" || r.types[loc]
}

// ---------------------------------------------------------------- driver

func newAn(prog *ssa.Program, mine map[*ssa.Package]bool) *an {
	a := &an{prog: prog, mine: mine, objIdx: map[object]int{}, st: map[*ssa.Function]*fstate{},
		fieldG: map[fieldKey]set{}, edges: map[*ssa.Function]map[*ssa.Function]bool{}, uses: map[*ssa.Function][]use{},
		implMemo: map[string][]*ssa.Function{}, sigMemo: map[string][]*ssa.Function{}, addrTaken: map[*ssa.Function]bool{},
		reachMemo: map[string]*reach{}, carryMemo: map[types.Type]bool{}, poolNew: map[*ssa.Global]*ssa.Function{}, compatMemo: map[compatKey]bool{}, unsafeTaken: map[*ssa.Global]bool{}}
	for p := range mine {
		for _, m := range p.Members {
			if t, ok := m.(*ssa.Type); ok {
				if _, isIface := t.Type().Underlying().(*types.Interface); isIface {
					continue
				}
				if n, ok := t.Type().(*types.Named); ok && n.TypeParams().Len() > 0 {
					continue
				}
				a.concrete = append(a.concrete, t.Type(), types.NewPointer(t.Type()))
			}
		}
	}
	sort.Slice(a.concrete, func(i, j int) bool { return typeStr(a.concrete[i]) < typeStr(a.concrete[j]) })
	for f := range ssautil.AllFunctions(prog) {
		if a.isMine(f) {
			a.fns = append(a.fns, f)
		}
	}
	sort.Slice(a.fns, func(i, j int) bool {
		if a.fns[i].String() != a.fns[j].String() {
			return a.fns[i].String() < a.fns[j].String()
		}
		return a.fns[i].Pos() < a.fns[j].Pos()
	})
	a.scanUses()
	return a
}

// scanUses: where every function value is used (callee of a static call, argument of sync.Once.Do, anything else)
func (a *an) scanUses() {
	for _, fn := range a.fns {
		for _, b := range fn.Blocks {
			for _, in := range b.Instrs {
				var calleeV ssa.Value
				var doArg ssa.Value
				var doOnce *ssa.Global
				if ci, ok := in.(ssa.CallInstruction); ok {
					c := ci.Common()
					if !c.IsInvoke() {
						calleeV = c.Value
						if typ, m := syncMethod(c.StaticCallee()); typ == "Once" && m == "Do" {
							doArg = c.Args[1]
							doOnce = dirGlobal(c.Args[0])
						}
					}
				}
				if _, isMC := in.(*ssa.MakeClosure); !isMC {
					for _, op := range in.Operands(nil) {
						if *op == nil {
							continue
						}
						f := funcOperand(*op)
						if f == nil {
							continue
						}
						role := "other"
						if *op == calleeV {
							role = "callee"
						} else if *op == doArg && doOnce != nil {
							role = "doarg"
						}
						if role == "other" {
							a.addrTaken[f] = true
						}
						a.uses[f] = append(a.uses[f], use{in: fn, instr: in, role: role, once: doOnce})
					}
				}
				// the New function of a package-level sync.Pool (stored by the package initialiser)
				if st, ok := in.(*ssa.Store); ok {
					if fa, ok := st.Addr.(*ssa.FieldAddr); ok {
						if g := dirGlobal(fa.X); g != nil && strings.HasSuffix(typeStr(derefType(g.Type())), "sync.Pool") {
							if f := funcOperand(st.Val); f != nil {
								a.poolNew[g] = f
							}
						}
					}
				}
			}
		}
	}
}

func (a *an) run() error {
	converged := false
	for round := 0; round < 60; round++ {
		a.dirty = false
		for _, fn := range a.fns {
			a.analyseFn(fn)
		}
		if os.Getenv("SHAREDSTATE_DEBUG") != "" {
			ftot := 0
			for _, c := range a.fieldG {
				ftot += len(c)
			}
			fmt.Fprintf(os.Stderr, "round %d: analysed %d fns, objs %d, fieldG total %d, heapVer %d\n", round, a.nAnalysed, len(a.objs), ftot, a.heapVer)
			a.nAnalysed = 0
		}
		if !a.dirty {
			converged = true
			break
		}
	}
	if !converged {
		return errNoFixpoint
	}
	a.emit = true
	for _, fn := range a.fns {
		a.analyseFn(fn)
		a.scanDirect(fn)
		if tr := os.Getenv("SHAREDSTATE_TRACE"); tr != "" && strings.Contains(fn.String(), tr) {
			a.trace(fn)
		}
	}
	return nil
}

// scanDirect: instructions that use an address inside a package-level variable's own storage
func (a *an) scanDirect(fn *ssa.Function) {
	for _, b := range fn.Blocks {
		for _, in := range b.Instrs {
			switch i := in.(type) {
			case *ssa.Store:
				if g := dirGlobal(i.Addr); g != nil {
					k := "elemstore"
					if _, ok := i.Addr.(*ssa.Global); ok {
						k = "store"
					}
					a.accesses = append(a.accesses, access{g, fn, in, k})
				}
				if g := dirGlobal(i.Val); g != nil {
					a.accesses = append(a.accesses, access{g, fn, in, "addr"})
				}
			case *ssa.UnOp:
				if i.Op == token.MUL {
					if g := dirGlobal(i.X); g != nil {
						a.accesses = append(a.accesses, access{g, fn, in, "read"})
					}
				}
			case *ssa.FieldAddr, *ssa.IndexAddr:
				// derivation only
			case *ssa.DebugRef:
			default:
				var sm string
				var recv ssa.Value
				if ci, ok := in.(ssa.CallInstruction); ok {
					c := ci.Common()
					if !c.IsInvoke() {
						if typ, m := syncMethod(c.StaticCallee()); typ != "" && len(c.Args) > 0 {
							sm, recv = typ+"."+m, c.Args[0]
						}
					}
				}
				for _, op := range in.Operands(nil) {
					if *op == nil {
						continue
					}
					if g := dirGlobal(*op); g != nil {
						k := "addr"
						if sm != "" && *op == recv {
							k = "api:" + sm
						}
						switch in.(type) {
						case *ssa.Slice, *ssa.Range:
							k = "read"
						}
						a.accesses = append(a.accesses, access{g, fn, in, k})
					}
				}
			}
		}
	}
}

func (a *an) objStr(o int) string {
	ob := a.objs[o]
	switch ob.kind {
	case kG:
		return "G(" + ob.g.Name() + ")"
	case kP:
		return fmt.Sprintf("P%d(%s,%d)", ob.depth, ob.fn.Name(), ob.idx)
	case kF:
		return fmt.Sprintf("F%d(%s,%d)", ob.depth, ob.fn.Name(), ob.idx)
	}
	n := "?"
	if ob.site != nil {
		n = ob.site.Name()
	}
	return fmt.Sprintf("A(%s.%d/%d)", n, ob.idx, ob.depth)
}

func (a *an) setStr(x set) string {
	var r []string
	for o := range x {
		r = append(r, a.objStr(o))
	}
	sort.Strings(r)
	return "{" + strings.Join(r, " ") + "}"
}

// trace: debugging aid (SHAREDSTATE_TRACE=<part of a function name>)
func (a *an) trace(fn *ssa.Function) {
	s := a.state(fn)
	fmt.Fprintf(os.Stderr, "=== %s\n", fn)
	for _, b := range fn.Blocks {
		for _, in := range b.Instrs {
			line := a.prog.Fset.Position(in.Pos()).Line
			if v, ok := in.(ssa.Value); ok {
				extra := ""
				if m := s.fb[v]; m != nil {
					for f, vs := range m {
						extra += fmt.Sprintf(" .%d=%s", f, a.setStr(vs))
					}
					if s.insens[v] {
						extra += " INSENS"
					}
				}
				fmt.Fprintf(os.Stderr, "  L%d %s = %s   bases=%s%s\n", line, v.Name(), in, a.setStr(s.bases[v]), extra)
			} else {
				fmt.Fprintf(os.Stderr, "  L%d %s\n", line, in)
			}
		}
	}
	for o, c := range s.contents {
		fmt.Fprintf(os.Stderr, "  contents %s = %s\n", a.objStr(o), a.setStr(c))
	}
	for o, m := range s.ctype {
		for x, tags := range m {
			fmt.Fprintf(os.Stderr, "  ctype %s <- %s : %v\n", a.objStr(o), a.objStr(x), tags)
		}
	}
}
