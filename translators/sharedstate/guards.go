package main

// Guards: which accesses happen (a) in package initialisation, (b) inside the function handed to a package-level
// sync.Once's Do (or in code only reachable from there), (c) after a Do call on that Once that dominates them (same
// function, or every call site of the function), (d) between Lock and Unlock of a package-level mutex.

import (
	"strings"

	"golang.org/x/tools/go/ssa"
)

type guard struct {
	init    bool
	onces   map[*ssa.Global]bool
	mutexes map[*ssa.Global]bool
}

type guards struct {
	a         *an
	fnGuard   map[*ssa.Function]*guard // guard that holds on entry of the function (for every way of reaching it)
	visiting  map[*ssa.Function]bool
	doSites   map[*ssa.Function][]doSite
	lockSites map[*ssa.Function][]lockSite
}

type doSite struct {
	instr ssa.Instruction
	once  *ssa.Global
}

type lockSite struct {
	instr  ssa.Instruction
	mu     *ssa.Global
	unlock bool
	defer_ bool
}

func outermost(fn *ssa.Function) *ssa.Function {
	for fn.Parent() != nil {
		fn = fn.Parent()
	}
	return fn
}

func isInitFn(fn *ssa.Function) bool {
	r := outermost(fn)
	return r.Name() == "init" || strings.HasPrefix(r.Name(), "init#")
}

func dominates(x, y ssa.Instruction) bool {
	if x.Block() == y.Block() {
		for _, in := range x.Block().Instrs {
			if in == x {
				return x != y
			}
			if in == y {
				return false
			}
		}
		return false
	}
	return x.Block().Dominates(y.Block())
}

func newGuards(a *an) *guards {
	g := &guards{a: a, fnGuard: map[*ssa.Function]*guard{}, visiting: map[*ssa.Function]bool{},
		doSites: map[*ssa.Function][]doSite{}, lockSites: map[*ssa.Function][]lockSite{}}
	for _, fn := range a.fns {
		for _, b := range fn.Blocks {
			for _, in := range b.Instrs {
				ci, ok := in.(ssa.CallInstruction)
				if !ok || ci.Common().IsInvoke() {
					continue
				}
				c := ci.Common()
				typ, m := syncMethod(c.StaticCallee())
				if typ == "" || len(c.Args) == 0 {
					continue
				}
				obj := dirGlobal(c.Args[0])
				if obj == nil {
					continue
				}
				_, isDefer := in.(*ssa.Defer)
				switch {
				case typ == "Once" && m == "Do" && !isDefer:
					if _, isGo := in.(*ssa.Go); !isGo {
						g.doSites[fn] = append(g.doSites[fn], doSite{in, obj})
					}
				case (typ == "Mutex" || typ == "RWMutex") && (m == "Lock" || m == "RLock"):
					g.lockSites[fn] = append(g.lockSites[fn], lockSite{instr: in, mu: obj})
				case (typ == "Mutex" || typ == "RWMutex") && (m == "Unlock" || m == "RUnlock"):
					g.lockSites[fn] = append(g.lockSites[fn], lockSite{instr: in, mu: obj, unlock: true, defer_: isDefer})
				}
			}
		}
	}
	return g
}

func (g *guards) entry(fn *ssa.Function) *guard {
	if r, ok := g.fnGuard[fn]; ok {
		return r
	}
	none := &guard{onces: map[*ssa.Global]bool{}, mutexes: map[*ssa.Global]bool{}}
	if isInitFn(fn) {
		r := &guard{init: true, onces: map[*ssa.Global]bool{}, mutexes: map[*ssa.Global]bool{}}
		g.fnGuard[fn] = r
		return r
	}
	if g.visiting[fn] { // recursion: nothing is assumed
		return none
	}
	uses := g.a.uses[fn]
	if len(uses) == 0 || isExported(fn) || (fn.Signature.Recv() != nil && fn.Parent() == nil) || g.a.addrTaken[fn] {
		g.fnGuard[fn] = none
		return none
	}
	g.visiting[fn] = true
	var acc *guard
	for _, u := range uses {
		var here *guard
		switch u.role {
		case "doarg":
			here = &guard{onces: map[*ssa.Global]bool{u.once: true}, mutexes: map[*ssa.Global]bool{}}
		case "callee":
			if _, isGo := u.instr.(*ssa.Go); isGo {
				here = none
			} else {
				here = g.at(u.in, u.instr)
			}
		default:
			here = none
		}
		if acc == nil {
			acc = &guard{init: here.init, onces: map[*ssa.Global]bool{}, mutexes: map[*ssa.Global]bool{}}
			for k := range here.onces {
				acc.onces[k] = true
			}
			for k := range here.mutexes {
				acc.mutexes[k] = true
			}
		} else {
			acc.init = acc.init && here.init
			for k := range acc.onces {
				if !here.onces[k] {
					delete(acc.onces, k)
				}
			}
			for k := range acc.mutexes {
				if !here.mutexes[k] {
					delete(acc.mutexes, k)
				}
			}
		}
	}
	delete(g.visiting, fn)
	g.fnGuard[fn] = acc
	return acc
}

// at: the guard that holds when instruction in of fn executes
func (g *guards) at(fn *ssa.Function, in ssa.Instruction) *guard {
	e := g.entry(fn)
	r := &guard{init: e.init, onces: map[*ssa.Global]bool{}, mutexes: map[*ssa.Global]bool{}}
	for k := range e.onces {
		r.onces[k] = true
	}
	for k := range e.mutexes {
		r.mutexes[k] = true
	}
	for _, d := range g.doSites[fn] {
		if dominates(d.instr, in) {
			r.onces[d.once] = true
		}
	}
	for _, l := range g.lockSites[fn] {
		if l.unlock || !dominates(l.instr, in) {
			continue
		}
		released := false
		for _, u := range g.lockSites[fn] {
			if u.unlock && !u.defer_ && u.mu == l.mu && dominates(l.instr, u.instr) && dominates(u.instr, in) {
				released = true
			}
		}
		if !released {
			r.mutexes[l.mu] = true
		}
	}
	return r
}
