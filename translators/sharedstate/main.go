package main

import (
	"fmt"
	"os"
	"runtime/pprof"
	"time"
)

func main() {
	if len(os.Args) < 3 {
		fmt.Fprintln(os.Stderr, "usage: sharedstate <repo> <out.lean> [dump.txt]")
		os.Exit(2)
	}
	if pf := os.Getenv("SHAREDSTATE_PROF"); pf != "" {
		f, _ := os.Create(pf)
		pprof.StartCPUProfile(f)
		go func() { time.Sleep(40 * time.Second); pprof.StopCPUProfile(); f.Close(); os.Exit(9) }()
	}
	inv, err := buildInventory(os.Args[1])
	if err != nil {
		fmt.Fprintln(os.Stderr, "sharedstate:", err)
		os.Exit(1)
	}
	if len(os.Args) > 3 {
		if err := os.WriteFile(os.Args[3], []byte(inv.dump()), 0o644); err != nil {
			fmt.Fprintln(os.Stderr, "sharedstate:", err)
			os.Exit(1)
		}
	}
	if err := writeIfChanged(os.Args[2], inv.lean()); err != nil {
		fmt.Fprintln(os.Stderr, "sharedstate:", err)
		os.Exit(1)
	}
}

func writeIfChanged(path, content string) error {
	if old, err := os.ReadFile(path); err == nil && string(old) == content {
		return nil
	}
	return os.WriteFile(path, []byte(content), 0o644)
}
