import FitModel.FileDef
import FitModel.Typed
import FitModel.TypedFactory
import FitModel.Generated.Mesgdef
/-! The common file types of /repo/profile/filedef on **real protocol messages** (C14, first half — the link to C13).

`FileDef.lean` is generic in the representation of a message; here the representation is `Fit.Msg.Message` (field
lists with `FieldBase`, values, expanded marks, developer fields) and the file struct is modelled as the code has it:

* `Add(mesg)`: a message number for which the file type has a typed field is converted at once,
  `mesgdef.NewXxx(&mesg)` = `Typed.ofMesg T mesg` (`T` = the regenerated table of that message type; a nil
  `FieldBase` makes it panic) and the **struct** is stored; any other message is stored as it is
  (`mesg.Fields = sliceutil.Clone(mesg.Fields)`; `UnrelatedMessages`).
* `ToFIT(options)`: every stored struct is converted back, `x.ToMesg(options)` = `Typed.toMesg T fac o st`; a value
  slot that was never assigned is the zero Go struct (`mesgdef.FileId{}`, `zeroStruct` — NOT `NewFileId(nil)`: its
  numbers are 0, not invalid); unrelated messages are appended verbatim; then `SortMessagesByTimestamp` on a suffix
  (`sortFrom`), whose comparator reads `FieldByNum(253 | 1 | 254)` of the converted messages and `Value.Uint32()`.

`FitProps/FileDefContentLemmas.lean` proves that this is the generic layer at the carrier `msgC` whose `norm` is
C13's `typedNormal` (by `C13_mesg_struct_mesg`), so every theorem of the generic layer holds of real messages.

Domain: messages whose fields all have a `FieldBase`. (A typed message with a nil `FieldBase` panics in `Add` —
modelled. An *unrelated* message with a nil `FieldBase` is kept by `Add`; whether `ToFIT` then panics depends on
whether the standard library's sort calls the comparator on it — outside the model, excluded by hypothesis.) -/
namespace Fit.FileDef.Content
open Fit.Msg Fit.Typed Fit.Value Fit.Gen Fit.FileDef.Generated

/-- the regenerated table of the typed struct of message number `n` (`mesgdef.Xxx`) -/
def tableOf (n : Nat) : Option MesgTable := Mesgdef.tables.find? (fun T => T.num == n)

/-- the typed struct file type `FT` converts a message of number `n` to (`none`: kept as an unrelated message) -/
def typedTable (FT : FileType) (n : Nat) : Option MesgTable :=
  match slotOf FT n with
  | some _ => tableOf n
  | none => none

/-- what a file struct holds: typed structs, and unrelated messages as they came -/
inductive Stored where
  | typed (T : MesgTable) (st : Struct)
  | raw (m : Message)
  deriving DecidableEq, Repr

def Stored.num : Stored → Nat
  | .typed T _ => T.num
  | .raw m => m.num

/-- the assignment / append of `Add` -/
def addS (FT : FileType) (f : List Stored) (x : Stored) : List Stored :=
  if isDropped FT x.num then f
  else if isSingle FT x.num then f.filter (fun y => y.num != x.num) ++ [x]
  else f ++ [x]

/-- `f.Add(mesg)` -/
def addC (FT : FileType) (f : List Stored) (m : Message) : Typed.Outcome (List Stored) :=
  match typedTable FT m.num with
  | some T =>
    match ofMesg T m with
    | .panic => .panic
    | .ok st => .ok (addS FT f (.typed T st))
  | none => .ok (addS FT f (.raw m))

/-- `filedef.NewXxx(mesgs...)` from the state `f` -/
def buildFrom (FT : FileType) : List Stored → List Message → Typed.Outcome (List Stored)
  | f, [] => .ok f
  | f, m :: ms =>
    match addC FT f m with
    | .panic => .panic
    | .ok f' => buildFrom FT f' ms

/-- `filedef.NewXxx(mesgs...)` -/
def buildC (FT : FileType) (ms : List Message) : Typed.Outcome (List Stored) := buildFrom FT [] ms

/-- `x.ToMesg(options)`; `fac mesgNum num` is `options.Factory.CreateField(mesgNum, num)` -/
def emitS (fac : Nat → Nat → Field) (o : Options) : Stored → Message
  | .typed T st => toMesg T (fac T.num) o st
  | .raw m => m

/-- content of a slot of the zero Go struct (`mesgdef.Xxx{}`): 0, "", nil, `[n]T{}`, `time.Time{}` -/
def zeroVal (s : Typed.Slot) : SlotVal :=
  match s.kind with
  | .time => .time zeroTime
  | .scalar => .val (mkScalar s.ptype 0)
  | .bool => .val (.bool 0)
  | .str => .val (.string [])
  | .slice => .val .invalid
  | .fixed n => .val (if s.ptype == typeSliceString then .sliceString (List.replicate n []) else mkSlice s.ptype (List.replicate n 0))

def zeroStruct (T : MesgTable) : Struct := { vals := T.slots.map zeroVal, state := 0, unknown := [], dev := [] }

/-- `mesgdef.Xxx{}.ToMesg(options)`: the message of a value slot (file_id) to which no message was added -/
def defaultC (fac : Nat → Nat → Field) (o : Options) (n : Nat) : Message :=
  match tableOf n with
  | some T => toMesg T (fac T.num) o (zeroStruct T)
  | none => { num := n, fields := [], devFields := [] }

/-- `Value.Uint32()`: the invalid value for any other type -/
def u32Of : Value → Nat
  | .uint32 v => v % 2 ^ 32
  | _ => u32Invalid

/-- the sort key of `SortMessagesByTimestamp`: `FieldByNum(n)` is the FIRST field with that number -/
def keyOf (m : Message) : Option Nat := (m.fields.find? (numIs (tsNum m.num))).map (fun f => u32Of f.value)

/-- **the typed-message normalisation** a file type applies to a message: C13's `typedNormal` for the message numbers
it stores in typed fields, nothing for the others -/
def normC (fac : Nat → Nat → Field) (o : Options) (FT : FileType) (m : Message) : Message :=
  match typedTable FT m.num with
  | some T => typedNormal T (fac T.num) o m
  | none => m

/-- real messages as a carrier of the generic file-type layer -/
def msgC (fac : Nat → Nat → Field) (o : Options) : Carrier Message :=
  { num := Message.num, key := keyOf, norm := normC fac o, dflt := fun _ n => defaultC fac o n }

def slotMsgsC (fac : Nat → Nat → Field) (o : Options) (f : List Stored) (s : FileDef.Slot) : List Message :=
  let l := (f.filter (fun x => x.num == s.num)).map (emitS fac o)
  if s.kind == .value && l.isEmpty then [defaultC fac o s.num] else l

/-- `f.ToFIT(options).Messages`, as the code does it: convert every struct, append, sort a suffix -/
def toFITC (fac : Nat → Nat → Field) (o : Options) (FT : FileType) (f : List Stored) : List Message :=
  let gs := FT.slots.map (slotMsgsC fac o f) ++ [(f.filter (fun x => (slotOf FT x.num).isNone)).map (emitS fac o)]
  (gs.take FT.sortFrom).flatten ++ G.sortStable (msgC fac o) (gs.drop FT.sortFrom).flatten

/-- every field of every message has a `FieldBase` -/
def allBased (ms : List Message) : Bool := ms.all fun m => m.fields.all fun f => f.base.isSome

/-- obligation on the regenerated tables: every typed slot of every file type has its `mesgdef` table -/
def slotsTyped (FT : FileType) : Bool := FT.slots.all fun s => (tableOf s.num).isSome

end Fit.FileDef.Content
