/-!
Row types and comparison functions for the profile tables (property C17).

The regenerated data files that use these types:

* `Generated/Xlsx.lean` — an **independent** reading of `internal/cmd/fitgen/Profile.xlsx`
  (`translators/xlsx.py`, python3 stdlib only: zip + xml), under the reading rules R0–R7 stated in
  `FitProps/C17.lean`;
* `Generated/ProfileTables.lean` — a dump of the **compiled** factory / typedef / profile packages
  (`fitharness regen profiletables`);
* `Generated/GenDigest.lean` — sha256 of every file the repository's own generator emits into a scratch
  directory; `Generated/TreeDigest.lean` — sha256 of every checked-in `*_gen.go` of the tree (a separate step, another tool).

Text is carried as a **packed string**: the natural number whose big-endian base-256 digits are the byte 1
followed by the UTF-8 bytes of the text (so `""` is 1, `"a"` is 0x161). Equality of packed strings is equality
of texts, and the kernel compares them as GMP numbers. float64 values are **bit patterns**.
-/
namespace Fit.ProfileSpec

/-- packed string → UTF-8 bytes (most significant digit first, the leading 1 dropped) -/
def unpackAux : Nat → Nat → List Nat → List Nat
  | 0, _, acc => acc
  | fuel + 1, n, acc => if n ≤ 1 then acc else unpackAux fuel (n / 256) (n % 256 :: acc)

def unpack (n : Nat) : List Nat := unpackAux (n.log2 / 8 + 2) n []

/-- UTF-8 bytes → packed string -/
def pack (bs : List Nat) : Nat := bs.foldl (fun acc b => acc * 256 + b) 1

/-- one component of a field or sub-field (`proto.Component`) -/
structure Comp where
  /-- number of the field the bits go to (`FieldNum`) -/
  num : Nat
  /-- float64 bits -/
  scale : Nat
  offset : Nat
  bits : Nat
  acc : Bool
  deriving DecidableEq, Repr, Inhabited

/-- `proto.SubFieldMap` -/
structure SubMap where
  refNum : Nat
  refVal : Int
  deriving DecidableEq, Repr, Inhabited

/-- `proto.SubField` -/
structure Sub where
  name : Nat
  /-- profile type, by name (`ProfileType.String()` / the Field Type cell) -/
  ptype : Nat
  scale : Nat
  offset : Nat
  units : Nat
  comps : List Comp
  maps : List SubMap
  deriving DecidableEq, Repr, Inhabited

/-- `proto.FieldBase` as the factory holds it -/
structure FieldRow where
  num : Nat
  name : Nat
  ptype : Nat
  /-- `basetype.BaseType` byte -/
  baseType : Nat
  array : Bool
  acc : Bool
  scale : Nat
  offset : Nat
  units : Nat
  comps : List Comp
  subs : List Sub
  deriving DecidableEq, Repr, Inhabited

/-- one message: fields sorted by field number -/
structure Mesg where
  num : Nat
  name : Nat
  fields : List FieldRow
  deriving DecidableEq, Repr, Inhabited

/-- one constant of a profile type -/
structure Const where
  value : Nat
  name : Nat
  /-- spreadsheet side only: the row's comment contains "deprecated" (any case) -/
  dep : Bool := false
  deriving DecidableEq, Repr, Inhabited

/-- a profile type: its constants in spreadsheet / `ListXxx()` order -/
structure TypeRow where
  name : Nat
  /-- `basetype.BaseType` byte -/
  baseType : Nat
  consts : List Const
  deriving DecidableEq, Repr, Inhabited

/-! ### reading rule R7: a deprecated alias row is not a constant of its own

Go's generated `String()` / `List…()` / `…FromString` are functions of the VALUE, so a type cannot carry two constants of one
value. Where the Types sheet lists several rows of one type with the same value, the rows whose comment says "deprecated"
are aliases of the surviving row and are not generated (`// Name … [DUPLICATE!]` in the generated file). The rule is
evaluated on the spreadsheet alone; `FitProps/C17.lean` pins the exact list of rows it drops on the current spreadsheet
(`C17_dedupe_exact`) and proves that no VALUE is lost by it. -/

/-- R7 drops the row `c` of type `t`: it is commented "deprecated" and another row of the same type has the same value -/
def TypeRow.drops (t : TypeRow) (c : Const) : Bool :=
  c.dep && t.consts.any fun d => d.value == c.value && d.name != c.name

/-- the rows R7 drops from a type, as (type name, constant name, value) -/
def TypeRow.droppedRows (t : TypeRow) : List (Nat × Nat × Nat) :=
  (t.consts.filter t.drops).map fun c => (t.name, c.name, c.value)

/-- a type as the generated code can show it: the spreadsheet-only `dep` mark forgotten, no row dropped -/
def TypeRow.plain (t : TypeRow) : TypeRow :=
  { t with consts := t.consts.map fun c => { c with dep := false } }

/-- reading rule R7 applied: the rows `TypeRow.drops` names are removed (and the `dep` mark forgotten), nothing else -/
def TypeRow.dedupe (t : TypeRow) : TypeRow :=
  let keep := t.consts.filter fun c => !t.drops c
  { t with consts := keep.map fun c => { c with dep := false } }

/-- **Reading rule R7, the complete list of what it drops today**: (type, constant, value) of the rows of the Types sheet that
are deprecated aliases of another row of the same type with the same value — `weather_report.forecast = 1` ("Deprecated use
hourly_forecast instead"). ONE definition: `C17_dedupe_exact` states that the rule (`TypeRow.drops`, evaluated on the
spreadsheet alone) drops exactly these rows, and the `--spec` oracle of the family `profilerows` removes exactly these rows
(`TypeRow.dropListed`) — so a second row dropped by the rule breaks the theorem, and a row missing from the compiled packages
that is not in this list is a failing row of the family, whatever the rule says. -/
def r7Dropped : List (Nat × Nat × Nat) := [(0x1776561746865725f7265706f7274, 0x1666f726563617374, 1)]

/-- the type without exactly the listed (type, constant, value) rows (and the `dep` mark forgotten) -/
def TypeRow.dropListed (lst : List (Nat × Nat × Nat)) (t : TypeRow) : TypeRow :=
  let keep := t.consts.filter fun c => !lst.any fun d => d.1 == t.name && d.2.1 == c.name && d.2.2 == c.value
  { t with consts := keep.map fun c => { c with dep := false } }

/-! ### the spell-correction of the generator (known finding F14 / KF-C17-1) -/

/-- rewrite a name by a finite table of (spreadsheet spelling, generated spelling) pairs -/
def fixName (tbl : List (Nat × Nat)) (n : Nat) : Nat :=
  match tbl.find? (·.1 == n) with
  | some p => p.2
  | none => n

def Sub.fix (tbl : List (Nat × Nat)) (s : Sub) : Sub := { s with name := fixName tbl s.name }
def FieldRow.fix (tbl : List (Nat × Nat)) (f : FieldRow) : FieldRow :=
  { f with name := fixName tbl f.name, subs := f.subs.map (Sub.fix tbl) }
def Mesg.fix (tbl : List (Nat × Nat)) (m : Mesg) : Mesg :=
  { m with name := fixName tbl m.name, fields := m.fields.map (FieldRow.fix tbl) }
def TypeRow.fix (tbl : List (Nat × Nat)) (t : TypeRow) : TypeRow :=
  { t with name := fixName tbl t.name, consts := t.consts.map fun c => { c with name := fixName tbl c.name } }

/-- **KF-C17-1, the complete list**: (spreadsheet spelling, generated spelling) of the identifiers the generator's spell
checker rewrites: `cadence_zone_high_bondary → …_boundary` (a field of `time_in_zone`), `connect_iq_app_managment →
…_management` (a constant of `connectivity_capabilities`), `degrees_farenheit → degrees_fahrenheit` (a constant of
`exd_data_units`). ONE definition: the theorems of `FitProps/C17.lean` are stated with it and the `--kf` class predicate of
the driver evaluates it, so the class is exactly these three identifiers. -/
def f14 : List (Nat × Nat) := [
  (0x1636164656e63655f7a6f6e655f686967685f626f6e64617279, 0x1636164656e63655f7a6f6e655f686967685f626f756e64617279),
  (0x1636f6e6e6563745f69715f6170705f6d616e61676d656e74, 0x1636f6e6e6563745f69715f6170705f6d616e6167656d656e74),
  (0x1646567726565735f666172656e68656974, 0x1646567726565735f66616872656e68656974)]

/-- does the row carry one of the listed spreadsheet spellings? (class predicate of the finding) -/
def FieldRow.mentions (tbl : List (Nat × Nat)) (f : FieldRow) : Bool :=
  tbl.any (·.1 == f.name) || f.subs.any fun s => tbl.any (·.1 == s.name)
def Mesg.mentions (tbl : List (Nat × Nat)) (m : Mesg) : Bool :=
  tbl.any (·.1 == m.name) || m.fields.any (FieldRow.mentions tbl)
def TypeRow.mentions (tbl : List (Nat × Nat)) (t : TypeRow) : Bool :=
  tbl.any (·.1 == t.name) || t.consts.any fun c => tbl.any (·.1 == c.name)

/-! ### internal consistency of a message table -/

def Mesg.nums (m : Mesg) : List Nat := m.fields.map (·.num)

/-- every component (of the field and of its sub-fields) names a field of the message, and every sub-field
map refers to a field of the message -/
def FieldRow.refsResolve (nums : List Nat) (f : FieldRow) : Bool :=
  f.comps.all (fun c => nums.contains c.num) &&
  f.subs.all fun s => s.comps.all (fun c => nums.contains c.num) && s.maps.all (fun mp => nums.contains mp.refNum)

def Mesg.refsResolve (m : Mesg) : Bool := m.fields.all (FieldRow.refsResolve m.nums)

/-- field numbers are distinct, sorted, and none is the reserved 255 -/
def Mesg.numsOk (m : Mesg) : Bool :=
  (m.nums.zip (m.nums.drop 1)).all (fun p => p.1 < p.2) && m.nums.all (· < 255)

def sumBits (cs : List Comp) : Nat := (cs.map (·.bits)).sum

/-- bits available in the containing field: `8 × size(base type) × length`, where the length is the declared
fixed array length, 1 for a non-array field, and the protocol maximum (255 bytes in all) for `[N]` arrays -/
def capacityBits (btSize : Nat) (array : Bool) (fixedLen : Nat) : Nat :=
  if !array then 8 * btSize
  else if fixedLen > 0 then 8 * btSize * fixedLen
  else 8 * (255 / btSize * btSize)

/-- every component takes 1..32 bits, and the components of the field (and of each sub-field, which
re-interprets the same bytes) together fit the containing field -/
def FieldRow.bitsFit (btSize : Nat → Nat) (fixedLen : Nat) (f : FieldRow) : Bool :=
  let cap := capacityBits (btSize f.baseType) f.array fixedLen
  let ok (cs : List Comp) : Bool := cs.all (fun c => 0 < c.bits && c.bits ≤ 32) && sumBits cs ≤ cap
  ok f.comps && f.subs.all fun s => ok s.comps

/-- declared fixed array lengths: (message number, field number, length) -/
abbrev FixedLens := List (Nat × Nat × Nat)

def fixedLenOf (tbl : FixedLens) (mesg field : Nat) : Nat :=
  match tbl.find? (fun e => e.1 == mesg && e.2.1 == field) with
  | some e => e.2.2
  | none => 0

def Mesg.bitsFit (btSize : Nat → Nat) (tbl : FixedLens) (m : Mesg) : Bool :=
  m.fields.all fun f => f.bitsFit btSize (fixedLenOf tbl m.num f.num)

/-! ### constants and their string forms -/

/-- what the compiled `String()` / `XxxFromString` of a type do to one listed constant -/
structure StrRow where
  value : Nat
  /-- `String()` of the constant -/
  str : Nat
  /-- `XxxFromString(String(c))` -/
  back : Nat
  deriving DecidableEq, Repr, Inhabited

structure StrTable where
  name : Nat
  /-- `XxxInvalid` (= `XxxFromString` of a string that names no constant) -/
  invalid : Nat
  /-- one row per element of `ListXxx()` -/
  rows : List StrRow
  /-- `XxxFromString(String(XxxInvalid))` -/
  invalidBack : Nat
  deriving DecidableEq, Repr, Inhabited

/-! distinctness of a list of numbers in n·log n kernel steps: merge sort (fuel-structured, so that the kernel
can evaluate it), then adjacent elements strictly increase. `FitProps/C17Lemmas.lean` proves
`distinctNat l = true → l.Nodup`. -/

def mergeF : Nat → List Nat → List Nat → List Nat
  | 0, a, b => a ++ b
  | _ + 1, [], b => b
  | _ + 1, a, [] => a
  | f + 1, x :: xs, y :: ys =>
    match Nat.ble x y with
    | true => x :: mergeF f xs (y :: ys)
    | false => y :: mergeF f (x :: xs) ys

/-- one pass of bottom-up merge sort: adjacent runs merged -/
def mergePairs : List (List Nat) → List (List Nat)
  | [] => []
  | [l] => [l]
  | a :: b :: rest => mergeF (a.length + b.length) a b :: mergePairs rest

/-- passes until one run is left (`fuel` ≥ log₂ of the number of runs; out of fuel the runs are just concatenated, so
the result is always a permutation of the input — `FitProps/C17NodupLemmas.lean`) -/
def mergeAll : Nat → List (List Nat) → List Nat
  | _, [] => []
  | _, [l] => l
  | 0, ls => ls.flatten
  | f + 1, ls => mergeAll f (mergePairs ls)

/-- merge sort, bottom-up (no pairs, no `let`: cheap for the kernel); the fuel argument is an upper bound of the length -/
def msortF (fuel : Nat) (l : List Nat) : List Nat := mergeAll fuel (l.map fun a => [a])

def strictInc : List Nat → Bool
  | [] => true
  | [_] => true
  | a :: b :: rest => match Nat.blt a b with
    | true => strictInc (b :: rest)
    | false => false

/-- no number occurs twice -/
def nodupNat (l : List Nat) : Bool := strictInc (msortF l.length l)

/-- constants round-trip through their string form; `List` has no duplicate value and no duplicate string;
the invalid value is not listed and maps to itself -/
def StrTable.ok (t : StrTable) : Bool :=
  t.rows.all (fun r => r.back == r.value) && nodupNat (t.rows.map (·.value)) && nodupNat (t.rows.map (·.str)) &&
  !(t.rows.map (·.value)).contains t.invalid && t.invalidBack == t.invalid

/-! ### identifiers of the untyped constants -/

/-! These run inside the kernel over ~3000 identifiers, so they are written as arithmetic on the packed number
(base-256 digits, least significant first) with Boolean tests, not over lists. -/

/-- 0 = drop the byte; upper case → lower case; letters and digits kept -/
def normStep (b : Nat) : Nat :=
  cond (Nat.ble 65 b && Nat.ble b 90) (b + 32)
    (cond ((Nat.ble 97 b && Nat.ble b 122) || (Nat.ble 48 b && Nat.ble b 57)) b 0)

/-- `acc` holds the digits produced so far, `mul` = 256^(their number); the leading 1 of the packing is re-attached at the end -/
def normAux : Nat → Nat → Nat → Nat → Nat
  | 0, _, acc, mul => acc + mul
  | f + 1, n, acc, mul =>
    match Nat.ble n 1 with
    | true => acc + mul
    | false =>
      match normStep (n % 256) with
      | 0 => normAux f (n / 256) acc mul
      | c + 1 => normAux f (n / 256) (acc + (c + 1) * mul) (mul * 256)

/-- letters and digits only, lower case: `RecordHeartRate`, `record_heart_rate` ↦ `recordheartrate` -/
def normIdent (n : Nat) : Nat := normAux n n 0 1

/-- 256^(number of bytes of the packed text) -/
def weightAux : Nat → Nat → Nat → Nat
  | 0, _, w => w
  | f + 1, n, w => match Nat.ble n 1 with
    | true => w
    | false => weightAux f (n / 256) (w * 256)

/-- identifier of a field constant: message name followed by field name (concatenation of the packed texts) -/
def joinIdent (a b : Nat) : Nat :=
  let w := weightAux b b 1
  a * w + (b - w)

/-- one number per (normalised identifier, value < 2^16) pair, for sorting -/
def encPair (p : Nat × Nat) : Nat := normIdent p.1 * 65536 + p.2

/-- a list of (identifier, value) pairs as a sorted list of numbers: equal iff the two lists are equal as multisets up
to the case / punctuation of the identifiers -/
def sortedPairs (l : List (Nat × Nat)) : List Nat := msortF l.length (l.map encPair)

/-! ### the generator's output against the tree

Two tables, written by two different tools in two separately logged steps of the check:
`Generated/GenDigest.lean` (`translators/gendigest.py`: runs the repository's generator into a scratch directory and hashes
what it wrote — it never reads a checked-in `*_gen.go`) and `Generated/TreeDigest.lean` (`translators/treedigest.sh`:
`find` + `sha256sum` over the whole tree — it never runs anything). -/

/-- one file the generator wrote into the scratch directory -/
structure GenFile where
  /-- path relative to the output root (= relative to the repository root) -/
  path : Nat
  /-- sha256 of what the generator writes now -/
  sha : Nat
  deriving DecidableEq, Repr, Inhabited

/-- one checked-in `*_gen.go` file of the tree -/
structure TreeFile where
  /-- path relative to the repository root -/
  path : Nat
  /-- sha256 of the checked-in file -/
  sha : Nat
  /-- the program its first line names (`// Code generated by <program> …`; the empty text if the line has another form) -/
  generator : Nat
  deriving DecidableEq, Repr, Inhabited

/-- (path, program named in the header) of the checked-in file `t` is in the list `others` -/
def TreeFile.listedIn (others : List (Nat × Nat)) (t : TreeFile) : Bool :=
  others.any fun p => Nat.beq p.1 t.path && Nat.beq p.2 t.generator

/-- **The two digest tables agree.** One pass over the two tables, both sorted by path (bytewise; both translators sort):
every checked-in file either is the next emitted file — same path, same digest (and not the digest 0 of an unreadable
file), its first line naming the program `prog` — or is one of the listed outputs of other generators; and no emitted file
is left without its checked-in file. (Linear, so that the kernel evaluates it in well under a second;
`FitProps/C17RuleLemmas.lean` proves what `true` means, for all tables.) -/
def filesMatch (others : List (Nat × Nat)) (prog : Nat) : List TreeFile → List GenFile → Bool
  | [], [] => true
  | [], _ :: _ => false
  | t :: ts, [] => t.listedIn others && filesMatch others prog ts []
  | t :: ts, g :: gs =>
    match Nat.beq t.path g.path with
    | true => Nat.beq t.sha g.sha && Nat.beq t.generator prog && !Nat.beq g.sha 0 && filesMatch others prog ts gs
    | false => t.listedIn others && filesMatch others prog ts (g :: gs)

/-- R7 never loses a value on this type: every row it drops has a surviving alias — a row of the same value, another
name, not deprecated -/
def TypeRow.aliasesSurvive (t : TypeRow) : Bool :=
  t.consts.all fun c => !t.drops c || t.consts.any fun k => k.value == c.value && !k.dep && k.name != c.name

end Fit.ProfileSpec
