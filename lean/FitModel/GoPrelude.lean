/-!
Run-time support of the definitions that `translators/go2lean` generates from the Go source of /repo
(`FitModel/Generated/Go_*.lean`). Core Lean only. See notes/go2lean.md.

Representation: a Go `uintN` is a `Nat` below `2^N` (the generated code reduces `% 2^N` wherever Go wraps), a Go `intN`
is an `Int` in `[-2^(N-1), 2^(N-1))` (wrapped by `wrapI`), `bool` is `Bool`, `string` is `String`, slices and arrays
are `List`s (value semantics: the subset has no aliasing), a struct is a `structure`. A Go run-time panic (index out of
range, slice bounds, division by zero, `panic(…)`) is the outcome `none` of a function whose result type is `Option …`.
-/
namespace Go

/-- two's-complement wrap of an integer to `w` bits (`w ≥ 1`) -/
def wrapI (w : Nat) (x : Int) : Int := (x + 2 ^ (w - 1)) % 2 ^ w - 2 ^ (w - 1)

/-- `a[i]` with an unsigned index: panics when `i ≥ len(a)` -/
def idx {α} (l : List α) (i : Nat) : Option α := l[i]?

/-- `a[i]` with a signed index: panics when `i < 0` or `i ≥ len(a)` -/
def idxI {α} (l : List α) (i : Int) : Option α := if i < 0 then none else l[i.toNat]?

/-- `a[i] = v` on an array -/
def setIdx {α} (l : List α) (i : Nat) (v : α) : Option (List α) := if i < l.length then some (l.set i v) else none

def setIdxI {α} (l : List α) (i : Int) (v : α) : Option (List α) :=
  if i < 0 then none else setIdx l i.toNat v

/-- a signed slice bound: panics when negative -/
def natOfInt (i : Int) : Option Nat := if i < 0 then none else some i.toNat

/-- `s[lo:hi]`: panics unless `lo ≤ hi ≤ len(s)` (re-slicing beyond the length, up to the capacity, is outside the
subset: it is a panic here, so nothing is ever proved about it) -/
def slice {α} (l : List α) (lo hi : Nat) : Option (List α) :=
  if lo ≤ hi ∧ hi ≤ l.length then some ((l.take hi).drop lo) else none

/-- `make([]T, n, m)`: panics unless `n ≤ m`; the slice has `n` zero elements (its capacity is not part of a slice VALUE
here: where the code looks at it, see `reslice`) -/
def make {α} (n m : Nat) (zero : α) : Option (List α) := if n ≤ m then some (List.replicate n zero) else none

/-- what `copy(dst, src)` leaves in `dst`: the first `min (len dst) (len src)` elements come from `src` (Go's copy is a
memmove: `src` is read as it was before the call, also when the two overlap) -/
def copyInto {α} (dst src : List α) : List α := src.take dst.length ++ dst.drop src.length

/-- `copy(p[lo:hi], src)`: the new `p`; panics unless `lo ≤ hi ≤ len(p)` -/
def copySlice {α} (p : List α) (lo hi : Nat) (src : List α) : Option (List α) :=
  if lo ≤ hi ∧ hi ≤ p.length then some (p.take lo ++ copyInto ((p.take hi).drop lo) src ++ p.drop hi) else none

/-- the hidden part of a slice: `tail` is what the backing array holds between `len(s)` and `cap(s)`. The value of a slice
is the list of its `len` elements; where the code looks beyond (`cap(s)`, the re-slice `s = s[:n]` up to the capacity) the
translated function takes the tail as an EXTRA PARAMETER, and the agreement theorems quantify over every tail: whatever
the capacity and the stale contents are, the function does what the model says. `cap(s) = len(s) + len(tail)`. -/
def capOf {α} (s tail : List α) : Int := (s.length + tail.length : Nat)

/-- `s = s[:n]` (re-slice up to the capacity): panics when `n > cap(s)`; elements beyond the old length are the stale
contents of the backing array -/
def reslice {α} (s : List α) (n : Nat) (tail : List α) : Option (List α) :=
  if n ≤ s.length + tail.length then some ((s ++ tail).take n) else none

/-- integer division and remainder: panic on a zero divisor; Go truncates toward zero -/
def divN (a b : Nat) : Option Nat := if b = 0 then none else some (a / b)
def modN (a b : Nat) : Option Nat := if b = 0 then none else some (a % b)
def divI (a b : Int) : Option Int := if b = 0 then none else some (Int.tdiv a b)
def modI (a b : Int) : Option Int := if b = 0 then none else some (Int.tmod a b)

/-- `for i := range s` (the index has type `int`) -/
def rangeI (n : Nat) : List Int := (List.range n).map Int.ofNat

/-- `for i, v := range s` -/
def enumI {α} (l : List α) : List (Int × α) := (rangeI l.length).zip l

/-- `for i := a; i < b; i++`: a, a+1, …, b-1 -/
def upN (a b : Nat) : List Nat := List.range' a (b - a)
def upI (a b : Int) : List Int := (List.range (b - a).toNat).map (fun k => a + Int.ofNat k)

/-- `for i := a; i < b; i += k` (`k ≥ 1`; the translator admits it only where the loop cannot wrap): a, a+k, … below b -/
def stepN (a b k : Nat) : List Nat := (List.range ((b - a + k - 1) / k)).map (fun j => a + j * k)
def stepI (a b : Int) (k : Nat) : List Int := (List.range (((b - a).toNat + k - 1) / k)).map (fun j => a + Int.ofNat (j * k))

/-- `for i := a; i >= b; i--`: a, a-1, …, b -/
def downN (a b : Nat) : List Nat := (List.range (a + 1 - b)).map (fun k => a - k)
def downI (a b : Int) : List Int := (List.range (a + 1 - b).toNat).map (fun k => a - Int.ofNat k)

/-- `binary.LittleEndian.AppendUintN(b, v)` appends `leN v`, `binary.BigEndian.AppendUintN(b, v)` appends `beN v`: the
N/8 bytes of `v` (a `uintN`, below `2^N`), least / most significant first -/
def le16 (v : Nat) : List Nat := [v % 256, v / 256 % 256]
def be16 (v : Nat) : List Nat := [v / 256 % 256, v % 256]
def le32 (v : Nat) : List Nat := [v % 256, v / 256 % 256, v / 65536 % 256, v / 16777216 % 256]
def be32 (v : Nat) : List Nat := [v / 16777216 % 256, v / 65536 % 256, v / 256 % 256, v % 256]
def le64 (v : Nat) : List Nat := le32 (v % 4294967296) ++ le32 (v / 4294967296 % 4294967296)
def be64 (v : Nat) : List Nat := be32 (v / 4294967296 % 4294967296) ++ be32 (v % 4294967296)

end Go
