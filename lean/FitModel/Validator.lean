import FitModel.Message
/-!
Model of the two validators every message passes before the encoder writes it:

* `protoValidate` — `proto.Validator.ValidateMessage` / `ValidateMessageDefinition` (/repo/proto/validator.go):
  the protocol-version gate (under exactly version 1.0: no developer fields, no base type added after `byte`).
  A field with a nil `FieldBase` is skipped there (since the repair of F11; before it the nil pointer was
  dereferenced). The outcome `.panic` stays in `Res` so that "never panics" remains a statement that is proved.
* `validate` — `encoder.messageValidator.Validate` (/repo/encoder/validator.go:104-262): drops expanded
  fields and (unless asked to preserve them) fields with invalid values, restores scaled float64 values,
  checks type alignment / UTF-8 / size ≤ 255 / at most 255 (developer) fields, keeps track of the
  developer-data-id and field-description messages seen and demands them for developer fields.
  The in-place swap compaction of the Go loop is modelled **by its effect**: the kept fields, in order.
* `gateStream` / `gateBatch` — the order in which encoder.go:269-292 and stream.go:42-47 call the two.

`scaleoffset.DiscardValue` on a float64-typed value is binary64 arithmetic followed by a conversion; that
arithmetic belongs to C12 and is a **parameter** `D : Discard` here (the driver instantiates it with the
results of the real function carried in the operation line). Everything else of `DiscardValue` (a value that
is not float64-typed is returned unchanged) is modelled.
-/
namespace Fit.Validator
open Fit.Gen Fit.Value Fit.Msg

inductive Err where
  | noFields | typeMismatch | invalidUtf8 | exceed | missingDdi | missingFd | protocolViolation
  deriving DecidableEq, Repr

inductive Res (α : Type) where
  | ok (a : α)
  | err (e : Err)
  | panic
  deriving DecidableEq, Repr

/-! ### protocol validator -/

/-- `field.BaseType & BaseTypeNumMask > Byte & BaseTypeNumMask` ("byte was the last type added in 1.0") -/
def afterV1 (bt : Nat) : Bool := (bt &&& baseTypeNumMask) > (btByte &&& baseTypeNumMask)

def protoFields : List Field → Res Unit
  | [] => .ok ()
  | f :: fs =>
    match f.base with
    | none => protoFields fs                             -- `if field.FieldBase == nil { continue }` (fix of F11)
    | some b => if afterV1 b.baseType then .err .protocolViolation else protoFields fs

/-- `(*Validator).ValidateMessage(mesg)` for `ProtocolVersion = ver` -/
def protoValidate (ver : Nat) (m : Message) : Res Unit :=
  if ver = protoV1 then
    if !m.devFields.isEmpty then .err .protocolViolation else protoFields m.fields
  else .ok ()

/-- `(*Validator).ValidateMessageDefinition`: number of developer field definitions, base types of the field definitions -/
def protoValidateDef (ver : Nat) (nDev : Nat) (bts : List Nat) : Res Unit :=
  if ver = protoV1 then
    if nDev > 0 then .err .protocolViolation
    else if bts.any afterV1 then .err .protocolViolation else .ok ()
  else .ok ()

/-! ### message validator -/

/-- what `Factory.CreateField(mesgNum, num)` returns, as far as the validator reads it -/
structure FacEntry where
  nameKnown : Bool := false
  baseType : Nat := 0
  scale : Nat := f64One
  offset : Nat := 0
  deriving DecidableEq, Repr, Inhabited

structure Options where
  /-- default true; `ValidatorWithPreserveInvalidValues` clears it -/
  omitInvalid : Bool := true
  factory : Nat → Nat → FacEntry := fun _ _ => {}

/-- what `Validate` reads of a `mesgdef.FieldDescription` -/
structure FieldDesc where
  ddi : Nat
  fdn : Nat
  btId : Nat
  scale : Nat     -- uint8
  offset : Nat    -- int8 bit pattern
  nativeMesgNum : Nat
  nativeFieldNum : Nat
  deriving DecidableEq, Repr, Inhabited

structure State where
  ddis : List Nat := []
  fds : List FieldDesc := []
  deriving DecidableEq, Repr, Inhabited

/-- `Reset()` -/
def State.reset : State := {}

/-- `scaleoffset.DiscardValue(value, baseType, scale, offset)` restricted to float64-typed values -/
abbrev Discard := Value → Nat → Nat → Nat → Value

/-- `x != 1` on a float64 bit pattern (1.0 has one representation; NaN ≠ 1) -/
def scaleNotOne (bits : Nat) : Bool := bits != f64One
/-- `x != 0` on a float64 bit pattern (+0 and −0 are equal to 0; NaN ≠ 0) -/
def offsetNotZero (bits : Nat) : Bool := bits % 2 ^ 63 != 0

/-- `scaleoffset.DiscardValue`: only `TypeFloat64` / `TypeSliceFloat64` values are touched -/
def discardValue (D : Discard) (v : Value) (bt scale offset : Nat) : Value :=
  match v with
  | .float64 _ | .sliceFloat64 _ => D v bt scale offset
  | v => v

/-- `float64(n)` for a small natural number (exact): bit pattern -/
def f64OfNat (n : Nat) : Nat :=
  if n = 0 then 0 else
    let e := Nat.log2 n
    (1023 + e) * 2 ^ 52 + (n - 2 ^ e) * 2 ^ (52 - e)

/-- `float64(int8(p))` for an int8 bit pattern -/
def f64OfInt8 (p : Nat) : Nat :=
  if p % 256 < 128 then f64OfNat (p % 256) else 2 ^ 63 + f64OfNat (256 - p % 256)

/-- lines 113-121: "Restore any scaled float64 value back into its corresponding integer representation" -/
def restoreField (D : Discard) (f : Field) (b : FieldBase) : Field :=
  if scaleNotOne b.scale || offsetNotZero b.offset then
    { f with value := discardValue D f.value b.baseType b.scale b.offset }
  else f

/-- `valueIntegrity(value, baseType)` -/
def integrity (v : Value) (bt : Nat) : Option Err :=
  if !align v bt then some .typeMismatch
  else if !utf8Valid v then some .invalidUtf8
  else if size v > 255 then some .exceed
  else none

/-- the loop over `mesg.Fields` (lines 106-140): `n` = fields kept so far (`valid`); the result is
`mesg.Fields[:valid]` -/
def validateFields (D : Discard) (o : Options) : List Field → Nat → Except Err (List Field)
  | [], _ => .ok []
  | f :: fs, n =>
    match f.base with
    | none => validateFields D o fs n
    | some b =>
      if f.isExpanded then validateFields D o fs n
      else
        let f' := restoreField D f b
        if o.omitInvalid && !valid f'.value b.baseType then validateFields D o fs n
        else
          match integrity f'.value b.baseType with
          | some e => .error e
          | none =>
            if n = 255 then .error .exceed
            else (validateFields D o fs (n + 1)).map (f' :: ·)

/-- value of the last field with number `num` (≤ 15) and a known name: `vals[num]` of `FieldDescription.Reset` -/
def fdVal (fs : List Field) (num : Nat) : Value :=
  fs.foldl (fun acc f => match f.base with
    | some b => if b.num == num && b.nameKnown && b.num ≤ 15 then f.value else acc
    | none => acc) .invalid

/-- `mesgdef.NewFieldDescription(mesg)`, the seven members `Validate` reads -/
def newFieldDesc (fs : List Field) : FieldDesc :=
  { ddi := uint8Of (fdVal fs fnFieldDescriptionDeveloperDataIndex)
    fdn := uint8Of (fdVal fs fnFieldDescriptionFieldDefinitionNumber)
    btId := uint8Of (fdVal fs fnFieldDescriptionFitBaseTypeId)
    scale := uint8Of (fdVal fs fnFieldDescriptionScale)
    offset := int8Of (fdVal fs fnFieldDescriptionOffset)
    nativeMesgNum := uint16Of (fdVal fs fnFieldDescriptionNativeMesgNum)
    nativeFieldNum := uint8Of (fdVal fs fnFieldDescriptionNativeFieldNum) }

/-- lines 145-151: remember developer-data-id and field-description messages (after their fields were validated) -/
def remember (st : State) (mesgNum : Nat) (fs : List Field) : State :=
  if mesgNum = mesgNumDeveloperDataId then
    { st with ddis := st.ddis ++ [uint8Of (fieldValueByNum fs fnDeveloperDataIdDeveloperDataIndex)] }
  else if mesgNum = mesgNumFieldDescription then
    { st with fds := st.fds ++ [newFieldDesc fs] }
  else st

def lookupFd (fds : List FieldDesc) (d : DevField) : Option FieldDesc :=
  fds.find? fun fd => fd.ddi == d.devIdx && fd.fdn == d.num

/-- lines 187-207 -/
def restoreDev (D : Discard) (o : Options) (fd : FieldDesc) (d : DevField) : DevField :=
  if fd.nativeMesgNum != mesgNumInvalid && fd.nativeFieldNum != uint8Invalid then
    let e := o.factory fd.nativeMesgNum fd.nativeFieldNum
    if e.nameKnown && (scaleNotOne e.scale || offsetNotZero e.offset) then
      { d with value := discardValue D d.value e.baseType e.scale e.offset }
    else d
  else if fd.scale != uint8Invalid && fd.offset != sint8Invalid then
    { d with value := discardValue D d.value fd.btId (f64OfNat fd.scale) (f64OfInt8 fd.offset) }
  else d

/-- the loop over `mesg.DeveloperFields` (lines 157-227) -/
def validateDevs (D : Discard) (o : Options) (st : State) : List DevField → Nat → Except Err (List DevField)
  | [], _ => .ok []
  | d :: ds, n =>
    if !st.ddis.contains d.devIdx then .error .missingDdi
    else
      match lookupFd st.fds d with
      | none => .error .missingFd
      | some fd =>
        let d' := restoreDev D o fd d
        if o.omitInvalid && !valid d'.value fd.btId then validateDevs D o st ds n
        else
          match integrity d'.value fd.btId with
          | some e => .error e
          | none =>
            if n = 255 then .error .exceed
            else (validateDevs D o st ds (n + 1)).map (d' :: ·)

/-- `(*messageValidator).Validate(mesg)`: the error or the validated message, and the validator's state
afterwards (the state is updated before the developer fields are looked at, and stays updated on error —
also on the `errNoFields` that is returned when no field was kept and the developer-field loop kept nothing
either: that second emptiness test, after `mesg.DeveloperFields = mesg.DeveloperFields[:valid]`, is the repair
of KF-C10-3; before it such a message was accepted as the empty message) -/
def validate (D : Discard) (o : Options) (st : State) (m : Message) : Except Err Message × State :=
  match validateFields D o m.fields 0 with
  | .error e => (.error e, st)
  | .ok fs =>
    if fs.isEmpty && m.devFields.isEmpty then (.error .noFields, st)
    else
      let st1 := remember st m.num fs
      if m.devFields.isEmpty then (.ok { m with fields := fs }, st1)
      else
        match validateDevs D o st1 m.devFields 0 with
        | .error e => (.error e, st1)
        | .ok ds =>
          if fs.isEmpty && ds.isEmpty then (.error .noFields, st1)
          else (.ok { m with fields := fs, devFields := ds }, st1)

/-! ### specification: what validation is supposed to compute, stated without the loops -/

/-- the field survives validation: it has a `FieldBase`, is not the product of component expansion, and
(unless invalid values are preserved) its restored value is valid for its base type -/
def keepField (D : Discard) (o : Options) (f : Field) : Bool :=
  match f.base with
  | none => false
  | some b => !f.isExpanded && (!o.omitInvalid || valid (restoreField D f b).value b.baseType)

def restoredField (D : Discard) (f : Field) : Field :=
  match f.base with
  | some b => restoreField D f b
  | none => f

/-- the value fits the protocol: type aligned with the base type, valid UTF-8, at most 255 bytes -/
def fieldOk (f : Field) : Bool :=
  match f.base with
  | some b => (integrity f.value b.baseType).isNone
  | none => false

/-- `filter keep` then `map restore`: order and values of the rest are kept -/
def specFields (D : Discard) (o : Options) (fs : List Field) : List Field :=
  (fs.filter (keepField D o)).map (restoredField D)

/-- a developer field is backed by a developer-data-id and a field-description seen before -/
def devBacked (st : State) (d : DevField) : Bool :=
  st.ddis.contains d.devIdx && (lookupFd st.fds d).isSome

def restoredDev (D : Discard) (o : Options) (st : State) (d : DevField) : DevField :=
  match lookupFd st.fds d with
  | some fd => restoreDev D o fd d
  | none => d

def keepDev (D : Discard) (o : Options) (st : State) (d : DevField) : Bool :=
  match lookupFd st.fds d with
  | some fd => !o.omitInvalid || valid (restoreDev D o fd d).value fd.btId
  | none => true

def devOk (st : State) (d : DevField) : Bool :=
  match lookupFd st.fds d with
  | some fd => (integrity d.value fd.btId).isNone
  | none => false

def specDevs (D : Discard) (o : Options) (st : State) (ds : List DevField) : List DevField :=
  (ds.filter (keepDev D o st)).map (restoredDev D o st)

/-- **The specification of `Validate`.** `some m'`: the message is accepted and becomes `m'`;
`none`: it must be rejected with an error. A message is writable only if something of it is left to write:
at least one kept field or one kept developer field. -/
def specValidate (D : Discard) (o : Options) (st : State) (m : Message) : Option Message :=
  let fs := specFields D o m.fields
  if !(fs.all fieldOk) || fs.length > 255 then none
  else
    let st1 := remember st m.num fs
    let ds := specDevs D o st1 m.devFields
    if !(m.devFields.all (devBacked st1)) || !(ds.all (devOk st1)) || ds.length > 255 then none
    else if fs.isEmpty && ds.isEmpty then none    -- nothing to write: no kept field and no kept developer field
    else some { m with fields := fs, devFields := ds }

/-- what the targeted protocol version allows: under exactly 1.0 no developer fields and no base type
added after `byte`. (Nothing is demanded of a field without `FieldBase`: validation drops it.) -/
def fieldAllowed (f : Field) : Bool :=
  match f.base with
  | some b => !afterV1 b.baseType
  | none => true

def protoOk (ver : Nat) (m : Message) : Bool :=
  ver != protoV1 || (m.devFields.isEmpty && m.fields.all fieldAllowed)

/-! ### the gate in front of the writer -/

/-- `(*Encoder).selectProtocolVersion`: the encoder option overrides the file header's version; an
unspecified version (0) means 1.0 -/
def selectVersion (opt hdr : Nat) : Nat :=
  if opt ≠ 0 then opt else if hdr = 0 then protoV1 else hdr

/-- stream.go:42-47 (`WriteMessage`): protocol validation, then message validation; the message that reaches
`encodeMessage`, and the validator state -/
def gateStream (D : Discard) (ver : Nat) (o : Options) (st : State) (m : Message) : Res Message × State :=
  match protoValidate ver m with
  | .panic => (.panic, st)
  | .err e => (.err e, st)
  | .ok () =>
    match validate D o st m with
    | (.error e, st') => (.err e, st')
    | (.ok m', st') => (.ok m', st')

def protoAll (ver : Nat) : List Message → Res Unit
  | [] => .ok ()
  | m :: ms =>
    match protoValidate ver m with
    | .ok () => protoAll ver ms
    | r => r

def validateAll (D : Discard) (o : Options) (st : State) : List Message → Except Err (List Message)
  | [] => .ok []
  | m :: ms =>
    match validate D o st m with
    | (.error e, _) => .error e
    | (.ok m', st') => (validateAll D o st' ms).map (m' :: ·)

/-- encoder.go:269-292 (`validateMessages`, called before anything is written): every message through the
protocol validator, then every message through a freshly reset message validator; the messages that
reach the writer. (`errEmptyMessages` for an empty list is the encoder's own check, not modelled here.) -/
def gateBatch (D : Discard) (ver : Nat) (o : Options) (ms : List Message) : Res (List Message) :=
  match protoAll ver ms with
  | .panic => .panic
  | .err e => .err e
  | .ok () =>
    match validateAll D o {} ms with
    | .error e => .err e
    | .ok ms' => .ok ms'

end Fit.Validator
