import FitModel.Generated.Consts
import FitModel.Utf8
/-!
Model of `proto.Value` (/repo/proto/value.go, value_marshal.go, value_unmarshal.go).

* `Value`: one constructor per `proto.Type` (invalid, 12 scalars incl. bool and string, 12 slices).
  Numbers are `Nat` **bit patterns**: a signed integer is its two's-complement pattern of the type's
  width, a float its IEEE-754 bit pattern (NaN payloads are ordinary values), `typedef.Bool` its byte.
  Strings are byte lists (a Go string may be malformed UTF-8). `wf` says every number fits its width.
* `typeOf`, `size`, `marshal arch`, `unmarshal bytes arch baseType isBool isArray`, `valid baseType`,
  `align baseType` follow the Go code case by case. `arch`: `Gen.littleEndian` (0) is little-endian,
  every other byte big-endian. A base type is any byte (`Nat`); sizes and sentinels come from
  `Generated/Consts.lean`, regenerated from the compiled packages on every run.
* An index out of range in Go (`b[0]`, `binary.LittleEndian.Uint16(b)` on a short slice) is the explicit
  outcome `.panic`; `ErrTypeNotSupported` is `.err`.
* `Raw`/`toRaw`: the representation trick of value.go:86-127 (scalar tag = address inside `memptr`,
  slice/string tag = top `vbits` bits of `num`), for the theorems about tags.
* `GoVal`, `toAny`, `ofAny`: `Value.Any()` and `proto.Any(v)` (fast path and reflection fallback; a named
  type behaves as its underlying kind — Go runtime behaviour, tied by correspondence, not proved).
-/
namespace Fit.Value
open Fit.Gen

inductive Value where
  | invalid
  | bool (v : Nat) | int8 (v : Nat) | uint8 (v : Nat) | int16 (v : Nat) | uint16 (v : Nat)
  | int32 (v : Nat) | uint32 (v : Nat) | int64 (v : Nat) | uint64 (v : Nat)
  | float32 (bits : Nat) | float64 (bits : Nat)
  | string (s : List Nat)
  | sliceBool (vs : List Nat) | sliceInt8 (vs : List Nat) | sliceUint8 (vs : List Nat)
  | sliceInt16 (vs : List Nat) | sliceUint16 (vs : List Nat) | sliceInt32 (vs : List Nat)
  | sliceUint32 (vs : List Nat) | sliceInt64 (vs : List Nat) | sliceUint64 (vs : List Nat)
  | sliceFloat32 (vs : List Nat) | sliceFloat64 (vs : List Nat)
  | sliceString (vs : List (List Nat))
  deriving DecidableEq, Repr, Inhabited

/-- `Value.Type()` -/
def typeOf : Value → Nat
  | .invalid => typeInvalid | .bool _ => typeBool | .int8 _ => typeInt8 | .uint8 _ => typeUint8
  | .int16 _ => typeInt16 | .uint16 _ => typeUint16 | .int32 _ => typeInt32 | .uint32 _ => typeUint32
  | .int64 _ => typeInt64 | .uint64 _ => typeUint64 | .float32 _ => typeFloat32 | .float64 _ => typeFloat64
  | .string _ => typeString
  | .sliceBool _ => typeSliceBool | .sliceInt8 _ => typeSliceInt8 | .sliceUint8 _ => typeSliceUint8
  | .sliceInt16 _ => typeSliceInt16 | .sliceUint16 _ => typeSliceUint16 | .sliceInt32 _ => typeSliceInt32
  | .sliceUint32 _ => typeSliceUint32 | .sliceInt64 _ => typeSliceInt64 | .sliceUint64 _ => typeSliceUint64
  | .sliceFloat32 _ => typeSliceFloat32 | .sliceFloat64 _ => typeSliceFloat64
  | .sliceString _ => typeSliceString

/-- the value is one of the 12 slice types (what the decoder passes as `isArray` for it) -/
def isSlice : Value → Bool
  | .sliceBool _ | .sliceInt8 _ | .sliceUint8 _ | .sliceInt16 _ | .sliceUint16 _ | .sliceInt32 _
  | .sliceUint32 _ | .sliceInt64 _ | .sliceUint64 _ | .sliceFloat32 _ | .sliceFloat64 _
  | .sliceString _ => true
  | _ => false

/-- the value is a `typedef.Bool` or a slice of them (what the decoder knows as `profile.Bool`) -/
def isBoolType : Value → Bool
  | .bool _ | .sliceBool _ => true
  | _ => false

/-! ### well-formedness: numbers fit the width of their Go type -/

def allLt (n : Nat) (vs : List Nat) : Bool := vs.all (· < n)

/-- every number fits the width of its Go type; bytes of strings are bytes -/
def wf : Value → Bool
  | .invalid => true
  | .bool v | .int8 v | .uint8 v => v < 2 ^ 8
  | .int16 v | .uint16 v => v < 2 ^ 16
  | .int32 v | .uint32 v | .float32 v => v < 2 ^ 32
  | .int64 v | .uint64 v | .float64 v => v < 2 ^ 64
  | .string s => allLt 256 s
  | .sliceBool vs | .sliceInt8 vs | .sliceUint8 vs => allLt (2 ^ 8) vs
  | .sliceInt16 vs | .sliceUint16 vs => allLt (2 ^ 16) vs
  | .sliceInt32 vs | .sliceUint32 vs | .sliceFloat32 vs => allLt (2 ^ 32) vs
  | .sliceInt64 vs | .sliceUint64 vs | .sliceFloat64 vs => allLt (2 ^ 64) vs
  | .sliceString vs => vs.all (allLt 256)

/-- `proto.Bool(v)`: "If v > 1, it will be treated as typedef.BoolInvalid" -/
def mkBool (b : Nat) : Value := .bool (if b > 1 then boolInvalid else b)

/-- one element of a `typedef.Bool` array as `UnmarshalValue` returns it (since /repo 5da5106): clamped exactly as
`proto.Bool` clamps a single value (`if v > 1 { v = typedef.BoolInvalid }`) -/
def clampBool (b : Nat) : Nat := if b > 1 then boolInvalid else b

/-! ### sizes -/

/-- `sizes[t]` of value.go (regenerated) -/
def protoSize (t : Nat) : Nat := protoSizes.getD t 0

/-- `basetype.BaseType(t).Size()` (regenerated table of 256 entries) -/
def btSize (t : Nat) : Nat := baseTypeSizes.getD t 0

/-- `basetype.BaseType(t).Valid()` -/
def btValid (t : Nat) : Bool := btSize t > 0

/-- bytes one string occupies: "if the last index of the string is not '\x00', size += 1" -/
def strSize (s : List Nat) : Nat :=
  if s.isEmpty || s.getLast? != some 0 then s.length + 1 else s.length

/-- `Value.Size()` -/
def size : Value → Nat
  | .string s => strSize s * protoSize typeString
  | .sliceBool vs => vs.length * protoSize typeBool
  | .sliceInt8 vs => vs.length * protoSize typeInt8
  | .sliceUint8 vs => vs.length * protoSize typeUint8
  | .sliceInt16 vs => vs.length * protoSize typeInt16
  | .sliceUint16 vs => vs.length * protoSize typeUint16
  | .sliceInt32 vs => vs.length * protoSize typeInt32
  | .sliceUint32 vs => vs.length * protoSize typeUint32
  | .sliceInt64 vs => vs.length * protoSize typeInt64
  | .sliceUint64 vs => vs.length * protoSize typeUint64
  | .sliceFloat32 vs => vs.length * protoSize typeFloat32
  | .sliceFloat64 vs => vs.length * protoSize typeFloat64
  | .sliceString vs =>
    let n := (vs.map strSize).sum
    if n = 0 then 1 * protoSize typeString else n * protoSize typeString
  | v => protoSize (typeOf v)

/-! ### byte order -/

/-- `w` bytes of `n`, least significant first (`binary.LittleEndian.AppendUintN(nil, uintN(n))`) -/
def leBytes : Nat → Nat → List Nat
  | 0, _ => []
  | w + 1, n => n % 256 :: leBytes w (n / 256)

/-- number whose little-endian bytes are `bs` -/
def ofLE : List Nat → Nat
  | [] => 0
  | b :: bs => b + 256 * ofLE bs

/-- `binary.{Little,Big}Endian.AppendUintN`: `arch == LittleEndian` selects little-endian -/
def enc (w arch n : Nat) : List Nat :=
  if arch = littleEndian then leBytes w n else (leBytes w n).reverse

/-- `binary.{Little,Big}Endian.UintN(bs)` for exactly `w = bs.length` bytes -/
def dec (arch : Nat) (bs : List Nat) : Nat :=
  if arch = littleEndian then ofLE bs else ofLE bs.reverse

/-! ### marshal -/

/-- one string with its terminator: "add utf-8 null-terminated string" unless it already ends in NUL -/
def strBytes (s : List Nat) : List Nat :=
  if s.isEmpty || s.getLast? != some 0 then s ++ [0] else s

/-- a `typedef.Bool` byte on the wire: `> 1` is written as 255 -/
def boolByte (b : Nat) : Nat := if b % 256 > 1 then 255 else b % 256

/-- `Value.MarshalAppend(nil, arch)`; `none` = `ErrTypeNotSupported` (nothing appended). -/
def marshal (v : Value) (arch : Nat) : Option (List Nat) :=
  match v with
  | .invalid => none
  | .bool b => some [boolByte b]
  | .int8 n | .uint8 n => some [n % 256]
  | .int16 n | .uint16 n => some (enc 2 arch n)
  | .int32 n | .uint32 n | .float32 n => some (enc 4 arch n)
  | .int64 n | .uint64 n | .float64 n => some (enc 8 arch n)
  | .string s => some (strBytes s)
  | .sliceBool vs => some (vs.map boolByte)
  | .sliceInt8 vs | .sliceUint8 vs => some (vs.map (· % 256))
  | .sliceInt16 vs | .sliceUint16 vs => some (vs.flatMap (enc 2 arch))
  | .sliceInt32 vs | .sliceUint32 vs | .sliceFloat32 vs => some (vs.flatMap (enc 4 arch))
  | .sliceInt64 vs | .sliceUint64 vs | .sliceFloat64 vs => some (vs.flatMap (enc 8 arch))
  | .sliceString vs => some (if vs.isEmpty then [0] else vs.flatMap strBytes)

/-! ### unmarshal -/

inductive Outcome (α : Type) where
  | ok (a : α)
  | err          -- ErrTypeNotSupported
  | panic        -- index out of range
  deriving DecidableEq, Repr

/-- `for ; len(b) >= n; b = b[n:] { … b[:n] … }`: the successive full `w`-byte chunks; a shorter
remainder is ignored (`fuel` ≥ length) -/
def chunks (w : Nat) : Nat → List Nat → List (List Nat)
  | 0, _ => []
  | fuel + 1, bs => if w ≤ bs.length ∧ 0 < w then bs.take w :: chunks w fuel (bs.drop w) else []

def decSlice (w arch : Nat) (bs : List Nat) : List Nat := (chunks w bs.length bs).map (dec arch)

/-- scalar of width `w`: Go reads `b[0..w-1]` and panics when `b` is shorter -/
def decScalar (w arch : Nat) (bs : List Nat) (mk : Nat → Value) : Outcome Value :=
  if bs.length < w then .panic else .ok (mk (dec arch (bs.take w)))

/-- the NUL-terminated segments of `bs` (an unterminated tail is not a segment) -/
def splitNul : List Nat → List Nat → List (List Nat)
  | _, [] => []
  | cur, b :: bs => if b = 0 then cur :: splitNul [] bs else splitNul (cur ++ [b]) bs

/-- string array: every non-empty NUL-terminated segment, through `utf8String`, kept if non-empty -/
def unmarshalStrings (bs : List Nat) : List (List Nat) :=
  (((splitNul [] bs).filter (fun s => !s.isEmpty)).map Fit.Utf8.utf8String).filter (fun s => !s.isEmpty)

/-- `proto.UnmarshalValue(b, arch, baseType, profileType, isArray)`; `isBool` = `profileType == profile.Bool` -/
def unmarshal (bs : List Nat) (arch bt : Nat) (isBool isArray : Bool) : Outcome Value :=
  if bt = btSint8 then
    if isArray then .ok (.sliceInt8 bs) else decScalar 1 arch bs .int8
  else if bt = btEnum ∨ bt = btByte ∨ bt = btUint8 ∨ bt = btUint8z then
    if isBool then
      if isArray then .ok (.sliceBool (bs.map clampBool)) else decScalar 1 arch bs mkBool
    else if isArray then .ok (.sliceUint8 bs) else decScalar 1 arch bs .uint8
  else if bt = btSint16 then
    if isArray then .ok (.sliceInt16 (decSlice 2 arch bs)) else decScalar 2 arch bs .int16
  else if bt = btUint16 ∨ bt = btUint16z then
    if isArray then .ok (.sliceUint16 (decSlice 2 arch bs)) else decScalar 2 arch bs .uint16
  else if bt = btSint32 then
    if isArray then .ok (.sliceInt32 (decSlice 4 arch bs)) else decScalar 4 arch bs .int32
  else if bt = btUint32 ∨ bt = btUint32z then
    if isArray then .ok (.sliceUint32 (decSlice 4 arch bs)) else decScalar 4 arch bs .uint32
  else if bt = btSint64 then
    if isArray then .ok (.sliceInt64 (decSlice 8 arch bs)) else decScalar 8 arch bs .int64
  else if bt = btUint64 ∨ bt = btUint64z then
    if isArray then .ok (.sliceUint64 (decSlice 8 arch bs)) else decScalar 8 arch bs .uint64
  else if bt = btFloat32 then
    if isArray then .ok (.sliceFloat32 (decSlice 4 arch bs)) else decScalar 4 arch bs .float32
  else if bt = btFloat64 then
    if isArray then .ok (.sliceFloat64 (decSlice 8 arch bs)) else decScalar 8 arch bs .float64
  else if bt = btString then
    if isArray then .ok (.sliceString (unmarshalStrings bs)) else .ok (.string (Fit.Utf8.utf8String bs))
  else .err

/-! ### Align, Valid -/

/-- `Value.Align(t)` -/
def align (v : Value) (t : Nat) : Bool :=
  match v with
  | .bool _ | .sliceBool _ => t == btEnum
  | .int8 _ | .sliceInt8 _ => t == btSint8
  | .uint8 _ | .sliceUint8 _ => t == btEnum || t == btByte || t == btUint8 || t == btUint8z
  | .int16 _ | .sliceInt16 _ => t == btSint16
  | .uint16 _ | .sliceUint16 _ => t == btUint16 || t == btUint16z
  | .int32 _ | .sliceInt32 _ => t == btSint32
  | .uint32 _ | .sliceUint32 _ => t == btUint32 || t == btUint32z
  | .int64 _ | .sliceInt64 _ => t == btSint64
  | .uint64 _ | .sliceUint64 _ => t == btUint64 || t == btUint64z
  | .float32 _ | .sliceFloat32 _ => t == btFloat32
  | .float64 _ | .sliceFloat64 _ => t == btFloat64
  | .string _ | .sliceString _ => t == btString
  | .invalid => false

/-- a string is valid unless it is `""` (`basetype.StringInvalid`) or `"\x00"` -/
def strValid (s : List Nat) : Bool := !s.isEmpty && s != [0]

/-- `Value.Valid(t)`: "For slices, even though only one element is valid, the Value will be counted a valid value." -/
def valid (v : Value) (t : Nat) : Bool :=
  match v with
  | .invalid => false
  | .bool n => n < 2
  | .int8 n => n % 2 ^ 8 != sint8Invalid
  | .uint8 n =>
    if t = btEnum then n % 2 ^ 8 != enumInvalid
    else if t = btByte then n % 2 ^ 8 != byteInvalid
    else if t = btUint8 then n % 2 ^ 8 != uint8Invalid
    else if t = btUint8z then n % 2 ^ 8 != uint8zInvalid
    else false
  | .int16 n => n % 2 ^ 16 != sint16Invalid
  | .uint16 n => if t = btUint16z then n % 2 ^ 16 != uint16zInvalid else n % 2 ^ 16 != uint16Invalid
  | .int32 n => n % 2 ^ 32 != sint32Invalid
  | .uint32 n => if t = btUint32z then n % 2 ^ 32 != uint32zInvalid else n % 2 ^ 32 != uint32Invalid
  | .int64 n => n % 2 ^ 64 != sint64Invalid
  | .uint64 n => if t = btUint64z then n % 2 ^ 64 != uint64zInvalid else n % 2 ^ 64 != uint64Invalid
  | .float32 n => n % 2 ^ 32 != float32Invalid
  | .float64 n => n % 2 ^ 64 != float64Invalid
  | .string s => strValid s
  | .sliceBool vs => vs.any (· != boolInvalid)
  | .sliceInt8 vs => vs.any (· != sint8Invalid)
  | .sliceUint8 vs => if t = btUint8z then vs.any (· != uint8zInvalid) else vs.any (· != uint8Invalid)
  | .sliceInt16 vs => vs.any (· != sint16Invalid)
  | .sliceUint16 vs => if t = btUint16z then vs.any (· != uint16zInvalid) else vs.any (· != uint16Invalid)
  | .sliceInt32 vs => vs.any (· != sint32Invalid)
  | .sliceUint32 vs => if t = btUint32z then vs.any (· != uint32zInvalid) else vs.any (· != uint32Invalid)
  | .sliceInt64 vs => vs.any (· != sint64Invalid)
  | .sliceUint64 vs => if t = btUint64z then vs.any (· != uint64zInvalid) else vs.any (· != uint64Invalid)
  | .sliceFloat32 vs => vs.any (· != float32Invalid)
  | .sliceFloat64 vs => vs.any (· != float64Invalid)
  | .sliceString vs => vs.any strValid

/-! ### the wire normal form of a value (what a round trip is expected to return) -/

/-- bytes before the first NUL: a FIT string ends at its terminator -/
def cutNul (s : List Nat) : List Nat := s.takeWhile (· != 0)

/-- the non-empty NUL-free pieces of the strings of an array: on the wire an array of strings is the
sequence of its NUL-terminated pieces, and an empty piece is the invalid string -/
def pieces (vs : List (List Nat)) : List (List Nat) :=
  (vs.flatMap fun s => splitNul [] (strBytes s)).filter (fun s => !s.isEmpty)

/-- the documented normalisations: a string ends at its first NUL (null terminator); empty strings
vanish from string arrays (an empty string is the invalid string); a `typedef.Bool` other than 0/1 is
`BoolInvalid` (255). The identity on the other 20 types. -/
def norm : Value → Value
  | .bool b => .bool (boolByte b)
  | .sliceBool vs => .sliceBool (vs.map boolByte)
  | .string s => .string (cutNul s)
  | .sliceString vs => .sliceString (pieces vs)
  | v => v

/-- every string of the value is valid UTF-8 without a well-formed U+FFFD (per piece for arrays) -/
def cleanStr (s : List Nat) : Bool := Fit.Utf8.valid s && !Fit.Utf8.hasFFFD s

def clean : Value → Bool
  | .string s => cleanStr (cutNul s)
  | .sliceString vs => (pieces vs).all cleanStr
  | _ => true

/-- every string of the value is valid UTF-8 (what `utf8.ValidString` is asked by the encoder's validator) -/
def utf8Valid : Value → Bool
  | .string s => Fit.Utf8.valid s
  | .sliceString vs => vs.all Fit.Utf8.valid
  | _ => true

/-! ### representation (value.go:86-127) -/

inductive Ptr where
  | mem (i : Nat)   -- &memptr[i]
  | other           -- nil or a pointer to the backing array of a slice / string
  deriving DecidableEq, Repr

structure Raw where
  num : Nat
  ptr : Ptr
  deriving DecidableEq, Repr

/-- `uint64(intN(v))`: sign extension of a `w`-bit pattern to 64 bits -/
def sext (w v : Nat) : Nat :=
  if v % 2 ^ w ≥ 2 ^ (w - 1) then v % 2 ^ w + (2 ^ 64 - 2 ^ w) else v % 2 ^ w

def sliceNum (t len : Nat) : Nat := (t <<< vshift) ||| len

/-- the `num`/`ptr` words the typed constructors store -/
def toRaw : Value → Raw
  | .invalid => ⟨0, .other⟩
  | .bool v => ⟨v, .mem typeBool⟩
  | .int8 v => ⟨sext 8 v, .mem typeInt8⟩
  | .uint8 v => ⟨v, .mem typeUint8⟩
  | .int16 v => ⟨sext 16 v, .mem typeInt16⟩
  | .uint16 v => ⟨v, .mem typeUint16⟩
  | .int32 v => ⟨sext 32 v, .mem typeInt32⟩
  | .uint32 v => ⟨v, .mem typeUint32⟩
  | .int64 v => ⟨v, .mem typeInt64⟩
  | .uint64 v => ⟨v, .mem typeUint64⟩
  | .float32 v => ⟨v, .mem typeFloat32⟩
  | .float64 v => ⟨v, .mem typeFloat64⟩
  | .string s => ⟨sliceNum typeString s.length, .other⟩
  | .sliceBool vs => ⟨sliceNum typeSliceBool vs.length, .other⟩
  | .sliceInt8 vs => ⟨sliceNum typeSliceInt8 vs.length, .other⟩
  | .sliceUint8 vs => ⟨sliceNum typeSliceUint8 vs.length, .other⟩
  | .sliceInt16 vs => ⟨sliceNum typeSliceInt16 vs.length, .other⟩
  | .sliceUint16 vs => ⟨sliceNum typeSliceUint16 vs.length, .other⟩
  | .sliceInt32 vs => ⟨sliceNum typeSliceInt32 vs.length, .other⟩
  | .sliceUint32 vs => ⟨sliceNum typeSliceUint32 vs.length, .other⟩
  | .sliceInt64 vs => ⟨sliceNum typeSliceInt64 vs.length, .other⟩
  | .sliceUint64 vs => ⟨sliceNum typeSliceUint64 vs.length, .other⟩
  | .sliceFloat32 vs => ⟨sliceNum typeSliceFloat32 vs.length, .other⟩
  | .sliceFloat64 vs => ⟨sliceNum typeSliceFloat64 vs.length, .other⟩
  | .sliceString vs => ⟨sliceNum typeSliceString vs.length, .other⟩

/-- `Value.Type()` on the representation: a pointer into `memptr[TypeInvalid..TypeFloat64]` is the tag,
otherwise the top bits of `num` -/
def Raw.typeOf (r : Raw) : Nat :=
  match r.ptr with
  | .mem i => if typeInvalid ≤ i ∧ i ≤ typeFloat64 then i else r.num >>> vshift
  | .other => r.num >>> vshift

/-- length of a slice / string on the representation: `num & vmask` -/
def Raw.len (r : Raw) : Nat := r.num &&& vmask

/-- number of elements (bytes for a string) a value holds, 0 for scalars -/
def len : Value → Nat
  | .string s => s.length
  | .sliceBool vs | .sliceInt8 vs | .sliceUint8 vs | .sliceInt16 vs | .sliceUint16 vs | .sliceInt32 vs
  | .sliceUint32 vs | .sliceInt64 vs | .sliceUint64 vs | .sliceFloat32 vs | .sliceFloat64 vs => vs.length
  | .sliceString vs => vs.length
  | _ => 0

/-! ### typed accessors -/

/-- The 28 typed accessors of value.go in the order Bool, Int8, Uint8, Uint8z, Int16, Uint16, Uint16z,
Int32, Uint32, Uint32z, Int64, Uint64, Uint64z, Float32, Float64, String, SliceBool … SliceString:
the `proto.Type` each one serves. -/
def accessorType : Nat → Nat
  | 0 => typeBool | 1 => typeInt8 | 2 => typeUint8 | 3 => typeUint8 | 4 => typeInt16 | 5 => typeUint16
  | 6 => typeUint16 | 7 => typeInt32 | 8 => typeUint32 | 9 => typeUint32 | 10 => typeInt64 | 11 => typeUint64
  | 12 => typeUint64 | 13 => typeFloat32 | 14 => typeFloat64 | 15 => typeString
  | n => typeSliceBool + (n - 16)

def ifNe (a b i : Nat) : List Nat := if a != b then [i] else []

/-- indices of the accessors that *accept* the value, i.e. return something else than their wrong-type
default (the invalid sentinel, `""`, a nil slice). Every accessor compares the tag first
(`v.ptr != ptrX` / `v.Type() != TypeX`), so only accessors of the value's own type can accept. -/
def accept : Value → List Nat
  | .invalid => []
  | .bool v => ifNe (v % 2 ^ 8) boolInvalid 0
  | .int8 v => ifNe (v % 2 ^ 8) sint8Invalid 1
  | .uint8 v => ifNe (v % 2 ^ 8) uint8Invalid 2 ++ ifNe (v % 2 ^ 8) uint8zInvalid 3
  | .int16 v => ifNe (v % 2 ^ 16) sint16Invalid 4
  | .uint16 v => ifNe (v % 2 ^ 16) uint16Invalid 5 ++ ifNe (v % 2 ^ 16) uint16zInvalid 6
  | .int32 v => ifNe (v % 2 ^ 32) sint32Invalid 7
  | .uint32 v => ifNe (v % 2 ^ 32) uint32Invalid 8 ++ ifNe (v % 2 ^ 32) uint32zInvalid 9
  | .int64 v => ifNe (v % 2 ^ 64) sint64Invalid 10
  | .uint64 v => ifNe (v % 2 ^ 64) uint64Invalid 11 ++ ifNe (v % 2 ^ 64) uint64zInvalid 12
  | .float32 v => ifNe (v % 2 ^ 32) float32Invalid 13
  | .float64 v => ifNe (v % 2 ^ 64) float64Invalid 14
  | .string s => if s.isEmpty then [] else [15]
  | .sliceBool vs => if vs.isEmpty then [] else [16]
  | .sliceInt8 vs => if vs.isEmpty then [] else [17]
  | .sliceUint8 vs => if vs.isEmpty then [] else [18]
  | .sliceInt16 vs => if vs.isEmpty then [] else [19]
  | .sliceUint16 vs => if vs.isEmpty then [] else [20]
  | .sliceInt32 vs => if vs.isEmpty then [] else [21]
  | .sliceUint32 vs => if vs.isEmpty then [] else [22]
  | .sliceInt64 vs => if vs.isEmpty then [] else [23]
  | .sliceUint64 vs => if vs.isEmpty then [] else [24]
  | .sliceFloat32 vs => if vs.isEmpty then [] else [25]
  | .sliceFloat64 vs => if vs.isEmpty then [] else [26]
  | .sliceString vs => if vs.isEmpty then [] else [27]

/-- `Value.Uint8()`, `Value.Int8()`, `Value.Uint16()`: the stored number, or the invalid sentinel for a value of another type -/
def uint8Of : Value → Nat
  | .uint8 v => v % 2 ^ 8
  | _ => uint8Invalid

def int8Of : Value → Nat
  | .int8 v => v % 2 ^ 8
  | _ => sint8Invalid

def uint16Of : Value → Nat
  | .uint16 v => v % 2 ^ 16
  | _ => uint16Invalid

/-! ### `Value.Any()` and `proto.Any(v)` -/

/-- the Go values `proto.Any` distinguishes (a named type is its underlying kind, except
`typedef.Bool`, which the fast path knows) -/
inductive GoVal where
  | nil
  | unsupported                       -- int, uint, []int, []uint, []any, structs, maps, …
  | gobool (b : Bool) | tbool (v : Nat)
  | int8 (v : Nat) | uint8 (v : Nat) | int16 (v : Nat) | uint16 (v : Nat) | int32 (v : Nat) | uint32 (v : Nat)
  | int64 (v : Nat) | uint64 (v : Nat) | float32 (v : Nat) | float64 (v : Nat) | string (s : List Nat)
  | gobools (bs : List Bool) | tbools (vs : List Nat)
  | int8s (vs : List Nat) | uint8s (vs : List Nat) | int16s (vs : List Nat) | uint16s (vs : List Nat)
  | int32s (vs : List Nat) | uint32s (vs : List Nat) | int64s (vs : List Nat) | uint64s (vs : List Nat)
  | float32s (vs : List Nat) | float64s (vs : List Nat) | strings (vs : List (List Nat))
  | value (v : Value)                 -- a proto.Value
  | ptr (g : GoVal)                   -- a non-nil pointer to g
  | named (g : GoVal)                 -- a value of a named type whose underlying type is that of g
  deriving Repr

def ofGoBool (b : Bool) : Nat := if b then boolTrue else boolFalse

/-- `Value.Any()` -/
def toAny : Value → GoVal
  | .invalid => .nil
  | .bool v => .tbool (v % 256) | .int8 v => .int8 v | .uint8 v => .uint8 v | .int16 v => .int16 v
  | .uint16 v => .uint16 v | .int32 v => .int32 v | .uint32 v => .uint32 v | .int64 v => .int64 v
  | .uint64 v => .uint64 v | .float32 v => .float32 v | .float64 v => .float64 v | .string s => .string s
  | .sliceBool vs => .tbools vs | .sliceInt8 vs => .int8s vs | .sliceUint8 vs => .uint8s vs
  | .sliceInt16 vs => .int16s vs | .sliceUint16 vs => .uint16s vs | .sliceInt32 vs => .int32s vs
  | .sliceUint32 vs => .uint32s vs | .sliceInt64 vs => .int64s vs | .sliceUint64 vs => .uint64s vs
  | .sliceFloat32 vs => .float32s vs | .sliceFloat64 vs => .float64s vs | .sliceString vs => .strings vs

/-- `proto.Any(v)` for a non-pointer `v` (fast path; named types reach the same result through reflection) -/
def ofAnyDirect : GoVal → Value
  | .nil | .unsupported | .ptr _ | .named _ => .invalid
  | .value v => v
  | .gobool b => mkBool (ofGoBool b) | .tbool v => mkBool v
  | .int8 v => .int8 v | .uint8 v => .uint8 v | .int16 v => .int16 v | .uint16 v => .uint16 v
  | .int32 v => .int32 v | .uint32 v => .uint32 v | .int64 v => .int64 v | .uint64 v => .uint64 v
  | .float32 v => .float32 v | .float64 v => .float64 v | .string s => .string s
  | .gobools bs => .sliceBool (bs.map ofGoBool) | .tbools vs => .sliceBool vs
  | .int8s vs => .sliceInt8 vs | .uint8s vs => .sliceUint8 vs | .int16s vs => .sliceInt16 vs
  | .uint16s vs => .sliceUint16 vs | .int32s vs => .sliceInt32 vs | .uint32s vs => .sliceUint32 vs
  | .int64s vs => .sliceInt64 vs | .uint64s vs => .sliceUint64 vs | .float32s vs => .sliceFloat32 vs
  | .float64s vs => .sliceFloat64 vs | .strings vs => .sliceString vs

/-- `float32(rv.Float())`: the reflection path widens a float32 to float64 and narrows it again; on
amd64/arm64 this sets the quiet bit of a signalling NaN (platform behaviour, see `ofAny`) -/
def quiet32 (v : Nat) : Nat :=
  if v / 2 ^ 23 % 256 = 255 ∧ v % 2 ^ 23 ≠ 0 ∧ v / 2 ^ 22 % 2 = 0 then v + 2 ^ 22 else v

/-- the kind-level view reflection has of a value: names are transparent -/
def strip : GoVal → GoVal
  | .named g => strip g
  | g => g

/-- the reflection fallback of `proto.Any` on a value seen by kind (after `reflect.Indirect`):
`typedef.Bool` is a uint8, a `proto.Value` a struct, a remaining pointer unsupported -/
def byKind : GoVal → Value
  | .tbool v => .uint8 v
  | .tbools vs => .sliceUint8 vs
  | .value _ | .ptr _ => .invalid
  | .float32 v => .float32 (quiet32 v)
  | g => ofAnyDirect g

/-- `proto.Any(v)`: fast path for the unnamed basic types, `typedef.Bool` and `proto.Value`; everything
else (named types, pointers — dereferenced once by `reflect.Indirect`) is seen by *kind*. -/
def ofAny : GoVal → Value
  | .named g => match strip g with
    | .ptr p => byKind (strip p)
    | k => byKind k
  | .ptr p => byKind (strip p)
  | g => ofAnyDirect g


/-! ### the reflection path, stated by kind (what the theorems `C06_any_*` compare `ofAny` with) -/

/-- what `reflect` sees of a value after `reflect.Indirect`: the unnamed value of its KIND — `typedef.Bool` is a uint8, a
`proto.Value` a struct, a remaining pointer a pointer (both unsupported) -/
def kindView : GoVal → GoVal
  | .tbool v => .uint8 v
  | .tbools vs => .uint8s vs
  | .value _ | .ptr _ => .unsupported
  | g => g

/-- the value `proto.Any` works on: itself on the fast path (unnamed basic types, `typedef.Bool`, `proto.Value`); for a
named type or a pointer the kind-level view of what it names / points to (names are transparent, one pointer is followed) -/
def underlying : GoVal → GoVal
  | .named g => match strip g with
    | .ptr p => kindView (strip p)
    | k => kindView k
  | .ptr p => kindView (strip p)
  | g => g

/-- the value went through the reflection fallback -/
def viaReflection : GoVal → Bool
  | .named _ | .ptr _ => true
  | _ => false

/-- guard of the `Any` theorems: no float32 SCALAR signalling NaN goes through the reflection path (there
`float32(rv.Float())` widens and narrows, which sets the quiet bit on amd64/arm64: `quiet32`) -/
def noSNaN32 (g : GoVal) : Bool :=
  match underlying g with
  | .float32 v => !viaReflection g || quiet32 v == v
  | _ => true

/-- **what wrapping and unwrapping must return** (`proto.Any(v).Any()`): the content unchanged, as the unnamed Go type of its
kind; a Go `bool` as the protocol's boolean `typedef.Bool` (false = 0, true = 1), a `typedef.Bool` outside {0, 1} as
`BoolInvalid`; what `proto.Any` does not support (int, uint, structs, maps, `[]any`, nil, pointers to pointers) as nil -/
def expectAny (g : GoVal) : GoVal :=
  match underlying g with
  | .nil | .unsupported | .ptr _ | .named _ => .nil
  | .value v => toAny v
  | .gobool b => .tbool (ofGoBool b)
  | .gobools bs => .tbools (bs.map ofGoBool)
  | .tbool v => .tbool (clampBool v)
  | k => k

end Fit.Value
