/-! Model of the state that independent SDK objects share (C15).

What the library's objects share (found by reading the code and by `-race` runs of the harness):

* `profile/factory`: `protoMesgs`, built lazily inside `once.Do` (factory_gen.go:46-104) and never written afterwards;
  the static `mesgs` table (read-only). `sync.Once` orders the build before every return of `Do`.
* `profile/mesgdef`: `var pool = sync.Pool{New: …[poolsize]proto.Field}` (mesgdef_util_gen.go): every `NewXxx/Reset` and
  `ToMesg` does `arr := pool.Get(); fields := arr[:0]; …append…; clone; *arr = [poolsize]proto.Field{}; pool.Put(arr)`.
  `sync.Pool` is synchronised; `Get` returns some previously `Put` array or a fresh zeroed one.
* a caller-provided `*mesgdef.Options`: every generated `ToMesg` does
  `if options == nil { options = defaultOptions }; fac := options.Factory; if fac == nil { fac = factory.StandardFactory() }`
  — one unsynchronised READ of a cell the caller may share between goroutines; the default is taken in the local `fac`,
  the caller's object is never written. (Up to /repo 1fdeae5 the nil case assigned `options.Factory = …`: a write-write
  conflict between conversions sharing one nil-Factory options value, finding KF-C15-1 / F16, repaired in the template
  and the 119 regenerated files; the model of that code and the conflict theorem are in the history of this file.)
* read-only tables (`typedef` name tables, `proto` size tables, `datetime.epoch`): never written after init; not modelled as cells.
* `cmd/fitactivity/opener`: a `sync.Pool` of decoders; a decoder taken from it is private to one worker until put back.

An *operation* (decode, encode, typed conversion, file building, listener use, factory lookup) is a program: a sequence
of atomic actions from the alphabet `Act`, each acting on the operation's private state `Priv` and the shared state `Sh`.
Executions are arbitrary interleavings (`exec` over a schedule; each schedule entry also resolves `sync.Pool.Get`'s
choice). An action the real code never issues before its guard (reading the lazily built table before the own `once.Do`,
cloning without holding an array) yields the fixed marker `bad` (in Go: a nil dereference / index panic), so programs
outside the real code's shape are covered too.

Proved (FitProps/C15.lean): pool invariant, independence of results from what `Get` hands out, commutation of actions of
different operations, no action ever writes an options object (so no conflict on one, whether its `Factory` is set or
nil), and non-interference: under EVERY interleaving each operation's private state after j of its actions
is what it is after j actions when run alone. Runtime truth NOT proved: that the compiled binary has no word-level data
race; the model lists the shared cells it knows, an unmodelled shared word is visible only to the race detector
(family `concurrent` under `-race`). -/
namespace Fit.Shared

/-- a `[poolsize]proto.Field` array; 0 = the zero `proto.Field` -/
abbrev Arr := List Nat

def poolsize : Nat := 8   -- abstract size; nothing depends on the number

def zeroArr : Arr := List.replicate poolsize 0

/-- marker for "this would have panicked / used an unset value" -/
def bad : Nat := 0xBAD

/-- `factory.StandardFactory()` as a value of the `Factory` field -/
def stdFactory : Nat := 1

/-- the content `once.Do` builds (`protoMesgs`): a fixed function of the static profile tables -/
def theTable (k : Nat) : Nat := k * 2 + 1

structure Sh where
  once : Bool
  table : Nat → Nat
  pool : List Arr
  /-- `Factory` field of the caller's `Options` object number `o` (`none` = nil) -/
  opts : Nat → Option Nat

structure Priv where
  /-- the pooled array the operation holds between `Get` and `Put` -/
  held : Option Arr
  /-- the slice built by `append(arr[:0], …)` -/
  fields : List Nat
  out : List Nat
  /-- ghost: this operation has gone through `once.Do` -/
  onceSeen : Bool

inductive Act where
  | onceDo
  | readTable (k : Nat)
  | get
  | write (vals : List Nat)
  | clone (k : Nat)
  | put
  /-- `fac := options.Factory; if fac == nil { fac = factory.StandardFactory() }` on the caller's options object `o` -/
  | optRead (o : Nat)
  | loc (v : Nat)
  deriving DecidableEq, Repr

def initPriv : Priv := { held := none, fields := [], out := [], onceSeen := false }

/-- remove the `i`-th element -/
def removeNth : List Arr → Nat → List Arr
  | [], _ => []
  | _ :: xs, 0 => xs
  | x :: xs, i + 1 => x :: removeNth xs i

/-- `pool.Get()`: `c = 0` or an empty pool → `New()`; otherwise the pooled array number `(c-1) mod len` -/
def poolGet (pool : List Arr) (c : Nat) : Arr × List Arr :=
  if c = 0 then (zeroArr, pool) else
  match pool with
  | [] => (zeroArr, [])
  | _ => (pool.getD ((c - 1) % pool.length) zeroArr, removeNth pool ((c - 1) % pool.length))

/-- `append(arr[:0], vals...)` as seen in the array: the prefix is overwritten (what does not fit is reallocated elsewhere) -/
def overlay (vals : List Nat) (a : Arr) : Arr := (vals ++ a.drop vals.length).take a.length

/-- one atomic action of an operation with private state `p`, on shared state `sh`; `c` resolves `Get` -/
def step (a : Act) (c : Nat) (p : Priv) (sh : Sh) : Priv × Sh :=
  match a with
  | .onceDo =>
    ({ p with onceSeen := true }, if sh.once then sh else { sh with once := true, table := theTable })
  | .readTable k => ({ p with out := p.out ++ [if p.onceSeen then sh.table k else bad] }, sh)
  | .get =>
    let (arr, pool') := poolGet sh.pool c
    ({ p with held := some arr }, { sh with pool := pool' })
  | .write vals => ({ p with held := p.held.map (overlay vals), fields := vals }, sh)
  | .clone k => ({ p with out := p.out ++ (match p.held with | some _ => p.fields.take k | none => [bad]) }, sh)
  | .put =>
    match p.held with
    | some a => ({ p with held := none }, { sh with pool := a.map (fun _ => 0) :: sh.pool })
    | none => (p, sh)
  | .optRead o => ({ p with out := p.out ++ [(sh.opts o).getD stdFactory] }, sh)
  | .loc v => ({ p with out := p.out ++ [v] }, sh)

/-- an operation in flight: private state and the actions still to do -/
structure Thread where
  priv : Priv
  done : List Act
  todo : List Act

structure Cfg where
  sh : Sh
  threads : List Thread

def initCfg (progs : List (List Act)) (sh0 : Sh) : Cfg :=
  { sh := sh0, threads := progs.map (fun p => { priv := initPriv, done := [], todo := p }) }

/-- thread `i` takes its next action (nothing happens if it has none or `i` is out of range) -/
def stepThread (cfg : Cfg) (i c : Nat) : Cfg :=
  match cfg.threads[i]? with
  | none => cfg
  | some t =>
    match t.todo with
    | [] => cfg
    | a :: rest =>
      let (p', sh') := step a c t.priv cfg.sh
      { sh := sh', threads := cfg.threads.set i { priv := p', done := t.done ++ [a], todo := rest } }

/-- run a schedule: entries `(thread, choice)` -/
def exec (cfg : Cfg) (sched : List (Nat × Nat)) : Cfg :=
  sched.foldl (fun cfg e => stepThread cfg e.1 e.2) cfg

/-- the private effect of an action as a function of the operation's own history only (no shared state): what the
operation sees when it runs alone from a well-formed initial shared state with options `opts0` -/
def privSolo (opts0 : Nat → Option Nat) (a : Act) (p : Priv) : Priv :=
  match a with
  | .onceDo => { p with onceSeen := true }
  | .readTable k => { p with out := p.out ++ [if p.onceSeen then theTable k else bad] }
  | .get => { p with held := some zeroArr }
  | .write vals => { p with held := p.held.map (overlay vals), fields := vals }
  | .clone k => { p with out := p.out ++ (match p.held with | some _ => p.fields.take k | none => [bad]) }
  | .put => { p with held := none }
  | .optRead o => { p with out := p.out ++ [(opts0 o).getD stdFactory] }
  | .loc v => { p with out := p.out ++ [v] }

/-- the operation run alone: all its actions, one after the other (any `Get` choices `cs`) -/
def soloExec (prog : List Act) (sh0 : Sh) (cs : List Nat) : Cfg :=
  exec (initCfg [prog] sh0) (cs.map (fun c => (0, c)))

/-! ### composite operations of the real code, as programs -/

/-- `mesgdef.NewXxx(&mesg)` / `Reset`: Get, append into `arr[:0]`, clone the filled prefix, zero, Put -/
def progNew (vals : List Nat) : List Act := [.get, .write vals, .clone vals.length, .put]

/-- `x.ToMesg(options)` with a caller-provided options object `o` (its `Factory` set or nil) -/
def progToMesg (o : Nat) (vals : List Nat) : List Act :=
  [.optRead o, .get, .write vals, .clone vals.length, .put]

/-- `x.ToMesg(nil)` (package default options: read-only) -/
def progToMesgNil (vals : List Nat) : List Act := [.get, .write vals, .clone vals.length, .put]

/-- `factory.CreateMesg(k)` -/
def progCreateMesg (k : Nat) : List Act := [.onceDo, .readTable k]

/-- the program has an (unsynchronised) access to options object `o` -/
def mentions (prog : List Act) (o : Nat) : Bool :=
  prog.any (fun a => match a with | .optRead o' => o' == o | _ => false)

end Fit.Shared
