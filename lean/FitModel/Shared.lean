import FitModel.SharedInv
/-! Model of the state that independent SDK objects share (C15), built over the rows of the regenerated inventory
(`FitModel/SharedInv.lean`, `FitModel/Generated/SharedState.lean`).

**Shared part of the state** = one cell per inventory row:
* a data row (table, map, pointer, …): its current content `cell r` — an abstract value; `Env.built r` is the content the
  row's `sync.Once` closure builds, `Env.half r` the content it has between the store that publishes the variable
  (`protoMesgs = make(…)`) and the end of the filling loop;
* a `sync.Once` row: `idle`, `running owner k` (the closure is being executed by thread `owner`, `k` of its steps are
  done; every other thread calling `Do` blocks), `done`;
* a `sync.Pool` row: the objects in the pool, as identities into a shared `heap` (identity matters: an object put back
  twice can be handed to two holders);
* the option objects a caller may share between operations (`opts`).
**Private part** = what an operation holds: the pooled object it took (`held`), what it has observed so far (`out`).

An API entry point is a *program*: a list of actions over these cells. Which rows an entry point touches and how is
regenerated from its call graph (`Gen.SharedState.classes`), `progOfTouches` turns that into a program; the theorems are
about ALL programs that are well formed (`wf`) — the generated ones are shown to be.
Executions are arbitrary interleavings: `exec` over a schedule of (thread, choice) pairs; the choice resolves
`sync.Pool.Get` (any pooled object, or a new one). -/
namespace Fit.Shared

/-- what the model needs to know about the rows -/
structure Env where
  /-- the `sync.Once` row that builds data row `r` (none: the row is not written after initialisation) -/
  onceOf : Nat → Option Nat
  /-- the data rows the closure of `Once` row `o` builds, in order -/
  body : Nat → List Nat
  /-- rows with a writer that is neither guarded nor excepted: nothing is promised about them -/
  racy : Nat → Bool
  /-- content of row `r` once built / between publication and the end of the filling -/
  built : Nat → Nat
  half : Nat → Nat

/-- the environment is consistent: `body` and `onceOf` describe the same relation -/
def EnvOK (env : Env) : Prop :=
  (∀ o r, r ∈ env.body o → env.onceOf r = some o) ∧ (∀ o r, env.onceOf r = some o → r ∈ env.body o) ∧
  (∀ o, (env.body o).Nodup)

inductive OnceSt where
  | idle
  | running (owner : Nat) (k : Nat)
  | done
  deriving DecidableEq, Repr

/-- marker for "this would have panicked" (no object held) -/
def bad : Nat := 0xBAD

/-- `factory.StandardFactory()` as a value of the `Factory` field -/
def stdFactory : Nat := 1

structure Sh where
  cell : Nat → Nat
  once : Nat → OnceSt
  /-- objects in pool row `p` -/
  pool : Nat → List Nat
  /-- content of object `id` -/
  heap : Nat → List Nat
  /-- next fresh object identity -/
  next : Nat
  /-- `Factory` field of the caller's `Options` object number `o` (`none` = nil) -/
  opts : Nat → Option Nat

structure Priv where
  /-- the pooled object held between `Get` and `Put` -/
  held : Option Nat
  /-- the object most recently put back (only `putAgain` looks at it) -/
  lastPut : Option Nat
  /-- everything the operation has observed so far: its result -/
  out : List Nat

inductive Act where
  /-- load of data row `r` -/
  | read (r : Nat)
  /-- unguarded store to data row `r` (never in a well-formed program) -/
  | write (r : Nat) (v : Nat)
  /-- `once.Do(closure)` on `Once` row `o`: runs the closure step by step if nobody has, blocks while somebody else does -/
  | onceDo (o : Nat)
  /-- `pool.Get()` on pool row `p` -/
  | get (p : Nat)
  /-- `append(arr[:0], vals...)` and reading the appended prefix back -/
  | use (vals : List Nat)
  /-- reading the held object as it is -/
  | readObj
  /-- `Reset` / zeroing of the held object -/
  | reset
  /-- `pool.Put(obj)` -/
  | put (p : Nat)
  /-- a second `Put` of the object just put back (never in a well-formed program) -/
  | putAgain (p : Nat)
  /-- `fac := options.Factory; if fac == nil { fac = StandardFactory() }` on the caller's options object `o` -/
  | optRead (o : Nat)
  /-- `options.Factory = v` on the caller's options object (never in a well-formed program) -/
  | optWrite (o : Nat) (v : Nat)
  /-- a step on private state only -/
  | loc (v : Nat)
  deriving DecidableEq, Repr

def initPriv : Priv := { held := none, lastPut := none, out := [] }

def upd {α : Type} (f : Nat → α) (i : Nat) (v : α) : Nat → α := fun j => if j = i then v else f j

/-- remove the `i`-th element -/
def removeNth : List Nat → Nat → List Nat
  | [], _ => []
  | _ :: xs, 0 => xs
  | x :: xs, i + 1 => x :: removeNth xs i

/-- `append(obj[:0], vals...)` as seen in the object -/
def overlay (vals : List Nat) (a : List Nat) : List Nat := vals ++ a.drop vals.length

/-- step `k` of the closure of `Once` row `o`: rows are published (even `k`) and filled (odd `k`) one after the other -/
def closureStep (env : Env) (o k : Nat) (cell : Nat → Nat) : Nat → Nat :=
  match (env.body o)[k / 2]? with
  | none => cell
  | some r => upd cell r (if k % 2 = 0 then env.half r else env.built r)

def closureLen (env : Env) (o : Nat) : Nat := 2 * (env.body o).length

/-- one scheduled step of thread `i` whose next action is `a`; the result says whether the action is completed (popped).
`c` resolves `Get`. -/
def step (env : Env) (i : Nat) (a : Act) (c : Nat) (p : Priv) (sh : Sh) : Priv × Sh × Bool :=
  match a with
  | .read r => ({ p with out := p.out ++ [sh.cell r] }, sh, true)
  | .write r v => (p, { sh with cell := upd sh.cell r v }, true)
  | .onceDo o =>
    match sh.once o with
    | .idle => (p, { sh with once := upd sh.once o (.running i 0) }, false)
    | .running j k =>
      if j = i then
        if k < closureLen env o then
          (p, { sh with cell := closureStep env o k sh.cell, once := upd sh.once o (.running i (k + 1)) }, false)
        else (p, { sh with once := upd sh.once o .done }, false)
      else (p, sh, false)
    | .done => (p, sh, true)
  | .get q =>
    match p.held with
    | some _ => ({ p with out := p.out ++ [bad] }, sh, true)
    | none =>
      let pl := sh.pool q
      if c = 0 ∨ pl = [] then
        ({ p with held := some sh.next }, { sh with heap := upd sh.heap sh.next [], next := sh.next + 1 }, true)
      else
        let n := (c - 1) % pl.length
        ({ p with held := some (pl.getD n 0) }, { sh with pool := upd sh.pool q (removeNth pl n) }, true)
  | .use vals =>
    match p.held with
    | some id =>
      let content := overlay vals (sh.heap id)
      ({ p with out := p.out ++ content.take vals.length }, { sh with heap := upd sh.heap id content }, true)
    | none => ({ p with out := p.out ++ [bad] }, sh, true)
  | .readObj =>
    match p.held with
    | some id => ({ p with out := p.out ++ sh.heap id }, sh, true)
    | none => ({ p with out := p.out ++ [bad] }, sh, true)
  | .reset =>
    match p.held with
    | some id => (p, { sh with heap := upd sh.heap id [] }, true)
    | none => ({ p with out := p.out ++ [bad] }, sh, true)
  | .put q =>
    match p.held with
    | some id => ({ p with held := none, lastPut := some id }, { sh with pool := upd sh.pool q (id :: sh.pool q) }, true)
    | none => ({ p with out := p.out ++ [bad] }, sh, true)
  | .putAgain q =>
    match p.lastPut with
    | some id => (p, { sh with pool := upd sh.pool q (id :: sh.pool q) }, true)
    | none => (p, sh, true)
  | .optRead o => ({ p with out := p.out ++ [(sh.opts o).getD stdFactory] }, sh, true)
  | .optWrite o v => (p, { sh with opts := upd sh.opts o (some v) }, true)
  | .loc v => ({ p with out := p.out ++ [v] }, sh, true)

/-- an operation in flight: private state, the actions completed, the actions still to do -/
structure Thread where
  priv : Priv
  done : List Act
  todo : List Act

structure Cfg where
  sh : Sh
  threads : List Thread

def initCfg (progs : List (List Act)) (sh0 : Sh) : Cfg :=
  { sh := sh0, threads := progs.map (fun p => { priv := initPriv, done := [], todo := p }) }

/-- thread `i` is scheduled once (nothing happens if it has finished or `i` is out of range) -/
def stepThread (env : Env) (cfg : Cfg) (i c : Nat) : Cfg :=
  match cfg.threads[i]? with
  | none => cfg
  | some t =>
    match t.todo with
    | [] => cfg
    | a :: rest =>
      let r := step env i a c t.priv cfg.sh
      { sh := r.2.1,
        threads := cfg.threads.set i (if r.2.2 then { priv := r.1, done := t.done ++ [a], todo := rest }
                                     else { t with priv := r.1 }) }

/-- run a schedule: entries `(thread, choice)` -/
def exec (env : Env) (cfg : Cfg) (sched : List (Nat × Nat)) : Cfg :=
  sched.foldl (fun cfg e => stepThread env cfg e.1 e.2) cfg

/-! ### the operation alone, as a function of its own actions only -/

structure Solo where
  holding : Bool
  /-- content of the held object as far as the operation's own actions determine it (`none`: as found) -/
  known : Option (List Nat)
  out : List Nat

def initSolo : Solo := { holding := false, known := none, out := [] }

/-- the effect of a completed action on what the operation has observed, computed from the INITIAL shared state's data
rows and option objects and the operation's own history — no other operation appears -/
def soloStep (env : Env) (cell0 : Nat → Nat) (opts0 : Nat → Option Nat) (a : Act) (s : Solo) : Solo :=
  match a with
  | .read r => { s with out := s.out ++ [match env.onceOf r with | some _ => env.built r | none => cell0 r] }
  | .write _ _ => s
  | .onceDo _ => s
  | .get _ => if s.holding then { s with out := s.out ++ [bad] } else { s with holding := true, known := none }
  | .use vals =>
    if s.holding then { s with out := s.out ++ vals, known := s.known.map (overlay vals) } else { s with out := s.out ++ [bad] }
  | .readObj => if s.holding then { s with out := s.out ++ s.known.getD [] } else { s with out := s.out ++ [bad] }
  | .reset => if s.holding then { s with known := some [] } else { s with out := s.out ++ [bad] }
  | .put _ => if s.holding then { s with holding := false, known := none } else { s with out := s.out ++ [bad] }
  | .putAgain _ => s
  | .optRead o => { s with out := s.out ++ [(opts0 o).getD stdFactory] }
  | .optWrite _ _ => s
  | .loc v => { s with out := s.out ++ [v] }

def soloRun (env : Env) (cell0 : Nat → Nat) (opts0 : Nat → Option Nat) (acts : List Act) : Solo :=
  acts.foldl (fun s a => soloStep env cell0 opts0 a s) initSolo

/-- scheduled steps an action needs at most when its thread is never blocked (`Do`: claim, every closure step, finish, pass) -/
def actCost (env : Env) : Act → Nat
  | .onceDo o => closureLen env o + 3
  | _ => 1

/-- enough scheduled steps for the program run alone from any state -/
def soloFuel (env : Env) (prog : List Act) : Nat := (prog.map (actCost env)).sum

/-! ### well-formed programs: the guards the inventory obligations establish for the real entry points -/

structure WfSt where
  holding : Bool
  clean : Bool
  seen : List Nat

def initWf : WfSt := { holding := false, clean := false, seen := [] }

/-- one action against the static discipline; `none` = violated -/
def wfStep (env : Env) (a : Act) (w : WfSt) : Option WfSt :=
  match a with
  | .read r =>
    if env.racy r then none else
    match env.onceOf r with
    | none => some w
    | some o => if w.seen.contains o then some w else none     -- a lazily built row is read only after the own `Do`
  | .write _ _ => none                                          -- no unguarded write of a shared row
  | .onceDo o => some { w with seen := o :: w.seen }
  | .get _ => if w.holding then none else some { w with holding := true, clean := false }
  | .use _ => if w.holding then some w else none
  | .readObj => if w.holding && w.clean then some w else none   -- content is looked at only after the own reset
  | .reset => if w.holding then some { w with clean := true } else none
  | .put _ => if w.holding then some { w with holding := false, clean := false } else none
  | .putAgain _ => none                                         -- an object goes back to the pool once
  | .optRead _ => some w
  | .optWrite _ _ => none                                       -- a caller's options object is only read
  | .loc _ => some w

def wfRun (env : Env) : List Act → WfSt → Option WfSt
  | [], w => some w
  | a :: rest, w => match wfStep env a w with
    | none => none
    | some w' => wfRun env rest w'

def wf (env : Env) (prog : List Act) : Bool := (wfRun env prog initWf).isSome

/-! ### programs of the real entry points, derived from the regenerated touches -/

open Fit.SharedInv in
/-- environment of the inventory: which `Once` builds which row, which rows have an open (unguarded, unexcepted) writer -/
def envOfRows (funcs : Array String) (ex : List Exception) (rows : List Row) : Env :=
  { onceOf := fun r => match rows[r]? with
      | some row => if row.cat == .pool || row.cat == .once || row.cat == .mutex then none else row.onceOf
      | none => none
    body := fun o => (rows.filter fun row =>
      !(row.cat == .pool || row.cat == .once || row.cat == .mutex) && row.onceOf == some o).map (·.id)
    racy := fun r => match rows[r]? with
      | some row => !(row.openWrites funcs ex).isEmpty
      | none => false
    built := fun r => 2 * r + 2
    half := fun r => 2 * r + 1 }

open Fit.SharedInv in
/-- the program of one touch: how an entry point whose call graph touches row `t.row` like this acts on the row -/
def progOfTouch (funcs : Array String) (ex : List Exception) (rows : List Row) (t : Touch) : List Act :=
  match rows[t.row]? with
  | none => [.write t.row 0]
  | some row =>
    match row.cat with
    | .pool => if t.poolOK then [.get t.row, .reset, .use [t.row + 1], .readObj, .put t.row]
               else [.get t.row, .readObj, .put t.row, .putAgain t.row]
    | .once => []          -- the `Do` calls are issued where the rows it builds are touched
    | .mutex => [.write t.row 0]   -- no package-level mutex exists; the model would have to be extended
    | _ =>
      let open_ := t.writers.filter fun w => !excepted funcs ex row w
      if !open_.isEmpty then [.write t.row 1, .read t.row]
      else match row.onceOf with
        | some o =>
          if t.reads && !t.readOnces.contains o then [.read t.row]           -- a read not dominated by the `Do`
          else if t.reads || t.guardedWriters then [.onceDo o, .read t.row]
          else []
        | none => if t.reads || !t.writers.isEmpty then [.read t.row] else []

open Fit.SharedInv in
def progOfTouches (funcs : Array String) (ex : List Exception) (rows : List Row) (ts : List Touch) : List Act :=
  ts.flatMap (progOfTouch funcs ex rows)

end Fit.Shared
