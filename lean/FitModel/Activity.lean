import FitModel.Message
import FitModel.Generated.ToolConsts
import FitModel.Generated.ToolCli
/-!
Model of the fitactivity tools (/repo/cmd/fitactivity/{concealer,remover,reducer,combiner,aggregator}),
on protocol messages (`Fit.Msg.Message`) — the tools look fields up by number with
`FieldValueByNum(num).Uint32()` / `.Int32()`, remove them with `RemoveFieldByNum`, and move whole messages.

* every field is assumed to carry a `FieldBase` (the Go code dereferences `Field.Num` through the
  embedded pointer and would panic otherwise; messages coming out of the decoder always have one);
* uint32 arithmetic wraps (`% 2^32`) where Go's does;
* the in-place compaction loops (`for i … { if drop {continue}; if i != valid {swap}; valid++ }; s[:valid]`)
  are modelled with the array content made explicit as `kept ++ garbage ++ rest`
  (`valid = kept.length`, `i = kept.length + garbage.length`), see `Loop`;
* message and field numbers come from `Generated/ToolConsts.lean` (regenerated from the compiled packages).
-/
namespace Fit.Activity
open Fit.Value Fit.Msg Fit.Gen Fit.Gen.Tool

/-! ### field access as the tools do it -/

/-- `Value.Uint32()`: the number of a `uint32` value, the invalid sentinel for every other type -/
def u32 : Value → Nat
  | .uint32 v => v % 2 ^ 32
  | _ => uint32Invalid

/-- `Value.Int32()` (two's-complement pattern) -/
def i32 : Value → Nat
  | .int32 v => v % 2 ^ 32
  | _ => sint32Invalid

/-- `Value.Uint8()` -/
def u8 : Value → Nat
  | .uint8 v => v % 2 ^ 8
  | _ => uint8Invalid

/-- the field has number `n` (`Fields[i].Num == n`) -/
def hasNum (n : Nat) (f : Field) : Bool :=
  match f.base with
  | some b => b.num == n
  | none => false

/-- `Message.FieldValueByNum(n)`: value of the first field with that number, else the invalid value -/
def fval (m : Message) (n : Nat) : Value :=
  match m.fields.find? (hasNum n) with
  | some f => f.value
  | none => .invalid

/-- `RemoveFieldByNum` on the field list: the FIRST field with that number goes -/
def removeField (n : Nat) : List Field → List Field
  | [] => []
  | f :: fs => if hasNum n f then fs else f :: removeField n fs

/-- `if field := FieldByNum(n); field != nil { field.Value = v }` -/
def setField (n : Nat) (v : Value) : List Field → List Field
  | [] => []
  | f :: fs => if hasNum n f then { f with value := v } :: fs else f :: setField n v fs

def rm (n : Nat) (m : Message) : Message := { m with fields := removeField n m.fields }
def st (n : Nat) (v : Value) (m : Message) : Message := { m with fields := setField n v m.fields }

def isRecord (m : Message) : Bool := m.num == mnRecord

def dist (m : Message) : Nat := u32 (fval m fnRecordDistance)
def tstamp (m : Message) : Nat := u32 (fval m fnRecordTimestamp)

/-! ### concealer -/

/-- the field numbers that differ between lap and session (`placeholder` of concealer.go) -/
structure PH where
  mesgNum : Nat
  startTime : Nat
  totalTimerTime : Nat
  sLat : Nat
  sLong : Nat
  eLat : Nat
  eLong : Nat
  deriving Repr

def lapPH : PH := ⟨mnLap, fnLapStartTime, fnLapTotalTimerTime, fnLapStartPositionLat, fnLapStartPositionLong,
  fnLapEndPositionLat, fnLapEndPositionLong⟩
def sesPH : PH := ⟨mnSession, fnSessionStartTime, fnSessionTotalTimerTime, fnSessionStartPositionLat,
  fnSessionStartPositionLong, fnSessionEndPositionLat, fnSessionEndPositionLong⟩

/-- remove position_lat and position_long of a record -/
def stripPos (m : Message) : Message := rm fnRecordPositionLong (rm fnRecordPositionLat m)

/-- remove the four position fields of a lap / session -/
def strip4 (ph : PH) (m : Message) : Message := rm ph.eLong (rm ph.eLat (rm ph.sLong (rm ph.sLat m)))

/-- what the update functions read from the record at `recordIndex` (all invalid for index −1: the zero `proto.Message`) -/
structure RecInfo where
  ts : Nat
  lat : Nat
  long : Nat
  /-- `recordIndex == -1` -/
  absent : Bool := false
  deriving Repr, DecidableEq

def noRec : RecInfo := ⟨uint32Invalid, sint32Invalid, sint32Invalid, true⟩

def recInfo (m : Message) : RecInfo :=
  ⟨tstamp m, i32 (fval m fnRecordPositionLat), i32 (fval m fnRecordPositionLong), false⟩

/-- `mesgs[recordIndex]`, or the zero message for −1. The scans only return −1 or an index inside the list
(`scanStart_idx`, `scanEndRev_idx` in ActivityLemmas), so the `none` of an out-of-range index is never taken. -/
def recAt (ms : List Message) (idx : Int) : RecInfo :=
  if idx < 0 then noRec else
  match ms[idx.toNat]? with
  | some m => recInfo m
  | none => noRec

/-- `if rec == Sint32Invalid { RemoveFieldByNum(n) } else if field := FieldByNum(n); field != nil { field.Value = proto.Int32(rec) }` -/
def setOrRemove (n : Nat) (v : Nat) (m : Message) : Message :=
  if v = sint32Invalid then rm n m else st n (.int32 v) m

/-- forward scan of `concealStartPosition`: records nearer than `th` lose their position; the scan stops at
the first record at or beyond `th` and reports its index (−1 if there is none). `i` = index of the head. -/
def scanStart (th : Nat) : Nat → List Message → List Message × Int
  | _, [] => ([], -1)
  | i, m :: ms =>
    if isRecord m then
      if dist m < th then
        let r := scanStart th (i + 1) ms
        (stripPos m :: r.1, r.2)
      else (m :: ms, (i : Int))
    else
      let r := scanStart th (i + 1) ms
      (m :: r.1, r.2)

/-- the test of `updateStartPosition`: the lap/session is taken to end before the first revealed record.
**As written** `startTime + totalTimerTime` adds the raw total_timer_time (milliseconds, scale 1000) to a
timestamp in seconds (design finding F17). -/
def endsBefore (ph : PH) (r : RecInfo) (m : Message) : Bool :=
  let s := u32 (fval m ph.startTime)
  let t := u32 (fval m ph.totalTimerTime)
  s == uint32Invalid || t == uint32Invalid || (s + t) % 2 ^ 32 < r.ts

/-- `updateStartPosition`: walk the laps (sessions) in order; those ending before the record lose all four
positions; the first other one gets the record's position as start position, and the walk stops. -/
def updStart (ph : PH) (r : RecInfo) : List Message → List Message
  | [] => []
  | m :: ms =>
    if m.num == ph.mesgNum then
      if endsBefore ph r m then strip4 ph m :: updStart ph r ms
      else setOrRemove ph.sLong r.long (setOrRemove ph.sLat r.lat m) :: ms
    else m :: updStart ph r ms

/-- `concealStartPosition`: returns the messages and `lastConcealStartIndex` (0 when the threshold is 0) -/
def concealStart (th : Nat) (ms : List Message) : List Message × Int :=
  if th = 0 then (ms, 0) else
  let r := scanStart th 0 ms
  let ri := recAt r.1 r.2
  (updStart sesPH ri (updStart lapPH ri r.1), r.2)

/-- `if lastRecDist == basetype.Uint32Invalid { lastRecDist = d }` -/
def nextLast (lastD d : Nat) : Nat := if lastD = uint32Invalid then d else lastD

/-- backward scan of `concealEndPosition` over the REVERSED list (head = last message); `lastD` is
`lastRecDist`. The index reported is the position in the original order = number of messages before it. -/
def scanEndRev (th : Nat) : Nat → List Message → List Message × Int
  | _, [] => ([], -1)
  | lastD, m :: ms =>
    if isRecord m then
      if (nextLast lastD (dist m) + 2 ^ 32 - dist m) % 2 ^ 32 < th then
        let r := scanEndRev th (nextLast lastD (dist m)) ms
        (stripPos m :: r.1, r.2)
      else (m :: ms, (ms.length : Int))
    else
      let r := scanEndRev th lastD ms
      (m :: r.1, r.2)

/-- the test of `updateEndPosition`: the lap/session starts after the last revealed record — or there is no
revealed record at all (`recordIndex == -1`) -/
def startsAfter (ph : PH) (r : RecInfo) (m : Message) : Bool :=
  let s := u32 (fval m ph.startTime)
  r.absent || s == uint32Invalid || s > r.ts

/-- `updateEndPosition` over the REVERSED list: laps (sessions) from the last one backwards -/
def updEndRev (ph : PH) (r : RecInfo) (overlap : Bool) : List Message → List Message
  | [] => []
  | m :: ms =>
    if m.num == ph.mesgNum then
      if startsAfter ph r m then strip4 ph m :: updEndRev ph r overlap ms
      else
        let m1 := if overlap then rm ph.sLong (rm ph.sLat m) else m
        setOrRemove ph.eLong r.long (setOrRemove ph.eLat r.lat m1) :: ms
    else m :: updEndRev ph r overlap ms

def concealEnd (th : Nat) (startIdx : Int) (ms : List Message) : List Message :=
  if th = 0 then ms else
  let r := scanEndRev th uint32Invalid ms.reverse
  let ms1 := r.1.reverse
  -- `if lastConcealStartIndex > lastConcealEndIndex { lastConcealEndIndex = -1 }` (/repo fix of KF-C20-4): when the
  -- stretches overlap the record the backward scan stops at was already concealed by the start stage — no record is
  -- left revealed, exactly as when the scan finds none
  let endIdx : Int := if startIdx > r.2 then -1 else r.2
  let ri := recAt ms1 endIdx
  let ov := decide (startIdx > endIdx)
  (updEndRev sesPH ri ov (updEndRev lapPH ri ov r.1)).reverse

/-- `concealer.Conceal(mesgs, first, last)` -/
def conceal (first last : Nat) (ms : List Message) : List Message :=
  let a := concealStart first ms
  concealEnd last a.2 a.1

/-! ### the command line (cmd/fitactivity/main.go) -/

/-- `--first N` / `--last N` are parsed with `fs.UintVar` into a `uint` (64 bits on amd64) and handed to the concealer as
`uint32(N)*100` — centimetres, the unit of record.distance (scale 100) — computed in uint32: the conversion drops the
high bits and the product wraps. Width and factor are read from the source on every run (`Generated/ToolCli.lean`:
both call sites must have this shape). -/
def cliThreshold (n : Nat) : Nat := (n % 2 ^ cliBits * cliFactor) % 2 ^ cliBits

/-! ### the in-place compaction loop shared by remover, reducer and combiner -/

namespace Loop
/-- what an iteration does with the element at index `i` -/
inductive Act
  | drop        -- `continue`
  | keep        -- `if i != valid { swap(s[i], s[valid]) }; valid++`
  | keepNoSwap  -- `valid++; continue` (the first record of the reducer loops)
  deriving DecidableEq, Repr

/-- array content `kept ++ garbage ++ rest`; `valid = kept.length`, `i = kept.length + garbage.length` -/
def run {α σ : Type} (step : σ → α → Act × σ) : σ → List α → List α → List α → List α × List α
  | _, kept, garbage, [] => (kept, garbage)
  | s, kept, garbage, x :: xs =>
    match step s x with
    | (.drop, s') => run step s' kept (garbage ++ [x]) xs
    | (.keep, s') =>
      match garbage with
      | [] => run step s' (kept ++ [x]) [] xs                 -- i == valid: no swap
      | g :: gs => run step s' (kept ++ [x]) (gs ++ [g]) xs   -- x goes to s[valid], the dropped element there to s[i]
    | (.keepNoSwap, s') =>
      match garbage with
      | [] => run step s' (kept ++ [x]) [] xs
      | g :: gs => run step s' (kept ++ [g]) (gs ++ [x]) xs   -- s[valid] is whatever lies there: a dropped element

/-- `s = s[:valid]` after the loop -/
def compact {α σ : Type} (step : σ → α → Act × σ) (s : σ) (xs : List α) : List α := (run step s [] [] xs).1

/-- the specification: the elements the step function keeps, in order -/
def spec {α σ : Type} (step : σ → α → Act × σ) : σ → List α → List α
  | _, [] => []
  | s, x :: xs =>
    match step s x with
    | (.drop, s') => spec step s' xs
    | (_, s') => x :: spec step s' xs
end Loop

/-! ### remover -/

structure RemoveOpts where
  unknown : Bool
  nums : List Nat
  devData : Bool
  deriving Repr

def stateless (dropIt : Message → Bool) : Unit → Message → Loop.Act × Unit :=
  fun _ m => (if dropIt m then .drop else .keep, ())

def isKnownNum (n : Nat) : Bool := knownMesgNums.contains n

def isDevDataMesg (m : Message) : Bool := m.num == mnDeveloperDataId || m.num == mnFieldDescription

def removeUnknown (ms : List Message) : List Message :=
  Loop.compact (stateless fun m => !isKnownNum m.num) () ms

def removeNums (nums : List Nat) (ms : List Message) : List Message :=
  Loop.compact (stateless fun m => nums.contains m.num) () ms

/-- `fit.Messages[i].DeveloperFields = nil` on every message that stays -/
def removeDevData (ms : List Message) : List Message :=
  (Loop.compact (stateless isDevDataMesg) () ms).map fun m => { m with devFields := [] }

/-- `remover.Remove(fit, opts...)` -/
def remove (o : RemoveOpts) (ms : List Message) : List Message :=
  let a := if o.unknown then removeUnknown ms else ms
  let b := if o.nums.length != 0 then removeNums o.nums a else a
  if o.devData then removeDevData b else b

/-! ### reducer -/

/-- state of the interval loops: `last`, `firstRecordReached` -/
structure RState where
  last : Nat := 0
  reached : Bool := false
  deriving Repr

/-- one iteration of `reduceByDistanceInterval` / `reduceByTimeInterval` (`key` = distance / timestamp) -/
def intervalStep (key : Message → Nat) (th : Nat) (s : RState) (m : Message) : Loop.Act × RState :=
  if isRecord m then
    let d := key m
    if !s.reached then
      (.keepNoSwap, { last := if d != uint32Invalid then d else s.last, reached := true })
    else if d == uint32Invalid then (.drop, s)
    else if (d + 2 ^ 32 - s.last) % 2 ^ 32 < th then (.drop, s)
    else (.keep, { s with last := d })
  else (.keep, s)

def reduceByDistance (th : Nat) (ms : List Message) : List Message :=
  Loop.compact (intervalStep dist th) {} ms

def reduceByTime (th : Nat) (ms : List Message) : List Message :=
  Loop.compact (intervalStep tstamp th) {} ms

/-- a record enters the RDP point list when both coordinates are valid (`ToDegrees` of the invalid
sentinel is NaN) -/
def hasPoint (m : Message) : Bool :=
  i32 (fval m fnRecordPositionLat) != sint32Invalid && i32 (fval m fnRecordPositionLong) != sint32Invalid

/-- indexes of all records -/
def recordIndexes (ms : List Message) : List Nat :=
  (ms.zipIdx.filter fun p => isRecord p.1).map (·.2)

/-- `Index` of the points handed to `rdp.Simplify` -/
def pointIndexes (ms : List Message) : List Nat :=
  (ms.zipIdx.filter fun p => isRecord p.1 && hasPoint p.1).map (·.2)

/-- `findFragments(recordIndexes, points)`: the record indexes the simplifier's answer skips
(two-pointer walk, as written; `fuel` ≥ sum of the lengths) -/
def findFragments : Nat → List Nat → List Nat → List Nat
  | 0, rs, _ => rs
  | _, [], _ => []
  | _, rs, [] => rs
  | fuel + 1, r :: rs, p :: ps =>
    if r < p then r :: findFragments fuel rs (p :: ps)
    else if r == p then findFragments fuel rs ps
    else findFragments fuel (r :: rs) ps

/-- one iteration of `defragment`: state = (index, remaining fragments) -/
def defragStep (s : Nat × List Nat) (_ : Message) : Loop.Act × (Nat × List Nat) :=
  match s.2 with
  | f :: fs => if s.1 == f then (.drop, (s.1 + 1, fs)) else (.keep, (s.1 + 1, f :: fs))
  | [] => (.keep, (s.1 + 1, []))

/-- `defragment(mesgs, fragments)`: the loop breaks once every fragment is consumed and the remaining
messages are appended unchanged (`append(mesgs[:valid], mesgs[i:]...)`) -/
def defragRun : Nat × List Nat → List Message → List Message → List Message → List Message
  | _, kept, _, [] => kept
  | s, kept, garbage, x :: xs =>
    if s.2.isEmpty then kept ++ (x :: xs) else
    match defragStep s x with
    | (.drop, s') => defragRun s' kept (garbage ++ [x]) xs
    | (_, s') =>
      match garbage with
      | [] => defragRun s' (kept ++ [x]) [] xs
      | g :: gs => defragRun s' (kept ++ [x]) (gs ++ [g]) xs

def defragment (ms : List Message) (fragments : List Nat) : List Message := defragRun (0, fragments) [] [] ms

inductive ReduceResult
  | ok (ms : List Message)
  | badArgument
  | zeroPoints
  deriving Repr

/-- `reduceByRDP` with the external simplifier's answer (`Index` of the points it returns) as a parameter -/
def reduceByRdp (simplified : List Nat) (ms : List Message) : ReduceResult :=
  if (pointIndexes ms).isEmpty then .zeroPoints else
  let rs := recordIndexes ms
  .ok (defragment ms (findFragments (rs.length + simplified.length + 1) rs simplified))

inductive Method
  | none
  | rdp (epsilonIsZero : Bool) (simplified : List Nat)
  | distance (th : Nat)
  | time (th : Nat)
  deriving Repr

/-- `reducer.Reduce(fit, opts...)` -/
def reduce (m : Method) (ms : List Message) : ReduceResult :=
  match m with
  | .none => .badArgument
  | .rdp z simplified => if z then .badArgument else reduceByRdp simplified ms
  | .distance th => if th = 0 then .badArgument else .ok (reduceByDistance th ms)
  | .time th => if th = 0 then .badArgument else .ok (reduceByTime th ms)

/-! ### combiner: accumulator -/

/-- add two patterns of width `w` (Go's wrapping `+` on intN / uintN) -/
def addW (w a b : Nat) : Nat := (a + b) % 2 ^ w

/-- `sumslice(v1, v2)`: element-wise over the common prefix, the tail of the longer one kept -/
def sumSlice (w : Nat) : List Nat → List Nat → List Nat
  | [], ys => ys
  | xs, [] => xs
  | x :: xs, y :: ys => addW w x y :: sumSlice w xs ys

/-- `sum(v1, v2)` of accumulator.go for the integer types (`v2` is read with the accessor of `v1`'s type:
the invalid sentinel if it has another type). Float types are not modelled (`none`): no accumulable field of
the profile is a float. -/
def sumValue (v1 v2 : Value) : Option Value :=
  match v1, v2 with
  | .int8 a, .int8 b => some (.int8 (addW 8 a b))
  | .uint8 a, .uint8 b => some (.uint8 (addW 8 a b))
  | .int16 a, .int16 b => some (.int16 (addW 16 a b))
  | .uint16 a, .uint16 b => some (.uint16 (addW 16 a b))
  | .int32 a, .int32 b => some (.int32 (addW 32 a b))
  | .uint32 a, .uint32 b => some (.uint32 (addW 32 a b))
  | .int64 a, .int64 b => some (.int64 (addW 64 a b))
  | .uint64 a, .uint64 b => some (.uint64 (addW 64 a b))
  | .sliceInt8 a, .sliceInt8 b => some (.sliceInt8 (sumSlice 8 a b))
  | .sliceUint8 a, .sliceUint8 b => some (.sliceUint8 (sumSlice 8 a b))
  | .sliceInt16 a, .sliceInt16 b => some (.sliceInt16 (sumSlice 16 a b))
  | .sliceUint16 a, .sliceUint16 b => some (.sliceUint16 (sumSlice 16 a b))
  | .sliceInt32 a, .sliceInt32 b => some (.sliceInt32 (sumSlice 32 a b))
  | .sliceUint32 a, .sliceUint32 b => some (.sliceUint32 (sumSlice 32 a b))
  | .sliceInt64 a, .sliceInt64 b => some (.sliceInt64 (sumSlice 64 a b))
  | .sliceUint64 a, .sliceUint64 b => some (.sliceUint64 (sumSlice 64 a b))
  | _, _ => none

/-- one entry of `accumulator.values` -/
structure AccEntry where
  mesgNum : Nat
  fieldNum : Nat
  value : Value
  last : Value
  deriving Repr, DecidableEq

abbrev Acc := List AccEntry

def accMatch (mn fn : Nat) (e : AccEntry) : Bool := e.mesgNum == mn && e.fieldNum == fn

/-- `Collect` -/
def collect (a : Acc) (mn fn : Nat) (v : Value) : Acc :=
  if a.any (accMatch mn fn) then
    a.map fun e => if accMatch mn fn e then { e with value := v, last := v } else e
  else a ++ [⟨mn, fn, v, v⟩]

/-- `Accumulate`: `none` when the value types are outside the modelled ones -/
def accumulate (a : Acc) (mn fn : Nat) (v : Value) : Option (Acc × Value) :=
  match a.find? (accMatch mn fn) with
  | some e =>
    -- first seen in this sequence (`v.value.Type() == TypeInvalid`): nothing to carry over yet
    match (if e.value == .invalid then some v else sumValue v e.value) with
    | some s =>
      -- only the first matching entry is updated (the loop returns)
      let rec upd : Acc → Acc
        | [] => []
        | x :: xs => if accMatch mn fn x then { x with last := s } :: xs else x :: upd xs
      some (upd a, s)
    | none => none
  | none => some (a ++ [⟨mn, fn, .invalid, v⟩], v)

/-- `SequenceCompleted` -/
def sequenceCompleted (a : Acc) : Acc := a.map fun e => { e with value := e.last }

/-- the accumulable fields the combiner looks at: `field.Accumulate && field.Value.Valid(field.BaseType)` -/
def accumulable (f : Field) : Bool :=
  match f.base with
  | some b => b.accumulate && valid f.value b.baseType
  | none => false

def fieldNumOf (f : Field) : Nat := match f.base with | some b => b.num | none => 0

/-- collect every accumulable field of the first file -/
def collectMesgs (a : Acc) (ms : List Message) : Acc :=
  ms.foldl (fun a m => m.fields.foldl (fun a f => if accumulable f then collect a m.num (fieldNumOf f) f.value else a) a) a

/-- accumulate the fields of one message of a later file -/
def accFields (mn : Nat) : Acc → List Field → Option (Acc × List Field)
  | a, [] => some (a, [])
  | a, f :: fs =>
    if accumulable f then
      match accumulate a mn (fieldNumOf f) f.value with
      | some (a', v) =>
        match accFields mn a' fs with
        | some (a'', fs') => some (a'', { f with value := v } :: fs')
        | none => none
      | none => none
    else
      match accFields mn a fs with
      | some (a', fs') => some (a', f :: fs')
      | none => none

/-- the messages of a later file as they are appended to the result (file_id and file_creator skipped) -/
def accMesgs : Acc → List Message → Option (Acc × List Message)
  | a, [] => some (a, [])
  | a, m :: ms =>
    if m.num == mnFileId || m.num == mnFileCreator then accMesgs a ms
    else
      match accFields m.num a m.fields with
      | some (a', fs) =>
        match accMesgs a' ms with
        | some (a'', out) => some (a'', { m with fields := fs } :: out)
        | none => none
      | none => none

/-! ### combiner: sessions, trailer -/

/-- the part of `mesgdef.Session` the model follows -/
structure Ses where
  sport : Nat
  startTime : Nat
  elapsed : Nat
  timer : Nat
  distance : Nat
  deriving Repr, DecidableEq

def sesOf (m : Message) : Ses :=
  ⟨u8 (fval m fnSessionSport), u32 (fval m fnSessionStartTime), u32 (fval m fnSessionTotalElapsedTime),
   u32 (fval m fnSessionTotalTimerTime), u32 (fval m fnSessionTotalDistance)⟩

/-- aggregator `sum` on uint32 fields with the invalid sentinel -/
def aggSumU32 (dst src : Nat) : Nat :=
  if dst != uint32Invalid && src != uint32Invalid then (dst + src) % 2 ^ 32
  else if src != uint32Invalid then src else dst

/-- `uint32(nextSes.StartTime.Sub(endTime).Seconds() * 1000)` with both start times valid. A negative gap
(overlapping files) is a float→uint32 conversion of a negative number: platform-defined in Go; the amd64
behaviour (conversion through int64, low 32 bits) is what is modelled here. -/
def gapMs (ses next : Ses) : Nat :=
  let endT : Int := (ses.startTime : Int) + (ses.elapsed / 1000 : Nat)
  (((next.startTime : Int) - endT) * 1000 % (2 ^ 32 : Int)).toNat

/-- merge the next file's first session into the current last one (same sport) -/
def mergeSes (ses next : Ses) : Ses :=
  let g := gapMs ses next
  let e := (ses.elapsed + g) % 2 ^ 32
  let t := (ses.timer + g) % 2 ^ 32
  { ses with elapsed := aggSumU32 e next.elapsed, timer := aggSumU32 t next.timer,
             distance := aggSumU32 ses.distance next.distance,
             -- aggregator `fill`: a zero `time.Time` (invalid start_time) takes the source's
             startTime := if ses.startTime == uint32Invalid then next.startTime else ses.startTime }

def isTrailerNum (n : Nat) : Bool := n == mnSession || n == mnSplitSummary || n == mnActivity || n == mnSport

/-- the per-file filter loop of `Combine` -/
def filterBody (ms : List Message) : List Message :=
  Loop.compact (stateless fun m => isTrailerNum m.num) () ms

def sessionsOf (ms : List Message) : List Ses := (ms.filter (·.num == mnSession)).map sesOf

/-- chain the sessions of the files (`sessions`, `ses.Sport != nextSes.Sport`, `nextFitSessions[1:]`) -/
def chainSessions : List Ses → List (List Ses) → List Ses
  | acc, [] => acc
  | acc, next :: rest =>
    match acc.getLast?, next with
    | some ses, n0 :: ns =>
      if ses.sport != n0.sport then chainSessions (acc ++ [n0]) rest
      else chainSessions (acc.dropLast ++ [mergeSes ses n0] ++ ns) rest
    | _, _ => chainSessions acc rest   -- not reached: every file has a session

def dedupNat : List Nat → List Nat → List Nat
  | seen, [] => seen
  | seen, x :: xs => if seen.contains x then dedupNat seen xs else dedupNat (seen ++ [x]) xs

def firstTimestamp : List Message → Nat
  | [] => uint32Invalid
  | m :: ms => let t := u32 (fval m fnTimestamp); if t != uint32Invalid then t else firstTimestamp ms

def lastTimestamp (ms : List Message) : Nat := firstTimestamp ms.reverse

/-- the messages `Combine` appends after the body, reduced to the fields the correspondence observes -/
inductive Trailer
  | sport (sport : Nat)
  | splitSummary (splitType ts : Nat)
  | session (s : Ses) (ts : Nat)
  | activity (ts timer numSessions type : Nat)
  deriving Repr, DecidableEq

inductive CombineResult
  | ok (body : List Message) (trailer : List Trailer)
  | noSession
  | panic          -- `result = fits[0]` with no non-empty input
  | unmodelled     -- an accumulable field of a float type
  deriving Repr

def timeCreated (f : List Message) : Nat :=
  match f with
  | m :: _ => u32 (fval m fnFileIdTimeCreated)
  | [] => uint32Invalid

/-- `slices.SortStableFunc(fits, by file_id.time_created of the first message)`: the standard library's
stable sort is taken per its contract; here a stable insertion sort. `insertLeft f acc` puts `f` in front of
the first element whose key is not smaller — `acc` holds the files that were to the right of `f`, so files
with equal keys keep their order. -/
def insertLeft (f : List Message) : List (List Message) → List (List Message)
  | [] => [f]
  | g :: gs => if timeCreated g < timeCreated f then g :: insertLeft f gs else f :: g :: gs

def sortByCreation (fs : List (List Message)) : List (List Message) := fs.foldr insertLeft []

/-- body of the result: first file as is, later files accumulated -/
def combineBody : Acc → List (List Message) → Option (List Message)
  | _, [] => some []
  | a, f :: fs =>
    match accMesgs a f with
    | some (a', out) =>
      match combineBody (sequenceCompleted a') fs with
      | some rest => some (out ++ rest)
      | none => none
    | none => none

/-- `combiner.Combine(fits)` -/
def combine (fits : List (List Message)) : CombineResult :=
  let fits := sortByCreation (fits.filter (!·.isEmpty))
  match fits with
  | [] => .panic
  | f0 :: rest =>
    if fits.any (fun f => (sessionsOf f).isEmpty) then .noSession else
    let b0 := filterBody f0
    match combineBody (collectMesgs [] b0) (rest.map filterBody) with
    | none => .unmodelled
    | some tail =>
      let body := b0 ++ tail
      let sess := fits.map sessionsOf
      let sessions := chainSessions (sess.headD []) sess.tail
      let sportMs := dedupNat [] ((fits.flatMap fun f => f.filter (·.num == mnSport)).map fun m => u8 (fval m fnSportSport))
      let sports := dedupNat sportMs (sessions.map (·.sport))
      let splits := dedupNat [] ((fits.flatMap fun f => f.filter (·.num == mnSplitSummary)).map fun m => u8 (fval m fnSplitSummarySplitType))
      let firstTs := firstTimestamp body
      let lastTs := lastTimestamp body
      let acts := fits.flatMap fun f => f.filter (·.num == mnActivity)
      let ty := match acts with
        | a :: _ => let t := u8 (fval a fnActivityType); if t == enumInvalid then activityAutoMultiSport else t
        | [] => activityAutoMultiSport
      .ok body (sports.map .sport ++ splits.map (fun s => .splitSummary s lastTs) ++ sessions.map (fun s => .session s lastTs) ++
        [.activity lastTs (((lastTs + 2 ^ 32 - firstTs) % 2 ^ 32 * 1000) % 2 ^ 32) (sessions.length % 2 ^ 16) ty])

end Fit.Activity
