/-! Shared-state inventory of /repo (C15): the schema of `FitModel/Generated/SharedState.lean`, which the translator
`translators/sharedstate` regenerates from the Go source on every run, and the judgements made over it.

A **row** is one package-level variable of the packages behind the public API (decoder, encoder, proto, profile/*, kit/*,
cmd/fitactivity/*, cmd/fitconv/fitcsv and what they import from the module) together with everything reachable from it.
For each row the translator lists
* the writes that happen after package initialisation — a store to the variable, to an element or field reached from it
  (through local aliases, through callees that write through a parameter, through a struct field the variable's address was
  stored in), `delete`, `append`, `copy`, `clear`, a pointer into it handed to a function without body — with the function
  that makes them and the guard: inside the function handed to a package-level `sync.Once` (or code only reachable from
  there), or while a package-level mutex is held;
* the direct reads (loads of the variable itself) with the `Once`s whose `Do` call dominates them;
* for `sync.Pool`s: every user with its Get/Put balance along all paths, where the object put back comes from, whether it
  is zeroed before `Put` / `Reset` after `Get` / only used as an empty append scratch, whether it is used after `Put`;
* how often a reference into the row leaves through a result of an exported function or is stored into non-local memory.
Beside the rows: for every exported function or method the rows its call graph touches (`Touch`), and the exported
functions that write through a pointer parameter (`ParamWrite`). -/
namespace Fit.SharedInv

inductive Cat where
  | pool | once | mutex | map | slice | array | scalar | str | func | iface | pointer | struct | chan | errSentinel | other
  deriving DecidableEq, Repr

inductive WKind where
  | store | elem | mapupdate | delete | append | copy | clear | call | ext
  deriving DecidableEq, Repr

structure Write where
  /-- index into the function table -/
  fn : Nat
  kind : WKind
  /-- the callee through which the write happens (`call`, `ext`) -/
  via : String
  /-- row of the `sync.Once` whose `Do` argument (or code reachable only from it) contains the write -/
  once : Option Nat
  /-- row of the package-level mutex held at the write -/
  mutex : Option Nat
  count : Nat
  deriving Repr

structure Read where
  fn : Nat
  /-- the address is handed on instead of being loaded from -/
  addr : Bool
  /-- rows of the `sync.Once`s whose `Do` call dominates the access (or encloses it) -/
  onces : List Nat
  mutexes : List Nat
  count : Nat
  deriving Repr

structure Api where
  fn : Nat
  method : String
  count : Nat
  deriving Repr

structure PoolUse where
  fn : Nat
  gets : Nat
  puts : Nat
  /-- how far the balance gets − puts falls below zero on some path (0 = never) -/
  dip : Nat
  putFromGet : Bool
  putsParam : Bool
  zeroBeforePut : Bool
  resetAfterGet : Bool
  emptySliceOnly : Bool
  useAfterPut : Bool
  deriving Repr

structure Row where
  id : Nat
  pkg : String
  name : String
  typ : String
  cat : Cat
  initWrites : Nat
  writes : List Write
  reads : List Read
  apis : List Api
  poolUses : List PoolUse
  escReturn : Nat
  escHeap : Nat
  deriving Repr

/-- what the call graph of one entry point does to one row -/
structure Touch where
  row : Nat
  reads : Bool
  /-- the `Once` rows that dominate EVERY direct read reachable from the entry point -/
  readOnces : List Nat
  /-- functions reachable from the entry point that write the row after initialisation without `Once` / mutex -/
  writers : List Nat
  /-- a writer inside a `Once` / under a mutex is reachable -/
  guardedWriters : Bool
  /-- methods of the `sync` object that are called -/
  api : List String
  /-- every reachable user of the pool obeys the discipline -/
  poolOK : Bool
  deriving Repr

structure ParamWrite where
  fn : Nat
  param : Nat
  typ : String
  locs : List String
  deriving Repr

/-- an explicitly listed exception: this function may write this variable after initialisation without a guard -/
structure Exception where
  pkg : String
  name : String
  fn : String
  reason : String
  deriving Repr

/-! ### judgements -/

def Write.guarded (w : Write) : Bool := w.once.isSome || w.mutex.isSome

def excepted (funcs : Array String) (ex : List Exception) (r : Row) (fn : Nat) : Bool :=
  ex.any fun e => e.pkg == r.pkg && e.name == r.name && e.fn == funcs.getD fn ""

/-- the writes that are neither guarded nor excepted -/
def Row.openWrites (funcs : Array String) (ex : List Exception) (r : Row) : List Write :=
  r.writes.filter fun w => !w.guarded && !excepted funcs ex r w.fn

/-- the `sync.Once` that encloses the guarded writes of the row (the first one; `onceConsistent` says it is the only one) -/
def Row.onceOf (r : Row) : Option Nat := (r.writes.filterMap (·.once)).head?

def Row.onceConsistent (r : Row) : Bool :=
  r.writes.all fun w => match w.once with | some o => r.onceOf == some o | none => true

/-- a pool user obeys the discipline: never puts back more than it took, puts back the very object it took (or is a
helper that only puts back what it is given), does not touch it afterwards, and what it reads from it does not depend on
the previous holder: it is `Reset` right after `Get` or only used re-sliced to length 0 as an append scratch -/
def PoolUse.ok (u : PoolUse) : Bool :=
  if u.putsParam && u.gets == 0 then !u.useAfterPut
  else u.dip == 0 && u.putFromGet && !u.useAfterPut && (u.resetAfterGet || u.emptySliceOnly)

/-- (a) a `sync.Pool` is only accessed through `Get`/`Put` by users obeying the discipline, (b) a `sync.Once` only through
`Do`, and a data variable is, after initialisation, written only (b) inside ONE `sync.Once` — and then every direct read
outside it comes after a `Do` call on that `Once` — or under a mutex, or (c) by an explicitly listed exception -/
def Row.writesGuarded (funcs : Array String) (ex : List Exception) (r : Row) : Bool :=
  match r.cat with
  | .pool => r.writes.isEmpty && r.reads.isEmpty && r.apis.all (fun a => a.method == "Pool.Get" || a.method == "Pool.Put")
      && r.poolUses.all PoolUse.ok
  | .once => r.writes.isEmpty && r.reads.isEmpty && r.apis.all (fun a => a.method == "Once.Do")
  | .mutex => r.writes.isEmpty && r.reads.isEmpty
  | _ =>
    (r.openWrites funcs ex).isEmpty && r.onceConsistent &&
    (match r.onceOf with
     | some o => r.reads.all (fun rd => rd.onces.contains o)
     | none => true) &&
    r.writes.all (fun w => match w.mutex with
     | some m => r.reads.all (fun rd => rd.mutexes.contains m) && r.writes.all (fun w' => w'.mutex == some m)
     | none => true)

def Row.escapes (r : Row) : Bool := r.escReturn + r.escHeap > 0

def isOptionsType (optionTypes : List String) (w : ParamWrite) : Bool := optionTypes.contains w.typ

end Fit.SharedInv
