/-!
Layer L5: IEEE-754 binary64 (and the little of binary32 the code needs) as the Go code of /repo uses it
on amd64: `float64(x)` of an integer, `/ * + -`, comparisons, `math.Round`, `float32(x)`,
and the float→integer conversions `intN(x)` / `uintN(x)`.

A datum is its **bit pattern** (`Nat` < 2^64). `decode` gives sign, integer significand and exponent
(value = ±m·2^e); every arithmetic operation is *exact rational operation, then one rounding to nearest,
ties to even* (`roundPos`), with gradual underflow and overflow to ±Inf — i.e. IEEE-754 for all finite
operands, not only the range the theorems need. A NaN result is the canonical quiet NaN `nanBits`
(payload propagation on amd64 depends on operand order chosen by the compiler; the harness canonicalises
every NaN the same way). No fused multiply-add: Go fuses only on arm64/ppc64/s390x/riscv64.

Float→integer conversion of NaN or of a value whose truncation does not fit is *platform-defined* in
Go. `cvt` reproduces amd64 (CVTTSD2SL for the ≤ 32-bit signed/unsigned-small targets, CVTTSD2SQ for
uint32/int64, the two-branch sequence for uint64) and `cvtFlag` says when the case is platform-defined;
every theorem excludes flagged cases explicitly.
-/
namespace Fit.F64

/-! ### normalisation and rounding of a positive rational (shared with the proofs) -/

/-- `(N, D, k)` with `a/b = (N/D)·2^k` and `2^t ≤ ⌊N/D⌋ < 2^(t+1)` (for `a, b > 0`) -/
def normalize (t a b : Nat) : Nat × Nat × Int :=
  let la := a.log2
  let lb := b.log2
  let r : Nat × Nat × Int :=
    if lb + t ≤ la then (a, b * 2 ^ (la - lb - t), ((la - lb - t : Nat) : Int))
    else (a * 2 ^ (lb + t - la), b, -((lb + t - la : Nat) : Int))
  if r.1 / r.2.1 < 2 ^ t then (2 * r.1, r.2.1, r.2.2 - 1) else r

/-- `N/D` rounded to the nearest integer, ties to even -/
def rnd (N D : Nat) : Nat :=
  let q := N / D
  let r := N % D
  if 2 * r > D || (2 * r == D && q % 2 == 1) then q + 1 else q

/-- a floating-point format: `t` = stored fraction bits (52 / 23), `qmin` = exponent of the least
subnormal (−1074 / −149), `ebits` = exponent field width (11 / 8) -/
structure Fmt where
  t : Nat
  qmin : Int
  ebits : Nat

def b64 : Fmt := ⟨52, -1074, 11⟩
def b32 : Fmt := ⟨23, -149, 8⟩

/-- bit pattern of +Inf in the format (sign excluded) -/
def Fmt.inf (f : Fmt) : Nat := (2 ^ f.ebits - 1) * 2 ^ f.t

/-- Bit pattern (sign excluded) of `a/b·2^e0` (`a, b > 0`) rounded to nearest-even in format `f`:
normal case `(q − qmin)·2^t + m` with `m = rnd N D ∈ [2^t, 2^(t+1)]` (a carry to `2^(t+1)` lands on the next
binade by the layout of the format), subnormal case rounded at the fixed exponent `qmin`, overflow → Inf. -/
def roundPos (f : Fmt) (a b : Nat) (e0 : Int) : Nat :=
  let n := normalize f.t a b
  let q := n.2.2 + e0
  if q < f.qmin then rnd n.1 (n.2.1 * 2 ^ (f.qmin - q).toNat)
  else
    let bits := (q - f.qmin).toNat * 2 ^ f.t + rnd n.1 n.2.1
    if bits ≥ f.inf then f.inf else bits

/-! ### data -/

/-- decoded datum: value = (−1)^neg · m · 2^e for `fin`; zeros are `fin neg 0 _` -/
inductive Fl where
  | nan
  | inf (neg : Bool)
  | fin (neg : Bool) (m : Nat) (e : Int)
  deriving DecidableEq, Repr, Inhabited

def Fmt.decode (f : Fmt) (bits : Nat) : Fl :=
  let neg := bits / 2 ^ (f.t + f.ebits) % 2 == 1
  let be := bits / 2 ^ f.t % 2 ^ f.ebits
  let frac := bits % 2 ^ f.t
  if be = 2 ^ f.ebits - 1 then (if frac = 0 then .inf neg else .nan)
  else if be = 0 then .fin neg frac f.qmin
  else .fin neg (2 ^ f.t + frac) (f.qmin + (be : Int) - 1)

def Fmt.signBit (f : Fmt) (neg : Bool) : Nat := if neg then 2 ^ (f.t + f.ebits) else 0

/-- canonical quiet NaN of the format (what the harness prints for every NaN) -/
def Fmt.nanBits (f : Fmt) : Nat := f.inf + 2 ^ (f.t - 1)

/-- bits of (−1)^neg · (a/b) · 2^e0 rounded to the format; `a = 0` gives the signed zero -/
def Fmt.ofRat (f : Fmt) (neg : Bool) (a b : Nat) (e0 : Int) : Nat :=
  if a = 0 ∨ b = 0 then f.signBit neg else f.signBit neg + roundPos f a b e0

def decode : Nat → Fl := b64.decode
def nanBits : Nat := b64.nanBits
def infBits (neg : Bool) : Nat := b64.signBit neg + b64.inf
def zeroBits (neg : Bool) : Nat := b64.signBit neg
def oneBits : Nat := 0x3FF0000000000000

def isNaN (x : Nat) : Bool := decode x == .nan
def isInf (x : Nat) : Bool := match decode x with | .inf _ => true | _ => false

/-! ### arithmetic on bit patterns -/

/-- `x * y` -/
def mul (x y : Nat) : Nat :=
  match decode x, decode y with
  | .nan, _ | _, .nan => nanBits
  | .inf s, .inf s' => infBits (s != s')
  | .inf s, .fin s' m _ | .fin s' m _, .inf s => if m = 0 then nanBits else infBits (s != s')
  | .fin s m e, .fin s' m' e' => b64.ofRat (s != s') (m * m') 1 (e + e')

/-- `x / y` -/
def div (x y : Nat) : Nat :=
  match decode x, decode y with
  | .nan, _ | _, .nan => nanBits
  | .inf _, .inf _ => nanBits
  | .inf s, .fin s' _ _ => infBits (s != s')
  | .fin s _ _, .inf s' => zeroBits (s != s')
  | .fin s m e, .fin s' m' e' =>
    if m' = 0 then (if m = 0 then nanBits else infBits (s != s'))
    else b64.ofRat (s != s') m m' (e - e')

/-- exact sum of two finite data as a signed integer times `2^e` -/
def addFin (s : Bool) (m : Nat) (e : Int) (s' : Bool) (m' : Nat) (e' : Int) : Nat :=
  let e0 := min e e'
  let a : Int := (if s then -1 else 1) * (m : Int) * 2 ^ (e - e0).toNat
  let b : Int := (if s' then -1 else 1) * (m' : Int) * 2 ^ (e' - e0).toNat
  let c := a + b
  if c = 0 then
    -- exact zero: +0 in round-to-nearest unless both operands are negative zeros / the sum of two negatives
    (if m = 0 ∧ m' = 0 then zeroBits (s && s') else zeroBits false)
  else b64.ofRat (c < 0) c.natAbs 1 e0

/-- `x + y` -/
def add (x y : Nat) : Nat :=
  match decode x, decode y with
  | .nan, _ | _, .nan => nanBits
  | .inf s, .inf s' => if s == s' then infBits s else nanBits
  | .inf s, .fin _ _ _ | .fin _ _ _, .inf s => infBits s
  | .fin s m e, .fin s' m' e' => addFin s m e s' m' e'

/-- `-x` (sign bit flipped; used only through `sub`) -/
def negate (x : Nat) : Nat := if x / 2 ^ 63 % 2 = 1 then x - 2 ^ 63 else x + 2 ^ 63

/-- `x - y` -/
def sub (x y : Nat) : Nat :=
  match decode x, decode y with
  | .nan, _ | _, .nan => nanBits
  | _, _ => add x (negate y)

/-- `float64(i)` for a Go integer of any width (exact below 2^53, rounded to nearest-even above) -/
def ofInt (i : Int) : Nat := b64.ofRat (i < 0) i.natAbs 1 0

/-! ### comparisons (IEEE: NaN compares false, −0 = +0) -/

/-- signed-magnitude key of a non-NaN datum: order isomorphic to the real order, ±0 ↦ 0 -/
def key (x : Nat) : Int :=
  let mag : Int := (x % 2 ^ 63 : Nat)
  if x / 2 ^ 63 % 2 = 1 then -mag else mag

def feq (x y : Nat) : Bool := !isNaN x && !isNaN y && key x == key y
def flt (x y : Nat) : Bool := !isNaN x && !isNaN y && key x < key y
def fgt (x y : Nat) : Bool := flt y x

/-! ### math.Round, truncation -/

/-- the integer part toward zero of a finite datum, as a signed integer -/
def truncInt (s : Bool) (m : Nat) (e : Int) : Int :=
  let n : Nat := if e ≥ 0 then m * 2 ^ e.toNat else m / 2 ^ (-e).toNat
  if s then -(n : Int) else n

/-- `math.Round(x)`: nearest integer, halves away from zero; ±0, ±Inf, NaN unchanged (a NaN comes back
canonical); the sign of a result that rounds to zero is kept (`Round(-0.3) = -0`). -/
def round (x : Nat) : Nat :=
  match decode x with
  | .nan => nanBits
  | .inf _ => x
  | .fin s m e =>
    if e ≥ 0 then x
    else
      let k := (-e).toNat
      let n := (m + 2 ^ (k - 1)) / 2 ^ k
      b64.ofRat s n 1 0

/-- targets of a Go conversion `T(x)` from float64 -/
inductive IntTy where
  | i8 | u8 | i16 | u16 | i32 | u32 | i64 | u64
  deriving DecidableEq, Repr, Inhabited

def IntTy.bits : IntTy → Nat
  | .i8 | .u8 => 8 | .i16 | .u16 => 16 | .i32 | .u32 => 32 | .i64 | .u64 => 64

def IntTy.signed : IntTy → Bool
  | .i8 | .i16 | .i32 | .i64 => true
  | _ => false

/-- two's-complement pattern of `i` in `w` bits -/
def wrap (w : Nat) (i : Int) : Nat := (i % (2 ^ w : Int)).toNat

/-- the integer a `w`-bit pattern denotes under the signedness of the type -/
def IntTy.toInt (ty : IntTy) (p : Nat) : Int :=
  let v := p % 2 ^ ty.bits
  if ty.signed ∧ v ≥ 2 ^ (ty.bits - 1) then (v : Int) - 2 ^ ty.bits else v

/-- CVTTSD2SL / CVTTSD2SQ: truncation if it fits the signed `w`-bit range, else the "integer indefinite" 2^(w−1) -/
def cvtt (w : Nat) (x : Nat) : Nat :=
  match decode x with
  | .fin s m e =>
    let i := truncInt s m e
    if -(2 ^ (w - 1) : Int) ≤ i ∧ i < 2 ^ (w - 1) then wrap w i else 2 ^ (w - 1)
  | _ => 2 ^ (w - 1)

def two63Bits : Nat := 0x43E0000000000000

/-- Go's `T(x)` on amd64, as the `T`-wide bit pattern -/
def cvt (ty : IntTy) (x : Nat) : Nat :=
  match ty with
  | .i8 | .u8 | .i16 | .u16 | .i32 => cvtt 32 x % 2 ^ ty.bits
  | .u32 | .i64 => cvtt 64 x % 2 ^ ty.bits
  | .u64 =>
    if flt x two63Bits then cvtt 64 x
    else cvtt 64 (sub x two63Bits) ||| 2 ^ 63

/-- the conversion is platform-defined by the Go specification: NaN, ±Inf, or the truncated value does not
fit the target type -/
def cvtFlag (ty : IntTy) (x : Nat) : Bool :=
  match decode x with
  | .fin s m e =>
    let i := truncInt s m e
    if ty.signed then !(-(2 ^ (ty.bits - 1) : Int) ≤ i ∧ i < 2 ^ (ty.bits - 1))
    else !(0 ≤ i ∧ i < 2 ^ ty.bits)
  | _ => true

/-! ### binary32 -/

/-- `float32(x)` of a float64: one rounding to nearest-even into binary32 (NaN canonical) -/
def toF32 (x : Nat) : Nat :=
  match decode x with
  | .nan => b32.nanBits
  | .inf s => b32.signBit s + b32.inf
  | .fin s m e => b32.ofRat s m 1 e

/-- `float64(y)` of a float32: exact -/
def ofF32 (y : Nat) : Nat :=
  match b32.decode y with
  | .nan => nanBits
  | .inf s => infBits s
  | .fin s m e => b64.ofRat s m 1 e

end Fit.F64
