import FitModel.Crc
import FitModel.Generated.IntegrityConsts
/-!
Model of the integrity-relevant part of /repo/decoder/decoder.go, as the code does it:

* `decodeFileHeader` — header rules of `(*Decoder).decodeFileHeader`, including the restart of the running
  checksum after the header (so the file CRC is judged over the records only — DESIGN §4 F06) and the
  skipped header-CRC check when the field is 0 or the header has 12 bytes;
* `checkIntegrity`   — `(*Decoder).CheckIntegrity`: loop over sequences, `discardMessages` in chunks of at most
  `reservedbuf` bytes folded into the CRC, `decodeCRC`, "clean EOF exactly at a sequence boundary ends the loop";
* `decodeAll`        — the `for dec.Next() { dec.Decode() }` loop reduced to what decides acceptance: the framing
  of `decodeMessages` (definitions, data records, developer fields and the field descriptions that steer
  them), every byte read through `readN` folded into the running CRC, `decodeCRC`.

The reader is the whole remaining byte list (how an io.Reader fragments it is C08's business); `io.EOF` and
`io.ErrUnexpectedEOF` are one class `eof`. `d.cur` (uint32) is a `Nat`: streams below 4 GiB.
Constants (reservedbuf, masks, valid base types, ".FIT", message/field numbers) are regenerated from the
working tree (`Generated/IntegrityConsts.lean`).
-/
namespace Fit.Integrity
open Fit.Crc Fit.Gen.Integ

/-! ### a faster compiled form of `Crc.write` (proved equal; `csimp` makes the compiler use it — the theory is unchanged)

`Crc.T` extracts a table entry by shifting a 256-bit literal, which is what the kernel evaluates well but costs a
big-number operation per nibble at run time; the sweeps of the correspondence check run the model millions of times. -/
def tblFast (i : Nat) : Nat := Fit.Gen.crcTableList.getD i 0
def nibFast (c n : Nat) : Nat := (((c >>> 4) &&& 0x0FFF) ^^^ tblFast (c &&& 0xF)) ^^^ tblFast n
def computeFast (c b : Nat) : Nat := nibFast (nibFast c (b &&& 0xF)) ((b >>> 4) &&& 0xF)
def writeFast (c : Nat) (p : List Nat) : Nat := p.foldl computeFast c

theorem T_eq_tblFast (i : Nat) : T i = tblFast i := by
  by_cases h : i < 16
  · have : ∀ j, j < 16 → T j = tblFast j := by decide +kernel
    exact this i h
  · have hp : Fit.Gen.crcTablePacked < 2 ^ 256 := by decide +kernel
    have hl : Fit.Gen.crcTableList.length = 16 := by decide +kernel
    have h16 : 256 ≤ 16 * i := by omega
    have hz : Fit.Gen.crcTablePacked >>> (16 * i) = 0 := by
      rw [Nat.shiftRight_eq_div_pow]
      exact Nat.div_eq_of_lt (Nat.lt_of_lt_of_le hp (Nat.pow_le_pow_right (by decide) h16))
    have ht : tblFast i = 0 := by
      unfold tblFast
      rw [List.getD_eq_getElem?_getD, List.getElem?_eq_none (by omega)]; rfl
    rw [ht, T, hz]; rfl

@[csimp] theorem write_eq_writeFast : @write = @writeFast := by
  funext c p
  have hc : ∀ c b, compute c b = computeFast c b := by
    intro c b; simp only [compute, computeFast, nibStep, nibFast, T_eq_tblFast]
  unfold write writeFast
  congr 1
  funext c b; exact hc c b

/-- error classes (by `errors.Is` against the sentinel errors; never strings) -/
inductive Err | eof | notFit | crc | defMissing | invalidBaseType
  deriving DecidableEq, Repr

/-- outcome of `CheckIntegrity`: the number of completed sequences, and the error class if any -/
inductive Result
  | ok (seq : Nat)
  | err (e : Err) (seq : Nat)
  deriving DecidableEq, Repr

def le16 : List Nat → Nat
  | a :: b :: _ => a + 256 * b
  | _ => 0
def le32 : List Nat → Nat
  | a :: b :: c :: d :: _ => a + 256 * b + 65536 * c + 16777216 * d
  | _ => 0
def be16 : List Nat → Nat
  | a :: b :: _ => 256 * a + b
  | _ => 0

/-- `n ≤ l.length`, looking at no more than `n` cells (the model runs on long streams) -/
def hasN : List Nat → Nat → Bool
  | _, 0 => true
  | [], _ + 1 => false
  | _ :: t, n + 1 => hasN t n

theorem hasN_iff (l : List Nat) (n : Nat) : hasN l n = true ↔ n ≤ l.length := by
  induction l generalizing n with
  | nil => cases n <;> simp [hasN]
  | cons a t ih => cases n with
    | zero => simp [hasN]
    | succ n => simp [hasN, ih]

/-- what the decoder keeps of a file header -/
structure Hdr where
  size : Nat
  dataSize : Nat
  crc : Nat
  deriving DecidableEq, Repr

/-- `decodeFileHeader` on the remaining stream; gives the header and the bytes after it.
`chk` is `options.shouldChecksum`. The running CRC is 0 afterwards in every successful case (`crc16.Reset()`). -/
def decodeFileHeader (chk : Bool) (bs : List Nat) : Except Err (Hdr × List Nat) :=
  match bs with
  | [] => .error .eof                                      -- ReadN(1) fails: d.n unchanged
  | size :: rest =>
    if size ≠ 12 ∧ size ≠ 14 then .error .notFit
    else
      let rem := size - 1
      if !hasN rest rem then .error .eof               -- ReadN(rem) fails
      else
        let b := rest.take rem
        if (b.drop 7).take 4 ≠ dataTypeFIT then .error .notFit
        else
          let dataSize := le32 (b.drop 3)
          if dataSize = 0 then .error .notFit
          else
            let crc := if size = 14 then le16 (b.drop 11) else 0
            if crc = 0 ∨ chk = false then .ok (⟨size, dataSize, crc⟩, rest.drop rem)
            else if write (write 0 [size]) (b.take (rem - 2)) ≠ crc then .error .crc
            else .ok (⟨size, dataSize, crc⟩, rest.drop rem)

/-- `discardMessages`: read `remaining` bytes in chunks of at most `reservedbuf`, folding each chunk into the CRC.
`fuel` ≥ `remaining` suffices when `reservedbuf > 0`. -/
def discard : Nat → Nat → Nat → List Nat → Except Err (Nat × List Nat)
  | 0, _, crc, bs => .ok (crc, bs)
  | fuel + 1, remaining, crc, bs =>
    if remaining = 0 then .ok (crc, bs)
    else
      let size := min remaining reservedbuf
      if !hasN bs size then .error .eof
      else discard fuel (remaining - size) (write crc (bs.take size)) (bs.drop size)

/-- the loop of `CheckIntegrity` (checksum forced on). `seq` = sequences completed so far (`pos != 0 ⇔ seq ≠ 0`). -/
def checkLoop : Nat → Nat → List Nat → Result
  | 0, seq, _ => .err .eof seq
  | fuel + 1, seq, bs =>
    match decodeFileHeader true bs with
    | .error e =>
      -- `pos != 0 && pos == d.n && err == io.EOF`: nothing at all could be read after a completed sequence
      if bs.isEmpty ∧ seq ≠ 0 then .ok seq else .err e seq
    | .ok (h, rest) =>
      match discard h.dataSize h.dataSize 0 rest with
      | .error e => .err e seq
      | .ok (crc, rest) =>
        match rest with
        | lo :: hi :: rest' =>
          if crc ≠ le16 [lo, hi] then .err .crc seq else checkLoop fuel (seq + 1) rest'
        | _ => .err .eof seq

/-- `decoder.New(r).CheckIntegrity()` on the byte stream `bs` -/
def checkIntegrity (bs : List Nat) : Result := checkLoop (bs.length + 1) 0 bs

/-! ### `Decode`: framing of the records, every byte read folded into the running CRC -/

/-- reader state during `decodeMessages`: remaining stream, `d.cur`, running CRC -/
structure RS where
  rest : List Nat
  cur : Nat
  crc : Nat
  deriving Repr

/-- `(*Decoder).readN` -/
def readN (chk : Bool) (n : Nat) (s : RS) : Except Err (List Nat × RS) :=
  if !hasN s.rest n then .error .eof
  else .ok (s.rest.take n,
    { rest := s.rest.drop n, cur := s.cur + n, crc := if chk then write s.crc (s.rest.take n) else s.crc })

abbrev Triplet := Nat × Nat × Nat

/-- a live message definition: what of it decides the framing -/
structure Def where
  arch : Nat
  mesgNum : Nat
  fields : List Triplet      -- (num, size, base type)
  devFields : List Triplet   -- (num, size, developer data index)
  deriving Repr

def triplets : List Nat → List Triplet
  | a :: b :: c :: rest => (a, b, c) :: triplets rest
  | _ => []

/-- decoder state across the records of one sequence -/
structure DS where
  defs : Nat → Option Def
  /-- field descriptions seen so far: (developer data index, field definition number, fit base type id) -/
  descs : List Triplet
  msgs : Nat

def DS.init : DS := { defs := fun _ => none, descs := [], msgs := 0 }

def validBaseType (b : Nat) : Bool := validBaseTypes.contains b

/-- `decodeMessageDefinition` -/
def decodeDefinition (chk : Bool) (header : Nat) (s : RS) (st : DS) : Except Err (RS × DS) :=
  match readN chk 5 s with
  | .error e => .error e
  | .ok (b, s) =>
    let arch := (b.drop 1).headD 0
    let mesgNum := if arch = littleEndian then le16 (b.drop 2) else be16 (b.drop 2)
    let n := (b.drop 4).headD 0
    match readN chk (n * 3) s with
    | .error e => .error e
    | .ok (fb, s) =>
      let fields := triplets fb
      if fields.any (fun t => !validBaseType t.2.2) then .error .invalidBaseType
      else if header &&& devDataMask = devDataMask then
        match readN chk 1 s with
        | .error e => .error e
        | .ok (nb, s) =>
          match readN chk (nb.headD 0 * 3) s with
          | .error e => .error e
          | .ok (db, s) =>
            let d : Def := { arch := arch, mesgNum := mesgNum, fields := fields, devFields := triplets db }
            .ok (s, { st with defs := fun i => if i = header &&& localMesgNumMask then some d else st.defs i })
      else
        let d : Def := { arch := arch, mesgNum := mesgNum, fields := fields, devFields := [] }
        .ok (s, { st with defs := fun i => if i = header &&& localMesgNumMask then some d else st.defs i })

/-- `decodeFields`, framing part: each field of non-zero size is read with one `readN(size)`; gives the first
byte of every field read, by field number, in order (what `mesgdef.NewFieldDescription` looks at) -/
def decodeFields (chk : Bool) : List Triplet → RS → List (Nat × Nat) → Except Err (RS × List (Nat × Nat))
  | [], s, acc => .ok (s, acc)
  | (num, size, _) :: fs, s, acc =>
    if size = 0 then decodeFields chk fs s acc            -- "Size is zero. Skip"
    else
      match readN chk size s with
      | .error e => .error e
      | .ok (b, s) => decodeFields chk fs s (acc ++ [(num, b.headD 0)])

/-- `vals[num].Uint8()` of `FieldDescription.Reset`: the value of the LAST field with that number, 255 if none -/
def lastVal (vals : List (Nat × Nat)) (num : Nat) : Nat :=
  match (vals.filter fun p => p.1 = num).getLast? with
  | some p => p.2
  | none => uint8Invalid

/-- `decodeDeveloperFields`, framing part -/
def decodeDevFields (chk : Bool) (descs : List Triplet) : List Triplet → RS → Except Err RS
  | [], s => .ok s
  | (num, size, ddi) :: fs, s =>
    match descs.find? fun d => d.1 = ddi ∧ d.2.1 = num with
    | none =>
      match readN chk size s with                          -- "Just read acquired bytes and move forward"
      | .error e => .error e
      | .ok (_, s) => decodeDevFields chk descs fs s
    | some d =>
      if !validBaseType d.2.2 then .error .invalidBaseType
      else if size = 0 then decodeDevFields chk descs fs s
      else
        match readN chk size s with
        | .error e => .error e
        | .ok (_, s) => decodeDevFields chk descs fs s

/-- `decodeMessageData` -/
def decodeData (chk : Bool) (header : Nat) (s : RS) (st : DS) : Except Err (RS × DS) :=
  let localNum := if header &&& mesgCompressedHeaderMask = mesgCompressedHeaderMask
    then (header &&& compressedLocalMesgNumMask) >>> compressedBitShift else header
  match st.defs (localNum &&& localMesgNumMask) with
  | none => .error .defMissing
  | some d =>
    match decodeFields chk d.fields s [] with
    | .error e => .error e
    | .ok (s, vals) =>
      let descs := if d.mesgNum = mesgNumFieldDescription
        then st.descs ++ [(lastVal vals fdDeveloperDataIndex, lastVal vals fdFieldDefinitionNumber, lastVal vals fdFitBaseTypeId)]
        else st.descs
      match decodeDevFields chk descs d.devFields s with
      | .error e => .error e
      | .ok s => .ok (s, { st with descs := descs, msgs := st.msgs + 1 })

/-- `decodeMessage` -/
def decodeMessage (chk : Bool) (s : RS) (st : DS) : Except Err (RS × DS) :=
  match readN chk 1 s with
  | .error e => .error e
  | .ok (b, s) =>
    let header := b.headD 0
    if header &&& (mesgCompressedHeaderMask ||| mesgDefinitionMask) = mesgDefinitionMask
    then decodeDefinition chk header s st
    else decodeData chk header s st

/-- `decodeMessages`: `for d.cur < d.fileHeader.DataSize { decodeMessage }`; `fuel` ≥ `dataSize` suffices -/
def decodeMessages (chk : Bool) (dataSize : Nat) : Nat → RS → DS → Except Err (RS × DS)
  | 0, s, st => .ok (s, st)
  | fuel + 1, s, st =>
    if s.cur < dataSize then
      match decodeMessage chk s st with
      | .error e => .error e
      | .ok (s, st) => decodeMessages chk dataSize fuel s st
    else .ok (s, st)

/-- one `Decode()` given the header already decoded: messages then `decodeCRC`; gives the number of
messages and the remaining stream -/
def decodeBody (chk : Bool) (h : Hdr) (rest : List Nat) : Except Err (Nat × List Nat) :=
  match decodeMessages chk h.dataSize (h.dataSize + 1) { rest := rest, cur := 0, crc := 0 } DS.init with
  | .error e => .error e
  | .ok (s, st) =>
    match s.rest with
    | lo :: hi :: rest' =>
      if chk ∧ s.crc ≠ le16 [lo, hi] then .error .crc else .ok (st.msgs, rest')
    | _ => .error .eof

/-- the first `Decode()` of a fresh decoder -/
def decodeOne (chk : Bool) (bs : List Nat) : Except Err (Nat × List Nat) :=
  match decodeFileHeader chk bs with
  | .error e => .error e
  | .ok (h, rest) => decodeBody chk h rest

/-- outcome of the decode loop: sequences decoded, total messages; or the error class and the sequences decoded before it -/
inductive DResult
  | ok (seq msgs : Nat)
  | err (e : Err) (seq : Nat)
  deriving DecidableEq, Repr

/-- `for dec.Next() { fit, err := dec.Decode(); if err != nil { return err } }`:
`Next` is true on a fresh decoder and afterwards exactly when a file header decodes. -/
def decodeLoop (chk : Bool) : Nat → Nat → Nat → List Nat → DResult
  | 0, seq, msgs, _ => .ok seq msgs
  | fuel + 1, seq, msgs, bs =>
    match decodeFileHeader chk bs with
    | .error e => if seq = 0 then .err e seq else .ok seq msgs     -- `Next()` false ends the loop silently
    | .ok (h, rest) =>
      match decodeBody chk h rest with
      | .error e => .err e seq
      | .ok (m, rest') => decodeLoop chk fuel (seq + 1) (msgs + m) rest'

def decodeAll (chk : Bool) (bs : List Nat) : DResult := decodeLoop chk (bs.length + 1) 0 0 bs

end Fit.Integrity
