import FitModel.Value
/-!
Protocol messages as the encoder-side code sees them (/repo/proto/proto.go: `Message`, `Field`,
`FieldBase`, `DeveloperField`). A field carries exactly the attributes of its `*FieldBase` that the
encoder, the validators and the message-definition builder read, so that nothing here depends on the
profile; `base = none` is a nil `FieldBase`. Scale and offset are float64 **bit patterns**.
The text syntax is in `Driver/MsgCodec.lean` / `harness/msgcodec.go`.
-/
namespace Fit.Msg
open Fit.Value

/-- bit pattern of the float64 1.0 -/
def f64One : Nat := 0x3FF0000000000000

structure FieldBase where
  num : Nat
  baseType : Nat
  array : Bool := false
  accumulate : Bool := false
  scale : Nat := f64One
  offset : Nat := 0
  /-- `Name != factory.NameUnknown` -/
  nameKnown : Bool := false
  /-- `Type == profile.Bool` -/
  profileBool : Bool := false
  deriving DecidableEq, Repr, Inhabited

structure Field where
  base : Option FieldBase
  value : Value
  isExpanded : Bool := false
  deriving DecidableEq, Repr, Inhabited

structure DevField where
  devIdx : Nat
  num : Nat
  value : Value
  deriving DecidableEq, Repr, Inhabited

structure Message where
  num : Nat
  fields : List Field
  devFields : List DevField
  deriving DecidableEq, Repr, Inhabited

/-- `Message.FieldValueByNum(num)` on a field list whose fields all have a `FieldBase`: the value of the
first field with that number, the invalid value if there is none -/
def fieldValueByNum (fs : List Field) (num : Nat) : Value :=
  match fs.find? (fun f => match f.base with | some b => b.num == num | none => false) with
  | some f => f.value
  | none => .invalid

end Fit.Msg
