import FitModel.DecoderApi
/-!
Specification of C07 — "a sequence decodes the same whatever the decoder did before".

`specRun` gives, for a history of API calls, what every call must return **using fresh decoders only**:
it tracks nothing but the options, the stream position of the start of the current sequence (`cur`),
the reader's whole stream, and whether the object is dead (sticky error, C03). What `Decode`, `Discard`,
`PeekFileHeader`, `PeekFileId` must return for the sequence at `cur` is, by definition, what the same call
returns on a decoder created by `decoder.New` on exactly those bytes (`St.fresh`): a function of the bytes
and the options only. `none` = the property demands nothing of that call's result (`Next`,
`CheckIntegrity`: their own results are C03's / C04's subject; calls after the position was lost).
-/
namespace Fit.DecApi

structure Spec where
  o : Opts
  /-- the stream from the first byte of the current sequence -/
  cur : List Nat
  whole : List Nat
  /-- a `Decode` / `Discard` failed (or the context was cancelled): every call returns that error until `Reset` -/
  dead : Option Err := none
  /-- a peek on the current sequence failed: the error is sticky for everything but the demanded result of
  `Decode`, which stays what a fresh decoder returns for the sequence -/
  peekErr : Option Err := none
  /-- listener calls already made for the current sequence (by peeks) -/
  delivered : Nat := 0
  /-- a peek consumed bytes beyond the data window the header declares: what `Discard` leaves is no longer
  comparable with a fresh decoder's -/
  lost : Bool := false
  /-- the position was lost (`Discard` after such a peek): nothing is demanded until `Reset` -/
  blind : Bool := false
  deriving Repr, Inhabited

def Spec.fresh (o : Opts) (bytes : List Nat) : Spec := { o := o, cur := bytes, whole := bytes }

/-- the sequence was consumed: the next one starts where the fresh decoder stopped -/
def Spec.next (p : Spec) (rest : List Nat) : Spec :=
  { p with cur := rest, peekErr := none, delivered := 0, lost := false }

def specDecode (p : Spec) : Spec × Option (Out × List Event) :=
  match p.dead with
  | some e => (p, some (.err e, []))
  | none =>
    let (s', out, evs) := stepDecode (St.fresh p.o p.cur)
    let p' := match out with
      | .fit _ => p.next s'.rest
      | .err e => { p with dead := some e }
      | _ => p
    (p', some (out, evs.drop p.delivered))

def specStep (p : Spec) (op : Op) : Spec × Option (Out × List Event) :=
  if p.blind then
    match op with
    | .reset o b => (Spec.fresh o b, some (.done, []))
    | _ => (p, none)
  else
  match op with
  | .decode => specDecode p
  | .decodeCtx false => specDecode p
  | .decodeCtx true =>
    match p.dead, p.peekErr with
    | some e, _ => (p, some (.err e, []))
    | none, some e => ({ p with dead := some e }, some (.err e, []))
    | none, none => ({ p with dead := some .ctx }, some (.err .ctx, []))
  | .peekHeader =>
    match p.dead, p.peekErr with
    | some e, _ => (p, some (.err e, []))
    | none, some e => (p, some (.err e, []))
    | none, none =>
      let (_, out, _) := stepPeekHeader (St.fresh p.o p.cur)
      (match out with | .err e => { p with peekErr := some e } | _ => p, some (out, []))
  | .peekFileId =>
    match p.dead, p.peekErr with
    | some e, _ => (p, some (.err e, []))
    | none, some e => (p, some (.err e, []))
    | none, none =>
      let (s', out, evs) := stepPeekFileId (St.fresh p.o p.cur)
      let p' := { p with delivered := max p.delivered evs.length, lost := p.lost || decide (s'.q.cur > s'.q.hdr.dataSize) }
      (match out with | .err e => { p' with peekErr := some e } | _ => p', some (out, evs.drop p.delivered))
  | .discard =>
    match p.dead, p.peekErr with
    | some e, _ => (p, some (.err e, []))
    | none, some e => ({ p with dead := some e }, some (.err e, []))
    | none, none =>
      if p.lost then ({ p with blind := true }, none) else
      let (s', out, _) := stepDiscard (St.fresh p.o p.cur)
      (match out with
        | .done => p.next s'.rest
        | .err e => { p with dead := some e }
        | _ => p, some (out, []))
  | .next => (p, none)
  | .checkIntegrity =>
    match p.dead, p.peekErr with
    | none, none => ({ p with cur := p.whole, delivered := 0, lost := false }, none)
    | _, _ => (p, none)
  | .reset o b => (Spec.fresh o b, some (.done, []))

def specRun : Spec → List Op → List (Option (Out × List Event))
  | _, [] => []
  | p, op :: ops =>
    let (p', r) := specStep p op
    r :: specRun p' ops

/-! ### known-finding classes (evaluated on the model's run) -/

/-- `PeekFileId` attempts to read a record although the data window of the header is exhausted -/
def peekPast : Nat → St → Bool
  | 0, _ => false
  | fuel + 1, s =>
    if s.q.fileId.isNone then
      decide (s.q.cur ≥ s.q.hdr.dataSize) ||
        (match decodeMessage s with
         | .ok (s', _) => peekPast fuel s'
         | _ => false)
    else false

/-- F09: the operation is a `PeekFileId` that reads past the sequence -/
def kfPeekPast (a : Api) : Op → Bool
  | .peekFileId =>
    a.d.q.err.isNone &&
      (match headerOnce a.d with
       | .ok s1 => peekPast (fuelOf s1) s1
       | _ => false)
  | _ => false

def kfRun (_p : Spec) : Api → List Op → List String
  | _, [] => []
  | a, op :: ops =>
    let here := if kfPeekPast a op then ["KF-C07-2"] else []
    let rest := kfRun _p (step a op).1 ops
    (here ++ rest).eraseDups

end Fit.DecApi
