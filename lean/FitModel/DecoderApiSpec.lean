import FitModel.DecoderApi
/-!
Specification of C07 — "a sequence decodes the same whatever the decoder did before".

`specRun` gives, for a history of API calls, what every call must return **using new decoders only**: it tracks
nothing but the options, the stream from the first byte of the current sequence (`cur`), the reader's whole stream, and
whether the object is dead (sticky error, C03). What `Decode`, `Discard`, `PeekFileHeader`, `PeekFileId` must return
for the sequence at `cur` is, by definition, what the same call returns on a decoder created by `decoder.New` on exactly
those bytes (`St.fresh`): a function of the bytes and the options only.

**Where the next sequence starts does not depend on the operation that consumed the current one**: the extent of a
sequence in the stream is fixed once, by the protocol (`seqExtent`: header size + the data size the header declares + the
two bytes of the file CRC). A sequence whose last record runs past the declared data size is consumed differently by
`Decode` (which reads the whole record, then two CRC bytes) and by `Discard` / `CheckIntegrity` (which skip exactly the
data size): after such a predecessor the specification still demands, for every way of consuming it, what a new decoder
returns for the bytes that start at the protocol's end of the predecessor. `Spec.lost` only records that this happened
(class of KF-C07-4, `NoOverrun`); no demand reads it.

`none` = the property demands nothing of that call's result (only the verdict of `CheckIntegrity`, which is C04's subject).
-/
namespace Fit.DecApi

/-- where the decoder stands relative to the current sequence, as far as the property is concerned -/
inductive Phase
  /-- nothing of the current sequence has been consumed -/
  | start
  /-- the file header of the current sequence was read (by `PeekFileHeader` or `Next`) -/
  | header
  /-- `PeekFileId` succeeded: `delivered` listener calls were made for the current sequence; `over` = the last record the
  peek decoded ran past the data size the header declares -/
  | fileId (delivered : Nat) (over : Bool)
  /-- a peek (or the header read of `Next`) failed on the current sequence: the error is sticky (C03) for everything
  but the demanded result of `Decode`, which stays what a new decoder returns for the sequence -/
  | peekFailed (e : Err) (delivered : Nat)
  /-- a `Decode` / `Discard` failed or the context was cancelled: every call returns that error until `Reset` -/
  | dead (e : Err)
  deriving DecidableEq, Repr, Inhabited

structure Spec where
  o : Opts
  /-- the stream from the first byte of the current sequence -/
  cur : List Nat
  whole : List Nat
  /-- no byte was consumed since `New` / `Reset` / `CheckIntegrity` (`d.n == 0`: `Next` answers true without reading) -/
  atStart : Bool := true
  ph : Phase := .start
  /-- bookkeeping of the class "a predecessor's last record overruns its declared data size" (KF-C07-4): some sequence
  consumed since `New` / `Reset` / `CheckIntegrity` was left by a new decoder performing the consuming operation somewhere
  else than at the protocol's end of the sequence. Read by `Spec.excluded` only — never by a demand. -/
  lost : Bool := false
  deriving Repr, Inhabited

def Spec.fresh (o : Opts) (bytes : List Nat) : Spec := { o := o, cur := bytes, whole := bytes }

/-- what a decoder created on the current sequence's bytes does -/
def Spec.st (p : Spec) : St := St.fresh p.o p.cur

/-- **the extent of the sequence that starts at the head of `b`, by the protocol alone**: the header size (its first
byte) + the data size the header declares (bytes 4–7, little endian) + the two bytes of the file CRC. It is the same for
every operation and every option. -/
def seqExtent (b : List Nat) : Nat := b.getD 0 0 + le32 (b.drop 4) + 2

/-- the sequence was consumed: the next one starts at the protocol's end of this one, whatever consumed it. `rest` =
where a new decoder performing the consuming operation stopped (recorded in `lost` when it is somewhere else). -/
def Spec.next (p : Spec) (rest : List Nat) : Spec :=
  { p with cur := p.cur.drop (seqExtent p.cur), atStart := false, ph := .start,
           lost := p.lost || decide (rest ≠ p.cur.drop (seqExtent p.cur)) }

/-- `Decode` with `k` listener calls already made for the sequence: the demanded result is the new decoder's -/
def specDecode (p : Spec) (k : Nat) (sticky : Option Err) : Spec × Option (Out × List Event) :=
  let (s', out, evs) := stepDecode p.st
  let p' := match sticky, out with
    | some e, _ => { p with ph := .dead e }
    | none, .fit _ => p.next s'.rest
    | none, .err e => { p with ph := .dead e }
    | none, _ => p
  (p', some (out, evs.drop k))

/-- `DecodeWithContext` whose context is first seen cancelled after `k` records **of the sequence** (`d` listener
calls were already made for it by a peek): the demanded result is that of the same call on a new decoder -/
def specDecodeAt (p : Spec) (d k : Nat) : Spec × Option (Out × List Event) :=
  let (s', out, evs) := stepDecodeCtxAt k p.st
  let p' := match out with
    | .fit _ => p.next s'.rest
    | .err e => { p with ph := .dead e }
    | _ => p
  (p', some (out, evs.drop d))

/-- the number of records `PeekFileId`'s loop decodes -/
def peekCount : Nat → St → Nat
  | 0, _ => 0
  | fuel + 1, s =>
    if s.q.fileId.isNone ∧ s.q.cur < s.q.hdr.dataSize then
      match decodeMessage s with
      | .ok (s', _) => peekCount fuel s' + 1
      | _ => 0
    else 0

/-- the number of records a successful `PeekFileId` of a new decoder on the current sequence decodes -/
def Spec.peeked (p : Spec) : Nat :=
  match headerOnce p.st with
  | .ok s1 => peekCount (fuelOf s1) s1
  | _ => 0

def specPeekHeader (p : Spec) : Spec × Out :=
  let (_, out, _) := stepPeekHeader p.st
  (match out with
    | .err e => { p with ph := .peekFailed e 0 }
    | _ => { p with ph := .header, atStart := false }, out)

def specPeekFileId (p : Spec) : Spec × Option (Out × List Event) :=
  let (s', out, evs) := stepPeekFileId p.st
  (match out with
    | .err e => { p with ph := .peekFailed e evs.length }
    | _ => { p with ph := .fileId evs.length (decide (s'.q.cur > s'.q.hdr.dataSize)), atStart := false },
   some (out, evs))

/-- `Discard`: the demanded result is the new decoder's `Discard` of the sequence -/
def specDiscard (p : Spec) : Spec × Option (Out × List Event) :=
  let (s', out, _) := stepDiscard p.st
  (match out with
    | .done => p.next s'.rest
    | .err e => { p with ph := .dead e }
    | _ => p, some (out, []))

def specStep (p : Spec) (op : Op) : Spec × Option (Out × List Event) :=
  match op, p.ph with
  | .reset o b, _ => (Spec.fresh o b, some (.done, []))
  -- Decode
  | .decode, .dead e | .decodeCtx _, .dead e => (p, some (.err e, []))
  | .decode, .start | .decode, .header | .decodeCtx false, .start | .decodeCtx false, .header => specDecode p 0 none
  | .decode, .fileId k _ | .decodeCtx false, .fileId k _ => specDecode p k none
  | .decode, .peekFailed e k | .decodeCtx false, .peekFailed e k => specDecode p k (some e)
  | .decodeCtx true, .peekFailed e _ => ({ p with ph := .dead e }, some (.err e, []))
  | .decodeCtx true, _ => ({ p with ph := .dead .ctx }, some (.err .ctx, []))
  -- DecodeWithContext, context cancelled while the call runs: a cancellation after `k` more records following a peek
  -- of `j` records is a cancellation after `j + k` records of the sequence
  | .decodeCtxAt _, .dead e => (p, some (.err e, []))
  | .decodeCtxAt k, .start | .decodeCtxAt k, .header => specDecodeAt p 0 k
  | .decodeCtxAt k, .fileId d _ => specDecodeAt p d (p.peeked + k)
  | .decodeCtxAt _, .peekFailed e _ => ({ p with ph := .dead e }, some (.err e, []))
  -- peeks
  | .peekHeader, .dead e | .peekHeader, .peekFailed e _ | .peekFileId, .dead e | .peekFileId, .peekFailed e _ =>
    (p, some (.err e, []))
  | .peekHeader, .start => let (p', out) := specPeekHeader p; (p', some (out, []))
  | .peekHeader, _ => (p, some ((stepPeekHeader p.st).2.1, []))
  | .peekFileId, .fileId _ _ => (p, some ((stepPeekFileId p.st).2.1, []))
  | .peekFileId, _ => specPeekFileId p
  -- Discard (also after a peek whose last record overran the data size: the sequence ends where the protocol says)
  | .discard, .dead e => (p, some (.err e, []))
  | .discard, .peekFailed e _ => ({ p with ph := .dead e }, some (.err e, []))
  | .discard, _ => specDiscard p
  -- Next
  | .next, .dead _ | .next, .peekFailed _ _ => (p, some (.bool false, []))
  | .next, .start =>
    if p.atStart then (p, some (.bool true, [])) else
    let (p', out) := specPeekHeader p
    (p', some (.bool (match out with | .err _ => false | _ => true), []))
  | .next, _ => (p, some (.bool true, []))
  -- CheckIntegrity (+ re-seek): its own verdict is C04's subject; afterwards the decoder stands at the start of the stream
  | .checkIntegrity, .dead _ | .checkIntegrity, .peekFailed _ _ => (p, none)
  | .checkIntegrity, _ => ({ p with cur := p.whole, atStart := true, ph := .start, lost := false }, none)

def specRun : Spec → List Op → List (Option (Out × List Event))
  | _, [] => []
  | p, op :: ops =>
    let (p', r) := specStep p op
    r :: specRun p' ops

/-! ### the class of KF-C07-4: a predecessor's last record overruns its declared data size

`Decode` / `DecodeWithContext` read the whole last record and then two CRC bytes; `Discard` and `CheckIntegrity` skip
exactly the declared data size and then two bytes; `Discard` after a `PeekFileId` that has already read past the data
size skips only two more bytes. Whenever the records of a sequence do not end exactly at the declared data size these
positions differ, so what the decoder returns for the NEXT sequence depends on how this one was consumed. -/

/-- the operation `op`, called in the specification state `p`, lies in the class: it follows (with no `Reset` /
`CheckIntegrity` + re-seek in between) the consumption of a sequence that a new decoder leaves somewhere else than at
the protocol's end of the sequence, or it is the `Discard` that follows a `PeekFileId` whose last record overran -/
def Spec.excluded (p : Spec) : Op → Bool
  | .reset _ _ => false
  | .checkIntegrity => false
  | .discard => p.lost || (match p.ph with | .fileId _ true => true | _ => false)
  | _ => p.lost

/-- no operation of the history lies in the class (decidable: a `Bool`) -/
def noOverrun : Spec → List Op → Bool
  | _, [] => true
  | p, op :: ops => !p.excluded op && noOverrun (specStep p op).1 ops

/-- the known-finding classes of an operation line (evaluated by the driver's `--kf`) -/
def kfRun (p : Spec) (_a : Api) (ops : List Op) : List String :=
  if noOverrun p ops then [] else ["KF-C07-4"]

end Fit.DecApi
