import FitModel.Generated.CrcTable
/-!
Model of /repo/kit/hash/crc16/crc16.go and the bitwise specification of the FIT CRC-16
(CRC-16/ARC: reflected polynomial 0xA001, initial value 0, no final xor).

Machine integers are `Nat`; the state of the Go `crc16` is a `uint16`, so the model keeps it
below 2^16 (`Crc.WF`) — see `FitProps/CrcLemmas.lean` for the preservation lemma.
-/
namespace Fit.Crc

/-- `table[i]` of crc16.go; the 16 literals are regenerated from the source on every run. -/
def T (i : Nat) : Nat := (Fit.Gen.crcTablePacked >>> (16 * i)) &&& 0xFFFF

/-- one nibble of `compute`: `tmp = table[crc&0xF]; crc = (crc>>4)&0x0FFF; crc = crc ^ tmp ^ table[n]` -/
def nibStep (c n : Nat) : Nat := (((c >>> 4) &&& 0x0FFF) ^^^ T (c &&& 0xF)) ^^^ T n

/-- `(*crc16).compute(crc, b)`: low nibble first, then `(b>>4)&0xF`. -/
def compute (c b : Nat) : Nat := nibStep (nibStep c (b &&& 0xF)) ((b >>> 4) &&& 0xF)

/-- `Write(p)`: folds `compute` over the bytes, starting from the current state. -/
def write (c : Nat) (p : List Nat) : Nat := p.foldl compute c

def reset : Nat := 0
def sum16 (c : Nat) : Nat := c
/-- `Sum(b)` appends the state big-endian. -/
def sum (c : Nat) (b : List Nat) : List Nat := b ++ [(c >>> 8) % 256, c % 256]

/-- the operations of the hash object that change or keep its state -/
inductive Op where
  | write (p : List Nat)
  | reset
  deriving Repr

def step (c : Nat) : Op → Nat
  | .write p => write c p
  | .reset => reset

/-- state of a fresh hash after a history of operations -/
def run (ops : List Op) : Nat := ops.foldl step reset

/-- the bytes written since the last `Reset` (or since creation) -/
def sinceReset (ops : List Op) : List Nat :=
  ops.foldl (fun acc op => match op with | .write p => acc ++ p | .reset => []) []

/-! ### Specification: bit-serial CRC-16, LSB first -/

/-- shift right by one, xor the reflected polynomial when a one drops out -/
def f (x : Nat) : Nat := (x >>> 1) ^^^ (if x % 2 = 1 then 0xA001 else 0)
def bitStep (c bit : Nat) : Nat := f (c ^^^ bit)
def bit4 (c n : Nat) : Nat :=
  bitStep (bitStep (bitStep (bitStep c (n % 2)) (n / 2 % 2)) (n / 4 % 2)) (n / 8 % 2)
/-- eight bit steps, least significant bit of the byte first -/
def byteSpec (c b : Nat) : Nat := bit4 (bit4 c (b % 16)) (b / 16)
def crcSpec (c : Nat) (p : List Nat) : Nat := p.foldl byteSpec c

end Fit.Crc
