import FitModel.ReadBuffer
import FitModel.FitFormat
/-!
Model of `/repo/decoder/raw.go`: `(*RawDecoder).Decode(r, fn)` as written — a client of `io.ReadFull` on the
reader itself (no read buffer), so it is a `Fit.ReadBuffer.Prog`: every request is one `io.ReadFull`.

What it reports: the callback invocations in order (flag, the bytes handed to `fn`), how it ended, and — through
the interpreter (`consumedExact` / `runFullN`) — the byte count `n` it returns (every `nr` of every `ReadFull`
is added, so `n` is exactly what was pulled from the reader). Its private table `lenMesgs` (local message
number ↦ length of a data record, 0 = no definition) lives for one sequence. `fn` may fail at its `j`-th call.
The fixed `BytesArray` is a bound the slices must respect: exceeding it would panic (it cannot: see
`FitProps/RawLemmas.lean`).
-/
namespace Fit.Raw
open Fit.ReadBuffer Fit.Gen.Reader

inductive Err
  | io (e : RErr) | notFit | defMissing | callback | panic
  deriving DecidableEq, Repr, Inhabited

structure Seg where
  flag : Nat
  bytes : Bytes
  deriving DecidableEq, Repr, Inhabited

structure Out where
  segs : List Seg
  status : Option Err
  /-- number of completed sequences (`seq`) -/
  seqs : Nat
  deriving DecidableEq, Repr, Inhabited

abbrev P := Prog Out

structure St where
  segs : List Seg := []          -- newest first
  seqs : Nat := 0
  deriving Inhabited

def fail (st : St) (e : Err) : Out := ⟨st.segs.reverse, some e, st.seqs⟩
def done (st : St) : Out := ⟨st.segs.reverse, none, st.seqs⟩

/-- `fn(flag, b)`: the callback sees the segment; if it is the `failAt`-th call it returns an error, which ends `Decode` -/
def emit (failAt : Option Nat) (st : St) (flag : Nat) (bytes : Bytes) (k : St → P) : P :=
  let st' := { st with segs := ⟨flag, bytes⟩ :: st.segs }
  match failAt with
  | none => k st'
  | some j => if j = st.segs.length then .ret (fail st' .callback) else k st'

def le32 : Bytes → Nat
  | a :: b :: c :: d :: _ => a + 256 * b + 65536 * c + 16777216 * d
  | _ => 0

/-- `lenMesg += uint32(BytesArray[first+i+1])` over the triplets -/
def sizeSum : Bytes → Nat
  | _ :: s :: _ :: rest => s + sizeSum rest
  | _ => 0

/-- `proto.LocalMesgNum(header)` -/
def localMesgNum (h : Nat) : Nat :=
  if h &&& mesgCompressedHeaderMask = mesgCompressedHeaderMask
  then (h &&& compressedLocalMesgNumMask) >>> compressedBitShift
  else h &&& localMesgNumMask

/-- `lenMesgs`: association list, newest first; absent = 0 -/
abbrev Lens := List (Nat × Nat)
def Lens.get (l : Lens) (i : Nat) : Nat := ((l.find? (·.1 == i)).map (·.2)).getD 0

/-- "2. Decode Messages": `for uint32(n-pos) < fileHeaderDataSize` — `used` = `n - pos`; the last record may overrun
the data size, as in the code. `fuel` ≥ `dataSize` suffices (every record has at least one byte). -/
def msgs (failAt : Option Nat) (dataSize : Nat) : Nat → Nat → Lens → St → (St → P) → P
  | 0, _, _, st, k => k st
  | fuel + 1, used, lens, st, k =>
    if used < dataSize then
      .read 1 fun
        | .error e => .ret (fail st (.io e))
        | .ok hb =>
          let h := hb.headD 0
          if h &&& (mesgCompressedHeaderMask ||| mesgDefinitionMask) = mesgDefinitionMask then
            -- 2.a message definition: 6 fixed bytes, 3 per field, [1 + 3 per developer field]
            .read 5 fun
              | .error e => .ret (fail st (.io e))
              | .ok b5 =>
                let nFields := (b5.drop 4).headD 0
                .read (nFields * 3) fun
                  | .error e => .ret (fail st (.io e))
                  | .ok fb =>
                    if h &&& devDataMask = devDataMask then
                      .read 1 fun
                        | .error e => .ret (fail st (.io e))
                        | .ok nb =>
                          let nDev := nb.headD 0
                          .read (nDev * 3) fun
                            | .error e => .ret (fail st (.io e))
                            | .ok db =>
                              emit failAt st rawFlagMesgDef (hb ++ b5 ++ fb ++ nb ++ db) fun st =>
                                msgs failAt dataSize fuel (used + (6 + nFields * 3 + 1 + nDev * 3))
                                  ((h &&& localMesgNumMask, 1 + sizeSum fb + sizeSum db) :: lens) st k
                    else
                      emit failAt st rawFlagMesgDef (hb ++ b5 ++ fb) fun st =>
                        msgs failAt dataSize fuel (used + (6 + nFields * 3))
                          ((h &&& localMesgNumMask, 1 + sizeSum fb) :: lens) st k
          else
            -- 2.b message data
            let lenMesg := lens.get (localMesgNum h)
            if lenMesg = 0 then .ret (fail st .defMissing)
            else if rawBytesArrayLen < lenMesg then .ret (fail st .panic)     -- `BytesArray[1:lenMesg]` out of range
            else
              .read (lenMesg - 1) fun
                | .error e => .ret (fail st (.io e))
                | .ok pb =>
                  emit failAt st rawFlagMesgData (hb ++ pb) fun st =>
                    msgs failAt dataSize fuel (used + lenMesg) lens st k
    else k st

/-- `(*RawDecoder).Decode`: sequences until the reader reports `io.EOF` at the first byte after a completed one.
`fuel` bounds the number of sequences. -/
def decode (failAt : Option Nat) : Nat → St → P
  | 0, st => .ret (done st)
  | fuel + 1, st =>
    .read 1 fun
      | .error e => if st.seqs ≠ 0 ∧ e = .eof then .ret (done st) else .ret (fail st (.io e))
      | .ok b0 =>
        let size := b0.headD 0
        if size ≠ 12 ∧ size ≠ 14 then .ret (fail st .notFit)
        else
          .read (size - 1) fun
            | .error e => .ret (fail st (.io e))
            | .ok b =>
              if (b.drop 7).take 4 ≠ dataTypeFIT then .ret (fail st .notFit)
              else
                let dataSize := le32 (b.drop 3)
                emit failAt st rawFlagFileHeader (b0 ++ b) fun st =>
                  msgs failAt dataSize dataSize 0 [] st fun st =>
                    .read 2 fun
                      | .error e => .ret (fail st (.io e))
                      | .ok c =>
                        emit failAt st rawFlagCRC c fun st =>
                          decode failAt fuel { st with seqs := st.seqs + 1 }

/-! ### what the protocol prescribes for the length of each segment, given the preceding definitions (from `FitFormat`) -/

/-- one step of the walk over the reported segments: the table of live definitions (`FitFormat.Defs`) after the
segment, or `none` if the segment does not have the prescribed shape and length -/
def lenStep (st : Option FitFormat.Defs) (s : Seg) : Option FitFormat.Defs :=
  match st with
  | none => none
  | some defs =>
    if s.flag = rawFlagFileHeader then
      -- a file header is as long as its first byte says, 12 or 14; definitions do not survive a sequence
      if (s.bytes.headD 0 = 12 ∨ s.bytes.headD 0 = 14) ∧ s.bytes.length = s.bytes.headD 0 then some FitFormat.Defs.empty else none
    else if s.flag = rawFlagMesgDef then
      match s.bytes with
      | h :: body =>
        match FitFormat.parseDefinition h 0 body with
        | some (r, []) =>
          if FitFormat.isDefinition h ∧ r.len = s.bytes.length
          then some (defs.set r.localNum (FitFormat.sizeSum r.fields + FitFormat.sizeSum r.devFields)) else none
        | _ => none
      | [] => none
    else if s.flag = rawFlagMesgData then
      match s.bytes with
      | h :: payload =>
        if !FitFormat.isDefinition h ∧ defs (FitFormat.localNum h) = some payload.length then some defs else none
      | [] => none
    else if s.flag = rawFlagCRC then
      if s.bytes.length = 2 then some defs else none
    else none

/-- every segment has the length the protocol prescribes given the preceding definitions -/
def lengthsOK (segs : List Seg) : Bool := (segs.foldl lenStep (some FitFormat.Defs.empty)).isSome

def flat (segs : List Seg) : Bytes := segs.flatMap (·.bytes)

/-! ### WHERE each kind of segment sits (the order the protocol prescribes: header, records, CRC, header, …) -/

/-- state of the walk over the reported segments: between sequences, or inside one whose header announced `dataSize`
bytes of records, `used` of which have been reported -/
inductive Pos
  | outside
  | inside (dataSize used : Nat)
  deriving DecidableEq, Repr

/-- one step: a file header may only come between sequences (its data size — read by the independent
`FitFormat.parseHeader` — opens a sequence); a definition or data record only while the records reported so far fall
short of the data size (the last one may overrun it, as in the decoder); the CRC segment exactly when they have reached
it — not earlier, not after a further record — and it closes the sequence. -/
def posStep (st : Option Pos) (s : Seg) : Option Pos :=
  match st with
  | none => none
  | some .outside =>
    if s.flag = rawFlagFileHeader then (FitFormat.parseHeader s.bytes).map fun h => .inside h.dataSize 0 else none
  | some (.inside ds used) =>
    if s.flag = rawFlagMesgDef ∨ s.flag = rawFlagMesgData then
      if used < ds then some (.inside ds (used + s.bytes.length)) else none
    else if s.flag = rawFlagCRC then
      if ds ≤ used then some .outside else none
    else none

/-- every segment sits where the protocol prescribes -/
def layoutOK (segs : List Seg) : Bool := (segs.foldl posStep (some .outside)).isSome

/-- … and the series ends between two sequences (what a run without error reports) -/
def layoutClosed (segs : List Seg) : Bool := segs.foldl posStep (some .outside) == some .outside


end Fit.Raw
