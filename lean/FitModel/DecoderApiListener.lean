import FitModel.DecoderApi
import FitModel.Message
import FitModel.FileDef
/-!
What the decoder model hands to a message listener, in the vocabulary of the typed layer (`FitModel/Message.lean`,
`FitModel/Typed.lean`, `FitModel/Listener.lean`): the bridge between the decoder-API model (C03, C07) and the models of
the typed conversion (C13) and of `filedef.Listener` (C14).

**FieldBase.** Every field the decoder appends to a message comes from `d.factory.CreateField` — in `decodeFields`
(known field, or `createUnknownField`), for the timestamp of a compressed-timestamp record, and in `expandComponents`.
The contract of `decoder.Factory` is that the field returned carries a `FieldBase` (the standard factory's generated
switch and `createUnknownField` always do; `decodeFields` itself reads `field.Name` through it). In the model a factory
is a table `(mesgNum, fieldNum) ↦ FieldInfo` with `FieldInfo.unknown` for everything else, so a decoded field (`DField`)
always has the attributes of a `FieldBase`: `DField.toField` makes that explicit (`base := some …`), and a nil
`FieldBase` — the one input on which the generated `Reset` methods panic (`C13_nil_fieldbase_panics`) — is not among
the decoder's outputs.
-/
namespace Fit.DecApi
open Fit.Value

/-- a decoded field as `proto.Field`: the attributes of its `*FieldBase` that the typed layer reads, value, expanded mark -/
def DField.toField (f : DField) : Fit.Msg.Field :=
  { base := some { num := f.num, baseType := f.bt, array := f.array, nameKnown := f.known, profileBool := f.isBool }
    value := f.value
    isExpanded := f.expanded }

/-- a decoded message as `proto.Message` -/
def Msg.toMessage (m : Msg) : Fit.Msg.Message :=
  { num := m.num, fields := m.fields.map DField.toField, devFields := m.devs.map fun d => ⟨d.idx, d.num, d.value⟩ }

/-- the messages handed to the message listeners during a run of API calls, in order -/
def listened (res : List (Out × List Event)) : List Msg :=
  res.flatMap fun r => r.2.filterMap fun
    | .mesg m => some m
    | .mesgDef _ => none

/-- the messages of the FITs a run of API calls returned -/
def returned (res : List (Out × List Event)) : List Msg :=
  res.flatMap fun r => match r.1 with
    | .fit f => f.msgs
    | _ => []

/-! ### `filedef.Listener.processMesg` as far as the choice of the file is concerned -/

/-- `mesg.FieldValueByNum(fieldnum.FileIdType).Uint8()` -/
def fileIdType (m : Msg) : Nat := uint8Of (fieldValueByNum m.fields 0)

/-- `l.file` after `File()` has closed the listener and the messages of one more `Decode` have been delivered: the first
`OnMesg` finds the listener inactive and `reset()`s it (`l.file = nil`); then a file_id message whose type is listed in
the file sets starts a new file of that type, one whose type is not listed is skipped and leaves `l.file` as it is.
Without any message `l.file` is still what the previous `File()` returned. `none` = nil. -/
def listenerFile (listed : Nat → Bool) (prev : Option Nat) (msgs : List Msg) : Option Nat :=
  if msgs.isEmpty then prev else
  msgs.foldl (fun cur m => if m.num = Fit.Gen.DecApi.mesgNumFileId ∧ listed (fileIdType m) then some (fileIdType m) else cur) none

end Fit.DecApi
