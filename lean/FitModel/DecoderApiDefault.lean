import FitModel.DecoderApi
import FitModel.DecoderApiSpec
import FitModel.Expand
import FitModel.Generated.ProfileArith
import FitModel.Generated.DecApiStdFactory
/-!
THE DECODER'S DEFAULT CONFIGURATION — `decoder.New(r)`: standard factory, component expansion ON (sub-fields, scales and
offsets, accumulation) — as the COMPOSITION of two models that are each tied and proved on their own:

* the decoder-API model (C) (`FitModel/DecoderApi.lean`) run with the regenerated standard factory and expansion OFF
  (every byte consumed, every record framed, every wire field decoded, timestamps, developer fields, look-ups, errors);
* C05's model of the tail of `decodeFields` (`Fit.Expand.decodeTail`: `collectAccumulableValues`, sub-field substitution,
  `expandComponents` with the REAL component / sub-field graph and the scale / offset arithmetic of
  `Generated/ProfileArith.lean`), applied to every decoded message in order, the accumulator living for one sequence
  (`d.accumulator.Reset()` in `reset()`).

That the composition is the decoder: expansion appends fields to the message and updates the accumulator, nothing else;
it happens after the wire fields of the record are read and before the message is stored / handed to the listeners; file_id,
developer_data_id and field_description (the messages the decoder itself reads back) have no components. Tied by the `f:std`
lines with `exp1` of the families `decapi` / `dechist` (Driver/DecApiStd.lean prints exactly these definitions).
-/
namespace Fit.DecApi.Default
open Fit.DecApi Fit.Value Fit.Expand

def profile : Profile := Fit.Gen.PA.mesgs

/-- `factory.StandardFactory()` as (C) reads it with expansion off (regenerated table) -/
def stdFactory : Factory :=
  Fit.Gen.DecApi.stdFactoryRaw.map fun (m, n, bt, fl) =>
    ⟨m, n, ⟨true, bt, fl / 2 % 2 == 1, fl % 2 == 1, fl / 4 % 2 == 1, []⟩⟩

/-- a field the decoder decoded, with the `FieldBase` of the standard factory (accumulate flag, scale, offset from the
regenerated profile; base type / array / Bool as the decoder decided them) -/
def toField (mesgNum : Nat) (f : DField) : Fit.Msg.Field :=
  let base : Fit.Msg.FieldBase :=
    match (if f.known then lookup profile mesgNum f.num else none) with
    | some fl => { baseOf fl with baseType := f.bt, array := f.array, profileBool := f.isBool }
    | none => { num := f.num, baseType := f.bt, array := f.array, nameKnown := f.known, profileBool := f.isBool }
  { base := some base, value := f.value, isExpanded := f.expanded }

def toMessage (m : Msg) : Fit.Msg.Message :=
  { num := m.num, fields := m.fields.map (toField m.num), devFields := m.devs.map fun d => ⟨d.idx, d.num, d.value⟩ }

/-- a message as the default decoder hands it out: record header byte and the message with its expanded fields -/
structure XMsg where
  header : Nat
  msg : Fit.Msg.Message
  deriving DecidableEq, Repr

inductive XEvent
  | mesgDef (d : MesgDef)
  | mesg (m : XMsg)
  deriving DecidableEq, Repr

/-- what a call returns: a FIT whose messages carry their expanded fields, or what (C) returns -/
inductive XOut
  | fit (hdr : Hdr) (msgs : List XMsg) (crc : Nat)
  | other (o : Out)
  deriving DecidableEq, Repr

/-- the expansion state of the decoder object: the accumulator and the (expanded) messages of the sequence so far -/
structure XSt where
  acc : Fit.Accum.Acc := []
  msgs : List XMsg := []
  deriving Repr

/-- the options under which (C) is run: standard factory, expansion off, every message visible -/
def inner (o : Opts) : Opts := { o with exp := false, ml := true, bo := false, fac := stdFactory }

def innerOp (o : Opts) : Op → Op
  | .reset _ b => .reset (inner o) b
  | op => op

/-- the messages a call decoded, expanded in order -/
def expandEvents (o : Opts) (x : XSt) (evs : List Event) : XSt × List XEvent :=
  evs.foldl (fun (p : XSt × List XEvent) e =>
    match e with
    | .mesgDef d => (p.1, if o.dl then p.2 ++ [.mesgDef d] else p.2)
    | .mesg m =>
      let r := Fit.Expand.decodeTail componentValue profile true p.1.acc (toMessage m)
      let xm : XMsg := ⟨m.header, r.2⟩
      ({ acc := r.1, msgs := p.1.msgs ++ [xm] }, if o.ml then p.2 ++ [.mesg xm] else p.2)) (x, [])

/-- does the call end the sequence (`reset()` runs: the accumulator and the stored messages are new)? A returned FIT, a
completed `Discard`, and `CheckIntegrity` / `Reset` whatever they return -/
def endsSeq : Op → Out → Bool
  | .checkIntegrity, _ => true
  | .reset _ _, _ => true
  | _, .fit _ => true
  | _, .done => true
  | _, _ => false

/-- what the call returns, the FIT's messages replaced by the expanded messages of the sequence -/
def xoutOf (o : Opts) (msgs : List XMsg) : Out → XOut
  | .fit f => .fit f.hdr (if o.bo then [] else msgs) f.crc
  | out => .other out

/-- one call of the history: `r` = what (C) returns for it and the listener calls it makes (`none`: nothing is demanded of
it — only `CheckIntegrity` in the specification of C07) -/
def walkOne (o : Opts) (x : XSt) (op : Op) (r : Option (Out × List Event)) : XSt × Option (XOut × List XEvent) :=
  match r with
  | none => (match op with | .checkIntegrity | .reset _ _ => {} | _ => x, none)
  | some (out, evs) =>
    let p := expandEvents o x evs
    (if endsSeq op out then {} else p.1, some (xoutOf o p.1.msgs out, p.2))

def walk (o : Opts) : XSt → List (Op × Option (Out × List Event)) → List (Option (XOut × List XEvent))
  | _, [] => []
  | x, (op, r) :: rest => (walkOne o x op r).2 :: walk o (walkOne o x op r).1 rest

/-- **the default decoder**: `decoder.New(bytes.NewReader(bytes), opts…)` with the standard factory and expansion on (`o.exp`,
`o.fac` are not read), driven through `ops` -/
def run (o : Opts) (bytes : List Nat) (ops : List Op) : List (Option (XOut × List XEvent)) :=
  let ops' := ops.map (innerOp o)
  walk o {} (ops'.zip ((Fit.DecApi.run (Api.fresh (inner o) bytes) ops').map some))

/-- **what C07 demands of it**: the same expansion applied to what the specification computes with NEW decoders -/
def spec (o : Opts) (bytes : List Nat) (ops : List Op) : List (Option (XOut × List XEvent)) :=
  let ops' := ops.map (innerOp o)
  walk o {} (ops'.zip (specRun (Spec.fresh (inner o) bytes) ops'))

end Fit.DecApi.Default
