import FitModel.WriterShort
/-!
The writer model with an explicit PANIC outcome (`Run.panic`).

`FitModel/Writer.lean` / `WriterShort.lean` give every operation of encoder.go / stream.go / writebuffer.go a total result.
Here every Go operation of those files that can panic is a GUARDED operation: its guard is evaluated on the state in which
the operation is reached; when the guard fails the outcome is `.panic`, when it holds the effect is the one of the model
(`…R` functions of `WriterShort.lean`, i.e. every answer a destination can give: success, error after `j` bytes, short
count without error). The control flow of the callers is written again over `Run` so that a panic propagates as in Go
(nothing recovers it). The guarded operations:

| Go operation | guard |
|---|---|
| `e.w.Write(…)`, `Flush` on a nil `e.w` (`newWriteBuffer(nil, …)` returns nil) | the writer is not nil (`nilw = false`) |
| bufio: `b.buf[b.n:]`, `b.buf[0:b.n]`, `copy(b.buf[0:b.n-n], b.buf[n:b.n])` | `W.bufOK`: buffered bytes ≤ buffer size (`Dest.writeR` never reports more than `len(p)` bytes taken) |
| `encodeFileHeader`: `b[:header.Size]`, `b[:12]`, `b[12:14]` of the marshalled header | `hdrSliceOK`: the bound is within the marshalled length (12 or 14; the length is the conservative bound, Go checks the capacity) |
| `updateFileHeader`: `b[:12]`, `b[12:14]`; `size := e.n - e.lastFileHeaderPos`, `Seek(-size)`, `Seek(size-n)`, `WriteAt(b, e.lastFileHeaderPos)` | `hdrSliceOK`; `offsetsOK`: `0 ≤ lastFileHeaderPos ≤ n` (a negative size / offset makes an in-memory destination index out of range; an `*os.File` answers with an error) |
| `lru.Put`: `l.items[cur]` (bucketIndex), `l.items[len(l.bucket)]` (store), `l.bucket[0]` (replace) | `Lru.putOK` |
| `encodeMessage`: `b[0] |= localMesgNum` | the marshalled definition is not empty |
| dry run, deferred revert: `mesg.Fields[:prevLen]`, `copy(mesg.Fields[i+1:], mesg.Fields[i:])`, `mesg.Fields[i] = timestampField` | `revertOK`: `i < prevLen` whenever the timestamp was compressed |

`cancel : Ctx` makes the same functions `EncodeWithContext` (`none` = `Encode` / a context that is never cancelled).
`FitProps/WriterPanicLemmas.lean` proves that from `Enc.new` / `Stream.new` on no guard ever fails (`C11_no_panic`) and that the
`.ret` outcomes are exactly the model's.
-/
namespace Fit.Writer
open Fit.Wire Fit.Crc

/-- outcome of a Go call: it returned (`a` carries a Go error, if any), or it panicked -/
inductive Run (α : Type)
  | ret (a : α)
  | panic
  deriving Repr

def Run.bind {α β : Type} (x : Run α) (f : α → Run β) : Run β :=
  match x with
  | .ret a => f a
  | .panic => .panic

def Run.isPanic {α : Type} : Run α → Bool
  | .panic => true
  | .ret _ => false

/-- a guarded operation: `.panic` when the guard fails -/
def guarded {α : Type} (g : Bool) (k : Run α) : Run α := if g then k else .panic

/-! ### guards -/

/-- `bufio.Writer`'s invariant `b.n ≤ len(b.buf)`; without it `b.buf[b.n:]` / `b.Available()` are out of range -/
def W.bufOK (w : W) : Bool := w.size == 0 || decide (w.buf.length ≤ w.size)

/-- length of `FileHeader.MarshalAppend` (proto_marshal.go: the CRC is appended when `Size ≥ 14`) -/
def hdrMarshalLen (h : Hdr) : Nat := if h.size ≥ 14 then 14 else 12

/-- `b[:header.Size]` when `Size ≠ 14`; `b[:12]` and `b[12:14]` when `Size = 14` -/
def hdrSliceOK (h : Hdr) : Bool :=
  if h.size = 14 then decide (14 ≤ hdrMarshalLen h) else decide (h.size ≤ hdrMarshalLen h)

/-- `size := e.n - e.lastFileHeaderPos` is not negative, the `WriteAt` offset is not negative -/
def Enc.offsetsOK (e : Enc) : Bool := decide (e.lastHdrPos ≤ e.n)

/-- `lru.Put` (lru.go) -/
def _root_.Fit.Wire.Lru.putOK (l : Lru) (item : Bytes) : Bool :=
  l.bucket.all (fun i => decide (i < l.cap)) &&                     -- `l.items[cur]` in `bucketIndex`
  decide (l.bucket.length ≤ l.cap) &&                               -- `store` (`len(l.bucket) != len(l.items)`): `l.items[len(l.bucket)]`
  ((l.bucket.find? (fun i => l.get i == some item)).isSome ||
    decide (l.bucket.length < l.cap) || !l.bucket.isEmpty)          -- `replaceLeastRecentlyUsed`: `l.bucket[0]`

/-- the message definition `encodeMessage` marshals (after the timestamp went into the header, if it did) -/
def msgDefBytes (o : Opts) (s : EncState) (m : WMsg) : Bytes :=
  let off := if o.compress then (compressTs o.arch s.tsRef s.tsLast m).2.2 else none
  let m' : WMsg := match off with
    | some _ => { m with fields := removeFirst tsFieldNum m.fields }
    | none => m
  defBytes o.arch m'

/-- `lru.Put(b)` and `b[0] |= localMesgNum` -/
def encodeMsgOK (o : Opts) (s : EncState) (m : WMsg) : Bool :=
  s.lru.putOK (msgDefBytes o s m) && !(msgDefBytes o s m).isEmpty

/-- the deferred revert of the dry run: `Fields[:prevLen]` (the capacity is untouched by `RemoveFieldByNum`),
`Fields[i+1:]` and `Fields[i]` with `i` the loop variable of the search (`tsIndex`), `prevLen = len(Fields)` before -/
def revertOK (o : Opts) (s : EncState) (m : WMsg) : Bool :=
  !(o.compress && (compressTs o.arch s.tsRef s.tsLast m).2.2.isSome) || decide (tsIndex m.fields < m.fields.length)

/-! ### guarded operations -/

/-- `e.w.Write(p)` -/
def W.writeG (nilw : Bool) (R : Sched) (w : W) (p : Bytes) : Run (W × Nat × Bool) :=
  guarded (!nilw) <| guarded w.bufOK <| .ret (w.writeR R p)

/-- `f.Flush()` when `e.w` is a flusher (a nil `e.w` is not: the type assertion fails, nothing is called) -/
def W.flushG (nilw : Bool) (R : Sched) (w : W) : Run (W × Bool) :=
  if nilw then .ret (w, true) else guarded w.bufOK <| .ret (w.flushR R)

def encodeFileHeaderG (nilw : Bool) (R : Sched) (e : Enc) (h : Hdr) (ds : Nat) : Run (Enc × Bool) :=
  guarded (hdrSliceOK h) <|
  (e.w.writeG nilw R (hdrBytesFrom e.crc h ds)).bind fun r =>
  .ret ({ e with lastHdrPos := e.n, w := r.1, n := e.n + r.2.1, crc := if h.size = 14 then 0 else e.crc }, r.2.2)

def writeRecordG (nilw : Bool) (R : Sched) (e : Enc) (b : Bytes) : Run (Enc × Bool) :=
  (e.w.writeG nilw R b).bind fun r =>
  let e' := { e with w := r.1, n := e.n + r.2.1, dataSize := (e.dataSize + r.2.1) % 4294967296 }
  .ret (if r.2.2 then ({ e' with crc := write e'.crc b }, true) else (e', false))

def encodeMessageG (nilw : Bool) (R : Sched) (o : Opts) (e : Enc) (m : WMsg) : Run (Enc × Bool) :=
  guarded (encodeMsgOK o e.es m) <|
  let parts := encodeMsgParts o e.es m
  let e1 := { e with es := parts.1 }
  match parts.2.1 with
  | some db => (writeRecordG nilw R e1 db).bind fun r => if r.2 then writeRecordG nilw R r.1 parts.2.2 else .ret r
  | none => writeRecordG nilw R e1 parts.2.2

/-- `encodeMessages` / `encodeMessagesWithContext` -/
def encodeMessagesG (nilw : Bool) (R : Sched) (o : Opts) : Ctx → Enc → List WMsg → Run (Enc × Ctx × Res)
  | c, e, [] => .ret (e, c, .ok)
  | c, e, m :: ms =>
    if c.cancelled then .ret (e, c, .ec)
    else (encodeMessageG nilw R o e m).bind fun r =>
      if r.2 then encodeMessagesG nilw R o c.tick r.1 ms else .ret (r.1, c.tick, .err)

def encodeCRCG (nilw : Bool) (R : Sched) (e : Enc) : Run (Enc × Bool) :=
  (e.w.writeG nilw R (le16 e.crc)).bind fun r =>
  let e' := { e with w := r.1, n := e.n + r.2.1 }
  .ret (if r.2.2 then ({ e' with crc := 0 }, true) else (e', false))

/-- `updateFileHeader` (reached only with a writer that is a `WriteSeeker` or a `WriterAt`, hence not nil) -/
def updateFileHeaderG (R : Sched) (e : Enc) (h : Hdr) (hdrDs : Nat) : Run (Enc × Nat × Bool) :=
  if hdrDs = e.dataSize then .ret (e, hdrDs, true)
  else guarded (hdrSliceOK h) <| guarded e.offsetsOK <| guarded e.w.bufOK <| .ret (updateFileHeaderR R e h hdrDs)

/-- one message of the dry run (`e.w == io.Discard`: its `Write` cannot panic) -/
def dryMessageG (o : Opts) (s : EncState) (m : WMsg) : Run (EncState × Nat × WMsg) :=
  guarded (encodeMsgOK o s m) <| guarded (revertOK o s m) <| .ret (dryMessage o s m)

/-- `calculateDataSize` / `calculateDataSizeWithContext` -/
def dryPassG (o : Opts) : Ctx → EncState → Nat → List WMsg → Run (Ctx × Option (Nat × List WMsg))
  | c, _, ds, [] => .ret (c, some (ds, []))
  | c, s, ds, m :: ms =>
    if c.cancelled then .ret (c, none)
    else (dryMessageG o s m).bind fun r =>
      (dryPassG o c.tick r.1 ((ds + r.2.1) % 4294967296) ms).bind fun rest =>
      .ret (rest.1, rest.2.map fun t => (t.1, r.2.2 :: t.2))

def encodeBodyG (nilw : Bool) (R : Sched) (o : Opts) (c : Ctx) (e : Enc) (h : Hdr) (ds : Nat) (ms : List WMsg) : Run (Enc × Ctx × Res) :=
  (encodeFileHeaderG nilw R e h ds).bind fun r1 =>
  if !r1.2 then .ret (r1.1, c, .err) else
  (encodeMessagesG nilw R o c r1.1 ms).bind fun r2 =>
  if r2.2.2 != .ok then .ret r2 else
  (encodeCRCG nilw R r2.1).bind fun r3 =>
  .ret (r3.1, r2.2.1, if r3.2 then .ok else .err)

def encodeDirectG (R : Sched) (o : Opts) (c : Ctx) (e : Enc) (h : Hdr) (ds0 : Nat) (ms : List WMsg) : Run (Enc × Ctx × Res) :=
  (encodeBodyG false R o c e h ds0 ms).bind fun r3 =>
  if r3.2.2 != .ok then .ret r3 else
  (updateFileHeaderG R r3.1 h ds0).bind fun r4 =>
  .ret (r4.1, r3.2.1, if r4.2.2 then .ok else .err)

def encodeEarlyG (cc : CtxCfg) (R : Sched) (o : Opts) (c : Ctx) (e : Enc) (h : Hdr) (ms : List WMsg) : Run (Enc × Ctx × Res × Bool) :=
  (dryPassG o c e.es e.dataSize ms).bind fun d =>
  match d with
  | (c', none) => .ret (e, c', .ec, !cc.restoresWriter)
  | (c', some dry) =>
    (encodeBodyG false R o c' (e.reset o) h dry.1 dry.2).bind fun r => .ret (r.1, r.2.1, r.2.2, false)

/-- `Encode` / `EncodeWithContext` after `validateMessages`. `nilw`: the encoder was made with a nil writer — the type switch
takes its `default` branch ("writer is nil"), no strategy runs. -/
def encodeG (cc : CtxCfg) (nilw : Bool) (R : Sched) (o : Opts) (c : Ctx) (x : EncC) (f : FitIn) : Run (EncC × Res) :=
  if nilw then .ret ({ x with e := x.e.reset o }, .err)
  else if x.discard then
    -- the early-check strategy against `io.Discard`: the dry run, the header, and a second pass that is a dry run as well
    -- (`e.w == io.Discard` holds in it too)
    (dryPassG o none x.e.es x.e.dataSize f.msgs).bind fun _ =>
    guarded (hdrSliceOK f.hdr) <|
    (dryPassG o none (freshEnc o) 0 f.msgs).bind fun _ =>
    .ret ({ x with e := x.e.reset o }, match c with
      | some k => if k < 2 * f.msgs.length then .ec else .ok
      | none => .ok)
  else
    (if x.e.w.kind.direct then
        (encodeDirectG R o c x.e f.hdr f.ds0 f.msgs).bind fun d => .ret (d.1, d.2.1, d.2.2, false)
      else encodeEarlyG cc R o c x.e f.hdr f.msgs).bind fun (r : Enc × Ctx × Res × Bool) =>
    let e' := r.1.reset o
    if r.2.2.1 != .ok then .ret ({ e := e', discard := r.2.2.2 }, r.2.2.1)
    else (e'.w.flushG false R).bind fun fl =>
      .ret ({ e := { e' with w := fl.1 }, discard := false }, if fl.2 then .ok else .err)

/-- `Encode` / `EncodeWithContext` as the API has them (validators in front, as `encodeV`) -/
def encodeVG {σ : Type} (V : MsgValidator σ) (cc : CtxCfg) (nilw : Bool) (R : Sched) (o : Opts) (c : Ctx) (x : EncC) (f : FitIn) : Run (EncC × Res) :=
  if f.msgs.isEmpty then .ret (x, .ee)
  else if !f.msgs.all (protoOK f.hdr.protoVer) then .ret (x, .ep)
  else
    match validateAll V V.init f.msgs with
    | none => .ret (x, .ev)
    | some ms' => encodeG cc nilw R o c x { f with msgs := ms' }

/-! ### stream encoder (`NewStream` refuses a nil writer and a plain one: the writer is never nil here) -/

def Stream.ensureHeaderG (R : Sched) (h : Hdr) (s : Stream) : Run (Stream × Bool) :=
  if s.written then .ret (s, true)
  else (encodeFileHeaderG false R s.e h s.hdrDs).bind fun r => .ret ({ s with e := r.1, written := r.2 }, r.2)

/-- `WriteMessage` -/
def Stream.writeMessageVG {σ : Type} (V : MsgValidator σ) (R : Sched) (o : Opts) (h : Hdr) (s : Stream) (vs : σ) (m : WMsg) :
    Run (Stream × σ × Res) :=
  (s.ensureHeaderG R h).bind fun r =>
  if !r.2 then .ret (r.1, vs, .err)
  else if !protoOK h.protoVer m then .ret (r.1, vs, .ep)
  else
    match V.step vs m with
    | (vs', none) => .ret (r.1, vs', .ev)
    | (vs', some m') =>
      (encodeMessageG false R o r.1.e m').bind fun r2 => .ret ({ r.1 with e := r2.1 }, vs', if r2.2 then .ok else .err)

/-- `SequenceCompleted` -/
def Stream.sequenceCompletedVG {σ : Type} (V : MsgValidator σ) (R : Sched) (c : StreamCfg) (o : Opts) (h : Hdr) (s : Stream) (vs : σ) :
    Run (Stream × σ × Res) :=
  (encodeCRCG false R s.e).bind fun r1 =>
  if !r1.2 then .ret ({ s with e := r1.1 }, vs, .err) else
  (updateFileHeaderG R r1.1 h s.hdrDs).bind fun r2 =>
  if !r2.2.2 then .ret ({ s with e := r2.1, hdrDs := r2.2.1 }, vs, .err) else
  let e' := r2.1.reset o
  (e'.w.flushG false R).bind fun fl =>
  .ret ({ e := { e' with w := fl.1 }, hdrDs := if c.clearsHeader then 0 else r2.2.1, written := false }, V.init,
        if fl.2 then .ok else .err)

/-! ### runs: any series of API calls on one encoder / one stream encoder -/

/-- one call on an `Encoder`: `Encode(fit)` (`ctx = none`) or `EncodeWithContext(ctx, fit)` -/
structure EncCall where
  ctx : Ctx
  fit : FitIn

/-- a series of calls on one `Encoder`, whatever the results (the caller may go on after an error); `.panic` as soon as a call panics -/
def runEncCalls {σ : Type} (V : MsgValidator σ) (cc : CtxCfg) (nilw : Bool) (R : Sched) (o : Opts) : EncC → List EncCall → Run (EncC × List Res)
  | x, [] => .ret (x, [])
  | x, c :: cs =>
    (encodeVG V cc nilw R o c.ctx x c.fit).bind fun r =>
    (runEncCalls V cc nilw R o r.1 cs).bind fun t => .ret (t.1, r.2 :: t.2)

/-- one call on a `StreamEncoder` -/
inductive StreamCall
  | writeMessage (m : WMsg)
  | sequenceCompleted

def runStreamCalls {σ : Type} (V : MsgValidator σ) (R : Sched) (sc : StreamCfg) (o : Opts) (h : Hdr) :
    Stream → σ → List StreamCall → Run (Stream × σ × List Res)
  | s, vs, [] => .ret (s, vs, [])
  | s, vs, c :: cs =>
    (match c with
      | .writeMessage m => s.writeMessageVG V R o h vs m
      | .sequenceCompleted => s.sequenceCompletedVG V R sc o h vs).bind fun r =>
    (runStreamCalls V R sc o h r.1 r.2.1 cs).bind fun t => .ret (t.1, t.2.1, r.2.2 :: t.2.2)

end Fit.Writer
