import FitModel.Csv
import FitModel.ScaleOffset
import FitModel.TimeAngle
/-!
The arithmetic of fitconv's scaled mode as the code computes it, built from the bit-exact binary64 model of
`FitModel/F64.lean` and the model of kit/scaleoffset and of the scaled path of fitcsv `parseValue`
(`FitModel/ScaleOffset.lean`, the definitions property C12 is about): the instance of the parameter `Arith` of the CSV
model. The text in between is taken to denote the float64 exactly (strconv: `ParseFloat(FormatFloat(x)) = x`) and to
contain a '.', which is what sends it through the scaled path.
-/
namespace Fit.Csv
open Fit.Value

/-- writer: `ApplyValue(v, scale, offset)` = `float64(v)/scale − offset` (the writer takes this path only for a field
that is not (scale 1, offset 0)); reader: `Discard`, `math.Round` for an integer base type, the base type's conversion
(`csvParseScaled`; no case of the switch = the zero `proto.Value`). The degrees option: `ToSemicircles(ToDegrees(s))` of
kit/semicircles over the same binary64 (FitModel/TimeAngle.lean; `C12_semicircles`: the identity on every int32 pattern). -/
def Arith.so : Arith where
  scaled v bt scale offset :=
    match Fit.ScaleOffset.scalarOf v with
    | some (t, p) =>
      some ((Fit.ScaleOffset.csvParseScaled (Fit.ScaleOffset.apply (Fit.ScaleOffset.toF64 t p) scale offset) bt scale offset).getD .invalid)
    | none => none
  degrees s := Fit.TimeAngle.toSemicircles (Fit.TimeAngle.toDegrees s)
  fscaled x bt scale offset := Fit.ScaleOffset.csvParseScaled x bt scale offset

end Fit.Csv
