import FitModel.Crc
/-!
Wire-level model of the encoder (`/repo/encoder/encoder.go`: `encodeMessage`, `compressTimestampIntoHeader`,
`newMessageDefinition`, `encodeFileHeader`, `encodeCRC`, per-sequence `reset`; `/repo/encoder/lru.go`;
`/repo/proto/proto_marshal.go`) and of the record framing of the decoder (`/repo/decoder/decoder.go`:
`decodeFileHeader`, `decodeMessage`, `decodeMessageDefinition`, `decodeMessageData` as far as bytes are
consumed, timestamps tracked and field descriptions recorded, `decodeDeveloperFields` as far as bytes are consumed
and the base type of the field description a developer field refers to is checked, `decodeCRC`).

"Wire level": a field value is the byte string its `proto.Value` marshals to in the encoder's byte order
(`Value.MarshalAppend`, modelled and proved in `FitModel/Value.lean` / C06) together with the value's
`proto.Type` tag; what the decoder makes of those bytes (`decodeFields`, profile look-ups, component
expansion) is the interpretation layer (`FitModel/Decoder.lean`).
Bytes are `Nat`s (< 256 where it matters: `Fit.Wire.IsBytes`); Go machine integers wrap with `% 2^w`.
-/
namespace Fit.Wire
open Fit.Crc

abbrev Bytes := List Nat

def IsBytes (bs : Bytes) : Prop := ∀ b ∈ bs, b < 256

/-! ### messages as the encoder sees them after validation -/

structure WField where
  num : Nat            -- field number (byte)
  bt : Nat             -- base type byte of the field's FieldBase
  tag : Nat            -- proto.Type of the value (7 = TypeUint32)
  data : Bytes         -- Value.MarshalAppend in the encoder's byte order; data.length = Value.Size()
  deriving DecidableEq, Repr, Inhabited

structure WDev where
  num : Nat            -- developer field number
  idx : Nat            -- developer data index
  data : Bytes
  deriving DecidableEq, Repr, Inhabited

structure WMsg where
  num : Nat            -- global message number (uint16)
  fields : List WField
  devs : List WDev
  deriving DecidableEq, Repr, Inhabited

structure Opts where
  arch : Nat           -- 0 = little-endian, 1 = big-endian (options.endianness)
  compress : Bool      -- HeaderOptionCompressedTimestamp
  lruCap : Nat         -- options.localMessageType + 1
  deriving DecidableEq, Repr, Inhabited

def tagUint32 : Nat := 7
def tsFieldNum : Nat := 253
def u32Invalid : Nat := 0xFFFFFFFF
def dateTimeMin : Nat := 0x10000000

def le16 (v : Nat) : Bytes := [v % 256, v / 256 % 256]
def le32 (v : Nat) : Bytes := [v % 256, v / 256 % 256, v / 65536 % 256, v / 16777216 % 256]

/-- uint32 from 4 bytes in byte order `arch` (`binary.LittleEndian/BigEndian.Uint32`) -/
def u32Of (arch : Nat) : Bytes → Option Nat
  | [a, b, c, d] => some (if arch = 0 then a + 256 * b + 65536 * c + 16777216 * d
                          else d + 256 * c + 65536 * b + 16777216 * a)
  | _ => none

/-- the timestamp of a message as the property reads it — `mesg.FieldValueByNum(253).Uint32()`: the first
field numbered 253; anything that is not a `TypeUint32` value reads as the invalid sentinel. (The encoder's
own reading, `encTsOf`, additionally wants the declared base type to be uint32/uint32z.) -/
def tsOf (arch : Nat) (m : WMsg) : Nat :=
  match m.fields.find? (·.num == tsFieldNum) with
  | some f => if f.tag == tagUint32 then (u32Of arch f.data).getD u32Invalid else u32Invalid
  | none => u32Invalid

/-- `RemoveFieldByNum`: removes the first field with that number -/
def removeFirst (num : Nat) : List WField → List WField
  | [] => []
  | f :: fs => if f.num == num then fs else f :: removeFirst num fs

/-- a field 253 whose decoding every decoder agrees on: a `TypeUint32` value (four bytes) declared with base
type uint32 or uint32z — its value; `none` for anything else (`field.Value.Type() == proto.TypeUint32 &&
(field.BaseType == basetype.Uint32 || field.BaseType == basetype.Uint32z)`) -/
def cleanTs (arch : Nat) (f : WField) : Option Nat :=
  if f.tag == tagUint32 && (f.bt == 0x86 || f.bt == 0x8C) then u32Of arch f.data else none

/-- the loop of `compressTimestampIntoHeader` over the message's fields, as far as `e.lastTimestamp` goes:
every field 253 sets it, to its value when it is a plain uint32, else to 0 ("cannot be told") -/
def trackLast (arch : Nat) (last : Nat) (fs : List WField) : Nat :=
  fs.foldl (fun last f => if f.num == tsFieldNum then (cleanTs arch f).getD 0 else last) last

/-- the same loop as far as `timestamp` goes: the value of the FIRST field 253 when that is a plain uint32,
else the invalid sentinel -/
def encTsOf (arch : Nat) (m : WMsg) : Nat :=
  match m.fields.find? (·.num == tsFieldNum) with
  | some f => (cleanTs arch f).getD u32Invalid
  | none => u32Invalid

/-- `compressTimestampIntoHeader`: new timestamp reference, new last timestamp and, when the timestamp goes
into the header, the 5-bit time offset. A timestamp is compressed only when it is less than 32 s past the
reference (which moves on roll-over only) AND less than 32 s past the last timestamp a decoder has seen. -/
def compressTs (arch tsRef tsLast : Nat) (m : WMsg) : Nat × Nat × Option Nat :=
  let ts := encTsOf arch m
  let last' := trackLast arch tsLast m.fields
  if ts == u32Invalid then (tsRef, last', none)
  else if ts < dateTimeMin then (tsRef, last', none)
  else if (ts + 4294967296 - tsRef) % 4294967296 > 31 || (ts + 4294967296 - tsLast) % 4294967296 > 31 then (ts, last', none)
  else (tsRef, last', some (ts % 32))

/-! ### message definition and data record bytes -/

/-- `MessageDefinition.MarshalAppend` of `newMessageDefinition(mesg)` — header byte without the local
number; sizes and counts are truncated to a byte as `byte(...)` does. -/
def defBytes (arch : Nat) (m : WMsg) : Bytes :=
  [(if m.devs.isEmpty then 0x40 else 0x60), 0, arch] ++
  (if arch = 0 then [m.num % 256, m.num / 256 % 256] else [m.num / 256 % 256, m.num % 256]) ++
  [m.fields.length % 256] ++ m.fields.flatMap (fun f => [f.num, f.data.length % 256, f.bt]) ++
  (if m.devs.isEmpty then [] else
    [m.devs.length % 256] ++ m.devs.flatMap (fun d => [d.num, d.data.length % 256, d.idx]))

def payload (m : WMsg) : Bytes := m.fields.flatMap (·.data) ++ m.devs.flatMap (·.data)

/-! ### LRU of local message numbers (encoder/lru.go) -/

structure Lru where
  cap : Nat                     -- len(l.items)
  items : List (Nat × Bytes)    -- association list index ↦ stored definition bytes
  bucket : List Nat             -- indexes, least recently used first
  deriving Repr, Inhabited

def Lru.get (l : Lru) (i : Nat) : Option Bytes := (l.items.find? (·.1 == i)).map (·.2)
def Lru.set (l : Lru) (i : Nat) (b : Bytes) : Lru :=
  { l with items := (i, b) :: l.items.filter (·.1 != i) }

def Lru.empty (cap : Nat) : Lru := ⟨cap, [], []⟩

/-- `bucketIndex` searches from the most recently used end; items are distinct, so which end the
search starts from is not observable. `Put` returns (index, isNewItem). -/
def Lru.put (l : Lru) (item : Bytes) : Lru × Nat × Bool :=
  match l.bucket.find? (fun i => l.get i == some item) with
  | some i => ({ l with bucket := l.bucket.filter (· != i) ++ [i] }, i, false)
  | none =>
    if l.bucket.length < l.cap then
      let i := l.bucket.length
      ({ (l.set i item) with bucket := l.bucket ++ [i] }, i, true)
    else
      match l.bucket with
      | [] => (l, 0, true)          -- cap = 0 cannot happen (cap = localMessageType + 1 ≥ 1)
      | i :: rest => ({ (l.set i item) with bucket := rest ++ [i] }, i, true)

/-! ### encoder -/

/-- the definition record written for `m` under local number `i` (`b[0] |= localMesgNum`) -/
def defRecord (arch i : Nat) (m : WMsg) : Bytes :=
  match defBytes arch m with
  | h :: rest => (h ||| i) :: rest
  | [] => []

structure EncState where
  lru : Lru
  tsRef : Nat          -- e.timestampReference
  tsLast : Nat         -- e.lastTimestamp
  deriving Repr, Inhabited

/-- `encodeMessage`: bytes written for one message (definition when new, then the data record). -/
def encodeMsg (o : Opts) (s : EncState) (m : WMsg) : EncState × Bytes :=
  let (tsRef', tsLast', off) := if o.compress then compressTs o.arch s.tsRef s.tsLast m else (s.tsRef, s.tsLast, none)
  let m' : WMsg := match off with
    | some _ => { m with fields := removeFirst tsFieldNum m.fields }
    | none => m
  let db := defBytes o.arch m'
  let (lru', i, isNew) := s.lru.put db
  let hdr := match off with
    | some t => (0x80 ||| t) ||| ((i <<< 5) % 256)
    | none => i
  ({ lru := lru', tsRef := tsRef', tsLast := tsLast' }, (if isNew then defRecord o.arch i m' else []) ++ (hdr :: payload m'))

def encodeMsgs (o : Opts) : EncState → List WMsg → Bytes
  | _, [] => []
  | s, m :: ms => let (s', out) := encodeMsg o s m; out ++ encodeMsgs o s' ms

/-- file header fields as `encodeFileHeader` leaves them -/
structure Hdr where
  size : Nat          -- 12 (legacy) or 14
  protoVer : Nat
  profileVer : Nat
  deriving DecidableEq, Repr, Inhabited

def hdrBytes (h : Hdr) (dataSize : Nat) : Bytes :=
  let b12 := [h.size, h.protoVer] ++ le16 h.profileVer ++ le32 dataSize ++ [0x2E, 0x46, 0x49, 0x54]
  if h.size = 14 then b12 ++ le16 (write 0 b12) else b12

/-- `selectProtocolVersion`: the option overrides; a zero header value defaults to 1.0 -/
def selectProtoVer (optPv hdrPv : Nat) : Nat :=
  if optPv != 0 then optPv else if hdrPv == 0 then 16 else hdrPv

/-- header as `encodeFileHeader` normalises it (`defaultProfile` = profile.Version) -/
def mkHdr (size pv profileVer defaultProfile : Nat) : Hdr :=
  ⟨if size = 12 then 12 else 14, pv, if profileVer = 0 then defaultProfile else profileVer⟩

/-- `validateMessages` with a pass-through message validator: empty list, then the protocol validator
(`proto.Validator.ValidateMessage`: version 1.0 has neither developer fields nor base types after `byte`) -/
def validateFile (pv : Nat) (ms : List WMsg) : Option String :=
  if ms.isEmpty then some "err:empty"
  else if pv == 16 && ms.any (fun m => !m.devs.isEmpty || m.fields.any (fun f => f.bt &&& 0x1F > 13)) then some "err:proto"
  else none

def freshEnc (o : Opts) : EncState := { lru := Lru.empty o.lruCap, tsRef := 0, tsLast := 0 }

/-- one FIT sequence as it ends up at the destination: header (with the final data size and header
CRC), records, file CRC (of the records only — the hash is reset after the header). -/
def encodeFit (o : Opts) (h : Hdr) (ms : List WMsg) : Bytes :=
  let recs := encodeMsgs o (freshEnc o) ms
  hdrBytes h (recs.length % 4294967296) ++ recs ++ le16 (write 0 recs)

/-- chained files: the encoder is reset between sequences -/
def encodeChain (o : Opts) (fits : List (Hdr × List WMsg)) : Bytes :=
  fits.flatMap (fun f => encodeFit o f.1 f.2)

/-- `basetype.BaseType.Valid` -/
def validBaseType (b : Nat) : Bool :=
  b == 0x00 || b == 0x01 || b == 0x02 || b == 0x83 || b == 0x84 || b == 0x85 || b == 0x86 || b == 0x07 ||
  b == 0x88 || b == 0x89 || b == 0x0A || b == 0x8B || b == 0x8C || b == 0x0D || b == 0x8E || b == 0x8F || b == 0x90

/-! ### decidable forms of the well-formedness predicates used by the theorems (FitProps/WireLemmas.lean
proves that they imply the propositional forms) -/

def msgOKB (m : WMsg) : Bool :=
  decide (m.num < 65536) && decide (m.fields.length ≤ 255) && decide (m.devs.length ≤ 255) &&
  m.fields.all (fun f => decide (f.data.length ≤ 255) && validBaseType f.bt && f.data.all (fun b => decide (b < 256))) &&
  m.devs.all (fun d => decide (d.data.length ≤ 255))

def optsOKB (o : Opts) : Bool :=
  (o.arch == 0 || o.arch == 1) && decide (0 < o.lruCap) && decide (o.lruCap ≤ 16) && (!o.compress || decide (o.lruCap ≤ 4))

def fitOKB (o : Opts) (h : Hdr) (ms : List WMsg) : Bool :=
  (h.size == 12 || h.size == 14) && decide (h.profileVer < 65536) && !ms.isEmpty && ms.all msgOKB &&
  decide ((encodeMsgs o (freshEnc o) ms).length < 4294967296)

/-! ### decoder framing -/

structure FieldDef where
  num : Nat
  size : Nat
  bt : Nat
  deriving DecidableEq, Repr, Inhabited

structure DevDef where
  num : Nat
  size : Nat
  idx : Nat
  deriving DecidableEq, Repr, Inhabited

structure MesgDef where
  header : Nat
  arch : Nat
  mesgNum : Nat
  fields : List FieldDef
  devs : List DevDef
  deriving DecidableEq, Repr, Inhabited

inductive Err
  | eof | notFit | crcMismatch | defMissing | invalidBaseType
  deriving DecidableEq, Repr, Inhabited

def parseFieldDefs : Nat → Bytes → Except Err (List FieldDef × Bytes)
  | 0, bs => .ok ([], bs)
  | n+1, a :: b :: c :: bs =>
      match parseFieldDefs n bs with
      | .ok (fs, rest) => .ok (⟨a, b, c⟩ :: fs, rest)
      | .error e => .error e
  | _+1, _ => .error .eof

def parseDevDefs : Nat → Bytes → Except Err (List DevDef × Bytes)
  | 0, bs => .ok ([], bs)
  | n+1, a :: b :: c :: bs =>
      match parseDevDefs n bs with
      | .ok (fs, rest) => .ok (⟨a, b, c⟩ :: fs, rest)
      | .error e => .error e
  | _+1, _ => .error .eof

/-- a decoded data record at wire level -/
structure WRec where
  header : Nat
  num : Nat
  arch : Nat
  ts : Option Nat                 -- reconstructed timestamp of a compressed-timestamp record
  fields : List (FieldDef × Bytes)
  /-- the bytes read for EVERY developer field definition, with or without field description; what ends up in
  `mesg.DeveloperFields` is `devsKept` of them under the field descriptions known at that point -/
  devs : List (DevDef × Bytes)
  deriving DecidableEq, Repr, Inhabited

def takeFields : List FieldDef → Bytes → Except Err (List (FieldDef × Bytes) × Bytes)
  | [], bs => .ok ([], bs)
  | fd :: fds, bs =>
    if bs.length < fd.size then .error .eof else
      match takeFields fds (bs.drop fd.size) with
      | .ok (fs, rest) => .ok ((fd, bs.take fd.size) :: fs, rest)
      | .error e => .error e

/-! #### field descriptions (`d.fieldDescriptions`) and developer fields (`decodeDeveloperFields`) -/

/-- what the decoder keeps of a `field_description` message as far as framing goes: (developer data index,
field definition number, fit base type id) — `mesgdef.NewFieldDescription(&mesg)` -/
abbrev Desc := Nat × Nat × Nat

def mesgNumFieldDescription : Nat := 206
def uint8Invalid : Nat := 255

/-- the fields `decodeFields` appends to the message, by number: a field of size 0 is skipped ("Size is zero. Skip") -/
def readFields (fs : List (FieldDef × Bytes)) : List (Nat × Bytes) :=
  (fs.filter fun p => p.1.size != 0).map fun p => (p.1.num, p.2)

/-- `vals[num].Uint8()` of `FieldDescription.Reset`: the LAST field with that number wins (`vals[num] = value` in a
loop over the fields); none: the invalid value 255. The decoder's factory knows fields 0, 1, 2 of message 206 as plain
one-byte fields (the standard factory; `Fit.Gen.Integ.fdFieldsPlain` is regenerated from the source): whatever base
type and size the definition declares, the value is the FIRST BYTE of the field (size > 1 and not an array: "retrieve
first array's value only"). -/
def lastVal (vals : List (Nat × Bytes)) (num : Nat) : Nat :=
  match (vals.filter fun p => p.1 = num).getLast? with
  | some p => p.2.headD 0
  | none => uint8Invalid

/-- `decodeMessageData`: `case mesgnum.FieldDescription: d.fieldDescriptions = append(d.fieldDescriptions, …)` — after
the fields of the message are decoded, BEFORE its developer fields are -/
def noteDesc (descs : List Desc) (mesgNum : Nat) (fs : List (FieldDef × Bytes)) : List Desc :=
  if mesgNum = mesgNumFieldDescription then
    descs ++ [(lastVal (readFields fs) 0, lastVal (readFields fs) 1, lastVal (readFields fs) 2)]
  else descs

/-- the loop over `d.fieldDescriptions` in `decodeDeveloperFields`: the FIRST (oldest) description of the sequence with
that developer data index and field definition number -/
def findDesc (descs : List Desc) (dd : DevDef) : Option Desc :=
  descs.find? fun d => d.1 = dd.idx ∧ d.2.1 = dd.num

/-- `!fieldDesc.FitBaseTypeId.Valid()` for the description the developer field refers to (no description: the bytes
are read and skipped, no error) -/
def descInvalid (descs : List Desc) (dd : DevDef) : Bool :=
  match findDesc descs dd with
  | some d => !validBaseType d.2.2
  | none => false

/-- `decodeDeveloperFields` as far as bytes and errors go, field by field in order: a developer field whose field
description carries an invalid base type ends the decoding (`errInvalidBaseType`, before any byte of it is read);
otherwise its `size` bytes are read (with a description and size 0: nothing is read, the field is skipped) -/
def takeDevs (descs : List Desc) : List DevDef → Bytes → Except Err (List (DevDef × Bytes) × Bytes)
  | [], bs => .ok ([], bs)
  | fd :: fds, bs =>
    if descInvalid descs fd then .error .invalidBaseType else
    if bs.length < fd.size then .error .eof else
      match takeDevs descs fds (bs.drop fd.size) with
      | .ok (fs, rest) => .ok ((fd, bs.take fd.size) :: fs, rest)
      | .error e => .error e

/-- the developer fields that end up in `mesg.DeveloperFields`: those with a field description and a size other than 0 -/
def devsKept (descs : List Desc) (ds : List (DevDef × Bytes)) : List (DevDef × Bytes) :=
  ds.filter fun p => (findDesc descs p.1).isSome && p.1.size != 0

/-- little-endian value of a byte string (`value |= b[i] << (i*8)`) -/
def asmLE : Bytes → Nat
  | [] => 0
  | b :: bs => b + 256 * asmLE bs
/-- big-endian value of a byte string -/
def asmBE (bs : Bytes) : Nat := bs.foldl (fun acc b => acc * 256 + b) 0

/-- how the decoder reads field 253 of a message for timestamp tracking: `none` when the decoded value is
not a `TypeUint32` (no update), else the new timestamp. `known` = the factory knows field 253 of this
message (it is then a non-array uint32): the value is the first four bytes, or — size below four — the
bytes assembled by `convertBytesToValue`. Unknown field: the definition's base type decides. -/
def tsFromField (known : Bool) (arch : Nat) (fd : FieldDef) (data : Bytes) : Option Nat :=
  let asm (bs : Bytes) : Nat := if arch = 0 then asmLE bs else asmBE bs
  if fd.size = 0 then none
  else if known then
    if fd.size < 4 then some (asm data) else some (asm (data.take 4))
  else if fd.bt == 0x86 || fd.bt == 0x8C then
    if fd.size < 4 then some (asm data)
    else if fd.size > 4 && fd.size % 4 == 0 then none    -- decoded as an array
    else some (asm (data.take 4))
  else none

structure DecState where
  defs : List (Nat × MesgDef)     -- local number ↦ live definition (association list, newest first)
  timestamp : Nat
  lastOff : Nat
  descs : List Desc               -- `d.fieldDescriptions` of the sequence, oldest first
  deriving Repr, Inhabited

/-- state at the start of a sequence (`reset()` / `releaseTemporaryObjects()` after every `Decode`: definitions,
timestamp state and field descriptions do not survive a sequence) -/
def DecState.fresh : DecState := ⟨[], 0, 0, []⟩

def DecState.lookup (s : DecState) (i : Nat) : Option MesgDef := (s.defs.find? (·.1 == i)).map (·.2)

/-- timestamp tracking in `decodeFields`: every field numbered 253, in order, may set the active timestamp -/
def trackTs (known : Bool) (arch : Nat) (st : DecState) (fs : List (FieldDef × Bytes)) : DecState :=
  fs.foldl (fun st (fd, data) =>
    if fd.num == tsFieldNum then
      match tsFromField known arch fd data with
      | some t => { st with timestamp := t, lastOff := t % 32 }
      | none => st
    else st) st

/-- header byte of a compressed-timestamp record: local number in bits 5–6, time offset in bits 0–4 -/
def decompressHdr (s : DecState) (h : Nat) : DecState × Nat :=
  let off := h &&& 0x1F
  let t := (s.timestamp + ((off + 32 - s.lastOff) % 32)) % 4294967296
  ({ s with timestamp := t, lastOff := off }, t)

inductive Item
  | def_ (local_ : Nat) (d : MesgDef)
  | data (r : WRec)
  deriving Repr, Inhabited

/-- `decodeMessage` on the bytes that follow (`tsKnown mesgNum` = factory knows field 253 of that message):
the item, the new state and the rest of the input. -/
def decodeRecord (tsKnown : Nat → Bool) (s : DecState) : Bytes → Except Err (Item × DecState × Bytes)
  | [] => .error .eof
  | h :: bs =>
    if h &&& 0xC0 == 0x40 then
      match bs with
      | _res :: arch :: m0 :: m1 :: n :: bs1 =>
        let mesgNum := if arch = 0 then m0 + 256 * m1 else m1 + 256 * m0
        match parseFieldDefs n bs1 with
        | .error e => .error e
        | .ok (fds, bs2) =>
          if fds.any (fun f => !validBaseType f.bt) then .error .invalidBaseType else
          if h &&& 0x20 == 0x20 then
            match bs2 with
            | [] => .error .eof
            | k :: bs3 =>
              match parseDevDefs k bs3 with
              | .error e => .error e
              | .ok (dds, bs4) =>
                let d : MesgDef := ⟨h, arch, mesgNum, fds, dds⟩
                .ok (.def_ (h &&& 0xF) d, { s with defs := (h &&& 0xF, d) :: s.defs }, bs4)
          else
            let d : MesgDef := ⟨h, arch, mesgNum, fds, []⟩
            .ok (.def_ (h &&& 0xF) d, { s with defs := (h &&& 0xF, d) :: s.defs }, bs2)
      | _ => .error .eof
    else
      let compressed := h &&& 0x80 == 0x80
      let local_ := (if compressed then (h &&& 0x60) >>> 5 else h) &&& 0xF
      match s.lookup local_ with
      | none => .error .defMissing
      | some d =>
        let (s1, ts) := if compressed then
            let (s', t) := decompressHdr s h
            (s', some t)
          else (s, none)
        match takeFields d.fields bs with
        | .error e => .error e
        | .ok (fs, bs1) =>
          let s2 := trackTs (tsKnown d.mesgNum) d.arch s1 fs
          let descs := noteDesc s2.descs d.mesgNum fs
          match takeDevs descs d.devs bs1 with
          | .error e => .error e
          | .ok (ds, bs2) =>
            .ok (.data ⟨h, d.mesgNum, d.arch, ts, fs, ds⟩, { s2 with descs := descs }, bs2)

/-- `decodeMessages`: records until `dataSize` bytes are consumed (the last record may overrun it, as in
the code: the loop condition is tested between records only). `fuel` bounds the number of records.
Returns the items decoded so far (listeners have seen them) and the rest of the input or the error. -/
def decodeRecords (tsKnown : Nat → Bool) : Nat → DecState → Nat → Bytes → List Item × Except Err Bytes
  | 0, _, remaining, bs => if remaining = 0 then ([], .ok bs) else ([], .error .eof)
  | fuel+1, s, remaining, bs =>
    if remaining = 0 then ([], .ok bs) else
      match decodeRecord tsKnown s bs with
      | .error e => ([], .error e)
      | .ok (it, s', rest) =>
        let used := bs.length - rest.length
        let (its, r) := decodeRecords tsKnown fuel s' (remaining - used) rest
        (it :: its, r)

structure DecHdr where
  size : Nat
  protoVer : Nat
  profileVer : Nat
  dataSize : Nat
  crc : Nat
  deriving DecidableEq, Repr, Inhabited

/-- `decodeFileHeader` (with `shouldChecksum = checksum`) -/
def decodeHeader (checksum : Bool) : Bytes → Except Err (DecHdr × Bytes)
  | [] => .error .eof
  | size :: bs =>
    if size != 12 && size != 14 then .error .notFit else
    if bs.length < size - 1 then .error .eof else
    let b := bs.take (size - 1)
    let rest := bs.drop (size - 1)
    if (b.drop 7).take 4 != [0x2E, 0x46, 0x49, 0x54] then .error .notFit else
    let dataSize := b.getD 3 0 + 256 * b.getD 4 0 + 65536 * b.getD 5 0 + 16777216 * b.getD 6 0
    if dataSize = 0 then .error .notFit else
    let crc := if size == 14 then b.getD 11 0 + 256 * b.getD 12 0 else 0
    let h : DecHdr := ⟨size, b.getD 0 0, b.getD 1 0 + 256 * b.getD 2 0, dataSize, crc⟩
    if crc == 0 || !checksum then .ok (h, rest)
    else if write 0 (size :: b.take 11) != crc then .error .crcMismatch
    else .ok (h, rest)

structure DecFit where
  hdr : DecHdr
  items : List Item
  crc : Nat
  deriving Repr, Inhabited

/-- `Decode()` of one sequence at wire level, from a decoder with fresh per-sequence state: the items the
listeners saw, and the decoded sequence with the rest of the input, or the error. -/
def decodeFit (tsKnown : Nat → Bool) (checksum : Bool) (bs : Bytes) : List Item × Except Err (DecFit × Bytes) :=
  match decodeHeader checksum bs with
  | .error e => ([], .error e)
  | .ok (h, rest) =>
    match decodeRecords tsKnown rest.length DecState.fresh h.dataSize rest with
    | (items, .error e) => (items, .error e)
    | (items, .ok rest2) =>
      match rest2 with
      | c0 :: c1 :: rest3 =>
        let crc := c0 + 256 * c1
        let consumed := (rest.take (rest.length - rest2.length))
        if checksum && write 0 consumed != crc then (items, .error .crcMismatch)
        else (items, .ok (⟨h, items, crc⟩, rest3))
      | _ => (items, .error .eof)

/-- what a client of `for dec.Next() { dec.Decode() }` observes -/
inductive Ev
  | item (i : Item)
  | seq (f : DecFit)
  deriving Repr, Inhabited

/-- the `Next`/`Decode` loop: the first `Next` is always true; later ones are true iff a file header
decodes; the loop ends silently when it does not, and with the error of a failing `Decode`. -/
def decodeStream (tsKnown : Nat → Bool) (checksum : Bool) : Nat → Bool → Bytes → List Ev × Option Err
  | 0, _, _ => ([], none)
  | fuel+1, first, bs =>
    if !first && (decodeHeader checksum bs).toOption.isNone then ([], none) else
    match decodeFit tsKnown checksum bs with
    | (items, .error e) => (items.map .item, some e)
    | (items, .ok (f, rest)) =>
      let (evs, e) := decodeStream tsKnown checksum fuel false rest
      (items.map .item ++ [.seq f] ++ evs, e)

/-! ### what the round trip needs of the written messages (decidable; see FitProps/C01.lean)

The decoder refuses a developer field whose field description — the FIRST `field_description` message of the sequence
with its developer data index and field number, the message itself included — carries an invalid base type
(`errInvalidBaseType`). The message validator of the encoder never lets such a developer field through (it is dropped
as invalid or the message is rejected: `valueIntegrity` against the description's base type); a pass-through validator
does. `msgsDescOK [] ms`: no developer field of `ms` refers to such a description, read as the DECODER reads it. -/

/-- the wire fields of a written message as the decoder takes them (definition triple, bytes) -/
def wireFields (m : WMsg) : List (FieldDef × Bytes) :=
  m.fields.map fun f => (⟨f.num, f.data.length % 256, f.bt⟩, f.data)

def devsDescOK (descs : List Desc) (devs : List WDev) : Bool :=
  devs.all fun d => !descInvalid descs ⟨d.num, d.data.length % 256, d.idx⟩

def msgsDescOK : List Desc → List WMsg → Bool
  | _, [] => true
  | descs, m :: ms =>
    let descs' := noteDesc descs m.num (wireFields m)
    devsDescOK descs' m.devs && msgsDescOK descs' ms

/-! ### what `Encode` stores back into the caller's `proto.FIT` (appended for C02's write-back clause)

Closed form: the values `Encode` leaves in `fit.FileHeader` (Size, ProtocolVersion, ProfileVersion, DataSize, CRC) and in
`fit.CRC` after a successful call on the (normalised) header `h`. The step-by-step account of how the code gets there —
`encodeFileHeader` / `encodeCRC` / `updateFileHeader` / `calculateDataSize`, on either strategy, under any fault
schedule — is `Writer.encodeWB` (FitModel/Writer.lean); `C02_writeback_steps` proves the two equal on every successful
call and `C02_writeback` that these are the values on the wire. -/

structure WriteBack where
  size : Nat
  protoVer : Nat
  profileVer : Nat
  /-- `fit.FileHeader.DataSize` -/
  dataSize : Nat
  /-- `fit.FileHeader.CRC` (0 for a 12-byte header) -/
  hcrc : Nat
  /-- `fit.CRC` -/
  crc : Nat
  deriving DecidableEq, Repr, Inhabited

/-- `header.CRC` as `encodeFileHeader` / `updateFileHeader` compute it from the running hash `crc0` (reset whenever the
code gets there): the CRC-16 of the twelve marshalled bytes for a 14-byte header; `header.CRC = 0 // recalculated` stays for a 12-byte one -/
def hdrCrcBack (crc0 : Nat) (h : Hdr) (ds : Nat) : Nat :=
  if h.size = 14 then write crc0 ([h.size, h.protoVer] ++ le16 h.profileVer ++ le32 ds ++ [0x2E, 0x46, 0x49, 0x54]) else 0

def writeBack (o : Opts) (h : Hdr) (ms : List WMsg) : WriteBack :=
  let recs := encodeMsgs o (freshEnc o) ms
  let ds := recs.length % 4294967296
  { size := h.size, protoVer := h.protoVer, profileVer := h.profileVer, dataSize := ds,
    hcrc := hdrCrcBack 0 h ds, crc := write 0 recs }

end Fit.Wire
