import FitModel.Physical
import FitModel.Message
import FitModel.ProfileArithTypes
import FitModel.Expand
/-!
SPECIFICATION of component expansion (C05), written without the decoder's machinery: no bit store
(`Fit.Bits`), no `Accumulator` table (`Fit.Accum`), no index loops of `expandComponents`.

* **slices**: the containing value is ONE natural number (`container`, i.e. `Physical.containerNat` on unsigned
  values: little-endian, element 0 least significant); component k is `sliceAt n (Σ bits of the earlier components) bits_k`; with several
  components the first zero slice ends the expansion of that container.
* **running totals** (`Runs`): per (message number, destination field) the total a wrapping counter stands
  for, counted in units of the accumulating component (the physical total is `total / cScale − cOffset`):
    - a wire value `v` of the destination field seeds it with the total whose physical value is exactly `v`
      (`seed`: `((v / dScale − dOffset) + cOffset) × cScale`, demanded to be a whole number — otherwise the
      property does not say which reading the counter had, and the specification is undetermined: `none`);
      for an array the last element is the latest total;
    - a sample `s` of an accumulating component of `w` bits advances the total to the least total not below
      it that a `w`-bit counter showing `s` can stand for (`advance`); with no total yet the first reading is
      the total;
    - totals beyond 2^32 − 1 are outside the statement (`none`): the decoder keeps a uint32.
* **destination**: looked up in the regenerated profile table (`destOf`; an unknown number is the factory's unknown
  field: enum, scale 1, offset 0); the value replaces that of the LAST field with the destination's number, or is
  appended to it when that field is an array, or a new field flagged expanded is appended (`put`).
* **value** of a slice / total `T`: `convertU32 (cv T cScale cOffset dScale dOffset) dBaseType`; `cv` is the
  arithmetic under judgement (C05 demands `Physical.exactValue` where defined and `withinOne` otherwise).
* **recursion**: the destination's own components (those of its selected sub-field when one matches the message
  so far) expand the value just written, depth first, before the next component of the same container.

`cv` is a parameter so that the theorem `C05_expansion_fields` can say: the decoder's output IS this function of
the arithmetic; the oracle of the check instantiates it with `Physical.specValue`.
Shared with the model of the code on purpose (they are not part of what is specified here): `convertU32`
(the cast to the destination's base type), `valueAppend`, `toInt64?`, `Value.valid` (C06).
-/
namespace Fit.ExpandSpec
open Fit.Value Fit.Msg Fit.PA Fit.Physical
open Fit.Expand (convertU32 valueAppend toInt64? fieldNum CV)

abbrev Table := List (Nat × List Fld)

/-- the profile's entry for (message, field) -/
def fieldOf (t : Table) (mesg num : Nat) : Option Fld :=
  ((t.filter (·.1 == mesg)).head?).bind fun e => (e.2.filter (·.num == num)).head?

structure Dest where
  base : FieldBase
  comps : List Comp
  subs : List SubF
  deriving Repr, Inhabited

/-- what the factory says about a destination number -/
def destOf (t : Table) (mesg num : Nat) : Dest :=
  match fieldOf t mesg num with
  | some f =>
    ⟨{ num := f.num, baseType := f.baseType, array := f.array, accumulate := f.accumulate, scale := f.scale,
       offset := f.offset, nameKnown := true, profileBool := f.profileBool }, f.comps, f.subs⟩
  | none => ⟨{ num := num, baseType := 0, scale := f64One, offset := 0 }, [], []⟩

def allComps (f : Fld) : List Comp := f.comps ++ f.subs.flatMap (·.comps)

/-- the accumulating components of message `mesg` (fields and sub-fields) that feed destination `dest` -/
def accInto (t : Table) (mesg dest : Nat) : List Comp :=
  match (t.filter (·.1 == mesg)).head? with
  | some e => (e.2.flatMap allComps).filter fun c => c.accumulate && c.fieldNum == dest
  | none => []

/-! ### running totals -/

structure Run where
  mesg : Nat
  dest : Nat
  /-- in units of the accumulating component -/
  total : Nat
  deriving DecidableEq, Repr, Inhabited

abbrev Runs := List Run

def getRun (rs : Runs) (m d : Nat) : Option Nat := (rs.find? fun r => r.mesg == m && r.dest == d).map (·.total)

def setRun (rs : Runs) (m d T : Nat) : Runs := ⟨m, d, T⟩ :: rs.filter fun r => !(r.mesg == m && r.dest == d)

/-- the least total `≥ T` that a counter of `w` bits showing `s` can stand for -/
def advance (T w s : Nat) : Nat := T + (s + 2 ^ w - T % 2 ^ w) % 2 ^ w

/-- the counter total whose physical value is exactly the destination's wire value `v` -/
def seed (v cScale cOffset dScale dOffset : Nat) : Option Nat := exactValue v dScale dOffset cScale cOffset

/-- a sample of an accumulating component: the new total and the updated table -/
def sample (rs : Runs) (mesg : Nat) (c : Comp) (s : Nat) : Option (Nat × Runs) :=
  let T := match getRun rs mesg c.fieldNum with
    | some T0 => advance T0 c.bits s
    | none => s
  if T < 2 ^ 32 then some (T, setRun rs mesg c.fieldNum T) else none

/-- the latest counter reading a wire value carries (unsigned types of at most 32 bits): `none` = no reading
(empty array), `some none` = not a reading the specification knows how to take -/
def reading : Value → Option (Option Nat)
  | .uint8 x => some (some (x % 2 ^ 8)) | .uint16 x => some (some (x % 2 ^ 16)) | .uint32 x => some (some (x % 2 ^ 32))
  | .sliceUint8 xs => xs.getLast?.map fun x => some (x % 2 ^ 8)
  | .sliceUint16 xs => xs.getLast?.map fun x => some (x % 2 ^ 16)
  | .sliceUint32 xs => xs.getLast?.map fun x => some (x % 2 ^ 32)
  | _ => some none

/-- the accumulating components into one destination all count in the same unit with the same width -/
def sameRow (c : Comp) (cs : List Comp) : Bool :=
  cs.all fun c' => c'.bits == c.bits && c'.scale == c.scale && c'.offset == c.offset

/-- a wire field that is the destination of accumulating components seeds the running total (undetermined when the
field does not carry the profile's accumulate flag: the message was not read with this profile) -/
def seedField (t : Table) (mesg : Nat) (rs : Runs) (f : Field) : Option Runs :=
  match f.base with
  | none => some rs
  | some b =>
    match accInto t mesg b.num with
    | [] => some rs
    | c :: cs =>
      if !sameRow c cs || !b.accumulate then none
      else match reading f.value with
        | none => some rs
        | some none => none
        | some (some v) =>
          let d := destOf t mesg b.num
          match seed v c.scale c.offset d.base.scale d.base.offset with
          | some T => some (setRun rs mesg b.num T)
          | none => none

def seedAll (t : Table) (mesg : Nat) : Runs → List Field → Option Runs
  | rs, [] => some rs
  | rs, f :: fs =>
    match seedField t mesg rs f with
    | some rs' => seedAll t mesg rs' fs
    | none => none

/-! ### writing a destination -/

/-- apply `g` to the LAST field numbered `num`; `none` if there is none -/
def updLast (fs : List Field) (num : Nat) (g : Field → Field) : Option (List Field) :=
  match fs with
  | [] => none
  | f :: rest =>
    match updLast rest num g with
    | some rest' => some (f :: rest')
    | none => if fieldNum f == some num then some (g f :: rest) else none

def put (fields : List Field) (num : Nat) (d : Dest) (value : Value) : List Field :=
  match updLast fields num (fun f =>
      { f with value := if (f.base.map (·.array)).getD false then valueAppend f.value value else value }) with
  | some fs => fs
  | none =>
    fields ++ [{ base := some d.base, value := if d.base.array then valueAppend .invalid value else value, isExpanded := true }]

/-- the sub-field that stands in for the field given the message so far: the first one with a map whose reference
field (the first field with that number) holds the map's value -/
def subFieldOf (fields : List Field) (subs : List SubF) : Option SubF :=
  (subs.filter fun sf => sf.maps.any fun m =>
    match (fields.filter fun f => fieldNum f == some m.1).head? with
    | some f => toInt64? f.value == some m.2
    | none => false).head?

/-! ### the containing value -/

/-- how the specification reads a containing value: `bits n` — an unsigned integer or an array of them that fits
the 256 bytes a FIT field (and the decoder's store) can hold, as one natural number; `noBits` — a value without bits
(bool, string, invalid: never expanded); `unknown` — signed integers and floats: the property does not say which bits
such a value has (no container of the profile is one) -/
inductive Cont where
  | bits (n : Nat) | noBits | unknown
  deriving Repr, DecidableEq

def container : Value → Cont
  | .uint8 x => .bits (x % 2 ^ 8) | .uint16 x => .bits (x % 2 ^ 16)
  | .uint32 x => .bits (x % 2 ^ 32) | .uint64 x => .bits (x % 2 ^ 64)
  | .sliceUint8 xs => if xs.length ≤ 256 then .bits (catLE 8 xs) else .unknown
  | .sliceUint16 xs => if 2 * xs.length ≤ 256 then .bits (catLE 16 xs) else .unknown
  | .sliceUint32 xs => if 4 * xs.length ≤ 256 then .bits (catLE 32 xs) else .unknown
  | .sliceUint64 xs => if 8 * xs.length ≤ 256 then .bits (catLE 64 xs) else .unknown
  | .invalid | .bool _ | .string _ | .sliceBool _ | .sliceString _ => .noBits
  | _ => .unknown

/-! ### expansion -/

structure S where
  runs : Runs
  fields : List Field
  deriving Repr, Inhabited

/-- the components in order, `off` = sum of the widths of the earlier ones; `recur` expands the destination's own
components (one level of nesting further down) -/
def slicesWith (recur : S → Value → Nat → List Comp → Option S) (cv : CV) (t : Table) (mesg : Nat) :
    Bool → S → Nat → Nat → List Comp → Option S
  | _, s, _, _, [] => some s
  | multi, s, n, off, c :: rest =>
    let raw := sliceAt n off c.bits
    if raw = 0 ∧ multi then some s
    else
      match (if c.accumulate then sample s.runs mesg c raw else some (raw, s.runs)) with
      | none => none
      | some (T, runs) =>
        let d := destOf t mesg c.fieldNum
        let value := convertU32 (cv T c.scale c.offset d.base.scale d.base.offset) d.base.baseType
        let fields := put s.fields c.fieldNum d value
        let comps' := match subFieldOf fields d.subs with
          | some sf => sf.comps
          | none => d.comps
        match recur ⟨runs, fields⟩ value d.base.baseType comps' with
        | none => none
        | some s' => slicesWith recur cv t mesg multi s' n (off + c.bits) rest

/-- expand a containing value with the given components (`fuel` levels of nesting) -/
def expandValue (cv : CV) (t : Table) (mesg : Nat) : Nat → S → Value → Nat → List Comp → Option S
  | 0, s, _, _, _ => some s
  | fuel + 1, s, v, bt, comps =>
    if comps.isEmpty then some s
    else if !(valid v bt) then some s
    else match container v with
      | .noBits => some s
      | .unknown => none
      | .bits n => slicesWith (expandValue cv t mesg fuel) cv t mesg (comps.length > 1) s n 0 comps

def slices (cv : CV) (t : Table) (mesg : Nat) (fuel : Nat) : Bool → S → Nat → Nat → List Comp → Option S :=
  slicesWith (expandValue cv t mesg fuel) cv t mesg

theorem expandValue_zero_eq (cv : CV) (t : Table) (mesg : Nat) (s : S) (v : Value) (bt : Nat) (comps : List Comp) :
    expandValue cv t mesg 0 s v bt comps = some s := rfl

theorem expandValue_succ_eq (cv : CV) (t : Table) (mesg fuel : Nat) (s : S) (v : Value) (bt : Nat) (comps : List Comp) :
    expandValue cv t mesg (fuel + 1) s v bt comps =
      if comps.isEmpty then some s
      else if !(valid v bt) then some s
      else match container v with
        | .noBits => some s
        | .unknown => none
        | .bits n => slices cv t mesg fuel (comps.length > 1) s n 0 comps := rfl

theorem slices_nil_eq (cv : CV) (t : Table) (mesg fuel : Nat) (multi : Bool) (s : S) (n off : Nat) :
    slices cv t mesg fuel multi s n off [] = some s := rfl

theorem slices_cons_eq (cv : CV) (t : Table) (mesg fuel : Nat) (multi : Bool) (s : S) (n off : Nat) (c : Comp)
    (rest : List Comp) :
    slices cv t mesg fuel multi s n off (c :: rest) =
      (let raw := sliceAt n off c.bits
      if raw = 0 ∧ multi then some s
      else
        match (if c.accumulate then sample s.runs mesg c raw else some (raw, s.runs)) with
        | none => none
        | some (T, runs) =>
          let d := destOf t mesg c.fieldNum
          let value := convertU32 (cv T c.scale c.offset d.base.scale d.base.offset) d.base.baseType
          let fields := put s.fields c.fieldNum d value
          let comps' := match subFieldOf fields d.subs with
            | some sf => sf.comps
            | none => d.comps
          match expandValue cv t mesg fuel ⟨runs, fields⟩ value d.base.baseType comps' with
          | none => none
          | some s' => slices cv t mesg fuel multi s' n (off + c.bits) rest) := rfl

/-- nesting allowed to the recursion (the profile nests 3 deep: `C05_profile_depth`) -/
def depth : Nat := 8

/-- the components a wire field expands with, given the message so far -/
def compsOf (t : Table) (mesg : Nat) (fields : List Field) (f : Field) : List Comp :=
  match f.base with
  | none => []
  | some b =>
    match fieldOf t mesg b.num with
    | none => []
    | some fl =>
      match subFieldOf fields fl.subs with
      | some sf => sf.comps
      | none => fl.comps

/-- every wire position in order (the field is read from the message as it stands then) -/
def expandFields (cv : CV) (t : Table) (mesg : Nat) : S → Nat → Nat → Option S
  | s, 0, _ => some s
  | s, k + 1, i =>
    match s.fields[i]? with
    | none => some s
    | some f =>
      match expandValue cv t mesg depth s f.value ((f.base.map (·.baseType)).getD 0) (compsOf t mesg s.fields f) with
      | none => none
      | some s' => expandFields cv t mesg s' k (i + 1)

/-- one message: wire destinations seed the totals, then every wire field is expanded -/
def specTail (cv : CV) (t : Table) (rs : Runs) (m : Message) : Option (Runs × Message) :=
  match seedAll t m.num rs m.fields with
  | none => none
  | some rs' =>
    match expandFields cv t m.num ⟨rs', m.fields⟩ m.fields.length 0 with
    | none => none
    | some s => some (s.runs, { m with fields := s.fields })

/-- the messages of one sequence (the totals live for the sequence) -/
def specSeqFrom (cv : CV) (t : Table) : Runs → List Message → Option (List Message)
  | _, [] => some []
  | rs, m :: ms =>
    match specTail cv t rs m with
    | none => none
    | some (rs', m') =>
      match specSeqFrom cv t rs' ms with
      | none => none
      | some out => some (m' :: out)

def specSeq (cv : CV) (t : Table) (ms : List Message) : Option (List Message) := specSeqFrom cv t [] ms

/-- KF-C05-2 class: some wire field of the history is the destination of an accumulating component that counts in
another unit than the destination (scale or offset differ) — its wire value seeds the decoder's accumulator
unconverted -/
def seedsOtherUnit (t : Table) (ms : List Message) : Bool :=
  ms.any fun m => m.fields.any fun f =>
    match f.base with
    | none => false
    | some b =>
      let d := destOf t m.num b.num
      (accInto t m.num b.num).any fun c => !(c.scale == d.base.scale && c.offset == d.base.offset)

end Fit.ExpandSpec
