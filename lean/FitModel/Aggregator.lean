/-!
Model of /repo/cmd/fitactivity/aggregator/aggregator.go: `Aggregate(dst, src)` walks the exported fields of a struct by
reflection and, by the PREFIX OF THE FIELD NAME, sums ("Total…", "Num…s"), takes the max ("Max…", "EnhancedMax…"), the min
("Min…", "EnhancedMin…"), the average ("Avg…", "EnhancedAvg…") or fills dst from src when dst is invalid (everything else).
Integers carry the FIT invalid sentinel of their kind (all ones for unsigned, the maximum for signed); `SetInt`/`SetUint`
truncate to the field's width. Floats are not modelled (none among the fields the combiner's property observes).
-/
namespace Fit.Agg

inductive Op | sum | max | min | avg | fill
  deriving DecidableEq, Repr

/-- the `switch` on the field name -/
def opOfName (name : String) : Op :=
  if name.startsWith "Total" then .sum
  else if name.startsWith "Num" && name.endsWith "s" then .sum
  else if name.startsWith "Max" || name.startsWith "EnhancedMax" then .max
  else if name.startsWith "Min" || name.startsWith "EnhancedMin" then .min
  else if name.startsWith "Avg" || name.startsWith "EnhancedAvg" then .avg
  else .fill

def invU (w : Nat) : Nat := 2 ^ w - 1
def invS (w : Nat) : Int := 2 ^ (w - 1) - 1

/-- `SetInt`: truncation to `w` bits, two's complement -/
def wrapS (w : Nat) (x : Int) : Int :=
  let m := x % (2 ^ w : Int)
  if m ≥ 2 ^ (w - 1) then m - 2 ^ w else m

/-- both values valid: the rule proper -/
def bothU (op : Op) (w d s : Nat) : Nat :=
  match op with
  | .sum => (d + s) % 2 ^ w
  | .max => if d < s then s else d
  | .min => if d > s then s else d
  | .avg => (d + s) / 2
  | .fill => d

/-- one unsigned field of width `w` -/
def aggU (op : Op) (w d s : Nat) : Nat :=
  if op = .fill then (if d == invU w then s else d)
  else if d != invU w && s != invU w then bothU op w d s
  else if s != invU w then s else d

def bothS (op : Op) (w : Nat) (d s : Int) : Int :=
  match op with
  | .sum => wrapS w (d + s)
  | .max => if d < s then s else d
  | .min => if d > s then s else d
  | .avg => Int.tdiv (d + s) 2      -- Go's `/` truncates toward zero
  | .fill => d

/-- one signed field of width `w` -/
def aggS (op : Op) (w : Nat) (d s : Int) : Int :=
  if op = .fill then (if d == invS w then s else d)
  else if d != invS w && s != invS w then bothS op w d s
  else if s != invS w then s else d

/-- slices of unsigned elements: element-wise over the common prefix; if src is longer its tail is appended -/
def aggSliceU (op : Op) (w : Nat) : List Nat → List Nat → List Nat
  | [], ss => ss
  | ds, [] => ds
  | d :: ds, s :: ss => aggU op w d s :: aggSliceU op w ds ss

/-- strings: filled when dst is "" or "\x00" -/
def aggStr (op : Op) (d s : List Nat) : List Nat :=
  match op with
  | .fill => if d.isEmpty || d == [0] then s else d
  | _ => d          -- sum/max/min/avg have no case for strings

/-- bools: filled when dst is false -/
def aggBool (op : Op) (d s : Bool) : Bool :=
  match op with
  | .fill => if !d then s else d
  | _ => d

/-- time.Time (`none` = the zero time): filled when dst is zero — only by the `fill` rule -/
def aggTime (op : Op) (d s : Option Nat) : Option Nat :=
  match op with
  | .fill => if d.isNone then s else d
  | _ => d

end Fit.Agg
