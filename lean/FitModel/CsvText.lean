import FitModel.Csv
/-!
The TEXT layer of the fitconv converters (C19), as far as it is integer and character logic:

* decimal text of integers: `strconv.FormatInt/FormatUint/Itoa` (`intText`, `natDigits` of FitModel/Csv.lean) and its
  parsing as `parseValue` uses it — `strconv.ParseUint(s, 0, w)` / `ParseInt(s, 0, w)`, bit sizes 8/16/32/64: base 0
  (a leading `0` announces a base prefix or octal, `_` separators are allowed: both `unmodelled`, never written by
  `FormatInt`), a sign only for `ParseInt`, range errors;
* `parseValue` on the text of one piece (`parseValueT`): the order of its tests (degrees, `typedef.Bool`, "contains a
  '.'", the switch over the base type). Everything that goes through `strconv.ParseFloat` is the parameter
  `TextParam.readFloat`; the text of a float is `TextParam.floatText` (shortest round-trip formatting: assumed, stated as
  the hypothesis `FloatOK` of the theorems, FitProps/CsvTextLemmas.lean);
* the CSV the writer produces, character by character: `writeCell` (a name or units cell is quoted, quotes doubled, when
  it contains `,` or `"`), the value cell (always between quotes, nothing escaped: `format` removes `"` from strings), the
  line of a message, the header, and the `copy` pass that pads every line to the header's comma count — through a
  `bufio.Scanner`;
* the reader side: `encoding/csv` with the settings of `NewCSVToFITConv` (`FieldsPerRecord = -1`; `LazyQuotes`,
  `TrimLeadingSpace`, `Comment` at their zero values), record by record (`scanRec`), then `convert`/`createMesg` on the
  record's cells (pieces kept as text: `Atom.raw`, parsed by `Arith.raw = parseValueT`).

Alphabet: a record is ONE line — the model does not follow a quoted cell over a line break, and CR is special to both
`bufio.ScanLines` and `encoding/csv` (dropped before a line break); the theorems exclude the bytes 10 and 13 from every
cell. (`format` removes them from string values anyway: not printable.)
-/
namespace Fit.Csv
open Fit.Value Fit.Gen

/-! ### decimal integers -/

/-- the characters `ParseUint` takes for digits of some base, and the `_` separator of base 0 -/
def isAlnumU (b : Nat) : Bool := isDigit b || (65 ≤ b && b ≤ 90) || (97 ≤ b && b ≤ 122) || b == 95

/-- `strconv.ParseUint(s, 0, w)` -/
def parseUintT (w : Nat) (s : Txt) : R Nat :=
  match s with
  | [] => .err                                                       -- ErrSyntax
  | c :: rest =>
    if !s.all isAlnumU then .err                                     -- ErrSyntax in every base; a sign is not permitted
    else if c == 48 then (if rest.isEmpty then .ok 0 else .unmodelled)    -- "0"; otherwise a base prefix 0b / 0o / 0x or octal
    else if s.contains 95 then .unmodelled                            -- `_` separators (base 0)
    else if s.all isDigit then (if natOfDigits s < 2 ^ w then .ok (natOfDigits s) else .err)   -- ErrRange
    else .err                                                        -- a letter in base 10

/-- `strconv.ParseInt(s, 0, w)` -/
def parseIntT (w : Nat) (s : Txt) : R Int :=
  match s with
  | [] => .err
  | c :: rest =>
    let neg := c == 45
    let body := if c == 43 || c == 45 then rest else s
    match parseUintT w body with
    | .ok un =>
      if neg then (if un ≤ 2 ^ (w - 1) then .ok (-(un : Int)) else .err)
      else (if un < 2 ^ (w - 1) then .ok (un : Int) else .err)
    | .err => .err
    | .unmodelled => .unmodelled

/-! ### `parseValue` on text -/

/-- the float side of the text layer (assumed): the text of the float pieces the writer prints, and `parseValue` on a
text that goes through `strconv.ParseFloat` (degrees, a text with a '.', a float32/float64 field) -/
structure TextParam where
  floatText : Atom → Txt
  readFloat : Txt → Nat → Bool → Nat → Nat → Txt → R Value

def rmap {α β : Type} (f : α → β) : R α → R β
  | .ok a => .ok (f a)
  | .err => .err
  | .unmodelled => .unmodelled

/-- `parseValue(strValue, baseType, profileType == Bool, scale, offset, units)` of csv_to_fit.go -/
def parseValueT (tp : TextParam) (s : Txt) (bt : Nat) (isBool : Bool) (scale offset : Nat) (units : Txt) : R Value :=
  if units == degreesTxt && bt == btSint32 then tp.readFloat s bt isBool scale offset units
  else if isBool then rmap mkBool (parseUintT 8 s)
  else if bt != btString && hasDot s then tp.readFloat s bt isBool scale offset units
  else if btIsUint8 bt then rmap .uint8 (parseUintT 8 s)
  else if bt == btSint8 then rmap (fun i => .int8 (pat 8 i)) (parseIntT 8 s)
  else if bt == btSint16 then rmap (fun i => .int16 (pat 16 i)) (parseIntT 16 s)
  else if bt == btUint16 || bt == btUint16z then rmap .uint16 (parseUintT 16 s)
  else if bt == btSint32 then rmap (fun i => .int32 (pat 32 i)) (parseIntT 32 s)
  else if bt == btUint32 || bt == btUint32z then rmap .uint32 (parseUintT 32 s)
  else if bt == btSint64 then rmap (fun i => .int64 (pat 64 i)) (parseIntT 64 s)
  else if bt == btUint64 || bt == btUint64z then rmap .uint64 (parseUintT 64 s)
  else if bt == btString then .ok (.string s)
  else if bt == btFloat32 || bt == btFloat64 then tp.readFloat s bt isBool scale offset units
  else .ok .invalid       -- no case of the switch: the zero Value, no error

/-- the arithmetic with the text layer plugged in -/
def Arith.withText (ar : Arith) (tp : TextParam) : Arith := { ar with raw := parseValueT tp }

/-- the text of one piece -/
def atomText (tp : TextParam) : Atom → Txt
  | .int i => intText i
  | .str s => s
  | .raw t => t
  | a => tp.floatText a

/-! ### the CSV the writer produces -/

def needsQuote (s : Txt) : Bool := s.any fun b => b == 44 || b == 34

/-- `strings.ReplaceAll(s, "\"", "\"\"")` -/
def escQuotes (s : Txt) : Txt := s.flatMap fun b => if b == 34 then [34, 34] else [b]

/-- `writeCell`: a name or units cell -/
def writeCellT (s : Txt) : Txt := if needsQuote s then [34] ++ escQuotes s ++ [34] else s

/-- the value cell: `,"` + format(value) + `",` -/
def valueCellT (s : Txt) : Txt := [34] ++ s ++ [34]

def joinComma : List Txt → Txt
  | [] => []
  | [s] => s
  | s :: rest => s ++ [44] ++ joinComma rest

/-- the text of a value cell: the pieces joined with `|` (the formatter's `concat`; a `|` inside a string is already a
piece boundary in `cellPieces`) -/
def valueText (tp : TextParam) (val : List Atom) : Txt := joinBar (val.map (atomText tp))

def cellTexts (tp : TextParam) (c : Cell) : List Txt := [writeCellT c.name, valueCellT (valueText tp c.val), writeCellT c.units]

def dataTxt : Txt := txt "Data"
def definitionTxt : Txt := txt "Definition"

/-- the line of a message as `writeMesg` leaves it in the temporary buffer (`ln` = the local message number, which the
reader ignores). A definition line is kept only as its cell count (names and sizes are not modelled; the reader skips it). -/
def lineText (tp : TextParam) (ln : Nat) : Line → Txt
  | .data name cells => joinComma ([dataTxt, natDigits ln, name] ++ cells.flatMap (cellTexts tp))
  | .definition n => joinComma ([definitionTxt, natDigits ln, unknownTxt] ++ List.replicate (3 * n) [])

/-- `printHeader` -/
def headerText (k : Nat) : Txt :=
  joinComma ([txt "Type", txt "Local Number", txt "Message"] ++
    (List.range k).flatMap fun i => [txt "Field " ++ natDigits (i + 1), txt "Value " ++ natDigits (i + 1), txt "Units " ++ natDigits (i + 1)])

/-- the commas `copy` counts: those outside quotes, the quote state toggling at every `"` -/
def commasOutside : Bool → Txt → Nat
  | _, [] => 0
  | q, c :: cs =>
    if c == 34 then commasOutside (!q) cs
    else if c == 44 && !q then 1 + commasOutside q cs
    else commasOutside q cs

/-- `bufio.MaxScanTokenSize`: the default limit of a `bufio.Scanner` — the line length from which on `copy` used to lose
the rest of the CSV (KF-C19-7, fixed: the scanner's buffer now grows without limit and `scanner.Err()` is returned) -/
def scanLimit : Nat := 65536

/-- `copy`: with the trim option the lines as they are (`io.Copy`); otherwise every line — of any length — read by a
`bufio.Scanner` and padded with the missing commas; `none` = `bytes.Repeat` panics on a negative count. -/
def copyLines (o : Opts) (maxComma : Nat) : List Txt → Option (List Txt)
  | [] => some []
  | l :: ls =>
    if o.trim then (copyLines o maxComma ls).map (l :: ·)
    else if commasOutside false l > maxComma then none
    else (copyLines o maxComma ls).map ((l ++ List.replicate (maxComma - commasOutside false l) 44) :: ·)

/-- the CSV of a chain of files, line by line: header, then the data lines (`none` = panic) -/
def csvText (tp : TextParam) (o : Opts) (ls : List Line) : Option (List Txt) :=
  (copyLines o (2 + 3 * maxFields ls) (ls.map (lineText tp 0))).map (headerText (maxFields ls) :: ·)

/-! ### the reader: `encoding/csv`, one record per line -/

inductive ScanSt
  | start     -- at the start of a field
  | bare      -- inside a non-quoted field
  | quoted    -- inside a quoted field
  | quote     -- just after a `"` inside a quoted field
  deriving Repr, DecidableEq

/-- what reading one line ends with -/
inductive ScanR
  | record (cells : List Txt)
  | err           -- ErrBareQuote (a `"` in a non-quoted field) / ErrQuote (a closing quote not followed by `,` or the end)
  | openQuote     -- the line ends inside a quoted field: the field goes on in the next line — outside the model
  deriving Repr, DecidableEq

/-- `csv.Reader.readRecord` on one line (without its line break): `cur` = the current field (reversed), `done` = the
fields before it (reversed) -/
def scanRec : ScanSt → Txt → List Txt → Txt → ScanR
  | .start, _, done, [] => .record (([] : Txt) :: done).reverse
  | .start, _, done, c :: cs =>
    if c == 34 then scanRec .quoted [] done cs
    else if c == 44 then scanRec .start [] ([] :: done) cs
    else scanRec .bare [c] done cs
  | .bare, cur, done, [] => .record (cur.reverse :: done).reverse
  | .bare, cur, done, c :: cs =>
    if c == 44 then scanRec .start [] (cur.reverse :: done) cs
    else if c == 34 then .err
    else scanRec .bare (c :: cur) done cs
  | .quoted, _, _, [] => .openQuote
  | .quoted, cur, done, c :: cs =>
    if c == 34 then scanRec .quote cur done cs else scanRec .quoted (c :: cur) done cs
  | .quote, cur, done, [] => .record (cur.reverse :: done).reverse
  | .quote, cur, done, c :: cs =>
    if c == 34 then scanRec .quoted (34 :: cur) done cs
    else if c == 44 then scanRec .start [] (cur.reverse :: done) cs
    else .err

def csvRecord (line : Txt) : ScanR := scanRec .start [] [] line

/-- the (name, value, units) triples of a record from its fourth cell on (`for i := 3; i+2 < len(record); i += 3`); the
value cell split at `|`, its pieces kept as text -/
def triples : List Txt → List Cell
  | n :: v :: u :: rest => ⟨n, (splitBar v).map .raw, u⟩ :: triples rest
  | _ => []

/-- the line a record stands for; `none` = passed over (fewer than three cells, `Type`, `Definition`, anything else) -/
def recordLine (rec : List Txt) : Option Line :=
  match rec with
  | h :: _ :: name :: rest => if h == dataTxt then some (.data name (triples rest)) else none
  | _ => none

/-- `convert` over the lines of a CSV file (an empty line is skipped by `encoding/csv`) -/
def readTextLines (ar : Arith) : RState → List Txt → R RState
  | s, [] => .ok s
  | s, l :: ls =>
    if l.isEmpty then readTextLines ar s ls else
    match csvRecord l with
    | .err => .err
    | .openQuote => if ls.isEmpty then .err else .unmodelled    -- at the end of the file: ErrQuote; otherwise the cell runs on
    | .record rec =>
      match recordLine rec with
      | none => readTextLines ar s ls
      | some line =>
        match readLine ar s line with
        | .ok s' => readTextLines ar s' ls
        | .err => .err
        | .unmodelled => .unmodelled

/-- what `CSVToFITConv.convert` hands to the encoder, from the text of the CSV -/
def fromCsvTextPre (ar : Arith) (lines : List Txt) : R Back :=
  match readTextLines ar {} lines with
  | .ok s => .ok ⟨(s.cur.reverse :: s.done).reverse, s.seq⟩
  | .err => .err
  | .unmodelled => .unmodelled

/-- with the encoder's gate, as `fromCsv` -/
def fromCsvText (ar : Arith) (lines : List Txt) : R Back :=
  match fromCsvTextPre ar lines with
  | .ok b => if b.seqs.all (fun q => !q.isEmpty && gateSeq [] [] q) then .ok b else .err
  | .err => .err
  | .unmodelled => .unmodelled

/-- the lines of a text (`\n`-terminated; a last line without line break counts) -/
def splitLines : Txt → List Txt
  | [] => []
  | c :: cs =>
    match splitLines cs with
    | [] => if c == 10 then [[]] else [[c]]
    | l :: ls => if c == 10 then [] :: l :: ls else (c :: l) :: ls

def joinLines : List Txt → Txt
  | [] => []
  | l :: ls => l ++ [10] ++ joinLines ls

end Fit.Csv
