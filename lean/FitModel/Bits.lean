import FitModel.F64
import FitModel.Value
/-!
Model of /repo/decoder/bits.go: the 2048-bit store (`[32]uint64`), `makeBits`, `storeFromSlice`, `Pull`.

The store is a list of 32 words (`Nat` < 2^64, word 0 least significant). `Pull` is the in-place loop of the Go
code rendered as a stream over the words: iteration `i` reads `store[i]` (not yet shifted) and completes
`store[i-1]` (already shifted) — exactly the two cells the Go loop touches; the `continue` on a zero word is
kept. Shift counts follow Go: a shift by ≥ 64 gives 0, `64 - bitsize` is computed in `byte` arithmetic.
-/
namespace Fit.Bits
open Fit.F64 Fit.Value

def nWords : Nat := 32
def W : Nat := 2 ^ 64

def zeroStore : List Nat := List.replicate nWords 0

/-- `uint64(1)<<bitsize - 1` in uint64 arithmetic -/
def mask (n : Nat) : Nat := if n ≥ 64 then W - 1 else 2 ^ n - 1

/-- `hi << (64 - bitsize)` with `bitsize` a byte: the count is `(64 - bitsize) mod 256` -/
def shlTop (hi n : Nat) : Nat :=
  let sh := (64 + 256 - n % 256) % 256
  if sh ≥ 64 then 0 else (hi <<< sh) % W

/-- iterations `i ≥ 1` of the loop: `prev` is `store[i-1]` after its own right shift, the list holds
`store[i..]` untouched. Emits the final `store[i-1]` and goes on. -/
def pullLoop (n : Nat) (prev : Nat) : List Nat → List Nat
  | [] => [prev]
  | w :: rest =>
    if w = 0 then prev :: pullLoop n 0 rest            -- `continue`: both cells stay as they are
    else (prev ||| shlTop (w &&& mask n) n) :: pullLoop n (w >>> n) rest

/-- `(*bits).Pull(bitsize)`: the value (a uint32) and the updated store -/
def pull (ws : List Nat) (n : Nat) : Nat × List Nat :=
  match ws with
  | [] => (0, [])
  | w :: rest => ((w &&& mask n) % 2 ^ 32, pullLoop n (w >>> n) rest)

/-- the natural number a store denotes: Σ wᵢ·2^(64·i) -/
def toNat : List Nat → Nat
  | [] => 0
  | w :: ws => w + W * toNat ws

/-- `storeFromSlice(s, size)`: `elems` are the `uint64(s[i])` (sign-extended for signed element types),
`size` the element size in bytes (1, 2, 4, 8). Elements beyond the 32 words are dropped. -/
def storeFromSlice (elems : List Nat) (size : Nat) : List Nat :=
  let rec go (elems : List Nat) (index pos : Nat) (store : List Nat) : List Nat :=
    match elems with
    | [] => store
    | e :: es =>
      if index ≥ nWords then store
      else
        let store := store.set index ((store.getD index 0 ||| ((e <<< (pos * 8)) % W)) % W)
        let pos := (pos + size) % 256
        if pos = 8 then go es (index + 1) 0 store else go es index pos store
  go elems 0 0 zeroStore

/-- first word for a scalar -/
def scalarStore (w : Nat) : List Nat := w % W :: List.replicate (nWords - 1) 0

/-- `makeBits(value)`: `none` = `ok == false` (bool, string and invalid values). Signed integers are
sign-extended to 64 bits (`uint64(int8)`), floats are converted with `uint64(x)` (platform-defined when negative
or out of range; amd64 here). -/
def makeBits (v : Value) : Option (List Nat) :=
  match v with
  | .int8 x => some (scalarStore (sext 8 x)) | .uint8 x => some (scalarStore (x % 2 ^ 8))
  | .int16 x => some (scalarStore (sext 16 x)) | .uint16 x => some (scalarStore (x % 2 ^ 16))
  | .int32 x => some (scalarStore (sext 32 x)) | .uint32 x => some (scalarStore (x % 2 ^ 32))
  | .int64 x => some (scalarStore x) | .uint64 x => some (scalarStore x)
  | .float32 x => some (scalarStore (cvt .u64 (ofF32 x)))
  | .float64 x => some (scalarStore (cvt .u64 x))
  | .sliceInt8 xs => some (storeFromSlice (xs.map (sext 8)) 1)
  | .sliceUint8 xs => some (storeFromSlice (xs.map (· % 2 ^ 8)) 1)
  | .sliceInt16 xs => some (storeFromSlice (xs.map (sext 16)) 2)
  | .sliceUint16 xs => some (storeFromSlice (xs.map (· % 2 ^ 16)) 2)
  | .sliceInt32 xs => some (storeFromSlice (xs.map (sext 32)) 4)
  | .sliceUint32 xs => some (storeFromSlice (xs.map (· % 2 ^ 32)) 4)
  | .sliceInt64 xs => some (storeFromSlice (xs.map (· % W)) 8)
  | .sliceUint64 xs => some (storeFromSlice (xs.map (· % W)) 8)
  | .sliceFloat32 xs => some (storeFromSlice (xs.map fun x => cvt .u64 (ofF32 x)) 4)
  | .sliceFloat64 xs => some (storeFromSlice (xs.map (cvt .u64)) 8)
  | _ => none

end Fit.Bits
