import FitModel.ScaleOffset
import FitModel.Generated.ProfileArith
/-!
The regenerated profile (`Generated/ProfileArith.lean`, printed on every run from the compiled packages of /repo) as
the scale/offset model reads it: the standard factory's fields for the validator's native-field look-up, and the
table of generated accessors.
-/
namespace Fit.ScaleOffset
open Fit.F64 Fit.Value Fit.Gen

/-- `factory.StandardFactory().CreateField(mesgNum, fieldNum)`: base type, scale, offset of a known field -/
def stdFactory : Factory := fun m f =>
  (Fit.Gen.PA.fields.find? fun e => e.1 == m && e.2.1 == f).map fun e => (e.2.2.1, e.2.2.2.1, e.2.2.2.2)

/-- the generated accessor pair `Mesg.XxxScaled` / `Mesg.SetXxxScaled` -/
def lookupTyped (mesg field : String) : Option Fit.PA.Typed :=
  Fit.Gen.PA.typed.find? fun t => t.mesg == mesg && t.field == field

end Fit.ScaleOffset
