import FitModel.Wire
import FitModel.Validator
import FitModel.DecoderApi
/-!
End-to-end model for C01: protocol VALUES through the REAL validator, the encoder's framing and the decoder.

* `encodeFile` / `encodeChain`: what `encoder.New(w, opts…).Encode(fit)` does with a `proto.FIT`:
  `selectProtocolVersion`, `validateMessages` (= `Fit.Validator.gateBatch`: protocol validator over every
  message, then the message validator — fresh per `Encode` — over every message, state threaded), every kept
  field / developer field turned into a wire field (`toWire`: `Value.marshal` in the encoder's byte order,
  size = marshalled length = `Value.size` (C06), base type of the `FieldBase`, developer data index), then
  `Fit.Wire.encodeFit` (definitions under the LRU, compressed timestamps, header, CRC).
* `decodeChain`: the `for dec.Next() { dec.Decode() }` loop of `Fit.DecApi` (the decoder-API model of C03/C07:
  nothing of the decoder is modelled again here) and the projection `proj` of a decoded message to what the
  property compares: message number, fields (number, base type, value), developer fields (number, developer
  data index, value).
* `actualSeq`: the value-level description of what comes back, **exactly as the code behaves** (first element of
  an array in a non-array field, zero-size values skipped, U+FFFD dropped, …) — byte order does not occur in it.
* `normalSeq` (`e2eNormal`): the normal form the PROPERTY allows — only the differences the wire format forces
  (DESIGN §3 C01 (a)–(e), fixed before any result was seen):
  (a) a field the decoder's factory does not know comes back with the base type of its definition and its
      arrayness re-inferred from the size: one element ≅ scalar, two or more ≅ array;
  (b) a field the factory knows as an array comes back as an array (a scalar ≅ a 1-element array), one it knows
      as a scalar comes back as a scalar when it holds one element;
  (c) strings: a scalar string ends at its first NUL; a string array is the list of its non-empty NUL-free pieces;
      a string array holding at most one piece read back as a scalar is that piece (or "");
  (d) a field whose profile type is bool comes back as `typedef.Bool` (0, 1, anything else = 255 = invalid);
      `typedef.Bool` under a non-bool enum field comes back as uint8;
  (e) a message written with a compressed-timestamp header has its timestamp field first, with the factory's
      base type for it (uint32 when the factory does not know it);
  a developer field comes back under the base type of the field description the encoder resolved for it.
  Everything else must come back identical.
* finding classes of the pinned tree (`kfZero`, `kfArr`, `kfFFFD`): where `actualSeq ≠ normalSeq`.
* `inDomain`: the typing assumptions of the theorems (messages are built from the decoder's factory, …).
-/
namespace Fit.E2E
open Fit.Gen Fit.Value Fit.Msg

/-! ### encoder side -/

/-- a kept field as `newMessageDefinition` / `Message.MarshalAppend` see it (a field without `FieldBase` does not
survive validation) -/
def toWField (arch : Nat) (f : Field) : Option Wire.WField :=
  match f.base with
  | none => none
  | some b => some ⟨b.num, b.baseType, typeOf f.value, (marshal f.value arch).getD []⟩

def toWDev (arch : Nat) (d : DevField) : Wire.WDev := ⟨d.num, d.devIdx, (marshal d.value arch).getD []⟩

def toWire (arch : Nat) (m : Message) : Wire.WMsg :=
  { num := m.num, fields := m.fields.filterMap (toWField arch), devs := m.devFields.map (toWDev arch) }

structure Cfg where
  /-- byte order, header option, local message types (`Fit.Wire.Opts`) -/
  w : Wire.Opts
  /-- `WithProtocolVersion` (0: not given) -/
  pvOpt : Nat := 0
  /-- message validator options -/
  vo : Validator.Options := {}
  /-- `scaleoffset.DiscardValue` on float64-typed values (C12's arithmetic, carried by the operation line) -/
  D : Validator.Discard := fun v _ _ _ => v
  /-- `profile.Version` -/
  profileVersion : Nat := 0

/-- a `proto.FIT` handed to `Encode`: header members the caller may set, and the messages -/
structure FileIn where
  hsize : Nat := 14
  hpv : Nat := 0
  hprofile : Nat := 0
  msgs : List Message
  deriving Repr, Inhabited

inductive EncErr
  | empty | validation (e : Validator.Err) | panic
  deriving DecidableEq, Repr

/-- the protocol version `Encode` settles on for the file -/
def fileVersion (c : Cfg) (f : FileIn) : Nat := Validator.selectVersion c.pvOpt f.hpv

def fileHdr (c : Cfg) (f : FileIn) : Wire.Hdr := Wire.mkHdr f.hsize (fileVersion c f) f.hprofile c.profileVersion

/-- `validateMessages`: the messages that reach `encodeMessages` -/
def gate (c : Cfg) (f : FileIn) : Except EncErr (List Message) :=
  if f.msgs.isEmpty then .error .empty else
  match Validator.gateBatch c.D (fileVersion c f) c.vo f.msgs with
  | .panic => .error .panic
  | .err e => .error (.validation e)
  | .ok kept => .ok kept

/-- the bytes one sequence occupies at the destination, given the validated messages -/
def encodeKept (c : Cfg) (f : FileIn) (kept : List Message) : List Nat :=
  Wire.encodeFit c.w (fileHdr c f) (kept.map (toWire c.w.arch))

/-- `Encode(fit)`: the validated messages and the bytes written, or the error (nothing written) -/
def encodeFile (c : Cfg) (f : FileIn) : Except EncErr (List Message × List Nat) :=
  match gate c f with
  | .error e => .error e
  | .ok kept => .ok (kept, encodeKept c f kept)

/-- `for _, fit := range fits { enc.Encode(fit) }` stopping at the first error: what validation retained per
written file, everything written, and the error with the index of the file it occurred in -/
def encodeChain (c : Cfg) : List FileIn → Nat → List (List Message) × List Nat × Option (Nat × EncErr)
  | [], _ => ([], [], none)
  | f :: fs, i =>
    match encodeFile c f with
    | .error e => ([], [], some (i, e))
    | .ok (kept, bs) =>
      let (ks, rest, e) := encodeChain c fs (i + 1)
      (kept :: ks, bs ++ rest, e)

/-! ### decoder side -/

structure NField where
  num : Nat
  bt : Nat
  value : Value
  deriving DecidableEq, Repr, Inhabited

structure NDev where
  num : Nat
  idx : Nat
  value : Value
  deriving DecidableEq, Repr, Inhabited

/-- a message as the property compares it -/
structure NMsg where
  num : Nat
  fields : List NField
  devs : List NDev
  deriving DecidableEq, Repr, Inhabited

/-- projection of a decoded message; fields created by component expansion are not part of the comparison -/
def proj (m : DecApi.Msg) : NMsg :=
  ⟨m.num, (m.fields.filter (fun f => !f.expanded)).map (fun f => ⟨f.num, f.bt, f.value⟩),
    m.devs.map (fun d => ⟨d.num, d.idx, d.value⟩)⟩

/-- the loop `for dec.Next() { fit, err := dec.Decode() … }`: the decoded sequences and how it ended
(`none`: `Next` returned false) -/
def decodeLoop : Nat → DecApi.Api → List DecApi.Fit × Option DecApi.Out
  | 0, _ => ([], some .hang)
  | fuel + 1, a =>
    match DecApi.step a .next with
    | (a1, .bool true, _) =>
      match DecApi.step a1 .decode with
      | (a2, .fit f, _) =>
        let (fs, e) := decodeLoop fuel a2
        (f :: fs, e)
      | (_, out, _) => ([], some out)
    | (_, .bool false, _) => ([], none)
    | (_, out, _) => ([], some out)

/-- `decoder.New(bytes.NewReader(bs), opts…)` driven to the end of the stream -/
def decodeChain (o : DecApi.Opts) (bs : List Nat) : List DecApi.Fit × Option DecApi.Out :=
  decodeLoop (bs.length + 1) (DecApi.Api.fresh o bs)

def decodeValues (o : DecApi.Opts) (bs : List Nat) : List (List NMsg) × Option DecApi.Out :=
  let (fs, e) := decodeChain o bs
  (fs.map (fun f => f.msgs.map proj), e)

/-! ### values as they come back -/

/-- the numbers a numeric value travels as (a `typedef.Bool` byte other than 0/1 is written as 255) -/
def elems : Value → List Nat
  | .bool b => [boolByte b]
  | .int8 x | .uint8 x | .int16 x | .uint16 x | .int32 x | .uint32 x | .int64 x | .uint64 x
  | .float32 x | .float64 x => [x]
  | .sliceBool vs => vs.map boolByte
  | .sliceInt8 vs | .sliceUint8 vs | .sliceInt16 vs | .sliceUint16 vs | .sliceInt32 vs | .sliceUint32 vs
  | .sliceInt64 vs | .sliceUint64 vs | .sliceFloat32 vs | .sliceFloat64 vs => vs
  | _ => []

/-- the strings a string value consists of -/
def strList : Value → List (List Nat)
  | .string s => [s]
  | .sliceString vs => vs
  | _ => []

def isStr : Value → Bool
  | .string _ | .sliceString _ => true
  | _ => false

/-- number of elements the value holds (strings: number of strings) -/
def count (v : Value) : Nat := if isStr v then (strList v).length else (elems v).length

/-- the scalar value of base type `bt` holding the number `x` (`isBool`: the field's profile type is bool) -/
def scalarOf (bt : Nat) (isBool : Bool) (x : Nat) : Value :=
  if bt = btSint8 then .int8 x
  else if bt = btEnum ∨ bt = btByte ∨ bt = btUint8 ∨ bt = btUint8z then (if isBool then mkBool x else .uint8 x)
  else if bt = btSint16 then .int16 x
  else if bt = btUint16 ∨ bt = btUint16z then .uint16 x
  else if bt = btSint32 then .int32 x
  else if bt = btUint32 ∨ bt = btUint32z then .uint32 x
  else if bt = btSint64 then .int64 x
  else if bt = btUint64 ∨ bt = btUint64z then .uint64 x
  else if bt = btFloat32 then .float32 x
  else if bt = btFloat64 then .float64 x
  else .invalid

/-- the array value of base type `bt` holding the numbers `xs` (`isBool`: the field's profile type is bool — every element
clamped to the domain of `typedef.Bool` as `scalarOf` / `mkBool` does for one value; `UnmarshalValue` since /repo 5da5106) -/
def sliceOf (bt : Nat) (isBool : Bool) (xs : List Nat) : Value :=
  if bt = btSint8 then .sliceInt8 xs
  else if bt = btEnum ∨ bt = btByte ∨ bt = btUint8 ∨ bt = btUint8z then (if isBool then .sliceBool (xs.map clampBool) else .sliceUint8 xs)
  else if bt = btSint16 then .sliceInt16 xs
  else if bt = btUint16 ∨ bt = btUint16z then .sliceUint16 xs
  else if bt = btSint32 then .sliceInt32 xs
  else if bt = btUint32 ∨ bt = btUint32z then .sliceUint32 xs
  else if bt = btSint64 then .sliceInt64 xs
  else if bt = btUint64 ∨ bt = btUint64z then .sliceUint64 xs
  else if bt = btFloat32 then .sliceFloat32 xs
  else if bt = btFloat64 then .sliceFloat64 xs
  else .invalid

/-- the bytes a string value is written as (no byte order in them) -/
def strData (v : Value) : List Nat := (marshal v 0).getD []

/-- **what the code returns** for the value `v` written under base type `bt` when the decoder reads the field as
`isBool` / `isArray`: the first element only in scalar mode, every rune error dropped from strings -/
def reread (bt : Nat) (isBool isArray : Bool) (v : Value) : Value :=
  if bt = btString then
    if isArray then .sliceString (unmarshalStrings (strData v)) else .string (Fit.Utf8.utf8String (strData v))
  else if isArray then sliceOf bt isBool (elems v)
  else scalarOf bt isBool ((elems v).headD 0)

/-- **what the property allows** (rules (a)–(d)): nothing of the value is lost; one element read in scalar mode is
a scalar, anything else an array; strings in their documented normal form -/
def normalValue (bt : Nat) (isBool isArray : Bool) (v : Value) : Value :=
  if bt = btString then
    match v with
    | .string s => if isArray then .sliceString (pieces [s]) else .string (cutNul s)
    | .sliceString vs =>
      if isArray then .sliceString (pieces vs)
      else match pieces vs with
        | [] => .string []
        | [p] => .string p
        | ps => .sliceString ps
    | _ => .invalid
  else if isArray then sliceOf bt isBool (elems v)
  else match elems v with
    | [x] => scalarOf bt isBool x
    | xs => sliceOf bt isBool xs

/-- the NUL-terminated segments the bytes of a string value hold, EMPTY ONES INCLUDED (what is on the wire) -/
def segments (v : Value) : List (List Nat) := splitNul [] (strData v)

/-- **the normal form WITHOUT the decoder's dropping of empty strings**: as `normalValue`, except that a string array read
in array mode is the list of ALL its NUL-terminated segments — an empty string inside an array (a lone NUL on the wire, which
the encoder does write) keeps its place. Only what the wire cannot carry is identified: `[]` ≅ `[""]` ≅ `""` (all three are written
as one NUL: the representative is `[]`), a string with an inner NUL ≅ its pieces. `normalValue` additionally drops the empty segments (rule (c) of DESIGN
§3: decoder behaviour — value_unmarshal.go "only if not an invalid string" — not a wire limit: finding KF-C01-emptystr). -/
def strictValue (bt : Nat) (isBool isArray : Bool) (v : Value) : Value :=
  if bt = btString ∧ isArray = true ∧ isStr v = true then
    .sliceString (if segments v == [[]] then [] else segments v)
  else normalValue bt isBool isArray v

/-- how the decoder decides "array" for a field it has no profile entry for (unknown fields, developer fields):
from the size for numbers, from the number of terminated non-empty pieces for strings -/
def inferArray (bt : Nat) (v : Value) : Bool :=
  if bt = btString then decide ((pieces (strList v)).length > 1)
  else decide (size v > btSize bt ∧ size v % btSize bt = 0)

/-- base type, profile-bool flag and array flag under which the decoder reads a field of message `mesgNum` -/
def readAs (fac : DecApi.Factory) (mesgNum : Nat) (b : FieldBase) (v : Value) : Nat × Bool × Bool :=
  let info := fac.create mesgNum b.num
  if info.known then (info.bt, info.isBool, info.array)
  else (b.baseType, decide (b.baseType &&& baseTypeNumMask = DecApi.profileBool), inferArray b.baseType v)

def devReadAs (bt : Nat) (v : Value) : Nat × Bool × Bool :=
  (bt, decide (bt &&& baseTypeNumMask = DecApi.profileBool), inferArray bt v)

/-! ### messages as they come back -/

/-- how a value is turned into what comes back: `reread` (the code) or `normalValue` (the property) -/
abbrev ValueFn := Nat → Bool → Bool → Value → Value

/-- one validated field; `skipZero`: a value of size zero does not come back (the code) -/
def fieldBack (g : ValueFn) (skipZero : Bool) (fac : DecApi.Factory) (mesgNum : Nat) (f : Field) : Option NField :=
  match f.base with
  | none => none
  | some b =>
    if skipZero ∧ size f.value = 0 then none else
    let r := readAs fac mesgNum b f.value
    some ⟨b.num, r.1, g r.1 r.2.1 r.2.2 f.value⟩

/-- one validated developer field under the field descriptions seen so far: the first description of
(developer data index, field number) gives the base type; without description the bytes are skipped -/
def devBack (g : ValueFn) (skipZero : Bool) (fds : List Validator.FieldDesc) (d : DevField) : Option NDev :=
  match Validator.lookupFd fds d with
  | none => none
  | some fd =>
    if skipZero ∧ size d.value = 0 then none else
    let r := devReadAs fd.btId d.value
    some ⟨d.num, d.devIdx, g r.1 r.2.1 r.2.2 d.value⟩

/-- the field the decoder puts in front of a message written with a compressed-timestamp header -/
def tsField (fac : DecApi.Factory) (mesgNum t : Nat) : NField :=
  let info := fac.create mesgNum DecApi.fieldNumTimestamp
  ⟨DecApi.fieldNumTimestamp, if info.known then info.bt else btUint32, .uint32 t⟩

/-- `RemoveFieldByNum(253)`: the first field numbered 253 is taken out -/
def removeTs : List Field → List Field
  | [] => []
  | f :: fs =>
    match f.base with
    | some b => if b.num == Wire.tsFieldNum then fs else f :: removeTs fs
    | none => f :: removeTs fs

/-- state threaded through a sequence: the validator's developer-data look-ups (rebuilt from the validated
messages: `Validate` registers a developer-data-id / field-description message from its KEPT fields) and the
encoder's two timestamps -/
structure SeqSt where
  vst : Validator.State := {}
  tsRef : Nat := 0
  tsLast : Nat := 0

/-- one validated message as it comes back -/
def msgBack (g : ValueFn) (skipZero : Bool) (fac : DecApi.Factory) (w : Wire.Opts) (st : SeqSt) (m : Message) : NMsg × SeqSt :=
  let wm := toWire w.arch m
  let (tsRef', tsLast', off) := if w.compress then Wire.compressTs w.arch st.tsRef st.tsLast wm else (st.tsRef, st.tsLast, none)
  let vst' := Validator.remember st.vst m.num m.fields
  let fields := match off with
    | some _ => tsField fac m.num (Wire.tsOf w.arch wm) :: (removeTs m.fields).filterMap (fieldBack g skipZero fac m.num)
    | none => m.fields.filterMap (fieldBack g skipZero fac m.num)
  (⟨m.num, fields, m.devFields.filterMap (devBack g skipZero vst'.fds)⟩, ⟨vst', tsRef', tsLast'⟩)

def seqBack (g : ValueFn) (skipZero : Bool) (fac : DecApi.Factory) (w : Wire.Opts) : SeqSt → List Message → List NMsg
  | _, [] => []
  | st, m :: ms => let (n, st') := msgBack g skipZero fac w st m; n :: seqBack g skipZero fac w st' ms

/-- the forms a validated message may come back in: as it is, or — rule (e), when its first field 253 is a `uint32`
other than the invalid value, i.e. something the encoder may move into a compressed-timestamp header — with that
timestamp in front as the decoder re-creates it (`tsField`) and the original field taken out -/
def msgVariants (g : ValueFn) (skipZero : Bool) (fac : DecApi.Factory) (arch : Nat) (fds : List Validator.FieldDesc)
    (m : Message) : List NMsg :=
  let devs := m.devFields.filterMap (devBack g skipZero fds)
  let plain : NMsg := ⟨m.num, m.fields.filterMap (fieldBack g skipZero fac m.num), devs⟩
  let t := Wire.tsOf arch (toWire arch m)
  if t != Wire.u32Invalid then
    [plain, ⟨m.num, tsField fac m.num t :: (removeTs m.fields).filterMap (fieldBack g skipZero fac m.num), devs⟩]
  else [plain]

/-- the decoded messages are the validated messages, each in one of its allowed forms (the validator's developer-data
look-ups threaded as in `seqBack`) -/
def seqMatches (g : ValueFn) (skipZero : Bool) (fac : DecApi.Factory) (arch : Nat) :
    Validator.State → List Message → List NMsg → Bool
  | _, [], [] => true
  | vst, m :: ms, n :: ns =>
    let vst' := Validator.remember vst m.num m.fields
    (msgVariants g skipZero fac arch vst'.fds m).contains n && seqMatches g skipZero fac arch vst' ms ns
  | _, _, _ => false

/-- a decoded message handed back to the encoder: every field with the attributes of the `FieldBase` the decoder gave it
(scale 1, offset 0: the factories of the decoder-API model) -/
def ofDecoded (m : DecApi.Msg) : Message :=
  { num := m.num,
    fields := m.fields.map (fun d =>
      ({ base := some { num := d.num, baseType := d.bt, array := d.array, nameKnown := d.known, profileBool := d.isBool },
         value := d.value, isExpanded := d.expanded } : Field)),
    devFields := m.devs.map (fun d => ({ devIdx := d.idx, num := d.num, value := d.value } : DevField)) }

/-- the decoded sequences handed back to the encoder: one `proto.FIT` per sequence, under the header members the decoder
returned, the messages as they are -/
def backFiles (fits : List DecApi.Fit) : List FileIn :=
  fits.map fun f => { hsize := f.hdr.size, hpv := f.hdr.protoVer, hprofile := f.hdr.profileVer, msgs := f.msgs.map ofDecoded }

/-- the fields of a decoded message that validation retains: all of them AS THEY ARE, in order, except — when the validator
omits invalid values (`omitInv`, the default) — those whose value is invalid for the field's base type (`Value.Valid`: the
invalid sentinel, an array of sentinels, an empty string, …); fields created by component expansion are never written -/
def keptFields (omitInv : Bool) (m : DecApi.Msg) : List Field :=
  (ofDecoded m).fields.filter fun f =>
    match f.base with
    | some b => !f.isExpanded && (!omitInv || valid f.value b.baseType)
    | none => false

/-- **what message validation retains of decoded messages** (the reading of "those same messages" in the last sentence of
the property), stated without the validator's loops: every message with every field and developer field AS IT IS, in
order, except the invalid-valued ones when the validator omits invalid values — a field whose value is invalid for its
base type (`keptFields`), a developer field whose value is invalid for the base type of the FIRST field description of
(developer data index, number) among the retained `field_description` messages so far (the message itself included).
Nothing is restored or converted. -/
def retained (omitInv : Bool) : Validator.State → List DecApi.Msg → List Message
  | _, [] => []
  | vst, m :: ms =>
    let fs := keptFields omitInv m
    let vst' := Validator.remember vst m.num fs
    let ds := (ofDecoded m).devFields.filter fun d =>
      match Validator.lookupFd vst'.fds d with
      | some fd => !omitInv || valid d.value fd.btId
      | none => true
    { num := m.num, fields := fs, devFields := ds } :: retained omitInv vst' ms

/-- a validated message taken literally: numbers, base types of the `FieldBase`s, values as they are -/
def literal (m : Message) : NMsg :=
  ⟨m.num, m.fields.filterMap (fun f => f.base.map fun b => ⟨b.num, b.baseType, f.value⟩),
    m.devFields.map fun d => ⟨d.num, d.devIdx, d.value⟩⟩

/-- values taken literally -/
def idValue : ValueFn := fun _ _ _ v => v

/-- the values of the messages are in wire-normal form for the decoder's factory: each allowed form of a message, computed
with `normalValue`, is that form of the message with its values as they are — every value is its own normal form under the
flags the decoder reads it with (what a decoder returned is), every base type is the one the decoder returns -/
def seqNormal (fac : DecApi.Factory) (arch : Nat) : Validator.State → List Message → Bool
  | _, [] => true
  | vst, m :: ms =>
    let vst' := Validator.remember vst m.num m.fields
    (msgVariants normalValue false fac arch vst'.fds m == msgVariants idValue false fac arch vst'.fds m) &&
      seqNormal fac arch vst' ms

/-- **what the code returns** for the validated messages of one sequence -/
def actualSeq (fac : DecApi.Factory) (w : Wire.Opts) (kept : List Message) : List NMsg :=
  seqBack reread true fac w {} kept

/-- **the normal form the property allows** (`e2eNormal`) for the validated messages of one sequence -/
def normalSeq (fac : DecApi.Factory) (w : Wire.Opts) (kept : List Message) : List NMsg :=
  seqBack normalValue false fac w {} kept

/-! ### finding classes: where the code returns something else than the property allows -/

/-- F04: a value of size zero (an empty array, kept only under "preserve invalid values") is written with size 0 and
the decoder skips the field -/
def kfZeroV (v : Value) : Bool := size v == 0

/-- F03: a value holding two or more elements (strings: two or more strings, or one with a NUL-led piece after its
first) that the decoder reads in scalar mode — a field the factory knows as a non-array field, or a string array with
fewer than two non-empty pieces in a field the decoder has no profile entry for: only the first element comes back -/
def kfArrV (bt : Nat) (_isBool isArray : Bool) (v : Value) : Bool :=
  !isArray && (match v with
    | .sliceString vs => bt == btString && !(pieces vs == [] || pieces vs == [cutNul (vs.headD [])])
    | .string _ => false
    | v => decide ((elems v).length ≥ 2))

/-- F02 / KF-C06-1: a string (piece) that is not clean UTF-8 — it holds a well-formed U+FFFD, which `utf8String` drops
(invalid UTF-8 does not pass validation) -/
def kfFFFDV (v : Value) : Bool := !clean v || !((pieces (strList v)).all cleanStr)

/-- KF-C01-emptystr: a string value read in array mode whose bytes hold an EMPTY NUL-terminated segment (an empty string in a
string array beside other strings, two NULs in a row; NOT the single NUL that `[]`, `[""]` and `""` are all written as): the encoder writes the lone NUL, the
decoder skips it ("only if not an invalid string") — the strings behind it move up one place (`["a","","b"]` comes back as
`["a","b"]`), unlike the invalid elements of a numeric array, which keep their place -/
def kfEmptyV (bt : Nat) (_isBool isArray : Bool) (v : Value) : Bool :=
  bt == btString && isArray && isStr v && segments v != [[]] && (segments v).any (·.isEmpty)

def fieldClass (p : Nat → Bool → Bool → Value → Bool) (fac : DecApi.Factory) (mesgNum : Nat) (f : Field) : Bool :=
  match f.base with
  | none => false
  | some b => let r := readAs fac mesgNum b f.value; p r.1 r.2.1 r.2.2 f.value

def devClass (p : Nat → Bool → Bool → Value → Bool) (fds : List Validator.FieldDesc) (d : DevField) : Bool :=
  match Validator.lookupFd fds d with
  | none => false
  | some fd => let r := devReadAs fd.btId d.value; p r.1 r.2.1 r.2.2 d.value

/-- some field or developer field of the validated messages is in the class -/
def seqClass (p : Nat → Bool → Bool → Value → Bool) (fac : DecApi.Factory) : Validator.State → List Message → Bool
  | _, [] => false
  | vst, m :: ms =>
    let vst' := Validator.remember vst m.num m.fields
    m.fields.any (fieldClass p fac m.num) || m.devFields.any (devClass p vst'.fds) || seqClass p fac vst' ms

def kfZero (fac : DecApi.Factory) (kept : List Message) : Bool := seqClass (fun _ _ _ v => kfZeroV v) fac {} kept
def kfArr (fac : DecApi.Factory) (kept : List Message) : Bool := seqClass kfArrV fac {} kept
def kfFFFD (fac : DecApi.Factory) (kept : List Message) : Bool := seqClass (fun _ _ _ v => kfFFFDV v) fac {} kept
def kfEmpty (fac : DecApi.Factory) (kept : List Message) : Bool := seqClass kfEmptyV fac {} kept

/-! ### classes of DECODER OUTPUT on which encoding and decoding again does not return the very same messages -/

/- (KF-C01-undersized, repaired in /repo: a field the factory knows as an ARRAY whose definition gives it fewer bytes than
one element of its base type was returned as a SCALAR — the class `kfUndersizedF d = d.known && d.array && !isSlice d.value`
is gone; `decodeFields` returns the array of the one assembled number, `Fit.DecApi.undersizedValue`.) -/

/-- a string array with fewer than two strings -/
def shortStrs : Value → Bool
  | .sliceString vs => decide (vs.length < 2)
  | _ => false

/-- KF-C01-strpieces: a string field WITHOUT profile entry (or a developer field) whose bytes hold two or more non-empty
NUL-terminated segments — the decoder decides "array" by counting them (`strcount`) — of which fewer than two survive
the UTF-8 cleaning of `UnmarshalValue`: it returns `[]string{"a"}` / `[]string{}`; written again there is one segment
(or none) and the value comes back as the scalar `"a"` / `""` -/
def kfPiecesF (d : DecApi.DField) : Bool := !d.known && shortStrs d.value
def kfPiecesD (d : DecApi.DDev) : Bool := shortStrs d.value

def kfPieces (ms : List DecApi.Msg) : Bool := ms.any fun m => m.fields.any kfPiecesF || m.devs.any kfPiecesD

def f64Typed : Value → Bool
  | .float64 _ | .sliceFloat64 _ => true
  | _ => false

/-- the condition under which `Validate` hands a developer field's value to `scaleoffset.DiscardValue` (validator.go:187-207) -/
def restoreApplies (vo : Validator.Options) (fd : Validator.FieldDesc) : Bool :=
  if fd.nativeMesgNum != mesgNumInvalid && fd.nativeFieldNum != uint8Invalid then
    let e := vo.factory fd.nativeMesgNum fd.nativeFieldNum
    e.nameKnown && (Validator.scaleNotOne e.scale || Validator.offsetNotZero e.offset)
  else fd.scale != uint8Invalid && fd.offset != sint8Invalid

/-- KF-C01-f64dev (root: KF-C10-2): a developer field the decoder returned as a float64 / []float64 (its field description
says base type float64) whose description carries a scale and an offset (or names a native field with a scale / offset):
`Validate` takes every float64-typed value for a SCALED value and "restores" it — `(v + offset) * scale` — although the
decoder returned the raw value: what is written, and comes back, is another number (1.5 under scale 2 comes back as 3.0) -/
def kfF64Dev (vo : Validator.Options) : Validator.State → List DecApi.Msg → Bool
  | _, [] => false
  | vst, m :: ms =>
    let vst' := Validator.remember vst m.num (keptFields vo.omitInvalid m)
    ((ofDecoded m).devFields.any fun d => f64Typed d.value &&
      (match Validator.lookupFd vst'.fds d with
       | some fd => restoreApplies vo fd
       | none => false)) || kfF64Dev vo vst' ms

/-! ### the typing assumptions of the theorems -/

/-- the field was built from the decoder's factory: the factory knows it iff its name is known, and then base type,
profile-bool flag and array flag are the factory's -/
def agreeField (fac : DecApi.Factory) (mesgNum : Nat) (f : Field) : Bool :=
  match f.base with
  | none => true
  | some b =>
    let info := fac.create mesgNum b.num
    (info.known == b.nameKnown) &&
      (!info.known || (info.bt == b.baseType && info.isBool == b.profileBool && info.array == b.array))

/-- the members of a field-description / developer-data-id message the decoder reads back (developer data index,
field definition number, base type id) hold plain `uint8` scalars, so that encoder and decoder read the same
numbers from them -/
def plainKeys (m : Message) : Bool :=
  if m.num = mesgNumFieldDescription then
    m.fields.all fun f => match f.base with
      | some b => !(b.num == fnFieldDescriptionDeveloperDataIndex || b.num == fnFieldDescriptionFieldDefinitionNumber ||
                    b.num == fnFieldDescriptionFitBaseTypeId) ||
                  (match f.value with | .uint8 _ => true | _ => false)
      | none => true
  else true

/-- the factory reads field 253 as a plain uint32 wherever it knows it, and field-description keys as plain uint8 -/
def facOKB (fac : DecApi.Factory) : Bool :=
  fac.all fun e =>
    (e.num != DecApi.fieldNumTimestamp || !e.info.known || (e.info.bt == btUint32 && !e.info.array && !e.info.isBool)) &&
    (e.mesgNum != mesgNumFieldDescription || !e.info.known ||
      !(e.num == fnFieldDescriptionDeveloperDataIndex || e.num == fnFieldDescriptionFieldDefinitionNumber ||
        e.num == fnFieldDescriptionFitBaseTypeId) || (btSize e.info.bt == 1 && !e.info.array && !e.info.isBool && e.info.bt != btSint8 && e.info.bt != btString))

/-- field numbers, developer field numbers and developer data indexes are bytes -/
def byteNums (m : Message) : Bool :=
  m.fields.all (fun f => match f.base with | some b => decide (b.num < 256) | none => true) &&
    m.devFields.all (fun d => decide (d.num < 256) && decide (d.devIdx < 256))

/-- every value is a well-formed `proto.Value` -/
def wfMsg (m : Message) : Bool := m.fields.all (fun f => wf f.value) && m.devFields.all (fun d => wf d.value)

def inDomain (fac : DecApi.Factory) (kept : List Message) : Bool :=
  facOKB fac && kept.all (fun m => decide (m.num < 65536) && wfMsg m && plainKeys m &&
    m.fields.all (fun f => f.base.isSome && agreeField fac m.num f) && byteNums m)

end Fit.E2E
