import FitModel.Message
/-!
Model of the typed message layer (/repo/profile/mesgdef/*_gen.go — 119 files instantiated from ONE template,
internal/cmd/fitgen/profile/mesgdef/mesgdef.tmpl): `NewXxx(mesg)` / `(*Xxx).Reset(mesg)` and `(*Xxx).ToMesg(options)`.

The model is **one** pair of functions, `ofMesg T` and `toMesg T`, generic in a per-message table `T : MesgTable`;
the 119 tables are regenerated on every run from the compiled code (`fitharness regen mesgdef`: reflection over
the structs + probing of Reset/ToMesg, `Generated/Mesgdef.lean`).

What the table says about one generated file:
* `guard`: a field whose number is ≥ `guard` (Go: `Num > guard-1`) or whose name is "unknown" goes to
  `UnknownFields`; every other field is *stored*: `vals[Num] = Value` (last occurrence wins);
* `panics`: numbers below `guard` on which that store indexes `vals` out of range (none on a sound file);
* `markBound`: a stored field flagged `IsExpandedField` with `Num < markBound` sets its bit in `state`;
* `slots`, in the order ToMesg emits them: field number, kind, the `proto.Type` its accessor accepts, the value
  the accessor returns for any other type (`dflt`), the value ToMesg treats as "invalid, do not emit"
  (`sentinel`), whether the number is eligible for the expanded bitmap, and the field's base type in the factory.

A struct slot holds the `proto.Value` ToMesg would build from it (a bijection per kind: `uint16` ↔ `.uint16`,
`[]uint8` ↔ `.sliceUint8`, nil slice ↔ `.invalid`, `[3]uint8` ↔ `.sliceUint8` of length 3, `typedef.Bool` ↔ `.bool`,
`string` ↔ `.string`), except `time.Time`, which is an integer number of seconds since the FIT epoch
(`time.Time{}` is `zeroTime`; sub-second parts are outside the property).

A nil `*FieldBase` (`mesg.Fields[i].Num` dereferences it) and an out-of-range `vals[num]` are the explicit
outcome `.panic`.
-/
namespace Fit.Typed
open Fit.Value Fit.Msg Fit.Gen

inductive Kind where
  /-- numeric scalar (incl. typedef types, floats as bit patterns): invalid iff equal to the sentinel -/
  | scalar
  /-- `typedef.Bool`: invalid iff ≥ 2 -/
  | bool
  /-- `string`: invalid iff empty -/
  | str
  /-- `time.Time` (profile types date_time, local_date_time): invalid iff before the FIT epoch -/
  | time
  /-- `[]T`: invalid iff nil -/
  | slice
  /-- `[n]T` (T numeric or string): pre-filled with the base type's invalid, `copy`-ed from the value; invalid iff
  all elements are the fill -/
  | fixed (n : Nat)
  deriving DecidableEq, Repr, Inhabited

structure Slot where
  /-- the field number ToMesg emits the slot under -/
  num : Nat
  /-- the field number Reset reads the slot from (`vals[readNum]`); equal to `num` in a sound file -/
  readNum : Nat
  kind : Kind
  /-- `proto.Type` of the values the slot's accessor accepts, and of the value ToMesg emits -/
  ptype : Nat
  /-- what the accessor returns for a value of any other type = content of the slot after `Reset(nil)`
  (`.invalid` stands for a nil slice; for `time` slots: unused) -/
  dflt : Value
  /-- slot content for which ToMesg omits the field (`scalar`, `fixed`); unused for the other kinds -/
  sentinel : Value
  /-- `MarkAsExpandedField(num, _)` accepts the number; ToMesg consults the bitmap for it -/
  canExpand : Bool
  /-- base type of the field in the standard factory (255 if the factory has no such field) -/
  baseType : Nat
  deriving DecidableEq, Repr, Inhabited

structure MesgTable where
  /-- Go type name, packed (see `ProfileSpec`) -/
  name : Nat
  num : Nat
  guard : Nat
  panics : List Nat
  markBound : Nat
  /-- the struct has `DeveloperFields` (before /repo 72c2963: all but FileId, DeveloperDataId, FieldDescription) -/
  hasDev : Bool
  slots : List Slot
  deriving DecidableEq, Repr, Inhabited

/-- seconds between `time.Time{}` (1 Jan of year 1) and the FIT epoch (31 Dec 1989 00:00:00 UTC), negated -/
def zeroTime : Int := -62766662400

/-- `t.Sub(epoch)` is a `time.Duration` (int64 nanoseconds) and saturates at `math.MaxInt64` ns: whole seconds of that.
Only times later than the year 2282 meet it (outside the protocol's range, class `hasTimeBeyond`). -/
def durSatSec : Int := 9223372036

inductive SlotVal where
  | val (v : Value)
  | time (sec : Int)
  deriving DecidableEq, Repr, Inhabited

structure Struct where
  /-- slot contents, aligned with `T.slots` -/
  vals : List SlotVal
  /-- the `state` bitmap: bit k ⇔ field number k is marked as expanded -/
  state : Nat
  unknown : List Field
  dev : List DevField
  deriving DecidableEq, Repr, Inhabited

structure Options where
  includeExpanded : Bool
  deriving DecidableEq, Repr, Inhabited

inductive Outcome (α : Type) where
  | ok (a : α)
  | panic
  deriving DecidableEq, Repr

/-! ### values as slot contents -/

/-- elements of a numeric slice value -/
def elems : Value → List Nat
  | .sliceBool vs | .sliceInt8 vs | .sliceUint8 vs | .sliceInt16 vs | .sliceUint16 vs | .sliceInt32 vs
  | .sliceUint32 vs | .sliceInt64 vs | .sliceUint64 vs | .sliceFloat32 vs | .sliceFloat64 vs => vs
  | _ => []

/-- the same slice type with other elements -/
def withElems (v : Value) (es : List Nat) : Value :=
  match v with
  | .sliceBool _ => .sliceBool es | .sliceInt8 _ => .sliceInt8 es | .sliceUint8 _ => .sliceUint8 es
  | .sliceInt16 _ => .sliceInt16 es | .sliceUint16 _ => .sliceUint16 es | .sliceInt32 _ => .sliceInt32 es
  | .sliceUint32 _ => .sliceUint32 es | .sliceInt64 _ => .sliceInt64 es | .sliceUint64 _ => .sliceUint64 es
  | .sliceFloat32 _ => .sliceFloat32 es | .sliceFloat64 _ => .sliceFloat64 es
  | v => v

/-- Go's `copy(dst[:], src)` on an array pre-filled with `dst`: padded or cut to the declared length -/
def copyInto {α : Type} (dst src : List α) : List α := src.take dst.length ++ dst.drop src.length

/-- the fixed-array closure: `arr = [n]T{invalid…}; copy(arr[:], vals[k].SliceT()); return arr` -/
def readFixed (dflt v : Value) : Value :=
  match dflt, v with
  | .sliceString d, .sliceString vs => .sliceString (copyInto d vs)
  | d, v => withElems d (copyInto (elems d) (elems v))

/-- the typed accessor of a slot (`vals[n].Uint16()`, `.SliceUint8()`, `.String()`, `datetime.ToTime(vals[n].Uint32())`,
the fixed-array closure): a value of another type reads as the default -/
def read (s : Slot) (v : Value) : SlotVal :=
  match s.kind with
  | .time =>
    match v with
    | .uint32 n => .time (if n % 2 ^ 32 = uint32Invalid then zeroTime else (n % 2 ^ 32 : Nat))
    | _ => .time zeroTime
  | .fixed _ =>
    if typeOf v = s.ptype then .val (readFixed s.dflt v) else .val s.dflt
  | _ => if typeOf v = s.ptype then .val v else .val s.dflt

/-- `typedef.Bool < 2` -/
def boolValid : Value → Bool
  | .bool b => b < 2
  | _ => false

/-- the validity test of ToMesg and the value it builds: `none` = the field is not emitted -/
def emit (s : Slot) (x : SlotVal) : Option Value :=
  match s.kind, x with
  | .time, .time t => if t < 0 then none else some (.uint32 ((min t durSatSec).toNat % 2 ^ 32))
  | .time, .val _ => none
  | _, .time _ => none
  | .scalar, .val v => if v = s.sentinel then none else some v
  | .bool, .val v => if boolValid v then some v else none
  | .str, .val v => if v = .string [] then none else some v
  | .slice, .val v => if v = .invalid then none else some v
  | .fixed _, .val v => if v = s.sentinel then none else some v

/-! ### Reset -/

structure Acc where
  vals : Nat → Value
  state : Nat
  unknown : List Field

def Acc.init : Acc := { vals := fun _ => .invalid, state := 0, unknown := [] }

/-- one iteration of the loop over `mesg.Fields` -/
def step (T : MesgTable) (acc : Acc) (f : Field) : Outcome Acc :=
  match f.base with
  | none => .panic
  | some b =>
    if b.num ≥ T.guard || !b.nameKnown then .ok { acc with unknown := acc.unknown ++ [f] }
    else if T.panics.contains b.num then .panic
    else .ok { acc with
      state := if b.num < T.markBound && f.isExpanded then acc.state ||| (1 <<< b.num) else acc.state
      vals := fun k => if k = b.num then f.value else acc.vals k }

def run (T : MesgTable) : Acc → List Field → Outcome Acc
  | acc, [] => .ok acc
  | acc, f :: fs =>
    match step T acc f with
    | .ok acc' => run T acc' fs
    | .panic => .panic

/-- `NewXxx(&m)` / `Reset(&m)`. (`NewXxx(nil)` is `ofMesg` of the message without fields.) -/
def ofMesg (T : MesgTable) (m : Message) : Outcome Struct :=
  match run T Acc.init m.fields with
  | .panic => .panic
  | .ok acc => .ok { vals := T.slots.map fun s => read s (acc.vals s.readNum)
                     state := acc.state
                     unknown := acc.unknown
                     dev := if T.hasDev then m.devFields else [] }

/-! ### ToMesg -/

/-- `IsExpandedField(num)` -/
def isExpanded (T : MesgTable) (st : Struct) (num : Nat) : Bool :=
  if num ≥ T.markBound then false else st.state.testBit num

/-- the number is one of the `case` labels of `MarkAsExpandedField` -/
def eligible (T : MesgTable) (num : Nat) : Bool := T.slots.any fun s => s.num == num && s.canExpand

/-- `MarkAsExpandedField(num, flag)`: refused (`false`, struct unchanged) unless the number is eligible; otherwise the
bit is cleared (`m.state[pos] &^= bit`) and, if `flag`, set -/
def markAsExpanded (T : MesgTable) (st : Struct) (num : Nat) (flag : Bool) : Struct × Bool :=
  if eligible T num then
    let cleared := st.state ^^^ (st.state &&& (1 <<< num))
    ({ st with state := if flag then cleared ||| (1 <<< num) else cleared }, true)
  else (st, false)

/-- one `if valid { … }` block of ToMesg. `fac num` is `options.Factory.CreateField(mesg.Num, num)`. -/
def emitField (T : MesgTable) (fac : Nat → Field) (o : Options) (st : Struct) (s : Slot) (x : SlotVal) : Option Field :=
  match emit s x with
  | none => none
  | some v =>
    if s.canExpand then
      let ex := isExpanded T st s.num
      if ex && !o.includeExpanded then none
      else some { fac s.num with value := v, isExpanded := ex }
    else some { fac s.num with value := v }

def toMesg (T : MesgTable) (fac : Nat → Field) (o : Options) (st : Struct) : Message :=
  { num := T.num
    fields := (T.slots.zip st.vals).filterMap (fun p => emitField T fac o st p.1 p.2) ++ st.unknown
    devFields := if T.hasDev then st.dev else [] }

/-! ### the specification of message → struct → message -/

/-- the field is stored by Reset (not kept as unknown): it has a FieldBase, a name other than "unknown", and a number below the guard -/
def stored (T : MesgTable) (f : Field) : Bool :=
  match f.base with
  | some b => b.num < T.guard && b.nameKnown
  | none => false

def numIs (k : Nat) (f : Field) : Bool :=
  match f.base with
  | some b => b.num == k
  | none => false

/-- invalid value of a base type (bit pattern): what the FIT protocol reserves for "no value" -/
def btInvalid (bt : Nat) : Nat :=
  if bt = btEnum then enumInvalid else if bt = btSint8 then sint8Invalid else if bt = btUint8 then uint8Invalid
  else if bt = btSint16 then sint16Invalid else if bt = btUint16 then uint16Invalid
  else if bt = btSint32 then sint32Invalid else if bt = btUint32 then uint32Invalid
  else if bt = btFloat32 then float32Invalid else if bt = btFloat64 then float64Invalid
  else if bt = btUint8z then uint8zInvalid else if bt = btUint16z then uint16zInvalid
  else if bt = btUint32z then uint32zInvalid else if bt = btByte then byteInvalid
  else if bt = btSint64 then sint64Invalid else if bt = btUint64 then uint64Invalid
  else if bt = btUint64z then uint64zInvalid else 0

/-- payload of a numeric scalar -/
def numOf : Value → Nat
  | .bool v | .int8 v | .uint8 v | .int16 v | .uint16 v | .int32 v | .uint32 v | .int64 v | .uint64 v
  | .float32 v | .float64 v => v
  | _ => 0

/-- a fixed-length array: padded with the invalid element (the empty string for strings) or cut to `n`; worth
nothing when every element is then the invalid one -/
def specFixed (n inv : Nat) (v : Value) : Option Value :=
  match v with
  | .sliceString vs =>
    let es := copyInto (List.replicate n []) vs
    if es = List.replicate n [] then none else some (.sliceString es)
  | v =>
    let es := copyInto (List.replicate n inv) (elems v)
    if es = List.replicate n inv then none else some (withElems v es)

/-- What a value in a field of slot `s` is worth to the typed layer, by the protocol's notion of "invalid" for the
field's base type (NOT by the generated sentinel): `none` when the value is of another type than the field's
(it "reads as invalid") or is the invalid value; otherwise the value, a fixed-length array padded with the base
type's invalid or cut to its declared length. -/
def specVal (s : Slot) (v : Value) : Option Value :=
  if typeOf v ≠ s.ptype then none else
  match s.kind with
  | .scalar => if numOf v = btInvalid s.baseType then none else some v
  | .bool => if numOf v < 2 then some v else none
  | .str => if v = .string [] then none else some v
  | .time => if numOf v % 2 ^ 32 = uint32Invalid then none else some (.uint32 (numOf v % 2 ^ 32))
  | .slice => some v
  | .fixed n => specFixed n (btInvalid s.baseType) v

/-- value of the last stored field with number `k`, `init` if there is none (a left fold: a later field overrides an earlier one) -/
def lastFrom (T : MesgTable) (k : Nat) (init : Value) (fs : List Field) : Value :=
  fs.foldl (fun v f => if stored T f && numIs k f then f.value else v) init

/-- value of the last stored field with number `k` (the invalid value if there is none) -/
def lastStored (T : MesgTable) (fs : List Field) (k : Nat) : Value := lastFrom T k .invalid fs

/-- some stored field with number `k` is flagged as expanded -/
def anyMarked (T : MesgTable) (fs : List Field) (k : Nat) : Bool :=
  fs.any fun f => stored T f && numIs k f && f.isExpanded

/-- **typedNormal**: the message that message → struct → message must return.
Known fields: one per slot, in the table's order, present iff the *last* stored field of that number carries a
value of the field's type that is not invalid (`specVal`); the `FieldBase` is the factory's; the expanded mark is
kept for the numbers eligible for it (a marked field is dropped when expanded fields are not to be included).
Unknown fields (number ≥ guard, or name "unknown"): all of them, unchanged, in order, after the known ones.
Developer fields: unchanged (for the message types that have them). -/
def typedNormal (T : MesgTable) (fac : Nat → Field) (o : Options) (m : Message) : Message :=
  { num := T.num
    fields := (T.slots.filterMap fun s =>
        match specVal s (lastStored T m.fields s.num) with
        | none => none
        | some v =>
          if s.canExpand then
            let ex := s.num < T.markBound && anyMarked T m.fields s.num
            if ex && !o.includeExpanded then none else some { fac s.num with value := v, isExpanded := ex }
          else some { fac s.num with value := v })
      ++ m.fields.filter (fun f => !stored T f)
    devFields := if T.hasDev then m.devFields else [] }

/-! ### what the property demands where the generated code does less (known findings KF-C13-1, KF-C13-2)

`typedNormal` is what the code does. Two things it does are NOT what the property says ("the same known fields …, the
same unknown fields …, and keeps the expanded-field marks"; "fields with arbitrary numbers … are kept as unknown fields"):

* **KF-C13-1** a field that carries a name (`Name != "unknown"`) and a number below the struct's bound which the message
  type does not define (file_id 6, record 200) is stored into `vals[num]` and never read again: it is silently dropped —
  although the very same field is kept in `UnknownFields` when its number lies above the bound or its name is "unknown";
* **KF-C13-2** the expanded mark of a known field that is not a component target (record.heart_rate) is recorded by
  `Reset` (`IsExpandedField(3)` answers true) but `ToMesg` neither copies it to the emitted field nor honours it when
  expanded fields are to be left out.

`typedNormalFull` is the message the property demands; it equals `typedNormal` outside the two classes. -/

/-- the field is stored by Reset under a number that no slot of the struct reads (class KF-C13-1) -/
def foreign (T : MesgTable) (f : Field) : Bool :=
  stored T f && !T.slots.any (fun s => numIs s.num f)

/-- the field is stored, flagged as expanded, and its number is a slot that is not eligible for the bitmap (class KF-C13-2) -/
def strayMark (T : MesgTable) (f : Field) : Bool :=
  stored T f && f.isExpanded && T.slots.any (fun s => numIs s.num f && !s.canExpand)

def hasForeign (T : MesgTable) (m : Message) : Bool := m.fields.any (foreign T)
def hasStrayMark (T : MesgTable) (m : Message) : Bool := m.fields.any (strayMark T)

/-- **what the property demands of message → struct → message**: as `typedNormal`, but every field the struct has no slot
for is kept with the unknown fields (in order), the expanded mark of EVERY known field is kept (the field is dropped
when it is marked and expanded fields are not to be included), and the developer fields are kept for EVERY message type
("the same … developer fields": the structs of file_id, developer_data_id and field_description have no
`DeveloperFields`, class `hasLostDev`, KF-C13-3). -/
def typedNormalFull (T : MesgTable) (fac : Nat → Field) (o : Options) (m : Message) : Message :=
  { num := T.num
    fields := (T.slots.filterMap fun s =>
        match specVal s (lastStored T m.fields s.num) with
        | none => none
        | some v =>
          if s.canExpand then
            let ex := s.num < T.markBound && anyMarked T m.fields s.num
            if ex && !o.includeExpanded then none else some { fac s.num with value := v, isExpanded := ex }
          else if anyMarked T m.fields s.num then
            (if o.includeExpanded then some { fac s.num with value := v, isExpanded := true } else none)
          else some { fac s.num with value := v })
      ++ m.fields.filter (fun f => !stored T f || foreign T f)
    devFields := m.devFields }

/-! ### well-formedness of a table (decidable; kernel-checked on the regenerated tables) -/

def isScalarType (t : Nat) : Bool := typeBool ≤ t && t ≤ typeFloat64
def isNumSliceType (t : Nat) : Bool := typeSliceBool ≤ t && t ≤ typeSliceFloat64

/-- the scalar value of `proto.Type` `t` with payload `n` -/
def mkScalar (t n : Nat) : Value :=
  if t = typeBool then .bool n else if t = typeInt8 then .int8 n else if t = typeUint8 then .uint8 n
  else if t = typeInt16 then .int16 n else if t = typeUint16 then .uint16 n else if t = typeInt32 then .int32 n
  else if t = typeUint32 then .uint32 n else if t = typeInt64 then .int64 n else if t = typeUint64 then .uint64 n
  else if t = typeFloat32 then .float32 n else if t = typeFloat64 then .float64 n else .invalid

def mkSlice (t : Nat) (es : List Nat) : Value :=
  if t = typeSliceBool then .sliceBool es else if t = typeSliceInt8 then .sliceInt8 es
  else if t = typeSliceUint8 then .sliceUint8 es else if t = typeSliceInt16 then .sliceInt16 es
  else if t = typeSliceUint16 then .sliceUint16 es else if t = typeSliceInt32 then .sliceInt32 es
  else if t = typeSliceUint32 then .sliceUint32 es else if t = typeSliceInt64 then .sliceInt64 es
  else if t = typeSliceUint64 then .sliceUint64 es else if t = typeSliceFloat32 then .sliceFloat32 es
  else if t = typeSliceFloat64 then .sliceFloat64 es else .invalid

/-- Per slot: the accepted type fits the kind and is aligned with the field's base type; the accessor's default for
a mismatched type **is** the invalid value of the base type, and so is the sentinel ToMesg tests — so that a
mismatched value reads as invalid and exactly the protocol's invalid value is omitted. -/
def Slot.wf (s : Slot) : Bool :=
  match s.kind with
  | .scalar => isScalarType s.ptype && s.ptype != typeBool && s.dflt == mkScalar s.ptype (btInvalid s.baseType) &&
      s.sentinel == s.dflt && align s.dflt s.baseType
  | .bool => s.ptype == typeBool && s.dflt == .bool boolInvalid && s.baseType == btEnum
  | .str => s.ptype == typeString && s.dflt == .string [] && s.baseType == btString
  | .time => s.ptype == typeUint32 && s.baseType == btUint32
  | .slice => (isNumSliceType s.ptype || s.ptype == typeSliceString) && s.dflt == .invalid &&
      align (if s.ptype == typeSliceString then .sliceString [] else mkSlice s.ptype []) s.baseType
  | .fixed n =>
    (if s.ptype == typeSliceString then s.dflt == .sliceString (List.replicate n [])
     else isNumSliceType s.ptype && s.dflt == mkSlice s.ptype (List.replicate n (btInvalid s.baseType))) &&
    s.sentinel == s.dflt && align s.dflt s.baseType

def nodup : List Nat → Bool
  | [] => true
  | a :: as => !as.contains a && nodup as

/-- the table describes a sound generated file: slot numbers are distinct, below the guard, never panic; the guard
is at most 256… the bitmap bound covers every eligible number; the struct has `DeveloperFields` (since /repo 72c2963,
the repair of KF-C13-3, every message type has) -/
def MesgTable.wf (T : MesgTable) : Bool :=
  T.panics.isEmpty && T.guard ≤ 256 && nodup (T.slots.map (·.num)) &&
  (T.slots.all fun s => s.wf && s.readNum == s.num && s.num < T.guard && (!s.canExpand || s.num < T.markBound)) &&
  T.hasDev

/-! ### struct → message → struct: what comes back, and the classes of structs on which it is not the struct itself

Every class is a decidable predicate of the table and the struct; what the code does on each was decided by running
the real `ToMesg` / `NewXxx` (notes/model-notes-C13-C17.md, "classes of struct → message → struct") and by the property
("… (times at whole-second resolution) … yields the same struct", C14: "the typed-message normalisation: invalid-valued
fields omitted, fixed-length arrays padded"):

| class | what comes back | status |
|---|---|---|
| `hasBoolOther`     a `typedef.Bool` holding 2..254            | 255 (`BoolInvalid`)                  | documented normalisation (typedef/bool.go: "other value should be treated as invalid 255") |
| `hasPreEpoch`      a time before the FIT epoch, not `time.Time{}` | `time.Time{}`                     | normalisation: `datetime.ToUint32` = invalid before the epoch; invalid-valued fields are omitted |
| `hasMarkOnInvalid` an expanded mark on an eligible slot that is not emitted (invalid content) | mark gone | normalisation: an omitted field carries no mark |
| `hasTimeBeyond`    a time ≥ epoch + 2^32 − 1 s                  | amd64: 0xFFFFFFFF → `time.Time{}`; later times wrap mod 2^32 (`uint32(float64)` out of range is platform-defined in Go) | outside the quantifier: not a FIT date_time value |
| `hasStrayBit`      a mark on a number that is not eligible (only `Reset` of a message with such a mark sets it) | mark gone | **defect**, struct-level face of KF-C13-2 |
| `¬ unknownsOk`     an UnknownFields entry the message type would store (named, below the bound), or without FieldBase | stored into its slot / dropped / panic | outside the quantifier (UnknownFields: "fields that … are not defined") |
| `¬ wellTyped`      —                                            | —                                    | not a Go value (slot content of another Go type, DeveloperFields on a struct without them, a bit beyond the bitmap) |

Sub-second times are outside the property by its own words and have no place in the model's `SlotVal.time` (whole seconds);
measured on the code: `uint32(t.Sub(epoch).Seconds())` — a float64 sum, truncated — gives the floor for small values and the
NEXT second for e.g. epoch + 2^24 s + 0.999999999 s. -/

/-- the slot content has the shape of its kind (Go: the field's static type) -/
def shapeOk (s : Slot) (x : SlotVal) : Bool :=
  match s.kind, x with
  | .time, .time _ => true
  | .time, .val _ => false
  | _, .time _ => false
  | .slice, .val v => v == .invalid || typeOf v == s.ptype
  | .fixed n, .val v => typeOf v == s.ptype && (match v with | .sliceString vs => vs.length == n | v => (elems v).length == n)
  | _, .val v => typeOf v == s.ptype

/-- a `typedef.Bool` other than 0, 1, 255 -/
def slotBoolOther (s : Slot) (x : SlotVal) : Bool :=
  match s.kind, x with
  | .bool, .val v => !boolValid v && v != s.dflt
  | _, _ => false

/-- a time before the FIT epoch that is not `time.Time{}` -/
def slotPreEpoch (s : Slot) (x : SlotVal) : Bool :=
  match s.kind, x with
  | .time, .time t => t < 0 && t != zeroTime
  | _, _ => false

/-- a time the protocol's date_time cannot hold: epoch + 0xFFFFFFFF s (the invalid value itself) or later -/
def slotTimeBeyond (s : Slot) (x : SlotVal) : Bool :=
  match s.kind, x with
  | .time, .time t => decide (2 ^ 32 - 1 ≤ t)
  | _, _ => false

def slotPairs (T : MesgTable) (st : Struct) : List (Slot × SlotVal) := T.slots.zip st.vals

def hasBoolOther (T : MesgTable) (st : Struct) : Bool := (slotPairs T st).any fun p => slotBoolOther p.1 p.2
def hasPreEpoch (T : MesgTable) (st : Struct) : Bool := (slotPairs T st).any fun p => slotPreEpoch p.1 p.2
def hasTimeBeyond (T : MesgTable) (st : Struct) : Bool := (slotPairs T st).any fun p => slotTimeBeyond p.1 p.2

/-- number `k` is an eligible slot whose content ToMesg emits -/
def emitted (T : MesgTable) (st : Struct) (k : Nat) : Bool :=
  (slotPairs T st).any fun p => p.1.num == k && p.1.canExpand && (emit p.1 p.2).isSome

/-- the set bits of the bitmap -/
def bitsOf (n : Nat) : List Nat := (List.range (n.log2 + 1)).filter n.testBit

/-- an expanded mark (set with `MarkAsExpandedField`) on a slot whose content is invalid, i.e. not emitted -/
def hasMarkOnInvalid (T : MesgTable) (st : Struct) : Bool := (bitsOf st.state).any fun k => eligible T k && !emitted T st k

/-- a mark on a number `MarkAsExpandedField` refuses: only `Reset` records it (class of KF-C13-2) -/
def hasStrayBit (T : MesgTable) (st : Struct) : Bool := (bitsOf st.state).any fun k => !eligible T k

/-- what Go's type system guarantees of a struct value: one content of the right Go type per slot, no DeveloperFields
where the struct has none, no bit beyond the `state` array's use (`Reset` and `MarkAsExpandedField` only touch numbers
below the bound) -/
def wellTyped (T : MesgTable) (st : Struct) : Bool :=
  st.vals.length == T.slots.length && (slotPairs T st).all (fun p => shapeOk p.1 p.2) &&
  (T.hasDev || st.dev.isEmpty) && (bitsOf st.state).all (· < T.markBound)

/-- every entry of UnknownFields has a FieldBase and is unknown to the message type (number at or above the bound, or
named "unknown"): it comes back into UnknownFields -/
def unknownsOk (T : MesgTable) (st : Struct) : Bool := st.unknown.all fun f => f.base.isSome && !stored T f

/-- the documented normalisation of one slot: a Bool other than 0/1 is invalid (255), a time before the epoch is invalid
(`time.Time{}`) -/
def normSlot (s : Slot) (x : SlotVal) : SlotVal :=
  match s.kind, x with
  | .bool, .val v => if boolValid v then x else .val s.dflt
  | .time, .time t => if t < 0 then .time zeroTime else x
  | _, _ => x

/-- what the code (amd64) makes of a time beyond the protocol's range; the identity on every other content -/
def wrapSlot (s : Slot) (x : SlotVal) : SlotVal :=
  match s.kind, x with
  | .time, .time t =>
    if 2 ^ 32 - 1 ≤ t then
      (if (min t durSatSec).toNat % 2 ^ 32 = uint32Invalid then .time zeroTime else .time ((min t durSatSec).toNat % 2 ^ 32 : Nat))
    else x
  | _, _ => x

/-- the bitmap with only the bits that satisfy `p` -/
def keepBits (n : Nat) (p : Nat → Bool) : Nat := ((bitsOf n).filter p).foldl (fun acc k => acc ||| (1 <<< k)) 0

/-- **normDoc**: the struct after the documented normalisations only — Bool other than 0/1 → invalid, time before the
epoch → `time.Time{}`, the mark of an eligible slot that is not emitted is dropped. This is what the property (with the
typed-message normalisation) demands to come back. -/
def normDoc (T : MesgTable) (st : Struct) : Struct :=
  { st with
    vals := (slotPairs T st).map fun p => normSlot p.1 p.2
    state := keepBits st.state fun k => !eligible T k || emitted T st k }

/-- **normStruct**: what DOES come back from `NewXxx(&s.ToMesg({Factory, IncludeExpandedFields: true}))`: `normDoc`, and
in addition a time beyond the protocol's range wraps (platform-defined), a mark on a non-eligible number is lost. -/
def normStruct (T : MesgTable) (st : Struct) : Struct :=
  { st with
    vals := (slotPairs T st).map fun p => wrapSlot p.1 (normSlot p.1 p.2)
    state := keepBits st.state fun k => emitted T st k }

/-- the content survives the trip: it is either valid or *the* invalid value of its kind; a time is a whole second
in `[epoch, epoch + 2^32 - 2]` or `time.Time{}` -/
def slotInRange (s : Slot) (x : SlotVal) : Bool :=
  shapeOk s x && !slotBoolOther s x && !slotPreEpoch s x && !slotTimeBeyond s x

/-- `InRange`: a Go value (`wellTyped`) in none of the classes above. -/
def inRange (T : MesgTable) (st : Struct) : Bool :=
  wellTyped T st && unknownsOk T st && !hasBoolOther T st && !hasPreEpoch T st && !hasTimeBeyond T st &&
  !hasMarkOnInvalid T st && !hasStrayBit T st

/-- class of the message direction (KF-C13-3, repaired in /repo 72c2963): the message carries developer fields and the
struct has no `DeveloperFields` (formerly FileId, DeveloperDataId, FieldDescription; empty for every well-formed table) -/
def hasLostDev (T : MesgTable) (m : Message) : Bool := !T.hasDev && !m.devFields.isEmpty

/-- the factory knows every slot of the table under its number and with a name (true of the standard factory:
checked on the regenerated tables) -/
def facOk (T : MesgTable) (fac : Nat → Field) : Bool :=
  T.slots.all fun s => match (fac s.num).base with
    | some b => b.num == s.num && b.nameKnown && (s.canExpand || !(fac s.num).isExpanded)
    | none => false

end Fit.Typed
