import FitModel.FileDefTypes
import FitModel.Generated.FileDefs
/-! Model of the common file types of /repo/profile/filedef (C14, first half).

Go code modelled (all 16 `profile/filedef/<type>.go` have the same shape; the per-type data is the regenerated
table `Generated.fileTypes`):

* `Add(mesg)` switches on `mesg.Num`: file_id → `f.FileId = *mesgdef.NewFileId(&mesg)` (a struct *value*);
  pointer fields (`f.Activity = mesgdef.NewActivity(&mesg)`) keep the last message added; slice fields append;
  `default:` clones the fields and appends to `UnrelatedMessages`.
* `ToFIT` emits file_id, the developer_data_id messages, the field_description messages, then every typed slot in
  a fixed order, then the unrelated messages; then it sorts a *suffix* of that sequence with
  `SortMessagesByTimestamp`: 9 types sort everything after the developer-data prefix
  (`fit.Messages[sortStartPos:]`), 7 types sort only `f.UnrelatedMessages`, `workout.go` sorts nothing.
  `FileType.sortFrom` is the index of the first group that is sorted.
* `SortMessagesByTimestamp` (filedef.go:39-81) = `slices.SortStableFunc` with the comparator modelled by `key`/`keyLe`:
  the key field is number 253, except 1 for course_point and 254 for set; a message without that field goes first;
  otherwise `Value.Uint32()` is compared, which is 0xFFFFFFFF for any value that is not a uint32.
  Assumption (stdlib): `slices.SortStableFunc` returns the stable sorted permutation; `FitProps` proves that this
  permutation is unique (`sortStable_unique`), so any stable algorithm computes what `sortStable` computes.

A typed slot stores `mesgdef.NewXxx(&mesg)` and emits `.ToMesg(options)`: the typed-message normalisation of C13.
The layer is written once, generic in the representation of a message (`Carrier`), and instantiated twice:
* `Msg` (this file): content is the opaque `dg`; the effect of the typed struct on the three candidate key fields is
  `normF` with the per-slot modes found by the probe (used by the listener model and the digest family);
* `Fit.Msg.Message` (`FileDefContent.lean`): real field lists; `Add` = `Typed.ofMesg`, `ToFIT` = `Typed.toMesg`, so the
  effect of the typed struct is C13's `typedNormal` (theorem, not sampling). -/
namespace Fit.FileDef
open Generated

def u32Invalid : Nat := 0xFFFFFFFF

/-- the field number `SortMessagesByTimestamp` reads for a message of number `num` -/
def tsNum (num : Nat) : Nat :=
  if num = mesgNumCoursePoint then fieldNumCoursePointTimestamp
  else if num = mesgNumSet then fieldNumSetTimestamp
  else fieldNumTimestamp

/-- `cmp(m1, m2) ≤ 0` of the comparator in filedef.go -/
def keyLe : Option Nat → Option Nat → Bool
  | none, _ => true
  | some _, none => false
  | some a, some b => a ≤ b

def slotOf (T : FileType) (n : Nat) : Option Slot := T.slots.find? (fun s => s.num == n)

/-- messages of this number replace each other -/
def isSingle (T : FileType) (n : Nat) : Bool :=
  match slotOf T n with
  | some s => s.kind == .value || s.kind == .single
  | none => false

/-- messages of this number are not given back -/
def isDropped (T : FileType) (n : Nat) : Bool :=
  match slotOf T n with
  | some s => s.kind == .dropped
  | none => T.dropped.contains n

/-- singleton kinds as DECLARED by the struct of the file type -/
def isSingleDecl (T : FileType) (n : Nat) : Bool :=
  match slotOf T n with
  | some s => s.decl == .value || s.decl == .single
  | none => false

/-- prefix numbers: file_id, developer_data_id, field_description -/
def isPrefixNum (n : Nat) : Bool := n == mesgNumFileId || n == mesgNumDeveloperDataId || n == mesgNumFieldDescription

/-- multiset equality of two lists on a projection, as a Boolean (for `--prop`) -/
def countEq {α} [BEq α] (a b : List α) : Bool :=
  a.length == b.length && a.all (fun x => a.count x == b.count x)

/-! ### The file-type layer, generic in the representation of a message

`Add` / `ToFIT` / `SortMessagesByTimestamp` look at a message only through its number and its sort key, pass it through
its typed struct (`norm`), and make up one message themselves (the zero-valued file_id, `dflt`). Everything below is
written once for any representation `μ` with these four operations (`Carrier`), and used twice: with the abstract
messages `Msg` (number, candidate key fields, opaque content digest — the listener model and the digest family) and
with real protocol messages `Fit.Msg.Message` (`FitModel/FileDefContent.lean`: `norm` = C13's `typedNormal`). -/

structure Carrier (μ : Type) where
  /-- `mesg.Num` -/
  num : μ → Nat
  /-- the sort key: `none` = no timestamp field (`f == nil`), otherwise `f.Value.Uint32()` -/
  key : μ → Option Nat
  /-- effect of `mesgdef.NewXxx(&m)` … `.ToMesg(options)` on a message that file type `T` stores in a typed slot
  (the identity on the other messages) -/
  norm : FileType → μ → μ
  /-- what `mesgdef.Xxx{}.ToMesg(options)` gives: the message of a value slot to which none was added -/
  dflt : FileType → Nat → μ

/-- the two facts the theorems need of a carrier: the typed struct keeps the message number, and the made-up message
has the number of its slot -/
structure Carrier.Lawful {μ : Type} (C : Carrier μ) : Prop where
  norm_num : ∀ T m, C.num (C.norm T m) = C.num m
  dflt_num : ∀ T n, C.num (C.dflt T n) = n

namespace G
variable {μ : Type} (C : Carrier μ)

def le (a b : μ) : Bool := keyLe (C.key a) (C.key b)

/-- insert `x` in front of an already sorted list whose elements all arrived after `x` -/
def insertSorted (x : μ) : List μ → List μ
  | [] => [x]
  | y :: ys => if le C x y then x :: y :: ys else y :: insertSorted x ys

/-- the stable sort by `key` (insertion sort from the right) -/
def sortStable (l : List μ) : List μ := l.foldr (insertSorted C) []

def addN (T : FileType) (f : List μ) (m : μ) : List μ :=
  if isDropped T (C.num m) then f
  else if isSingle T (C.num m) then f.filter (fun x => C.num x != C.num m) ++ [m]
  else f ++ [m]

/-- `f.Add(mesg)` -/
def add (T : FileType) (f : List μ) (m : μ) : List μ := addN C T f (C.norm T m)

/-- `filedef.NewXxx(mesgs...)` -/
def build (T : FileType) (msgs : List μ) : List μ := msgs.foldl (add C T) []

def slotMsgs (T : FileType) (f : List μ) (s : Slot) : List μ :=
  let l := f.filter (fun m => C.num m == s.num)
  if s.kind == .value && l.isEmpty then [C.dflt T s.num] else l

def unrelated (T : FileType) (f : List μ) : List μ := f.filter (fun m => (slotOf T (C.num m)).isNone)

/-- the groups `ToFIT` appends one after the other -/
def groups (T : FileType) (f : List μ) : List (List μ) := T.slots.map (slotMsgs C T f) ++ [unrelated C T f]

/-- the sequence before sorting -/
def emission (T : FileType) (f : List μ) : List μ := (groups C T f).flatten

/-- `f.ToFIT(options).Messages` -/
def toFIT (T : FileType) (f : List μ) : List μ :=
  ((groups C T f).take T.sortFrom).flatten ++ sortStable C ((groups C T f).drop T.sortFrom).flatten

/-! #### Specification side (what the property demands; used by the theorems and by `--prop`) -/

/-- the same with the kinds the probe observed (equal to `keepLastDecl` when the table is well formed: `TableOK`) -/
def keepLast (T : FileType) : List μ → List μ
  | [] => []
  | m :: rest =>
    if isSingle T (C.num m) && rest.any (fun x => C.num x == C.num m) then keepLast T rest else m :: keepLast T rest

/-- **Specification**: the messages a file must keep: all of them, except that of the messages whose number the struct
stores in a single-valued field (`mesgdef.FileId`, `*mesgdef.Activity`, …) only the last one survives -/
def keepLastDecl (T : FileType) : List μ → List μ
  | [] => []
  | m :: rest =>
    if isSingleDecl T (C.num m) && rest.any (fun x => C.num x == C.num m) then keepLastDecl T rest
    else m :: keepLastDecl T rest

/-- `l` is sorted by `le` (every earlier element ≤ every later one) -/
def sortedB : List μ → Bool
  | [] => true
  | x :: xs => xs.all (le C x) && sortedB xs

end G

/-! ### The abstract messages (`Msg`: number, candidate key fields, tag, content digest) -/

/-- value of field number `n` of a message, for the three numbers the model tracks -/
def cand (m : Msg) (n : Nat) : TsF :=
  if n = 1 then m.f1 else if n = 253 then m.f253 else if n = 254 then m.f254 else .absent

/-- the sort key: `none` = no timestamp field (`f == nil`), otherwise `f.Value.Uint32()` -/
def key (m : Msg) : Option Nat :=
  match cand m (tsNum m.num) with
  | .absent => none
  | .u32 v => some v
  | .other => some u32Invalid

def normF : FMode → TsF → TsF
  | .time, .u32 v => if v = u32Invalid then .absent else .u32 v
  | .time, _ => .absent
  | _, f => f

/-- effect of `mesgdef.NewXxx(&m).ToMesg()` on the candidate key fields -/
def norm (s : Slot) (m : Msg) : Msg :=
  { m with f1 := normF s.m1 m.f1, f253 := normF s.m253 m.f253, f254 := normF s.m254 m.f254 }

def normT (T : FileType) (m : Msg) : Msg :=
  match slotOf T m.num with
  | some s => norm s m
  | none => m

/-- what `mesgdef.FileId{}.ToMesg()` gives: the file_id of a file to which none was added -/
def defaultMsg (T : FileType) (n : Nat) : Msg :=
  { num := n, f1 := T.d1, f253 := T.d253, f254 := T.d254, tag := 0, dg := T.defaultDg, ft := 0 }

/-- the abstract messages as a carrier -/
def absC : Carrier Msg := { num := Msg.num, key := key, norm := normT, dflt := defaultMsg }

/-- abstract state of a file struct: the stored messages in arrival order -/
abbrev File := List Msg

abbrev le (a b : Msg) : Bool := G.le absC a b
abbrev sortStable (l : List Msg) : List Msg := G.sortStable absC l
abbrev addN (T : FileType) (f : File) (m : Msg) : File := G.addN absC T f m
/-- `f.Add(mesg)` -/
abbrev add (T : FileType) (f : File) (m : Msg) : File := G.add absC T f m
/-- `filedef.NewXxx(mesgs...)` -/
abbrev build (T : FileType) (msgs : List Msg) : File := G.build absC T msgs
abbrev emission (T : FileType) (f : File) : List Msg := G.emission absC T f
/-- `f.ToFIT(nil).Messages` -/
abbrev toFIT (T : FileType) (f : File) : List Msg := G.toFIT absC T f
abbrev keepLast (T : FileType) (l : List Msg) : List Msg := G.keepLast absC T l
abbrev keepLastDecl (T : FileType) (l : List Msg) : List Msg := G.keepLastDecl absC T l
abbrev sortedB (l : List Msg) : Bool := G.sortedB absC l

def fileTypeOf (b : Nat) : Option FileType := fileTypes.find? (fun T => T.ftype == b)

end Fit.FileDef
