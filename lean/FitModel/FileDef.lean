import FitModel.FileDefTypes
import FitModel.Generated.FileDefs
/-! Model of the common file types of /repo/profile/filedef (C14, first half).

Go code modelled (all 16 `profile/filedef/<type>.go` have the same shape; the per-type data is the regenerated
table `Generated.fileTypes`):

* `Add(mesg)` switches on `mesg.Num`: file_id → `f.FileId = *mesgdef.NewFileId(&mesg)` (a struct *value*);
  pointer fields (`f.Activity = mesgdef.NewActivity(&mesg)`) keep the last message added; slice fields append;
  `default:` clones the fields and appends to `UnrelatedMessages`.
* `ToFIT` emits file_id, the developer_data_id messages, the field_description messages, then every typed slot in
  a fixed order, then the unrelated messages; then it sorts a *suffix* of that sequence with
  `SortMessagesByTimestamp`: 9 types sort everything after the developer-data prefix
  (`fit.Messages[sortStartPos:]`), 7 types sort only `f.UnrelatedMessages`, `workout.go` sorts nothing.
  `FileType.sortFrom` is the index of the first group that is sorted.
* `SortMessagesByTimestamp` (filedef.go:39-81) = `slices.SortStableFunc` with the comparator modelled by `key`/`keyLe`:
  the key field is number 253, except 1 for course_point and 254 for set; a message without that field goes first;
  otherwise `Value.Uint32()` is compared, which is 0xFFFFFFFF for any value that is not a uint32.
  Assumption (stdlib): `slices.SortStableFunc` returns the stable sorted permutation; `FitProps` proves that this
  permutation is unique (`sortStable_unique`), so any stable algorithm computes what `sortStable` computes.

A typed slot stores `mesgdef.NewXxx(&mesg)` and emits `.ToMesg(options)`: the typed-message normalisation of C13.
Its effect on the *content* of a message is outside this model (content is the opaque `dg`); its effect on the three
candidate key fields is `normF` with the per-slot modes found by the probe. -/
namespace Fit.FileDef
open Generated

def u32Invalid : Nat := 0xFFFFFFFF

/-- value of field number `n` of a message, for the three numbers the model tracks -/
def cand (m : Msg) (n : Nat) : TsF :=
  if n = 1 then m.f1 else if n = 253 then m.f253 else if n = 254 then m.f254 else .absent

/-- the field number `SortMessagesByTimestamp` reads for a message of number `num` -/
def tsNum (num : Nat) : Nat :=
  if num = mesgNumCoursePoint then fieldNumCoursePointTimestamp
  else if num = mesgNumSet then fieldNumSetTimestamp
  else fieldNumTimestamp

/-- the sort key: `none` = no timestamp field (`f == nil`), otherwise `f.Value.Uint32()` -/
def key (m : Msg) : Option Nat :=
  match cand m (tsNum m.num) with
  | .absent => none
  | .u32 v => some v
  | .other => some u32Invalid

/-- `cmp(m1, m2) ≤ 0` of the comparator in filedef.go -/
def keyLe : Option Nat → Option Nat → Bool
  | none, _ => true
  | some _, none => false
  | some a, some b => a ≤ b

def le (a b : Msg) : Bool := keyLe (key a) (key b)

/-- insert `x` in front of an already sorted list whose elements all arrived after `x` -/
def insertSorted (x : Msg) : List Msg → List Msg
  | [] => [x]
  | y :: ys => if le x y then x :: y :: ys else y :: insertSorted x ys

/-- the stable sort by `key` (insertion sort from the right) -/
def sortStable (l : List Msg) : List Msg := l.foldr insertSorted []

def slotOf (T : FileType) (n : Nat) : Option Slot := T.slots.find? (fun s => s.num == n)

def normF : FMode → TsF → TsF
  | .time, .u32 v => if v = u32Invalid then .absent else .u32 v
  | .time, _ => .absent
  | _, f => f

/-- effect of `mesgdef.NewXxx(&m).ToMesg()` on the candidate key fields -/
def norm (s : Slot) (m : Msg) : Msg :=
  { m with f1 := normF s.m1 m.f1, f253 := normF s.m253 m.f253, f254 := normF s.m254 m.f254 }

def normT (T : FileType) (m : Msg) : Msg :=
  match slotOf T m.num with
  | some s => norm s m
  | none => m

/-- messages of this number replace each other -/
def isSingle (T : FileType) (n : Nat) : Bool :=
  match slotOf T n with
  | some s => s.kind == .value || s.kind == .single
  | none => false

/-- messages of this number are not given back -/
def isDropped (T : FileType) (n : Nat) : Bool :=
  match slotOf T n with
  | some s => s.kind == .dropped
  | none => T.dropped.contains n

/-- abstract state of a file struct: the stored messages in arrival order -/
abbrev File := List Msg

def addN (T : FileType) (f : File) (m : Msg) : File :=
  if isDropped T m.num then f
  else if isSingle T m.num then f.filter (fun x => x.num != m.num) ++ [m]
  else f ++ [m]

/-- `f.Add(mesg)` -/
def add (T : FileType) (f : File) (m : Msg) : File := addN T f (normT T m)

/-- `filedef.NewXxx(mesgs...)` -/
def build (T : FileType) (msgs : List Msg) : File := msgs.foldl (add T) []

/-- what `mesgdef.FileId{}.ToMesg()` gives: the file_id of a file to which none was added -/
def defaultMsg (T : FileType) (n : Nat) : Msg :=
  { num := n, f1 := T.d1, f253 := T.d253, f254 := T.d254, tag := 0, dg := T.defaultDg, ft := 0 }

def slotMsgs (T : FileType) (f : File) (s : Slot) : List Msg :=
  let l := f.filter (fun m => m.num == s.num)
  if s.kind == .value && l.isEmpty then [defaultMsg T s.num] else l

def unrelated (T : FileType) (f : File) : List Msg := f.filter (fun m => (slotOf T m.num).isNone)

/-- the groups `ToFIT` appends one after the other -/
def groups (T : FileType) (f : File) : List (List Msg) := T.slots.map (slotMsgs T f) ++ [unrelated T f]

/-- the sequence before sorting -/
def emission (T : FileType) (f : File) : List Msg := (groups T f).flatten

/-- `f.ToFIT(nil).Messages` -/
def toFIT (T : FileType) (f : File) : List Msg :=
  ((groups T f).take T.sortFrom).flatten ++ sortStable ((groups T f).drop T.sortFrom).flatten

def fileTypeOf (b : Nat) : Option FileType := fileTypes.find? (fun T => T.ftype == b)

/-! ### Specification side (what the property demands; used by the theorems and by `--prop`) -/

/-- the same with the kinds the probe observed (equal to `keepLastDecl` when the table is well formed: `TableOK`) -/
def keepLast (T : FileType) : List Msg → List Msg
  | [] => []
  | m :: rest => if isSingle T m.num && rest.any (fun x => x.num == m.num) then keepLast T rest else m :: keepLast T rest

/-- singleton kinds as DECLARED by the struct of the file type -/
def isSingleDecl (T : FileType) (n : Nat) : Bool :=
  match slotOf T n with
  | some s => s.decl == .value || s.decl == .single
  | none => false

/-- **Specification**: the messages a file must keep: all of them, except that of the messages whose number the struct
stores in a single-valued field (`mesgdef.FileId`, `*mesgdef.Activity`, …) only the last one survives -/
def keepLastDecl (T : FileType) : List Msg → List Msg
  | [] => []
  | m :: rest =>
    if isSingleDecl T m.num && rest.any (fun x => x.num == m.num) then keepLastDecl T rest else m :: keepLastDecl T rest

/-- prefix numbers: file_id, developer_data_id, field_description -/
def isPrefixNum (n : Nat) : Bool := n == mesgNumFileId || n == mesgNumDeveloperDataId || n == mesgNumFieldDescription

/-- `l` is sorted by `le` (every earlier element ≤ every later one) -/
def sortedB : List Msg → Bool
  | [] => true
  | x :: xs => xs.all (le x) && sortedB xs

/-- multiset equality of two lists on a projection, as a Boolean (for `--prop`) -/
def countEq {α} [BEq α] (a b : List α) : Bool :=
  a.length == b.length && a.all (fun x => a.count x == b.count x)

end Fit.FileDef
