import FitModel.F64
import FitModel.Value
/-!
Specification side of C05 (DESIGN §3 "FitSpec/Physical"): the exact rational physical value of a component
and the abstract bit semantics of a containing value.

* `Q`: a rational as numerator / positive denominator (no normalisation needed for what is asked of it);
* `phys bits cs co ds do = ((bits / cs − co) + do) × ds` with the scales and offsets taken as the exact
  rational values of their float64 bit patterns;
* `containerNat`: the (possibly array) containing value as ONE natural number — element 0 least
  significant, each element its unsigned pattern of the element width; `sliceAt n off w = (n / 2^off) % 2^w`.
-/
namespace Fit.Physical
open Fit.F64 Fit.Value

structure Q where
  num : Int
  den : Nat
  deriving Repr, Inhabited

namespace Q
def ofInt (i : Int) : Q := ⟨i, 1⟩
def add (a b : Q) : Q := ⟨a.num * b.den + b.num * a.den, a.den * b.den⟩
def neg (a : Q) : Q := ⟨-a.num, a.den⟩
def sub (a b : Q) : Q := add a (neg b)
def mul (a b : Q) : Q := ⟨a.num * b.num, a.den * b.den⟩
/-- `a / b` for `b ≠ 0` -/
def div (a b : Q) : Q :=
  if b.num < 0 then ⟨-(a.num * b.den), a.den * b.num.natAbs⟩ else ⟨a.num * b.den, a.den * b.num.natAbs⟩
def isInt (a : Q) : Bool := a.den != 0 && a.num % (a.den : Int) == 0
def floor (a : Q) : Int := a.num / (a.den : Int)
/-- exact value of a finite float64 -/
def ofF64 (x : Nat) : Option Q :=
  match decode x with
  | .fin s m e =>
    let n : Int := if s then -(m : Int) else m
    if e ≥ 0 then some ⟨n * 2 ^ e.toNat, 1⟩ else some ⟨n, 2 ^ (-e).toNat⟩
  | _ => none
end Q

/-- `((bits / cScale − cOffset) + dOffset) × dScale`, exactly; `none` if a scale/offset is not finite or the
component scale is zero -/
def phys (bits cScale cOffset dScale dOffset : Nat) : Option Q :=
  match Q.ofF64 cScale, Q.ofF64 cOffset, Q.ofF64 dScale, Q.ofF64 dOffset with
  | some cs, some co, some ds, some d0 =>
    if cs.num = 0 then none
    else some (Q.mul (Q.add (Q.sub (Q.div (Q.ofInt bits) cs) co) d0) ds)
  | _, _, _, _ => none

/-- the value the property demands when the physical value is an integer that fits a uint32 (the width of the
decoder's intermediate): that integer -/
def exactValue (bits cScale cOffset dScale dOffset : Nat) : Option Nat :=
  match phys bits cScale cOffset dScale dOffset with
  | some q => if q.isInt ∧ 0 ≤ q.floor ∧ q.floor < 2 ^ 32 then some q.floor.toNat else none
  | none => none

/-- the specification's choice of an integer for a component: the exact value when there is one, otherwise
the floor of the physical value (any integer within one unit is acceptable there; see `withinOne`) -/
def specValue (bits cScale cOffset dScale dOffset : Nat) : Nat :=
  match phys bits cScale cOffset dScale dOffset with
  | some q => (q.floor % (2 ^ 32 : Int)).toNat
  | none => 0

/-- `|v − phys| ≤ 1` -/
def withinOne (v bits cScale cOffset dScale dOffset : Nat) : Bool :=
  match phys bits cScale cOffset dScale dOffset with
  | some q =>
    let d := Q.sub (Q.ofInt v) q
    decide (-(d.den : Int) ≤ d.num ∧ d.num ≤ d.den)
  | none => false

/-! ### abstract bit semantics -/

def catLE (w : Nat) : List Nat → Nat
  | [] => 0
  | x :: xs => x % 2 ^ w + 2 ^ w * catLE w xs

/-- the containing value as one natural number (unsigned element patterns, element 0 least significant) -/
def containerNat : Value → Option Nat
  | .int8 x | .uint8 x => some (x % 2 ^ 8)
  | .int16 x | .uint16 x => some (x % 2 ^ 16)
  | .int32 x | .uint32 x => some (x % 2 ^ 32)
  | .int64 x | .uint64 x => some (x % 2 ^ 64)
  | .sliceInt8 xs | .sliceUint8 xs => some (catLE 8 xs)
  | .sliceInt16 xs | .sliceUint16 xs => some (catLE 16 xs)
  | .sliceInt32 xs | .sliceUint32 xs => some (catLE 32 xs)
  | .sliceInt64 xs | .sliceUint64 xs => some (catLE 64 xs)
  | _ => none

/-- `w` bits of `n` starting at bit `off` -/
def sliceAt (n off w : Nat) : Nat := n / 2 ^ off % 2 ^ w

end Fit.Physical
