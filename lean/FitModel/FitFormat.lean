import FitModel.Crc
/-!
# FIT framing — an independent reading of the protocol (https://developer.garmin.com/fit/protocol)

This file is a SPECIFICATION. It is written from the protocol description, not from the decoder of
muktihari/fit, and is deliberately naive: plain recursion over the byte list, no buffers, no state
other than the table "local message type → length of its data records".

A FIT *stream* is a concatenation of *sequences* (chained FIT files). A sequence is

```
header   : size byte (12 or 14) · protocol version · profile version (LE16) · data size (LE32) · ".FIT"
           · [header CRC (LE16), only when size = 14; 0x0000 = "not computed"]
records  : exactly `data size` bytes, a succession of records
file CRC : LE16, CRC-16 of every preceding byte of the sequence (header included)
```

A record starts with a one-byte record header.
* bit 7 = 0, bit 6 = 1 — **definition message**: reserved · architecture · global message number (2 bytes)
  · number of fields `n` · `n` × (field number, size, base type) and, when bit 5 (developer data flag) is set,
  · number of developer fields `k` · `k` × (field number, size, developer data index). It (re)binds the
  local message type in bits 0–3.
* bit 7 = 0, bit 6 = 0 — **data message** of the local message type in bits 0–3,
* bit 7 = 1 — **compressed-timestamp data message** of the local message type in bits 5–6 (bits 0–4: time offset).
  A data message is the record header followed by as many bytes as the sizes of the live definition
  of its local message type add up to; a data message without live definition is malformed.

Definitions do not survive the end of a sequence.
-/
namespace Fit.FitFormat
open Fit.Crc

def le16 (a b : Nat) : Nat := a + 256 * b
def le32 (a b c d : Nat) : Nat := a + 256 * b + 65536 * c + 16777216 * d

/-- ".FIT" -/
def tag : List Nat := [0x2E, 0x46, 0x49, 0x54]

structure Header where
  size : Nat             -- 12 or 14
  protocolVersion : Nat
  profileVersion : Nat
  dataSize : Nat
  /-- the header CRC field; `none` for a 12-byte header -/
  crc : Option Nat
  deriving Repr, DecidableEq

/-- a field definition triplet: (number, size, base type) or, for developer fields, (number, size, developer data index) -/
abbrev Triplet := Nat × Nat × Nat

inductive Kind | header | definition | data | crc
  deriving Repr, DecidableEq

/-- a record of a sequence, with its place in the stream -/
structure Rec where
  kind : Kind            -- `.definition` or `.data`
  hdr : Nat              -- the record header byte
  localNum : Nat
  off : Nat              -- offset of the record header byte in the stream
  len : Nat              -- length in bytes, record header included
  -- contents of a definition (empty / 0 for data records)
  arch : Nat := 0
  globalNum : Nat := 0
  fields : List Triplet := []
  devFields : List Triplet := []
  deriving Repr, DecidableEq

structure SeqView where
  start : Nat            -- offset of the sequence's first byte in the stream
  header : Header
  records : List Rec
  crc : Nat              -- the stored file CRC
  deriving Repr, DecidableEq

/-- total length of a sequence in bytes -/
def SeqView.len (s : SeqView) : Nat := s.header.size + s.header.dataSize + 2

/-- parse a file header at the front of `bs`; `none` when there is none -/
def parseHeader (bs : List Nat) : Option Header :=
  match bs with
  | size :: pv :: p0 :: p1 :: d0 :: d1 :: d2 :: d3 :: t0 :: t1 :: t2 :: t3 :: rest =>
    if [t0, t1, t2, t3] ≠ tag then none
    else if size = 12 then
      some { size := 12, protocolVersion := pv, profileVersion := le16 p0 p1, dataSize := le32 d0 d1 d2 d3, crc := none }
    else if size = 14 then
      match rest with
      | c0 :: c1 :: _ =>
        some { size := 14, protocolVersion := pv, profileVersion := le16 p0 p1, dataSize := le32 d0 d1 d2 d3, crc := some (le16 c0 c1) }
      | _ => none
    else none
  | _ => none

/-- group a byte list into triplets (the caller guarantees a length divisible by 3) -/
def triplets : List Nat → List Triplet
  | a :: b :: c :: rest => (a, b, c) :: triplets rest
  | _ => []

/-- sum of the sizes of field definitions -/
def sizeSum (ts : List Triplet) : Nat := (ts.map fun t => t.2.1).foldl (· + ·) 0

/-- table of live definitions: local message type → number of payload bytes of its data records -/
abbrev Defs := Nat → Option Nat
def Defs.empty : Defs := fun _ => none
def Defs.set (d : Defs) (k v : Nat) : Defs := fun i => if i = k then some v else d i

def isDefinition (h : Nat) : Bool := h &&& 0x80 = 0 ∧ h &&& 0x40 ≠ 0
def isCompressed (h : Nat) : Bool := h &&& 0x80 ≠ 0
def hasDevData (h : Nat) : Bool := h &&& 0x20 ≠ 0
/-- local message type addressed by a record header -/
def localNum (h : Nat) : Nat := if isCompressed h then (h >>> 5) &&& 0x3 else h &&& 0xF

/-- `n ≤ l.length`, looking at no more than `n` cells -/
def hasN : List Nat → Nat → Bool
  | _, 0 => true
  | [], _ + 1 => false
  | _ :: t, n + 1 => hasN t n

theorem hasN_iff (l : List Nat) (n : Nat) : hasN l n = true ↔ n ≤ l.length := by
  induction l generalizing n with
  | nil => cases n <;> simp [hasN]
  | cons a t ih => cases n with
    | zero => simp [hasN]
    | succ n => simp [hasN, ih]

/-- parse one definition record whose header byte `h` has been removed: gives the record and the remaining bytes -/
def parseDefinition (h off : Nat) (bs : List Nat) : Option (Rec × List Nat) :=
  match bs with
  | _reserved :: arch :: g0 :: g1 :: nf :: rest =>
    if !hasN rest (3 * nf) then none else
    let fields := triplets (rest.take (3 * nf))
    let rest := rest.drop (3 * nf)
    let gnum := if arch = 0 then le16 g0 g1 else le16 g1 g0
    if hasDevData h then
      match rest with
      | nd :: rest =>
        if !hasN rest (3 * nd) then none else
        let dev := triplets (rest.take (3 * nd))
        some ({ kind := .definition, hdr := h, localNum := h &&& 0xF, off := off, len := 6 + 3 * nf + 1 + 3 * nd,
                arch := arch, globalNum := gnum, fields := fields, devFields := dev }, rest.drop (3 * nd))
      | [] => none
    else
      some ({ kind := .definition, hdr := h, localNum := h &&& 0xF, off := off, len := 6 + 3 * nf,
              arch := arch, globalNum := gnum, fields := fields, devFields := [] }, rest)
  | _ => none

/-- the records of one sequence: `bs` must be consumed exactly. `fuel` ≥ `bs.length` suffices
(every record has at least one byte). -/
def parseRecords : Nat → Defs → Nat → List Nat → Option (List Rec)
  | _, _, _, [] => some []
  | 0, _, _, _ :: _ => none
  | fuel + 1, defs, off, h :: rest =>
    if isDefinition h then
      match parseDefinition h off rest with
      | none => none
      | some (r, rest') =>
        match parseRecords fuel (defs.set r.localNum (sizeSum r.fields + sizeSum r.devFields)) (off + r.len) rest' with
        | none => none
        | some rs => some (r :: rs)
    else
      match defs (localNum h) with
      | none => none                         -- data message without live definition
      | some n =>
        if !hasN rest n then none else
        match parseRecords fuel defs (off + 1 + n) (rest.drop n) with
        | none => none
        | some rs => some ({ kind := .data, hdr := h, localNum := localNum h, off := off, len := 1 + n } :: rs)

/-- one sequence at the front of `bs` (which starts at offset `off` of the stream): the view and the remaining bytes -/
def parseSeq (off : Nat) (bs : List Nat) : Option (SeqView × List Nat) :=
  match parseHeader bs with
  | none => none
  | some h =>
    let body := bs.drop h.size
    if !hasN body (h.dataSize + 2) then none else
    match parseRecords h.dataSize Defs.empty (off + h.size) (body.take h.dataSize) with
    | none => none
    | some rs =>
      match body.drop h.dataSize with
      | c0 :: c1 :: rest => some ({ start := off, header := h, records := rs, crc := le16 c0 c1 }, rest)
      | _ => none

/-- all sequences of a stream; nothing may lie between or after them. `fuel` ≥ `bs.length` suffices. -/
def parseSeqs : Nat → Nat → List Nat → Option (List SeqView)
  | _, _, [] => some []
  | 0, _, _ :: _ => none
  | fuel + 1, off, bs@(_ :: _) =>
    match parseSeq off bs with
    | none => none
    | some (s, rest) =>
      match parseSeqs fuel (off + s.len) rest with
      | none => none
      | some ss => some (s :: ss)

def parseStream (bs : List Nat) : Option (List SeqView) := parseSeqs bs.length 0 bs

/-- bytes `[off, off+len)` of the stream -/
def slice (bs : List Nat) (off len : Nat) : List Nat := (bs.drop off).take len

/-- the header CRC, when the header has one, is the CRC-16 of the first 12 header bytes, or 0x0000 ("not computed") -/
def headerCrcOk (bs : List Nat) (s : SeqView) : Bool :=
  match s.header.crc with
  | none => true
  | some c => c = 0 ∨ c = crcSpec 0 (slice bs s.start 12)

/-- as `headerCrcOk`, but a 14-byte header must carry the computed value -/
def headerCrcStrict (bs : List Nat) (s : SeqView) : Bool :=
  match s.header.crc with
  | none => true
  | some c => c = crcSpec 0 (slice bs s.start 12)

/-- the file CRC is the CRC-16 of every preceding byte of the sequence, header included -/
def fileCrcOk (bs : List Nat) (s : SeqView) : Bool :=
  s.crc = crcSpec 0 (slice bs s.start (s.header.size + s.header.dataSize))

/-- WELL-FORMED STREAM: parses into sequences with nothing between or after them, and every sequence
has a correct header CRC (when present and computed) and a correct file CRC. -/
def WellFormed (bs : List Nat) : Prop :=
  ∃ seqs, parseStream bs = some seqs ∧ ∀ s ∈ seqs, headerCrcOk bs s = true ∧ fileCrcOk bs s = true

/-- executable form of `WellFormed` -/
def wellFormed (bs : List Nat) : Bool :=
  match parseStream bs with
  | none => false
  | some seqs => seqs.all fun s => headerCrcOk bs s && fileCrcOk bs s

theorem wellFormed_iff (bs : List Nat) : wellFormed bs = true ↔ WellFormed bs := by
  unfold wellFormed WellFormed
  cases parseStream bs with
  | none => simp
  | some seqs => simp [List.all_eq_true, Bool.and_eq_true]

instance (bs : List Nat) : Decidable (WellFormed bs) := decidable_of_iff _ (wellFormed_iff bs)

/-- segmentation of a stream into (kind, offset, length): file header, each record, file CRC — per sequence, in order -/
def segmentsOf (s : SeqView) : List (Kind × Nat × Nat) :=
  (Kind.header, s.start, s.header.size) ::
    (s.records.map fun r => (r.kind, r.off, r.len)) ++
    [(Kind.crc, s.start + s.header.size + s.header.dataSize, 2)]

def segments (bs : List Nat) : Option (List (Kind × Nat × Nat)) :=
  (parseStream bs).map fun seqs => (seqs.map segmentsOf).flatten

/-- the valid base type bytes of the protocol (enum … uint64z) -/
def baseTypes : List Nat :=
  [0x00, 0x01, 0x02, 0x83, 0x84, 0x85, 0x86, 0x07, 0x88, 0x89, 0x0A, 0x8B, 0x8C, 0x0D, 0x8E, 0x8F, 0x90]

/-- definition contents the protocol allows: architecture 0/1, known base types -/
def defContentOk (r : Rec) : Bool :=
  r.kind ≠ .definition || ((r.arch = 0 ∨ r.arch = 1) && r.fields.all fun t => baseTypes.contains t.2.2)

end Fit.FitFormat
