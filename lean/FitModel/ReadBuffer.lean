import FitModel.Generated.ReaderConsts
/-!
Model of `/repo/decoder/readbuffer.go` (`readBuffer.Reset`, `readBuffer.ReadN`) as written, of the
`io.Reader` it pulls from, and of `io.ReadAtLeast` / `io.ReadFull` (Go standard library, modelled from the
documented contract and the six lines of its loop).

* The **reader** is a *schedule*: the list of results its successive `Read(p)` calls will give — some bytes
  (possibly none) and possibly an error **together with** them; a chunk that does not fit into `p` is
  delivered in pieces (`len(p)` bytes, `nil` error, the remainder stays). After the schedule the reader
  answers `(0, io.EOF)` for ever. So "EOF together with the last bytes" is a last chunk `(data, some eof)`,
  "EOF after the last bytes" is a schedule that simply ends, a failing reader is a chunk with `some (custom k)`.
* The **buffer** is the backing array (`cap(b.buf)` cells), `len(b.buf)`, and the two cursors. Every cell is
  modelled (also the garbage the `copy` moves beyond the window), so the model is exact on *every* sequence
  of `Reset`/`ReadN` calls, not only on those the decoder issues. A Go panic (slice bounds) is an outcome.
* A **client** of the reader (decoder, raw decoder) is a `Prog`: a tree whose nodes are `ReadN(n)` requests and
  whose edges are labelled by the result handed back — so "the client talks to the stream only through
  `ReadN`" holds by construction, and refinement results about the reader lift to every client at once.

Bytes are `Nat` (< 256 where it matters: `IsBytes`).
-/
namespace Fit.ReadBuffer
open Fit.Gen.Reader

abbrev Bytes := List Nat

def IsBytes (bs : Bytes) : Prop := ∀ b ∈ bs, b < 256

/-- `math.MaxUint32` (`maxReadBufferSize`; unexported and not observable: a 4 GiB buffer is never allocated by the check) -/
def maxReadBufferSize : Nat := 4294967295

/-- errors of the reading layer: the two end-of-stream errors of package `io`, `io.ErrShortBuffer`,
and any error of the client's reader (identified by a number) -/
inductive RErr
  | eof | unexpectedEof | shortBuffer | custom (code : Nat)
  deriving DecidableEq, Repr, Inhabited

/-- result of one `Read` call of the client's reader -/
structure Chunk where
  data : Bytes
  err : Option RErr
  deriving DecidableEq, Repr, Inhabited

abbrev Sched := List Chunk

/-- every byte the schedule will deliver -/
def bytesOf (s : Sched) : Bytes := s.flatMap (·.data)

/-! ### `io.ReadAtLeast` -/

/-- the loop `for n < min && err == nil { nn, err = r.Read(buf[n:]); n += nn }` of `io.ReadAtLeast` for
`len(buf) = cap ≥ min`: the bytes stored so far (`acc`, at `buf[0:]`), the error that ended the loop and the
rest of the schedule. Structural in the schedule: a call either uses up a chunk or fills the buffer
(then `n = cap ≥ min` ends the loop). -/
def ral (cap min : Nat) : Bytes → Sched → Bytes × Option RErr × Sched
  | acc, [] => if acc.length < min then (acc, some .eof, []) else (acc, none, [])
  | acc, c :: rest =>
    if acc.length < min then
      if c.data.length ≤ cap - acc.length then
        match c.err with
        | none => ral cap min (acc ++ c.data) rest
        | some e => (acc ++ c.data, some e, rest)
      else
        (acc ++ c.data.take (cap - acc.length), none, { c with data := c.data.drop (cap - acc.length) } :: rest)
    else (acc, none, c :: rest)

/-! compiled forms that do not walk a whole (possibly megabytes long) chunk to compare its length with a small number
(proved equal; `csimp` makes the compiler use them — the theory is unchanged) -/

/-- `l.length ≤ n`, looking at no more than `n + 1` cells -/
def lenLe {α : Type} : List α → Nat → Bool
  | [], _ => true
  | _ :: _, 0 => false
  | _ :: t, n + 1 => lenLe t n

theorem lenLe_iff {α : Type} (l : List α) (n : Nat) : lenLe l n = true ↔ l.length ≤ n := by
  induction l generalizing n with
  | nil => simp [lenLe]
  | cons a t ih => cases n with
    | zero => simp [lenLe]
    | succ n => simp [lenLe, ih]

def ralFast (cap min : Nat) : Bytes → Sched → Bytes × Option RErr × Sched
  | acc, [] => if acc.length < min then (acc, some .eof, []) else (acc, none, [])
  | acc, c :: rest =>
    if acc.length < min then
      if lenLe c.data (cap - acc.length) then
        match c.err with
        | none => ralFast cap min (acc ++ c.data) rest
        | some e => (acc ++ c.data, some e, rest)
      else
        (acc ++ c.data.take (cap - acc.length), none, { c with data := c.data.drop (cap - acc.length) } :: rest)
    else (acc, none, c :: rest)

@[csimp] theorem ral_eq_ralFast : @ral = @ralFast := by
  funext cap min acc s
  induction s generalizing acc with
  | nil => simp [ral, ralFast]
  | cons c rest ih =>
    simp only [ral, ralFast]
    by_cases h : c.data.length ≤ cap - acc.length
    · have h' : lenLe c.data (cap - acc.length) = true := (lenLe_iff _ _).mpr h
      simp only [h, h', if_true, ih]
    · have h' : ¬ (lenLe c.data (cap - acc.length) = true) := fun hh => h ((lenLe_iff _ _).mp hh)
      simp only [h, h', if_false, Bool.false_eq_true]

/-- `io.ReadAtLeast(r, buf, min)` with `len(buf) = cap`: bytes stored at `buf[0:]`, error, rest of the schedule -/
def readAtLeast (cap min : Nat) (s : Sched) : Bytes × Option RErr × Sched :=
  if cap < min then ([], some .shortBuffer, s)
  else
    match ral cap min [] s with
    | (d, e, s') =>
      if min ≤ d.length then (d, none, s')
      else if 0 < d.length ∧ e = some .eof then (d, some .unexpectedEof, s')
      else (d, e, s')

/-- `io.ReadFull(r, buf)` = `ReadAtLeast(r, buf, len(buf))` -/
def readFull (n : Nat) (s : Sched) : Bytes × Option RErr × Sched := readAtLeast n n s

/-! ### `readBuffer` -/

structure RB where
  /-- the backing array of `b.buf` (`cap(b.buf)` cells) -/
  arr : Bytes
  /-- `len(b.buf)` -/
  len : Nat
  cur : Nat
  last : Nat
  /-- `b.r` -/
  src : Sched
  deriving Repr, Inhabited

/-- the zero value (`var b readBuffer`) -/
def RB.zero : RB := ⟨[], 0, 0, 0, []⟩

/-- size clamping of `Reset` (`size` is a Go `int`) -/
def clampSize (size : Int) : Nat :=
  if size < (minReadBufferSize : Int) then minReadBufferSize
  else if size > (maxReadBufferSize : Int) then maxReadBufferSize
  else size.toNat

/-- `(*readBuffer).Reset(r, size)`: a larger buffer is allocated (zeroed) only when the old capacity does not
suffice (`size > cap(b.buf) - reservedbuf`); otherwise the old array — contents included — is re-sliced. -/
def RB.reset (b : RB) (r : Sched) (size : Int) : RB :=
  let size := clampSize size
  let arr := if b.arr.length < reservedbuf + size then List.replicate (reservedbuf + size) 0 else b.arr
  { arr := arr, len := reservedbuf + size, cur := 0, last := 0, src := r }

/-- `copy(buf[dst:], buf[src:])` on a slice of length `len` (overlap-safe, as Go's `copy`) -/
def copyWithin (arr : Bytes) (len dst src : Nat) : Bytes :=
  let cnt := min (len - dst) (len - src)
  arr.take dst ++ (arr.drop src).take cnt ++ arr.drop (dst + cnt)

/-- store `d` at `arr[off:]` -/
def writeAt (arr : Bytes) (off : Nat) (d : Bytes) : Bytes :=
  arr.take off ++ d ++ arr.drop (off + d.length)

inductive Res
  | ok (bs : Bytes)
  | err (e : RErr)
  | panic
  deriving DecidableEq, Repr, Inhabited

/-- the final `buf := b.buf[b.cur : b.cur+n]; b.cur += n` (slice bounds are checked against the capacity) -/
def RB.slice (b : RB) (n : Nat) : Res × RB :=
  if b.arr.length < b.cur + n then (.panic, b)
  else (.ok ((b.arr.drop b.cur).take n), { b with cur := b.cur + n })

/-- `(*readBuffer).ReadN(n)`, `n ≥ 0`. `remaining = last - cur` is a Go `int`; `cur ≤ last` is an invariant
(`RBWF`), so natural subtraction is exact. -/
def RB.readN (b : RB) (n : Nat) : Res × RB :=
  let remaining := b.last - b.cur
  if remaining < n then
    -- `cur = reservedbuf - remaining` would be negative: `b.buf[cur:]` panics
    if remaining ≠ 0 ∧ reservedbuf < remaining then (.panic, b)
    -- `b.buf[reservedbuf:]` needs `reservedbuf ≤ len(b.buf)` (always true after a `Reset`)
    else if b.len < reservedbuf then (.panic, b)
    else
      let cur := if remaining ≠ 0 then reservedbuf - remaining else reservedbuf
      let arr1 := if remaining ≠ 0 then copyWithin b.arr b.len cur b.cur else b.arr
      match readAtLeast (b.len - reservedbuf) (n - remaining) b.src with
      | (d, some e, src') => (.err e, { b with arr := writeAt arr1 reservedbuf d, src := src' })
      | (d, none, src') =>
        RB.slice { arr := writeAt arr1 reservedbuf d, len := b.len, cur := cur, last := reservedbuf + d.length, src := src' } n
  else b.slice n

/-- a sequence of `ReadN` calls, stopping after the first that does not succeed (the decoder's errors are sticky) -/
def RB.readMany (b : RB) : List Nat → List Res × RB
  | [] => ([], b)
  | n :: ns =>
    match b.readN n with
    | (.ok bs, b') => let (rs, b'') := b'.readMany ns; (.ok bs :: rs, b'')
    | (r, b') => ([r], b')

/-! ### the exact-n reader over a byte stream (the specification of `ReadN`) -/

/-- `n` bytes, or: `eof` when nothing at all is left, `unexpectedEof` when some but fewer than `n` bytes are
left (the semantics of `io.ReadFull` on the whole stream); a short read uses up what was left. -/
def exactRead (rest : Bytes) (n : Nat) : Except RErr Bytes × Bytes :=
  if n ≤ rest.length then (.ok (rest.take n), rest.drop n)
  else if rest.isEmpty then (.error .eof, [])
  else (.error .unexpectedEof, [])

def exactReadFast (rest : Bytes) (n : Nat) : Except RErr Bytes × Bytes :=
  if !(lenLe rest n) || rest.length == n then (.ok (rest.take n), rest.drop n)
  else if rest.isEmpty then (.error .eof, [])
  else (.error .unexpectedEof, [])

@[csimp] theorem exactRead_eq_fast : @exactRead = @exactReadFast := by
  funext rest n
  unfold exactRead exactReadFast
  by_cases h : n ≤ rest.length
  · have : (!(lenLe rest n) || rest.length == n) = true := by
      by_cases h2 : rest.length ≤ n
      · have : rest.length = n := by omega
        simp [this]
      · have : lenLe rest n = false := by
          cases hh : lenLe rest n with
          | false => rfl
          | true => exact absurd ((lenLe_iff _ _).mp hh) h2
        simp [this]
    simp only [h, if_true, this]
  · have h2 : rest.length ≤ n := by omega
    have h3 : lenLe rest n = true := (lenLe_iff _ _).mpr h2
    have h4 : (rest.length == n) = false := by simp; omega
    simp [h, h3, h4]

def exactMany (rest : Bytes) : List Nat → List Res
  | [] => []
  | n :: ns =>
    match exactRead rest n with
    | (.ok bs, rest') => .ok bs :: exactMany rest' ns
    | (.error e, _) => [.err e]

/-- the two end-of-stream errors as one class -/
def RErr.merge : RErr → RErr
  | .unexpectedEof => .eof
  | e => e

def Res.merge : Res → Res
  | .err e => .err e.merge
  | r => r

/-! ### clients of a reader -/

/-- a client: either finished with a result, or asking for `n` bytes and continuing with what it gets -/
inductive Prog (α : Type) : Type
  | ret (a : α)
  | read (n : Nat) (k : Except RErr Bytes → Prog α)

/-- outcome of running a client on the read buffer -/
inductive Outcome (α : Type)
  | done (a : α)
  | panic
  deriving Repr, DecidableEq

/-- run a client on a read buffer (over its schedule) -/
def runRB {α : Type} : Prog α → RB → Outcome α
  | .ret a, _ => .done a
  | .read n k, b =>
    match b.readN n with
    | (.ok bs, b') => runRB (k (.ok bs)) b'
    | (.err e, b') => runRB (k (.error e)) b'
    | (.panic, _) => .panic

/-- is it an error of the client's reader itself (not one of the end-of-stream errors of package `io`)? -/
def RErr.isReaderFailure : RErr → Bool
  | .custom _ => true
  | _ => false

/-- the first failure of the reader itself that `ReadN` handed to the client during its run over the read buffer -/
def firstReaderErr {α : Type} : Prog α → RB → Option RErr
  | .ret _, _ => none
  | .read n k, b =>
    match b.readN n with
    | (.ok bs, b') => firstReaderErr (k (.ok bs)) b'
    | (.err e, b') => if e.isReaderFailure then some e else firstReaderErr (k (.error e)) b'
    | (.panic, _) => none

/-- the first failure of the reader itself that `io.ReadFull` handed to a client reading straight from the reader -/
def firstFullErr {α : Type} : Prog α → Sched → Option RErr
  | .ret _, _ => none
  | .read n k, s =>
    match readFull n s with
    | (d, none, s') => firstFullErr (k (.ok d)) s'
    | (_, some e, s') => if e.isReaderFailure then some e else firstFullErr (k (.error e)) s'

/-- run a client on the exact-n reader over a byte stream -/
def runExact {α : Type} : Prog α → Bytes → α
  | .ret a, _ => a
  | .read n k, rest => runExact (k (exactRead rest n).1) (exactRead rest n).2

/-- as `runExact`, also giving the part of the stream that was not read -/
def runExactR {α : Type} : Prog α → Bytes → α × Bytes
  | .ret a, rest => (a, rest)
  | .read n k, rest => runExactR (k (exactRead rest n).1) (exactRead rest n).2

/-- run a client that calls `io.ReadFull(r, buf[:n])` on the reader directly (no read buffer) -/
def runFull {α : Type} : Prog α → Sched → α
  | .ret a, _ => a
  | .read n k, s =>
    match readFull n s with
    | (d, none, s') => runFull (k (.ok d)) s'
    | (_, some e, s') => runFull (k (.error e)) s'

/-- as `runFull`, also counting the bytes pulled from the reader (every `nr` of every `ReadFull`) -/
def runFullN {α : Type} : Prog α → Sched → Nat → α × Nat
  | .ret a, _, n => (a, n)
  | .read m k, s, n =>
    match readFull m s with
    | (d, none, s') => runFullN (k (.ok d)) s' (n + d.length)
    | (d, some e, s') => runFullN (k (.error e)) s' (n + d.length)

/-- does the exact run meet a request that the stream can serve only in part (the stream ends inside a request)? -/
def truncated {α : Type} : Prog α → Bytes → Bool
  | .ret _, _ => false
  | .read n k, rest =>
    if n ≤ rest.length then truncated (k (.ok (rest.take n))) (rest.drop n)
    else if rest.isEmpty then truncated (k (.error .eof)) []
    else true

/-- number of bytes the exact run consumes -/
def consumedExact {α : Type} : Prog α → Bytes → Nat
  | .ret _, _ => 0
  | .read n k, rest =>
    (rest.length - (exactRead rest n).2.length) + consumedExact (k (exactRead rest n).1) (exactRead rest n).2

/-- WHAT CHUNK INDEPENDENCE ASKS OF A CLIENT: every request is at most `B` bytes; and when a request of two or
more bytes meets the end of the stream the client stops at once, with results that differ at most in the
end-of-stream error class (`μ` forgets it) whichever of `io.EOF` / `io.ErrUnexpectedEOF` it was handed.
(After a one-byte request that met a clean end of stream — `io.EOF` — the client may go on.) -/
inductive Good {α β : Type} (μ : α → β) (B : Nat) : Prog α → Prop
  | ret (a : α) : Good μ B (.ret a)
  | read (n : Nat) (k : Except RErr Bytes → Prog α) :
      n ≤ B →
      (∀ bs, bs.length = n → IsBytes bs → Good μ B (k (.ok bs))) →
      Good μ B (k (.error .eof)) →
      (2 ≤ n → ∃ a a', k (.error .eof) = .ret a ∧ k (.error .unexpectedEof) = .ret a' ∧ μ a = μ a') →
      Good μ B (.read n k)

/-- a schedule without failures: no error except possibly `io.EOF` together with the last chunk -/
def cleanB : Sched → Bool
  | [] => true
  | [c] => c.err == none || c.err == some .eof
  | c :: rest => c.err == none && cleanB rest

/-- the contiguous reader (`bytes.NewReader(bs)`): everything in one chunk, EOF afterwards -/
def contiguous (bs : Bytes) : Sched := [⟨bs, none⟩]

/-- a fresh read buffer as `decoder.New(r, WithReadBufferSize(size))` makes it -/
def RB.fresh (r : Sched) (size : Int) : RB := RB.zero.reset r size

end Fit.ReadBuffer
