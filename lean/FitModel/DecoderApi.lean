import FitModel.Crc
import FitModel.Value
import FitModel.Integrity
import FitModel.Generated.DecApiConsts
/-!
State-machine model of the public API of `decoder.Decoder` (/repo/decoder/decoder.go), as the code is:

* state: the byte source (an exact-n reader over the remaining byte list: `readBuffer.ReadN` seen from the
  decoder; how an `io.Reader` fragments the stream is C08's subject), the sticky `d.err`, the
  `sync.Once` of the file header, `fileHeader`, `cur`, the running `crc16`, `timestamp`, `lastTimeOffset`,
  the accumulator, the local message definitions, the developer data indexes and field descriptions,
  `messages`, `fileId`, `crc`, the options (`St`); around it the reader's whole stream and the byte counter
  `d.n` (`Api`);
* operations: `Decode`, `DecodeWithContext` (context live, cancelled before the call, or cancelled while the call runs), `PeekFileHeader`, `PeekFileId`,
  `Discard`, `Next`, `CheckIntegrity` (followed by the documented re-seek of the reader), `Reset`;
* every Go index / slice / division that can panic is an explicit `.panic` outcome (`idx`, `slice`,
  `modP`, `Value.unmarshal`, the request bound of `ReadN`); loops carry fuel and running out of it is the
  explicit outcome `.hang`.

The factory (`options.factory`, any implementation of `decoder.Factory`) is a parameter: a table
`(mesgNum, fieldNum) ↦ FieldInfo`; everything else is "unknown" (`createUnknownField`).
Values are `Fit.Value.Value` (C06's model of `proto.Value` / `UnmarshalValue`).
Error classes follow `errors.Is` against the sentinels, never strings; `io.EOF` and
`io.ErrUnexpectedEOF` are one class (C08).
-/
namespace Fit.DecApi
open Fit.Crc Fit.Value Fit.Gen Fit.Gen.DecApi

/-! ### outcomes -/

inductive Err
  | eof | notFit | crc | defMissing | baseType | ctx | other
  deriving DecidableEq, Repr, Inhabited

/-- result of a step of the decoder: a value, an error class, a Go panic, or "still looping when the fuel ran out" -/
inductive Res (α : Type) where
  | ok (a : α)
  | err (e : Err)
  | panic
  | hang
  deriving Repr

def Res.bind {α β} (r : Res α) (f : α → Res β) : Res β :=
  match r with
  | .ok a => f a
  | .err e => .err e
  | .panic => .panic
  | .hang => .hang

instance : Monad Res where
  pure := .ok
  bind := Res.bind

/-- `b[i]` -/
def idx (b : List Nat) (i : Nat) : Res Nat :=
  match b[i]? with
  | some x => .ok x
  | none => .panic

/-- `b[lo:hi]` (`lo ≤ hi ≤ len(b)`, else panic) -/
def slice (b : List Nat) (lo hi : Nat) : Res (List Nat) :=
  if lo ≤ hi ∧ hi ≤ b.length then .ok ((b.drop lo).take (hi - lo)) else .panic

/-- `a % m` on Go integers: division by zero panics -/
def modP (a m : Nat) : Res Nat := if m = 0 then .panic else .ok (a % m)

def le16 (b : List Nat) : Nat := b.getD 0 0 + 256 * b.getD 1 0
def be16 (b : List Nat) : Nat := 256 * b.getD 0 0 + b.getD 1 0
def le32 (b : List Nat) : Nat := b.getD 0 0 + 256 * b.getD 1 0 + 65536 * b.getD 2 0 + 16777216 * b.getD 3 0

/-! ### factory -/

/-- `proto.Component` with scale 1 and offset 0 (the arithmetic of other scales is C05's subject) -/
structure Comp where
  fieldNum : Nat
  accumulate : Bool
  bits : Nat
  deriving DecidableEq, Repr, Inhabited

/-- what the decoder reads of the `*proto.FieldBase` a factory returns -/
structure FieldInfo where
  /-- `Name != factory.NameUnknown` -/
  known : Bool
  bt : Nat
  /-- `Type == profile.Bool` -/
  isBool : Bool
  array : Bool
  accumulate : Bool
  /-- `Components` (no sub-fields; scale 1, offset 0 on the field and on every component) -/
  comps : List Comp := []
  deriving DecidableEq, Repr, Inhabited

/-- `createUnknownField(num)`: zero base type (enum), zero profile type -/
def FieldInfo.unknown : FieldInfo := ⟨false, 0, false, false, false, []⟩

structure FacEntry where
  mesgNum : Nat
  num : Nat
  info : FieldInfo
  deriving DecidableEq, Repr, Inhabited

abbrev Factory := List FacEntry

/-- `factory.CreateField(mesgNum, num)` -/
def Factory.create (f : Factory) (mesgNum num : Nat) : FieldInfo :=
  match f.find? (fun e => e.mesgNum == mesgNum && e.num == num) with
  | some e => e.info
  | none => .unknown

/-! ### options -/

structure Opts where
  chk : Bool := true        -- shouldChecksum
  exp : Bool := true        -- shouldExpandComponent
  bo : Bool := false        -- broadcastOnly
  bc : Bool := false        -- broadcastMesgCopy
  ml : Bool := false        -- a message listener is registered
  dl : Bool := false        -- a message-definition listener is registered
  fac : Factory := []
  deriving DecidableEq, Repr, Inhabited

/-! ### decoded objects -/

structure FieldDef where
  num : Nat
  size : Nat
  bt : Nat
  deriving DecidableEq, Repr, Inhabited

structure DevDef where
  num : Nat
  size : Nat
  idx : Nat
  deriving DecidableEq, Repr, Inhabited

structure MesgDef where
  header : Nat
  reserved : Nat
  arch : Nat
  mesgNum : Nat
  fields : List FieldDef
  devs : List DevDef
  deriving DecidableEq, Repr, Inhabited

/-- a decoded field: the attributes of its `FieldBase` the decoder decides or copies, and the value -/
structure DField where
  num : Nat
  bt : Nat
  known : Bool
  isBool : Bool
  array : Bool
  value : Value
  expanded : Bool := false
  deriving DecidableEq, Repr, Inhabited

structure DDev where
  num : Nat
  idx : Nat
  value : Value
  deriving DecidableEq, Repr, Inhabited

structure Msg where
  header : Nat
  num : Nat
  fields : List DField
  devs : List DDev
  deriving DecidableEq, Repr, Inhabited

structure Hdr where
  size : Nat
  protoVer : Nat
  profileVer : Nat
  dataSize : Nat
  crc : Nat
  deriving DecidableEq, Repr, Inhabited

/-- `mesgdef.FileId` as far as it is built from the message -/
structure FileId where
  type : Nat
  manufacturer : Nat
  product : Nat
  serial : Nat
  timeCreated : Nat      -- the uint32 behind `datetime.ToTime`
  number : Nat
  productName : List Nat
  unknown : Nat          -- len(UnknownFields)
  deriving DecidableEq, Repr, Inhabited

/-- `mesgdef.FieldDescription` as far as the decoder reads it -/
structure Desc where
  ddi : Nat
  fdn : Nat
  bt : Nat
  deriving DecidableEq, Repr, Inhabited

structure AccEntry where
  mesgNum : Nat
  fieldNum : Nat
  last : Nat
  value : Nat
  deriving DecidableEq, Repr, Inhabited

/-- a listener call -/
inductive Event
  | mesgDef (d : MesgDef)
  | mesg (m : Msg)
  deriving DecidableEq, Repr, Inhabited

structure Fit where
  hdr : Hdr
  msgs : List Msg
  crc : Nat
  deriving DecidableEq, Repr, Inhabited

/-! ### state -/

/-- developer-data and definition look-ups (`localMessageDefinitions`, `developerDataIndexes`, `fieldDescriptions`) -/
structure Look where
  defs : List (Nat × MesgDef) := []      -- local number ↦ live definition, newest first
  devIdx : List Nat := []
  descs : List Desc := []
  deriving DecidableEq, Repr, Inhabited

/-- per-sequence state (what `reset()` is responsible for) -/
structure Seq where
  err : Option Err := none
  hdrDone : Bool := false                -- the `sync.Once` has fired
  hdr : Hdr := ⟨0, 0, 0, 0, 0⟩
  cur : Nat := 0
  crc16 : Nat := 0
  ts : Nat := 0
  lastOff : Nat := 0
  acc : List AccEntry := []
  msgs : List Msg := []                  -- d.messages, newest first
  fileId : Option FileId := none
  crc : Nat := 0
  deriving DecidableEq, Repr, Inhabited

/-- the decoder as the record-level code sees it -/
structure St where
  o : Opts
  /-- the bytes the reader delivers from the decoder's position on (unread buffer content first) -/
  rest : List Nat
  q : Seq := {}
  look : Look := {}
  deriving DecidableEq, Repr, Inhabited

/-- `decoder.New(r, opts...)` on a reader delivering `bytes` -/
def St.fresh (o : Opts) (bytes : List Nat) : St := { o := o, rest := bytes }

/-! ### reading -/

/-- `readBuffer.ReadN(k)` (followed by `d.n += k`): exactly `k` bytes or an error; a request above
`reservedbuf` breaks the buffer's contract (panic) -/
def rawRead (k : Nat) (s : St) : Res (List Nat × St) :=
  if k > reservedbuf then .panic
  else if Fit.Integrity.hasN s.rest k then .ok (s.rest.take k, { s with rest := s.rest.drop k })
  else .err .eof

/-- `(*Decoder).readN` -/
def readN (k : Nat) (s : St) : Res (List Nat × St) := do
  let (b, s) ← rawRead k s
  pure (b, { s with q := { s.q with cur := (s.q.cur + k) % 4294967296,
                                     crc16 := if s.o.chk then write s.q.crc16 b else s.q.crc16 } })

/-! ### file header -/

/-- `decodeFileHeader` -/
def decodeFileHeader (s : St) : Res St := do
  let (b, s) ← rawRead 1 s
  let size ← idx b 0
  if size ≠ 12 ∧ size ≠ 14 then .err .notFit else
  let c1 := write s.q.crc16 b
  let (b, s) ← rawRead (size - 1) s
  let dt ← slice b 7 11
  if dt ≠ dataTypeFIT then .err .notFit else
  let pv ← idx b 0
  let prof ← slice b 1 3
  let ds ← slice b 3 7
  let h : Hdr := ⟨size, pv, le16 prof, le32 ds, 0⟩
  if h.dataSize = 0 then .err .notFit else
  let crcb ← if size = 14 then slice b 11 13 else pure [0, 0]
  let h := { h with crc := le16 crcb }
  let s := { s with q := { s.q with hdr := h } }
  if h.crc = 0 ∨ !s.o.chk then pure { s with q := { s.q with crc16 := 0 } } else
  let body ← slice b 0 (b.length - 2)
  if write c1 body ≠ h.crc then .err .crc else
  pure { s with q := { s.q with crc16 := 0 } }

/-- `decodeFileHeaderOnce`: the first call runs `decodeFileHeader` and stores its error; later calls return `d.err` -/
def headerOnce (s : St) : Res St :=
  if s.q.hdrDone then
    match s.q.err with
    | some e => .err e
    | none => .ok s
  else
    match decodeFileHeader s with
    | .ok s' => .ok { s' with q := { s'.q with hdrDone := true } }
    | r => r

/-! ### message definitions -/

def Look.lookup (l : Look) (i : Nat) : Option MesgDef := (l.defs.find? (·.1 == i)).map (·.2)

def validBaseType (b : Nat) : Bool := btValid b

/-- `for ; len(b) >= 3; b = b[3:]` building field definitions; `none` at the first invalid base type -/
def parseFieldDefs : List Nat → Option (List FieldDef)
  | a :: sz :: bt :: rest =>
    if !validBaseType bt then none else
      match parseFieldDefs rest with
      | some fs => some (⟨a, sz, bt⟩ :: fs)
      | none => none
  | _ => some []

def parseDevDefs : List Nat → List DevDef
  | a :: sz :: i :: rest => ⟨a, sz, i⟩ :: parseDevDefs rest
  | _ => []

/-- `decodeMessageDefinition`; the listener call it makes, if any -/
def decodeDefinition (header : Nat) (s : St) : Res (St × Option Event) := do
  let (b, s) ← readN 5 s
  let localNum := header &&& localMesgNumMask
  if localNum ≥ 16 then .panic else          -- index into [LocalMesgNumMask+1]*MessageDefinition
  let reserved ← idx b 0
  let arch ← idx b 1
  let mn ← slice b 2 4
  let mesgNum := if arch = littleEndian then le16 mn else be16 mn
  let n ← idx b 4
  let (fb, s) ← readN (n * 3) s
  match parseFieldDefs fb with
  | none => .err .baseType
  | some fields =>
  let (devs, s) ← (if header &&& devDataMask = devDataMask then do
      let (nb, s) ← readN 1 s
      let k ← idx nb 0
      let (db, s) ← readN (k * 3) s
      pure (parseDevDefs db, s)
    else pure ([], s) : Res (List DevDef × St))
  let d : MesgDef := ⟨header, reserved, arch, mesgNum, fields, devs⟩
  let s := { s with look := { s.look with defs := (localNum, d) :: s.look.defs } }
  pure (s, if s.o.dl then some (.mesgDef d) else none)

/-! ### field values -/

/-- `strcount` -/
def strcountGo : List Nat → Nat → Nat → Nat → Nat
  | [], _, _, size => size
  | b :: bs, i, last, size =>
    if b = 0 then strcountGo bs (i + 1) (i + 1) (if last ≠ i then (size + 1) % 256 else size)
    else strcountGo bs (i + 1) last size

def strcount (b : List Nat) : Nat := strcountGo b 0 0 0

/-- `readValue`: `.other` is `proto.ErrTypeNotSupported` -/
def readValue (size arch bt : Nat) (isBool isArray overrideStr : Bool) (s : St) : Res (Value × St) := do
  let (b, s) ← readN size s
  let isArray := if overrideStr ∧ bt = btString then decide (strcount b > 1) else isArray
  match unmarshal b arch bt isBool isArray with
  | .ok v => pure (v, s)
  | .err => .err .other
  | .panic => .panic

/-- `float32(x)` / `float64(x)` of an unsigned integer: round to nearest, ties to even
(`m` explicit mantissa bits, exponent bias `bias`) -/
def natToFloat (m bias : Nat) (x : Nat) : Nat :=
  if x = 0 then 0 else
  let p := Nat.log2 x
  if p ≤ m then ((p + bias) <<< m) ||| ((x <<< (m - p)) - (1 <<< m))
  else
    let sh := p - m
    let q := x >>> sh
    let r := x - (q <<< sh)
    let half := 1 <<< (sh - 1)
    let q := if r > half ∨ (r = half ∧ q % 2 = 1) then q + 1 else q
    -- a carry out of the mantissa bumps the exponent (q = 2^(m+1))
    if q = (1 <<< (m + 1)) then ((p + 1 + bias) <<< m) else ((p + bias) <<< m) ||| (q - (1 <<< m))

def natToF32 (x : Nat) : Nat := natToFloat 23 127 x
def natToF64 (x : Nat) : Nat := natToFloat 52 1023 x

/-- `value |= uint64(b[i]) << (i*8)` (little-endian) resp. `<< ((n-i)*8)` in uint64 arithmetic -/
def asmU64 (arch : Nat) (b : List Nat) : Nat :=
  let le (bs : List Nat) : Nat := (bs.zipIdx.foldl (fun acc (x, i) => acc ||| ((x <<< (i * 8)) % 2 ^ 64)) 0)
  if arch = littleEndian then le b else le b.reverse

/-- `convertBytesToValue` -/
def convertBytesToValue (b : List Nat) (arch bt : Nat) : Value :=
  let v := asmU64 arch b
  if bt = btSint16 then .int16 (v % 2 ^ 16)
  else if bt = btUint16 ∨ bt = btUint16z then .uint16 (v % 2 ^ 16)
  else if bt = btSint32 then .int32 (v % 2 ^ 32)
  else if bt = btUint32 ∨ bt = btUint32z then .uint32 (v % 2 ^ 32)
  else if bt = btSint64 then .int64 v
  else if bt = btUint64 ∨ bt = btUint64z then .uint64 v
  else if bt = btFloat32 then .float32 (natToF32 v)
  else if bt = btFloat64 then .float64 (natToF64 v)
  else .sliceUint8 b

/-- `Value.SliceUint8()` -/
def sliceUint8Of : Value → List Nat
  | .sliceUint8 b => b
  | _ => []

/-! ### accumulator (`decoder/accumulator.go`) -/

def accCollect (acc : List AccEntry) (mesgNum fieldNum v : Nat) : List AccEntry :=
  if acc.any (fun e => e.mesgNum == mesgNum && e.fieldNum == fieldNum) then
    acc.map (fun e => if e.mesgNum == mesgNum && e.fieldNum == fieldNum then { e with value := v, last := v } else e)
  else acc ++ [⟨mesgNum, fieldNum, v, v⟩]

/-- `uint32(intN(v))`: sign extension to 32 bits (wider values are truncated) -/
def toU32 (w v : Nat) : Nat := sext w v % 2 ^ 32

/-- `collectAccumulableValues`: integers only (float conversions of out-of-range values are platform-defined;
accumulating fields of float type do not occur in the factories of the tie) -/
def collectVals (mesgNum fieldNum : Nat) (v : Value) (acc : List AccEntry) : List AccEntry :=
  let many (w : Nat) (vs : List Nat) := vs.foldl (fun a x => accCollect a mesgNum fieldNum (toU32 w x)) acc
  let manyU (vs : List Nat) := vs.foldl (fun a x => accCollect a mesgNum fieldNum (x % 2 ^ 32)) acc
  match v with
  | .int8 x => accCollect acc mesgNum fieldNum (toU32 8 x)
  | .int16 x => accCollect acc mesgNum fieldNum (toU32 16 x)
  | .uint8 x | .uint16 x | .int32 x | .uint32 x | .int64 x | .uint64 x => accCollect acc mesgNum fieldNum (x % 2 ^ 32)
  | .sliceInt8 vs => many 8 vs
  | .sliceInt16 vs => many 16 vs
  | .sliceUint8 vs | .sliceUint16 vs | .sliceInt32 vs | .sliceUint32 vs | .sliceInt64 vs | .sliceUint64 vs => manyU vs
  | _ => acc

/-! ### component expansion (`expandComponents`, `decoder/bits.go`, `Accumulator.Accumulate`) -/

/-- `uint64(intN(v))` / `uint64(uintN(v))` of an integer value, as `makeBits` stores it; `none` for anything else
(floats: the conversion of out-of-range values is platform-defined — not in the factories of the tie; strings, bools, invalid) -/
def scalarBits : Value → Option Nat
  | .int8 v => some (sext 8 v)
  | .uint8 v => some (v % 2 ^ 8)
  | .int16 v => some (sext 16 v)
  | .uint16 v => some (v % 2 ^ 16)
  | .int32 v => some (sext 32 v)
  | .uint32 v => some (v % 2 ^ 32)
  | .int64 v => some (v % 2 ^ 64)
  | .uint64 v => some (v % 2 ^ 64)
  | _ => none

/-- `storeFromSlice`: elements OR-ed into 32 words of 64 bits, `size` bytes apart (a sign-extended element spills into
the bytes above it, as in the code); elements beyond the 32 words are dropped -/
def storeFromSlice (size : Nat) (elems : List Nat) : List Nat :=
  let rec go : List Nat → Nat → Nat → List Nat → List Nat
    | [], _, _, st => st
    | e :: es, index, pos, st =>
      if index ≥ 32 then st else
      let st := st.set index (((st.getD index 0) ||| ((e <<< (pos * 8)) % 2 ^ 64)))
      let pos := pos + size
      if pos = 8 then go es (index + 1) 0 st else go es index pos st
  go elems 0 0 (List.replicate 32 0)

/-- `makeBits` -/
def makeBits (v : Value) : Option (List Nat) :=
  match scalarBits v with
  | some x => some ((List.replicate 32 0).set 0 x)
  | none =>
    match v with
    | .sliceInt8 vs => some (storeFromSlice 1 (vs.map (sext 8)))
    | .sliceUint8 vs => some (storeFromSlice 1 (vs.map (· % 2 ^ 8)))
    | .sliceInt16 vs => some (storeFromSlice 2 (vs.map (sext 16)))
    | .sliceUint16 vs => some (storeFromSlice 2 (vs.map (· % 2 ^ 16)))
    | .sliceInt32 vs => some (storeFromSlice 4 (vs.map (sext 32)))
    | .sliceUint32 vs => some (storeFromSlice 4 (vs.map (· % 2 ^ 32)))
    | .sliceInt64 vs => some (storeFromSlice 8 (vs.map (· % 2 ^ 64)))
    | .sliceUint64 vs => some (storeFromSlice 8 (vs.map (· % 2 ^ 64)))
    | _ => none

/-- `x << k` / `x >> k` on uint64 with a shift count that is a byte expression (counts ≥ 64 give 0) -/
def shl64 (x k : Nat) : Nat := if k ≥ 64 then 0 else (x <<< k) % 2 ^ 64
def shr64 (x k : Nat) : Nat := if k ≥ 64 then 0 else x >>> k

/-- `(*bits).Pull(bitsize)`: the value pulled and the store afterwards -/
def pull (st : List Nat) (bitsize : Nat) : Nat × List Nat :=
  let mask := (shl64 1 bitsize + 2 ^ 64 - 1) % 2 ^ 64
  let val := (st.getD 0 0 &&& mask) % 2 ^ 32
  let st := st.set 0 (shr64 (st.getD 0 0) bitsize)
  let st := (List.range 31).foldl (fun st j =>
    let i := j + 1
    if st.getD i 0 = 0 then st else
    let hi := st.getD i 0 &&& mask
    let lo := shl64 hi ((64 + 256 - bitsize) % 256)
    (st.set (i - 1) (st.getD (i - 1) 0 ||| lo)).set i (shr64 (st.getD i 0) bitsize)) st
  (val, st)

/-- `Accumulator.Accumulate` -/
def accAccumulate (acc : List AccEntry) (mesgNum fieldNum val bits : Nat) : Nat × List AccEntry :=
  match acc.find? (fun e => e.mesgNum == mesgNum && e.fieldNum == fieldNum) with
  | some e =>
    let mask := (shl64 1 bits % 2 ^ 32 + 2 ^ 32 - 1) % 2 ^ 32
    let v := (e.value + ((val + 2 ^ 32 - e.last) % 2 ^ 32 &&& mask)) % 2 ^ 32
    (v, acc.map (fun x => if x.mesgNum == mesgNum && x.fieldNum == fieldNum then { x with value := v, last := val } else x))
  | none => (val, acc ++ [⟨mesgNum, fieldNum, val, val⟩])

/-- `convertUint32ToValue` -/
def convertUint32ToValue (val bt : Nat) : Value :=
  if bt = btSint8 then .int8 (val % 2 ^ 8)
  else if bt = btEnum ∨ bt = btByte ∨ bt = btUint8 ∨ bt = btUint8z then .uint8 (val % 2 ^ 8)
  else if bt = btSint16 then .int16 (val % 2 ^ 16)
  else if bt = btUint16 ∨ bt = btUint16z then .uint16 (val % 2 ^ 16)
  else if bt = btSint32 then .int32 val
  else if bt = btUint32 ∨ bt = btUint32z then .uint32 val
  else if bt = btSint64 then .int64 val
  else if bt = btUint64 ∨ bt = btUint64z then .uint64 val
  else if bt = btFloat32 then .float32 (natToF32 val)
  else if bt = btFloat64 then .float64 (natToF64 val)
  else .invalid

/-- `valueAppend(slice, elem)`: a slice of another type reads as nil -/
def valueAppend (slice elem : Value) : Value :=
  match elem with
  | .int8 x => .sliceInt8 ((match slice with | .sliceInt8 l => l | _ => []) ++ [x])
  | .uint8 x => .sliceUint8 ((match slice with | .sliceUint8 l => l | _ => []) ++ [x])
  | .int16 x => .sliceInt16 ((match slice with | .sliceInt16 l => l | _ => []) ++ [x])
  | .uint16 x => .sliceUint16 ((match slice with | .sliceUint16 l => l | _ => []) ++ [x])
  | .int32 x => .sliceInt32 ((match slice with | .sliceInt32 l => l | _ => []) ++ [x])
  | .uint32 x => .sliceUint32 ((match slice with | .sliceUint32 l => l | _ => []) ++ [x])
  | .int64 x => .sliceInt64 ((match slice with | .sliceInt64 l => l | _ => []) ++ [x])
  | .uint64 x => .sliceUint64 ((match slice with | .sliceUint64 l => l | _ => []) ++ [x])
  | .float32 x => .sliceFloat32 ((match slice with | .sliceFloat32 l => l | _ => []) ++ [x])
  | .float64 x => .sliceFloat64 ((match slice with | .sliceFloat64 l => l | _ => []) ++ [x])
  | _ => slice

/-- index of the last field numbered `num` (`for j := len(mesg.Fields) - 1; j >= 0; j--`) -/
def lastIdx (fields : List DField) (num : Nat) : Option Nat :=
  (fields.zipIdx.filter (fun p => p.1.num == num)).getLast?.map (·.2)

/-- state of the loop over the components of one field: stopped by the `break`, the bit store, the fields, the accumulator -/
structure ExpSt where
  stopped : Bool
  bits : List Nat
  fields : List DField
  acc : List AccEntry

/-- one component, up to the recursive expansion of its destination field: the new loop state, and the value and
factory entry of the destination (none: the loop has stopped) -/
def expandOne (fac : Factory) (mesgNum : Nat) (many : Bool) (c : Comp) (x : ExpSt) : ExpSt × Option (Value × FieldInfo) :=
  if x.stopped then (x, none) else
  let info := fac.create mesgNum c.fieldNum
  let (val, bits) := pull x.bits c.bits
  if val = 0 ∧ many then ({ x with stopped := true, bits := bits }, none) else
  let (val, acc) := if c.accumulate then accAccumulate x.acc mesgNum c.fieldNum val c.bits else (val, x.acc)
  let value := convertUint32ToValue val info.bt
  let fields := match lastIdx x.fields c.fieldNum with
    | some j =>
      x.fields.modify j (fun f => { f with value := if f.array then valueAppend f.value value else value })
    | none =>
      x.fields ++ [⟨c.fieldNum, info.bt, info.known, info.isBool, info.array,
        if info.array then valueAppend .invalid value else value, true⟩]
  ({ stopped := false, bits := bits, fields := fields, acc := acc }, some (value, info))

/-- `expandComponents(mesg, containingValue, baseType, components)` on the field list and the accumulator.
`fuel` bounds the nesting (a component's destination field may have components itself); `none`: the fuel ran out —
the factory's components are cyclic and the real code would recurse without end. -/
def expandComps (fac : Factory) (mesgNum : Nat) : Nat → Value → Nat → List Comp → List DField × List AccEntry →
    Option (List DField × List AccEntry)
  | 0, _, _, comps, st => if comps.isEmpty then some st else none
  | fuel + 1, v, bt, comps, st =>
    if comps.isEmpty then some st
    else if !valid v bt then some st
    else match makeBits v with
      | none => some st
      | some bits =>
        let many := decide (comps.length > 1)
        (comps.foldl (fun (r : Option ExpSt) c =>
          match r with
          | none => none
          | some x =>
            match expandOne fac mesgNum many c x with
            | (x', none) => some x'
            | (x', some (value, info)) =>
              match expandComps fac mesgNum fuel value info.bt info.comps (x'.fields, x'.acc) with
              | none => none
              | some (fields, acc) => some { x' with fields := fields, acc := acc })
          (some ⟨false, bits, st.1, st.2⟩)).map (fun x => (x.fields, x.acc))

/-- the second half of `decodeFields`: every decoded field (not the ones expansion adds) is expanded in turn -/
def expandAll (fac : Factory) (mesgNum : Nat) : Nat → Nat → List DField × List AccEntry → Option (List DField × List AccEntry)
  | 0, _, st => some st
  | n + 1, i, (fields, acc) =>
    match fields[i]? with
    | none => some (fields, acc)
    | some f =>
      match expandComps fac mesgNum 256 f.value f.bt (fac.create mesgNum f.num).comps (fields, acc) with
      | none => none
      | some st => expandAll fac mesgNum n (i + 1) st

/-! ### data records -/

/-- `d.timestamp = timestamp; d.lastTimeOffset = byte(timestamp & CompressedTimeMask)` -/
def setTs (t : Nat) (s : St) : St := { s with q := { s.q with ts := t, lastOff := t &&& compressedTimeMask } }

/-- a decoded field numbered 253 whose value is a `TypeUint32` becomes the active timestamp -/
def noteTs (num : Nat) (v : Value) (s : St) : St :=
  match v with
  | .uint32 t => if num = fieldNumTimestamp then setTs t s else s
  | _ => s

/-- `if field.Accumulate && d.options.shouldExpandComponent { d.collectAccumulableValues(...) }` -/
def noteAcc (accumulate : Bool) (mesgNum num : Nat) (v : Value) (s : St) : St :=
  if accumulate ∧ s.o.exp then { s with q := { s.q with acc := collectVals mesgNum num v s.q.acc } } else s

/-- what `decodeFields` takes from the factory and the field definition: base type, `Type == profile.Bool`, array
flag, and whether a string's array-ness is decided by counting its terminators (unknown fields only). The `%` of
the array test divides by the base type's size. -/
def fieldShape (info : FieldInfo) (fd : FieldDef) : Res (Nat × Bool × Bool × Bool) :=
  if info.known then pure (info.bt, info.isBool, info.array, false) else do
    let bsz := btSize fd.bt
    let arr ← (if fd.size > bsz then do let r ← modP fd.size bsz; pure (decide (r = 0)) else pure false : Res Bool)
    pure (fd.bt, decide (fd.bt &&& baseTypeNumMask = profileBool), arr, decide (fd.bt = btString))

/-- how the bytes are read: a field shorter than its base type is read as a byte array and converted afterwards -/
def readShape (size bt : Nat) (isBool isArray : Bool) : Nat × Bool × Bool :=
  if size < btSize bt then (btUint8, false, true) else (bt, isBool, isArray)

/-- the value of a field shorter than its base type (`decodeFields`, "Size is less than expected"): the bytes assembled
into one number by `convertBytesToValue`, and — `if field.Array { field.Value = valueAppend(proto.Value{}, field.Value) }`,
the repair of KF-C01-undersized — for a field that is an array field (a known field the factory lists as an array; the
array flag of a field without profile entry is false here: its size is below one element) the array of that one number,
which is what the decoder returns for such a field holding one whole element -/
def undersizedValue (arrayF : Bool) (b : List Nat) (arch bt : Nat) : Value :=
  let c := convertBytesToValue b arch bt
  if arrayF then valueAppend .invalid c else c

/-- `decodeFields`, one field definition: the decoded field (none: size zero, skipped) -/
def decodeField (d : MesgDef) (fd : FieldDef) (s : St) : Res (Option DField × St) := do
  let info := s.o.fac.create d.mesgNum fd.num
  let (bt, isBoolF, arrayF, overrideStr) ← fieldShape info fd
  if fd.size = 0 then pure (none, s) else
  let rs := readShape fd.size bt isBoolF arrayF
  let (v, s) ← readValue fd.size d.arch rs.1 rs.2.1 rs.2.2 overrideStr s
  let v := if rs.1 ≠ bt then undersizedValue arrayF (sliceUint8Of v) d.arch bt else v
  pure (some ⟨fd.num, bt, info.known, isBoolF, arrayF, v, false⟩, noteAcc info.accumulate d.mesgNum fd.num v (noteTs fd.num v s))

def decodeFields (d : MesgDef) : List FieldDef → List DField → St → Res (List DField × St)
  | [], acc, s => .ok (acc, s)
  | fd :: fds, acc, s => do
    let (f, s) ← decodeField d fd s
    decodeFields d fds (match f with | some f => acc ++ [f] | none => acc) s

/-- `vals[num] = value` over the known fields numbered `≤ bound` (the last one wins), as the generated `Reset` methods do -/
def valsOf (bound : Nat) (fs : List DField) (num : Nat) : Value :=
  match (fs.filter (fun f => decide (f.num ≤ bound) && f.known && f.num == num)).getLast? with
  | some f => f.value
  | none => .invalid

def uint32Of : Value → Nat
  | .uint32 v => v % 2 ^ 32
  | _ => uint32Invalid
def uint32zOf : Value → Nat
  | .uint32 v => v % 2 ^ 32
  | _ => uint32zInvalid
def stringOf : Value → List Nat
  | .string s => s
  | _ => []

/-- `mesgdef.NewFileId(&mesg)` -/
def mkFileId (fs : List DField) : FileId :=
  let v := valsOf fileIdBound fs
  { type := uint8Of (v 0), manufacturer := uint16Of (v 1), product := uint16Of (v 2), serial := uint32zOf (v 3),
    timeCreated := uint32Of (v 4), number := uint16Of (v 5), productName := stringOf (v 8),
    unknown := (fs.filter (fun f => !(decide (f.num ≤ fileIdBound) && f.known))).length }

/-- `mesgdef.NewFieldDescription(&mesg)` -/
def mkDesc (fs : List DField) : Desc :=
  let v := valsOf fieldDescBound fs
  ⟨uint8Of (v fnFieldDescriptionDeveloperDataIndex), uint8Of (v fnFieldDescriptionFieldDefinitionNumber),
   uint8Of (v fnFieldDescriptionFitBaseTypeId)⟩

/-- `mesg.FieldValueByNum(num)`: the first field with that number -/
def fieldValueByNum (fs : List DField) (num : Nat) : Value :=
  match fs.find? (·.num == num) with
  | some f => f.value
  | none => .invalid

/-- `decodeDeveloperFields`, one developer field definition with its field description -/
def decodeDevField (d : MesgDef) (dd : DevDef) (fdsc : Desc) (s : St) : Res (Option DDev × St) :=
  if !validBaseType fdsc.bt then .err .baseType else do
  let bsz := btSize fdsc.bt
  let arr ← (if dd.size > bsz then do let r ← modP dd.size bsz; pure (decide (r = 0)) else pure false : Res Bool)
  if dd.size = 0 then pure (none, s) else
  let rs := readShape dd.size fdsc.bt (decide (fdsc.bt &&& baseTypeNumMask = profileBool)) arr
  let (v, s) ← readValue dd.size d.arch rs.1 rs.2.1 rs.2.2 (decide (fdsc.bt = btString)) s
  let v := if rs.1 ≠ fdsc.bt then convertBytesToValue (sliceUint8Of v) d.arch fdsc.bt else v
  pure (some ⟨dd.num, dd.idx, v⟩, s)

/-- `decodeDeveloperFields` -/
def decodeDevFields (d : MesgDef) : List DevDef → List DDev → St → Res (List DDev × St)
  | [], acc, s => .ok (acc, s)
  | dd :: dds, acc, s =>
    match s.look.descs.find? (fun f => f.ddi == dd.idx && f.fdn == dd.num) with
    | none => do
      let (_, s) ← readN dd.size s
      decodeDevFields d dds acc s
    | some fdsc => do
      let (f, s) ← decodeDevField d dd fdsc s
      decodeDevFields d dds (match f with | some f => acc ++ [f] | none => acc) s

/-- header of a compressed-timestamp record: the time offset advances the active timestamp; the record gets a
timestamp field in front -/
def compressedTs (header : Nat) (d : MesgDef) (s : St) : St × List DField :=
  let off := header &&& compressedTimeMask
  let t := (s.q.ts + (((off + 256 - s.q.lastOff) % 256) &&& compressedTimeMask)) % 4294967296
  let info := s.o.fac.create d.mesgNum fieldNumTimestamp
  let f : DField := if info.known then ⟨fieldNumTimestamp, info.bt, true, info.isBool, info.array, .uint32 t, false⟩
    else ⟨fieldNumTimestamp, btUint32, false, false, false, .uint32 t, false⟩
  ({ s with q := { s.q with ts := t, lastOff := off } }, [f])

/-- after the fields of a record: the first file_id message of the sequence is kept; developer data ids and field
descriptions feed the developer-data look-ups -/
def noteMesg (mesgNum : Nat) (fields : List DField) (s : St) : St :=
  let s := if s.q.fileId.isNone ∧ mesgNum = mesgNumFileId then { s with q := { s.q with fileId := some (mkFileId fields) } } else s
  if mesgNum = mesgNumDeveloperDataId then
    { s with look := { s.look with devIdx := s.look.devIdx ++ [uint8Of (fieldValueByNum fields fnDeveloperDataIdDeveloperDataIndex)] } }
  else if mesgNum = mesgNumFieldDescription then
    { s with look := { s.look with descs := s.look.descs ++ [mkDesc fields] } }
  else s

/-- `d.messages = append(d.messages, mesg)` unless broadcast-only -/
def pushMsg (m : Msg) (s : St) : St := if !s.o.bo then { s with q := { s.q with msgs := m :: s.q.msgs } } else s

/-- `decodeMessageData`; the listener call it makes, if any -/
def decodeData (header : Nat) (s : St) : Res (St × Option Event) := do
  let compressed := decide (header &&& mesgCompressedHeaderMask = mesgCompressedHeaderMask)
  let localNum := if compressed then (header &&& compressedLocalMesgNumMask) >>> compressedBitShift else header
  match s.look.lookup (localNum &&& localMesgNumMask) with
  | none => .err .defMissing
  | some d =>
    let (s, pre) := if compressed then compressedTs header d s else (s, [])
    let (fields, s) ← decodeFields d d.fields pre s
    let (fields, s) ← (if s.o.exp then
        match expandAll s.o.fac d.mesgNum fields.length 0 (fields, s.q.acc) with
        | some (fields, acc) => pure (fields, { s with q := { s.q with acc := acc } })
        | none => .hang
      else pure (fields, s) : Res (List DField × St))
    let s := noteMesg d.mesgNum fields s
    let (devs, s) ← (if d.devs.isEmpty then pure ([], s) else decodeDevFields d d.devs [] s : Res (List DDev × St))
    let m : Msg := ⟨header, d.mesgNum, fields, devs⟩
    let s := pushMsg m s
    pure (s, if s.o.ml then some (.mesg m) else none)

/-- `decodeMessage` -/
def decodeMessage (s : St) : Res (St × Option Event) := do
  let (b, s) ← readN 1 s
  let header ← idx b 0
  if header &&& (mesgCompressedHeaderMask ||| mesgDefinitionMask) = mesgDefinitionMask
  then decodeDefinition header s
  else decodeData header s

/-- a record loop stops with the state after the last complete record, the listener calls made, and how it ended -/
abbrev LoopOut := St × List Event × Res Unit

def loopFail {α} (s : St) : Res α → LoopOut
  | .err e => (s, [], .err e)
  | .panic => (s, [], .panic)
  | _ => (s, [], .hang)

/-- `decodeMessages`: `for d.cur < d.fileHeader.DataSize { decodeMessage }` -/
def decodeMessages : Nat → St → LoopOut
  | 0, s => (s, [], if s.q.cur < s.q.hdr.dataSize then .hang else .ok ())
  | fuel + 1, s =>
    if s.q.cur < s.q.hdr.dataSize then
      match decodeMessage s with
      | .ok (s', ev) => let (sf, evs, r) := decodeMessages fuel s'; (sf, ev.toList ++ evs, r)
      | r => loopFail s r
    else (s, [], .ok ())

/-- `decodeMessagesWithContext(ctx)` together with the `checkContext(ctx)` that follows it in `DecodeWithContext`, for a
context that is live when the call starts and is cancelled while the call runs (by a listener, by another goroutine):
`k` = the number of records this call decodes before a check of the context first sees the cancellation. The context
is consulted once per record boundary — by the `select` at the head of every iteration while `d.cur < DataSize`, and by
`checkContext` once the loop has ended — so `k` ranges over every distinguishable moment of cancellation; a loop that
ends (or fails) after fewer than `k` records never sees it. -/
def decodeMessagesCtx : Nat → Nat → St → LoopOut
  | _, 0, s => (s, [], .err .ctx)
  | 0, _ + 1, s => (s, [], if s.q.cur < s.q.hdr.dataSize then .hang else .ok ())
  | fuel + 1, k + 1, s =>
    if s.q.cur < s.q.hdr.dataSize then
      match decodeMessage s with
      | .ok (s', ev) => let (sf, evs, r) := decodeMessagesCtx fuel k s'; (sf, ev.toList ++ evs, r)
      | r => loopFail s r
    else (s, [], .ok ())

/-- the loop of `PeekFileId`: `for d.fileId == nil { if d.cur >= d.fileHeader.DataSize { return invalid FileId }; decodeMessage }`
— it stops at the first file_id message, or at the end of the sequence's messages when there is none -/
def peekLoop : Nat → St → LoopOut
  | 0, s => (s, [], if s.q.fileId.isNone ∧ s.q.cur < s.q.hdr.dataSize then .hang else .ok ())
  | fuel + 1, s =>
    if s.q.fileId.isNone ∧ s.q.cur < s.q.hdr.dataSize then
      match decodeMessage s with
      | .ok (s', ev) => let (sf, evs, r) := peekLoop fuel s'; (sf, ev.toList ++ evs, r)
      | r => loopFail s r
    else (s, [], .ok ())

/-- `decodeCRC` -/
def decodeCRC (s : St) : Res St := do
  let (b, s) ← rawRead 2 s
  let lo ← idx b 0
  let hi ← idx b 1
  let crc := lo + 256 * hi
  let s := { s with q := { s.q with crc := crc } }
  if s.o.chk ∧ s.q.crc16 ≠ crc then .err .crc else
  pure { s with q := { s.q with crc16 := 0 } }

/-- `discardMessages` -/
def discardMessages : Nat → St → Res St
  | 0, s => if s.q.cur < s.q.hdr.dataSize then .hang else .ok s
  | fuel + 1, s =>
    if s.q.cur < s.q.hdr.dataSize then do
      let size := min (s.q.hdr.dataSize - s.q.cur) reservedbuf
      let (_, s) ← readN size s
      discardMessages fuel s
    else .ok s

/-! ### `reset()` and `releaseTemporaryObjects()` -/

/-- `(*Decoder).reset`: the per-sequence state and the look-ups -/
def resetSeq (s : St) : St := { s with q := {}, look := {} }

/-- `releaseTemporaryObjects` -/
def release (s : St) : St :=
  { s with look := {}, q := { s.q with fileId := none, msgs := [] } }

/-! ### API operations on the record-level state -/

/-- what an operation returns to its caller -/
inductive Out
  | fit (f : Fit)
  | header (h : Hdr)
  | fileId (f : FileId)
  | done                           -- nil error of Discard, Reset
  | bool (b : Bool)
  | integrity (seq : Nat) (e : Option Err)
  | err (e : Err)
  | panic
  | hang
  deriving DecidableEq, Repr, Inhabited

/-- fuel for the record loops: every iteration consumes at least one byte of a stream that is read once -/
def fuelOf (s : St) : Nat := s.rest.length + 1

/-- a failing step as the API reports it: an error becomes the sticky `d.err` (where the stream stands then is not
observable: every entry point returns the error until `Reset` installs a new reader) -/
def fail {α} (s : St) : Res α → St × Out
  | .err e => ({ s with q := { s.q with err := some e } }, .err e)
  | .panic => (s, .panic)
  | _ => (s, .hang)

abbrev StepOut := St × Out × List Event

/-- a failing `decodeFileHeaderOnce` inside an API call: the `Once` has fired -/
def failHeader {α} (s : St) (r : Res α) : StepOut :=
  let (s', o) := fail { s with q := { s.q with hdrDone := true } } r
  (s', o, [])

/-- body of `Decode` after the context checks: header (once), messages, CRC, `reset()`, with the deferred
`releaseTemporaryObjects()` once the header has been decoded -/
def decodeBody (s : St) : StepOut :=
  match headerOnce s with
  | .ok s1 =>
    match decodeMessages (fuelOf s1) s1 with
    | (s2, evs, .ok ()) =>
      match decodeCRC s2 with
      | .ok s3 =>
        let fit : Fit := ⟨s3.q.hdr, s3.q.msgs.reverse, s3.q.crc⟩
        (release (resetSeq s3), .fit fit, evs)
      | r => let (s', o) := fail s2 r; (release s', o, evs)
    | (s2, evs, r) => let (s', o) := fail s2 r; (release s', o, evs)
  | r => failHeader s r

/-- the tail of `Decode` / `DecodeWithContext` after the record loop: CRC, `reset()`, and the deferred
`releaseTemporaryObjects()`; an error of the loop or of the CRC becomes the sticky `d.err` -/
def decodeTail (l : LoopOut) : StepOut :=
  match l with
  | (s2, evs, .ok ()) =>
    match decodeCRC s2 with
    | .ok s3 => (release (resetSeq s3), .fit ⟨s3.q.hdr, s3.q.msgs.reverse, s3.q.crc⟩, evs)
    | r => let (s', o) := fail s2 r; (release s', o, evs)
  | (s2, evs, r) => let (s', o) := fail s2 r; (release s', o, evs)

/-- body of `DecodeWithContext` after the entry checks, for a context first seen cancelled after `k` records of this call -/
def decodeBodyAt (k : Nat) (s : St) : StepOut :=
  match headerOnce s with
  | .ok s1 => decodeTail (decodeMessagesCtx (fuelOf s1) k s1)
  | r => failHeader s r

def stepDecode (s : St) : StepOut :=
  match s.q.err with
  | some e => (s, .err e, [])
  | none => decodeBody s

def stepDecodeCtx (cancelled : Bool) (s : St) : StepOut :=
  match s.q.err with
  | some e => (s, .err e, [])
  | none =>
    if cancelled then ({ s with q := { s.q with err := some .ctx } }, .err .ctx, [])
    else decodeBody s

/-- `DecodeWithContext(ctx)` with a context that is live at the entry check and cancelled during the call (see
`decodeMessagesCtx`) -/
def stepDecodeCtxAt (k : Nat) (s : St) : StepOut :=
  match s.q.err with
  | some e => (s, .err e, [])
  | none => decodeBodyAt k s

def stepPeekHeader (s : St) : StepOut :=
  match s.q.err with
  | some e => (s, .err e, [])
  | none =>
    match headerOnce s with
    | .ok s1 => (s1, .header s1.q.hdr, [])
    | r => failHeader s r

/-- `PeekFileId`; a sequence without file_id message gives `mesgdef.NewFileId(nil)` (every field invalid) once all its
messages are decoded -/
def stepPeekFileId (s : St) : StepOut :=
  match s.q.err with
  | some e => (s, .err e, [])
  | none =>
    match headerOnce s with
    | .ok s1 =>
      match peekLoop (fuelOf s1) s1 with
      | (s2, evs, .ok ()) => (s2, .fileId (match s2.q.fileId with | some f => f | none => mkFileId []), evs)
      | (s2, evs, r) => let (s', o) := fail s2 r; (s', o, evs)
    | r => failHeader s r

/-- `Discard`: checksum off for its duration -/
def stepDiscard (s : St) : StepOut :=
  match s.q.err with
  | some e => (s, .err e, [])
  | none =>
    let chk := s.o.chk
    let restore (t : St) : St := { t with o := { t.o with chk := chk } }
    let s0 := { s with o := { s.o with chk := false } }
    match headerOnce s0 with
    | .ok s1 =>
      match discardMessages (fuelOf s1) s1 with
      | .ok s2 =>
        match readN 2 s2 with
        | .ok (_, s3) => (restore (resetSeq s3), .done, [])
        | r => let (s', o) := fail s2 r; (restore s', o, [])
      | r => let (s', o) := fail s1 r; (restore s', o, [])
    | r => let (s', o, e) := failHeader s0 r; (restore s', o, e)

/-- `Next` given whether `d.n == 0` -/
def stepNext (nZero : Bool) (s : St) : StepOut :=
  match s.q.err with
  | some _ => (s, .bool false, [])
  | none =>
    if nZero then (s, .bool true, []) else
    match headerOnce s with
    | .ok s1 => (s1, .bool true, [])
    | .err e => ({ s with q := { s.q with hdrDone := true, err := some e } }, .bool false, [])
    | .panic => (s, .panic, [])
    | .hang => (s, .hang, [])

/-- the loop of `CheckIntegrity`; `posZero` = `d.n == 0` at the start of the iteration. Gives the count of completed
sequences and how the loop stopped. -/
def ciLoop : Nat → Bool → Nat → St → Nat × Res Unit
  | 0, _, seq, _ => (seq, .hang)
  | fuel + 1, posZero, seq, s =>
    match headerOnce s with
    | .err e =>
      -- `pos != 0 && pos == d.n && err == io.EOF`: the very first read of the header met the end of the stream
      if !posZero ∧ s.rest.isEmpty ∧ !s.q.hdrDone ∧ e = .eof then (seq, .ok ()) else (seq, .err e)
    | .panic => (seq, .panic)
    | .hang => (seq, .hang)
    | .ok s1 =>
      match discardMessages (fuelOf s1) s1 with
      | .ok s2 =>
        match decodeCRC s2 with
        | .ok s3 => ciLoop fuel false (seq + 1) { s3 with q := { s3.q with hdrDone := false, cur := 0 } }
        | .err e => (seq, .err e)
        | .panic => (seq, .panic)
        | .hang => (seq, .hang)
      | .err e => (seq, .err e)
      | .panic => (seq, .panic)
      | .hang => (seq, .hang)

/-! ### the decoder object with its reader -/

structure Api where
  d : St
  /-- the whole stream of the current reader (what a re-seek to the start delivers) -/
  whole : List Nat
  /-- `d.n` -/
  n : Nat := 0
  deriving DecidableEq, Repr, Inhabited

/-- `decoder.New(bytes.NewReader(bytes), opts...)` -/
def Api.fresh (o : Opts) (bytes : List Nat) : Api := { d := St.fresh o bytes, whole := bytes }

/-- bookkeeping of `d.n` after an operation that moved the stream from `a.d.rest` to `d'.rest` -/
def Api.advance (a : Api) (d' : St) : Api :=
  { a with d := d', n := a.n + (a.d.rest.length - d'.rest.length) }

inductive Op
  | decode
  | decodeCtx (cancelled : Bool)
  /-- `DecodeWithContext(ctx)`, `ctx` live when the call starts and cancelled while it runs: the check of the context
  that follows the `k`-th record decoded by this call is the first to see it (`k = 0`: the first check after the header) -/
  | decodeCtxAt (k : Nat)
  | peekHeader
  | peekFileId
  | discard
  | next
  /-- `CheckIntegrity()` followed by the documented `reader.Seek(0, io.SeekStart)` -/
  | checkIntegrity
  /-- `Reset(r, opts...)` onto a reader delivering `bytes` -/
  | reset (o : Opts) (bytes : List Nat)
  deriving DecidableEq, Repr, Inhabited

/-- `CheckIntegrity` + re-seek of the reader to the start of the stream: whatever the loop met, the per-sequence
state and the look-ups are reset, the byte counter is zero, the read buffer is empty and the options are as before -/
def stepCheckIntegrity (a : Api) : Api × Out × List Event :=
  let s := a.d
  match s.q.err with
  | some e => (a, .integrity 0 (some e), [])
  | none =>
    let (seq, r) := ciLoop (fuelOf s) (a.n == 0) 0 { s with o := { s.o with chk := true } }
    let fin : Api := { d := { resetSeq s with rest := a.whole }, whole := a.whole, n := 0 }
    match r with
    | .ok () => (fin, .integrity seq none, [])
    | .err e => (fin, .integrity seq (some e), [])
    | .panic => (a, .panic, [])
    | .hang => (a, .hang, [])

/-- `Reset(r, opts...)`: `reset()`, byte counter, options, read buffer -/
def stepReset (o : Opts) (bytes : List Nat) (a : Api) : Api × Out × List Event :=
  ({ d := { resetSeq a.d with o := o, rest := bytes }, whole := bytes, n := 0 }, .done, [])

def step (a : Api) (op : Op) : Api × Out × List Event :=
  let lift (r : StepOut) : Api × Out × List Event := (a.advance r.1, r.2.1, r.2.2)
  match op with
  | .decode => lift (stepDecode a.d)
  | .decodeCtx c => lift (stepDecodeCtx c a.d)
  | .decodeCtxAt k => lift (stepDecodeCtxAt k a.d)
  | .peekHeader => lift (stepPeekHeader a.d)
  | .peekFileId => lift (stepPeekFileId a.d)
  | .discard => lift (stepDiscard a.d)
  | .next => lift (stepNext (a.n == 0) a.d)
  | .checkIntegrity => stepCheckIntegrity a
  | .reset o b => stepReset o b a

/-- run an operation list; per operation the outcome and the listener calls made during it -/
def run : Api → List Op → List (Out × List Event)
  | _, [] => []
  | a, op :: ops =>
    let (a', out, evs) := step a op
    (out, evs) :: run a' ops

end Fit.DecApi
