import FitModel.FitFormat
/-!
# The FIT integrity rules — reference implementation (SPECIFICATION for property C04)

Declarative and independent of the decoder (it uses the protocol reading of `FitFormat` and the bit-serial
CRC-16). A stream is valid when it is a non-empty succession of sequences, each of which has

1. a header of size 12 or 14 with the ".FIT" tag,
2. a non-zero data size,
3. when the header has a CRC field and it is non-zero: that field equals the CRC-16 of the first 12 header bytes,
4. a file CRC (the two bytes after `data size` record bytes) equal to the CRC-16 of the whole sequence from its
   first byte (header included),
5. and nothing but further valid sequences after it (no trailing bytes).

The verdict carries the number of valid leading sequences.
-/
namespace Fit.IntegritySpec
open Fit.Crc Fit.FitFormat

inductive Verdict
  | ok (seq : Nat)       -- the whole stream is valid; `seq` sequences
  | bad (seq : Nat)      -- not valid; `seq` valid leading sequences
  deriving DecidableEq, Repr

/-- rule 3 violated: the header has a CRC field, it is non-zero, and it is not the CRC-16 of the first 12 bytes -/
def headerCrcBad (bs : List Nat) : Option Nat → Bool
  | some c => c ≠ 0 && c ≠ crcSpec 0 (bs.take 12)
  | none => false

/-- rules 1–4 for the sequence at the front of `bs`; gives its total length -/
def seqValid (bs : List Nat) : Option Nat :=
  match parseHeader bs with
  | none => none
  | some h =>
    if h.dataSize = 0 then none
    else if headerCrcBad bs h.crc then none
    else
      let n := h.size + h.dataSize
      match bs.drop n with
      | c0 :: c1 :: _ => if le16 c0 c1 = crcSpec 0 (bs.take n) then some (n + 2) else none
      | _ => none

/-- walk over the sequences; `fuel` ≥ `bs.length` suffices -/
def refLoop : Nat → Nat → List Nat → Verdict
  | 0, seq, _ => .bad seq
  | fuel + 1, seq, bs =>
    if bs.isEmpty then (if seq ≠ 0 then .ok seq else .bad seq)
    else
      match seqValid bs with
      | none => .bad seq
      | some n => refLoop fuel (seq + 1) (bs.drop n)

/-- THE REFERENCE: verdict and count of valid leading sequences for any byte string -/
def reference (bs : List Nat) : Verdict := refLoop (bs.length + 1) 0 bs

/-- does the reference walk meet, before it stops, a header that the pinned decoder judges by a records-only
checksum: a 12-byte header, or a 14-byte header whose CRC field is 0 (finding F06)? -/
def legacyLoop : Nat → List Nat → Bool
  | 0, _ => false
  | fuel + 1, bs =>
    match parseHeader bs with
    | none => false
    | some h =>
      if h.crc = none ∨ h.crc = some 0 then true
      else
        match seqValid bs with
        | none => false
        | some n => legacyLoop fuel (bs.drop n)

def legacyMet (bs : List Nat) : Bool := legacyLoop (bs.length + 1) bs

/-! ### the reference AS BUILT: the same rules with the one rule the code implements differently

`referenceAsBuilt` is `reference` with rule 4 replaced by what /repo/decoder does (finding KF-C04-1, design review F06):

4'. the file CRC equals the CRC-16 of the RECORD bytes only — the running checksum restarts after the header.

Rules 1, 2, 3 and 5 are unchanged (in particular rule 3: a header CRC field of 0x0000 is "not computed" and is not
checked, in the reference and in the code alike). For a 14-byte header whose CRC field holds the computed value the
two rules say the same thing (a header followed by its own CRC leaves the CRC register at 0), so the two references can
differ only on streams that contain a 12-byte header or a 14-byte header with CRC field 0 — and differ there only
when the two checksums of that sequence differ. `C04_check_eq_reference_as_built` proves that the model of
`CheckIntegrity` IS `referenceAsBuilt` on every byte string; the class of KF-C04-1 is `reference bs ≠ referenceAsBuilt bs`. -/

/-- rules 1–3 and 4' for the sequence at the front of `bs`; gives its total length -/
def seqValidAsBuilt (bs : List Nat) : Option Nat :=
  match parseHeader bs with
  | none => none
  | some h =>
    if h.dataSize = 0 then none
    else if headerCrcBad bs h.crc then none
    else
      let n := h.size + h.dataSize
      match bs.drop n with
      | c0 :: c1 :: _ => if le16 c0 c1 = crcSpec 0 ((bs.drop h.size).take h.dataSize) then some (n + 2) else none
      | _ => none

/-- the walk of `refLoop` with `seqValidAsBuilt` -/
def refLoopAsBuilt : Nat → Nat → List Nat → Verdict
  | 0, seq, _ => .bad seq
  | fuel + 1, seq, bs =>
    if bs.isEmpty then (if seq ≠ 0 then .ok seq else .bad seq)
    else
      match seqValidAsBuilt bs with
      | none => .bad seq
      | some n => refLoopAsBuilt fuel (seq + 1) (bs.drop n)

/-- THE REFERENCE AS BUILT: verdict and count of valid leading sequences under the code's checksum rule -/
def referenceAsBuilt (bs : List Nat) : Verdict := refLoopAsBuilt (bs.length + 1) 0 bs

/-- the EXACT class of finding KF-C04-1: the byte strings on which the integrity rules and the rules as built
give different verdicts or counts -/
def kfC04 (bs : List Nat) : Bool := decide (reference bs ≠ referenceAsBuilt bs)

/-- "ENCODER OUTPUT" as a predicate on bytes, stated with the independent framing reader: the stream consists of
bytes and is one well-formed sequence with a 14-byte header that carries its computed CRC, and a correct file CRC. -/
def IsEncoderOutput14 (f : List Nat) : Prop :=
  (∀ b ∈ f, b < 256) ∧ ∃ s, parseStream f = some [s] ∧ s.header.size = 14 ∧
    headerCrcStrict f s = true ∧ fileCrcOk f s = true

instance (f : List Nat) : Decidable (IsEncoderOutput14 f) := by
  unfold IsEncoderOutput14
  have : Decidable (∃ s, parseStream f = some [s] ∧ s.header.size = 14 ∧
      headerCrcStrict f s = true ∧ fileCrcOk f s = true) :=
    match h : parseStream f with
    | some [s] =>
      if hc : s.header.size = 14 ∧ headerCrcStrict f s = true ∧ fileCrcOk f s = true
      then isTrue ⟨s, rfl, hc⟩
      else isFalse (by rintro ⟨s', hs', hc'⟩; cases hs'; exact hc hc')
    | none => isFalse (by rintro ⟨s', hs', _⟩; cases hs')
    | some [] => isFalse (by rintro ⟨s', hs', _⟩; cases hs')
    | some (_ :: _ :: _) => isFalse (by rintro ⟨s', hs', _⟩; cases hs')
  infer_instance

/-- executable form of "the output of the encoder for a chain of `n` sequences, all with 14-byte headers": bytes; exactly
`n` well-formed sequences under the independent framing reader with nothing between or after them; every header has 14
bytes and carries its computed CRC; every file CRC is correct over its whole sequence. For `n = 1` this is
`IsEncoderOutput14` (`isEncoderChain14_one`). Evaluated by the driver on the operations the harness TAGS as real encoder output. -/
def isEncoderChain14 (f : List Nat) (n : Nat) : Bool :=
  f.all (fun b => decide (b < 256)) &&
  match parseStream f with
  | some seqs => seqs.length == n && seqs.all fun s => s.header.size == 14 && headerCrcStrict f s && fileCrcOk f s
  | none => false

theorem isEncoderChain14_one (f : List Nat) : isEncoderChain14 f 1 = true ↔ IsEncoderOutput14 f := by
  unfold isEncoderChain14 IsEncoderOutput14
  simp only [Bool.and_eq_true, List.all_eq_true, decide_eq_true_eq]
  constructor
  · rintro ⟨hb, h⟩
    refine ⟨hb, ?_⟩
    cases hp : parseStream f with
    | none => rw [hp] at h; cases h
    | some seqs =>
      rw [hp] at h
      simp only [Bool.and_eq_true, beq_iff_eq, List.all_eq_true] at h
      match seqs, h with
      | [s], ⟨_, hall⟩ =>
        have := hall s (by simp)
        exact ⟨s, rfl, this.1.1, this.1.2, this.2⟩
  · rintro ⟨hb, s, hp, h14, hc, hfc⟩
    refine ⟨hb, ?_⟩
    rw [hp]
    simp [h14, hc, hfc]

end Fit.IntegritySpec
