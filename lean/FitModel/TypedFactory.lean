import FitModel.Typed
import FitModel.ProfileSpec
import FitModel.Generated.ProfileTables
/-!
`factory.StandardFactory().CreateField(mesgNum, num)` as the typed layer sees it, read from the regenerated dump of the
compiled factory (`Generated/ProfileTables.lean`): the `FieldBase` attributes the line protocol carries.
-/
namespace Fit.Typed
open Fit.Msg Fit.ProfileSpec

/-- `createUnknownField(num)` -/
def unknownBase (num : Nat) : FieldBase :=
  { num := num, baseType := 0, array := false, accumulate := false, scale := f64One, offset := 0, nameKnown := false, profileBool := false }

def rowBase (f : FieldRow) : FieldBase :=
  { num := f.num, baseType := f.baseType, array := f.array, accumulate := f.acc, scale := f.scale, offset := f.offset,
    nameKnown := f.name != 0x1756e6b6e6f776e /- "unknown" -/, profileBool := f.ptype == 0x1626f6f6c /- "bool" -/ }

def stdBase (mesgNum num : Nat) : FieldBase :=
  match Fit.Gen.Prof.mesgs.find? (·.num == mesgNum) with
  | none => unknownBase num
  | some m => match m.fields.find? (·.num == num) with
    | none => unknownBase num
    | some f => rowBase f

/-- the field `CreateField` returns: the factory's `FieldBase`, no value, not marked -/
def stdField (mesgNum num : Nat) : Field := { base := some (stdBase mesgNum num), value := .invalid, isExpanded := false }

/-- the table's slots are exactly the fields the factory has for the message, with the factory's base types -/
def matchesFactory (T : MesgTable) : Bool :=
  match Fit.Gen.Prof.mesgs.find? (·.num == T.num) with
  | none => false
  | some m =>
    m.fields.all (fun f => T.slots.any fun s => s.num == f.num && s.baseType == f.baseType) &&
    T.slots.all (fun s => m.fields.any fun f => s.num == f.num)

end Fit.Typed
