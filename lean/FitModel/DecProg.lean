import FitModel.ReadBuffer
import FitModel.Crc
import FitModel.Generated.IntegrityConsts
/-!
The decoder of `/repo/decoder/decoder.go` as a CLIENT OF THE READ BUFFER (`Fit.ReadBuffer.Prog`): every byte it
sees comes through a `ReadN` request — `decodeFileHeader`, `decodeMessages` / `decodeMessage`,
`decodeMessageDefinition`, `decodeMessageData` (`decodeFields`, `decodeDeveloperFields` as far as bytes are
consumed and errors raised), `decodeCRC`, `discardMessages`, the `for dec.Next() { dec.Decode() }` loop and
`CheckIntegrity`. What it reports: the listener events (message definitions with their contents; messages with
header byte, global number, number of fields and of developer fields), per sequence the file header and the
CRCs, and how it ended (error class; the two end-of-stream errors are kept apart — see DESIGN §4 F12).

The framing logic follows `FitModel/Integrity.lean` (tied to the code by family `integrity`); here the reader
is a parameter. Interpretation of field values (profile look-ups, component expansion) is not part of this
model — it does not touch the reader.
-/
namespace Fit.DecProg
open Fit.ReadBuffer Fit.Crc Fit.Gen.Integ

inductive Err
  | io (e : RErr)            -- error of the reading layer (end of stream classes, the reader's own errors)
  | notFit | crc | defMissing | invalidBaseType
  deriving DecidableEq, Repr, Inhabited

abbrev Triplet := Nat × Nat × Nat

inductive Ev
  | def_ (header arch mesgNum : Nat) (fields devFields : List Triplet)
  /-- a decoded message: header byte, global number, number of fields and of developer fields in it, and the bytes of
  every field (by number) and developer field (number, developer data index) as handed to the value decoder -/
  | msg (header mesgNum nFields nDevFields : Nat) (payload : List (Nat × Bytes)) (devPayload : List (Nat × Nat × Bytes))
  | seq (size protoVer profileVer dataSize hdrCrc fileCrc nMsgs : Nat)
  deriving DecidableEq, Repr, Inhabited

/-- how a run ended: `none` = the loop ended without error; `clean` tells whether it ended because the reader
reported end of stream at the very first byte of a would-be next header (the stream ends exactly at a
sequence boundary) -/
structure Out where
  evs : List Ev
  status : Option Err
  clean : Bool := false
  /-- the error that made `Next()` return false (it ends the loop silently; the decoder keeps it as its sticky error
  `d.err`, which a further `Decode()` call returns) -/
  swallowed : Option Err := none
  deriving DecidableEq, Repr, Inhabited

/-- forget which of the two end-of-stream errors it was -/
def Err.merge : Err → Err
  | .io e => .io e.merge
  | e => e

def Out.merge (o : Out) : Out := { o with status := o.status.map Err.merge, swallowed := o.swallowed.map Err.merge }

structure Def where
  arch : Nat
  mesgNum : Nat
  fields : List Triplet      -- (num, size, base type)
  devFields : List Triplet   -- (num, size, developer data index)
  deriving Repr, Inhabited

/-- decoder state while a sequence is decoded -/
structure St where
  evs : List Ev                     -- events so far, newest first
  cur : Nat := 0                    -- `d.cur`
  crc : Nat := 0                    -- `d.crc16`
  defs : List (Nat × Def) := []     -- `d.localMessageDefinitions` (association list, newest first)
  descs : List Triplet := []        -- field descriptions: (developer data index, field definition number, base type)
  msgs : Nat := 0
  deriving Inhabited

def St.lookup (st : St) (i : Nat) : Option Def := (st.defs.find? (·.1 == i)).map (·.2)

abbrev P := Prog Out

def fail (st : St) (e : Err) : Out := { evs := st.evs.reverse, status := some e }

def le16 : Bytes → Nat
  | a :: b :: _ => a + 256 * b
  | _ => 0
def be16 : Bytes → Nat
  | a :: b :: _ => 256 * a + b
  | _ => 0
def le32 : Bytes → Nat
  | a :: b :: c :: d :: _ => a + 256 * b + 65536 * c + 16777216 * d
  | _ => 0

def triplets : Bytes → List Triplet
  | a :: b :: c :: rest => (a, b, c) :: triplets rest
  | _ => []

def validBaseType (b : Nat) : Bool := validBaseTypes.contains b

/-- `(*Decoder).readN`: `ReadN`, then the counters and the running checksum; an error ends the run -/
def rdN (chk : Bool) (n : Nat) (st : St) (k : Bytes → St → P) : P :=
  .read n fun
    | .error e => .ret (fail st (.io e))
    | .ok b => k b { st with cur := st.cur + n, crc := if chk then write st.crc b else st.crc }

structure Hdr where
  size : Nat
  protoVer : Nat
  profileVer : Nat
  dataSize : Nat
  crc : Nat
  deriving DecidableEq, Repr, Inhabited

/-- `decodeFileHeader`. `onFirst` gets the error of the very first `ReadN(1)`, `onErr` every other failure
(what becomes of them is decided by the caller: `Next()` swallows them, `Decode()` returns them,
`CheckIntegrity` turns a clean end of stream into success). The running checksum is 0 afterwards. -/
def fileHeader (chk : Bool) (onFirst : RErr → P) (onErr : Err → P) (k : Hdr → P) : P :=
  .read 1 fun
    | .error e => onFirst e
    | .ok b0 =>
      let size := b0.headD 0
      if size ≠ 12 ∧ size ≠ 14 then onErr .notFit
      else
        .read (size - 1) fun
          | .error e => onErr (.io e)
          | .ok b =>
            if (b.drop 7).take 4 ≠ dataTypeFIT then onErr .notFit
            else
              let dataSize := le32 (b.drop 3)
              if dataSize = 0 then onErr .notFit
              else
                let crc := if size = 14 then le16 (b.drop 11) else 0
                let h : Hdr := ⟨size, b.headD 0, le16 (b.drop 1), dataSize, crc⟩
                if crc = 0 ∨ chk = false then k h
                else if write (write 0 [size]) (b.take (size - 1 - 2)) ≠ crc then onErr .crc
                else k h

/-- `decodeMessageDefinition` (the header byte has been read) -/
def definition (chk : Bool) (header : Nat) (st : St) (k : St → P) : P :=
  rdN chk 5 st fun b st =>
    let arch := (b.drop 1).headD 0
    let mesgNum := if arch = littleEndian then le16 (b.drop 2) else be16 (b.drop 2)
    let n := (b.drop 4).headD 0
    rdN chk (n * 3) st fun fb st =>
      let fields := triplets fb
      if fields.any (fun t => !validBaseType t.2.2) then .ret (fail st .invalidBaseType)
      else if header &&& devDataMask = devDataMask then
        rdN chk 1 st fun nb st =>
          rdN chk (nb.headD 0 * 3) st fun db st =>
            let d : Def := { arch := arch, mesgNum := mesgNum, fields := fields, devFields := triplets db }
            k { st with defs := (header &&& localMesgNumMask, d) :: st.defs,
                        evs := .def_ header arch mesgNum fields (triplets db) :: st.evs }
      else
        let d : Def := { arch := arch, mesgNum := mesgNum, fields := fields, devFields := [] }
        k { st with defs := (header &&& localMesgNumMask, d) :: st.defs,
                    evs := .def_ header arch mesgNum fields [] :: st.evs }

/-- `decodeFields`, framing part: a field of size 0 is skipped, every other one is one `readN(size)`; collects the
bytes of every field read, by field number -/
def fields (chk : Bool) : List Triplet → St → List (Nat × Bytes) → (St → List (Nat × Bytes) → P) → P
  | [], st, acc, k => k st acc
  | (num, size, _) :: fs, st, acc, k =>
    if size = 0 then fields chk fs st acc k
    else rdN chk size st fun b st => fields chk fs st (acc ++ [(num, b)]) k

/-- `vals[num].Uint8()` of `FieldDescription.Reset`: the first byte (what `mesgdef.NewFieldDescription` looks at) of the
LAST field with that number, 255 if none -/
def lastVal (vals : List (Nat × Bytes)) (num : Nat) : Nat :=
  match (vals.filter fun p => p.1 = num).getLast? with
  | some p => p.2.headD 0
  | none => uint8Invalid

/-- `decodeDeveloperFields`, framing part; collects the developer fields that end up in the message (number, developer
data index, bytes) -/
def devFields (chk : Bool) (descs : List Triplet) : List Triplet → St → List (Nat × Nat × Bytes) → (St → List (Nat × Nat × Bytes) → P) → P
  | [], st, acc, k => k st acc
  | (num, size, ddi) :: fs, st, acc, k =>
    match descs.find? fun d => d.1 = ddi ∧ d.2.1 = num with
    | none => rdN chk size st fun _ st => devFields chk descs fs st acc k       -- "just read acquired bytes"
    | some d =>
      if !validBaseType d.2.2 then .ret (fail st .invalidBaseType)
      else if size = 0 then devFields chk descs fs st acc k
      else rdN chk size st fun b st => devFields chk descs fs st (acc ++ [(num, ddi, b)]) k

/-- `decodeMessageData` (the header byte has been read) -/
def data (chk : Bool) (header : Nat) (st : St) (k : St → P) : P :=
  let compressed := header &&& mesgCompressedHeaderMask = mesgCompressedHeaderMask
  let localNum := if compressed then (header &&& compressedLocalMesgNumMask) >>> compressedBitShift else header
  match st.lookup (localNum &&& localMesgNumMask) with
  | none => .ret (fail st .defMissing)
  | some d =>
    fields chk d.fields st [] fun st vals =>
      let descs := if d.mesgNum = mesgNumFieldDescription
        then st.descs ++ [(lastVal vals fdDeveloperDataIndex, lastVal vals fdFieldDefinitionNumber, lastVal vals fdFitBaseTypeId)]
        else st.descs
      let st := { st with descs := descs }
      -- `if len(mesgDef.DeveloperFieldDefinitions) != 0 { decodeDeveloperFields }` (the same thing for an empty list)
      devFields chk descs d.devFields st [] fun st devs =>
        k { st with msgs := st.msgs + 1,
                    evs := .msg header d.mesgNum (vals.length + (if compressed then 1 else 0)) devs.length vals devs :: st.evs }

/-- `decodeMessage` -/
def message (chk : Bool) (st : St) (k : St → P) : P :=
  rdN chk 1 st fun b st =>
    let header := b.headD 0
    if header &&& (mesgCompressedHeaderMask ||| mesgDefinitionMask) = mesgDefinitionMask
    then definition chk header st k
    else data chk header st k

/-- `decodeMessages`: `for d.cur < d.fileHeader.DataSize { decodeMessage }` (`fuel` ≥ `dataSize` suffices: every
message advances `d.cur`) -/
def messages (chk : Bool) (dataSize : Nat) : Nat → St → (St → P) → P
  | 0, st, k => k st
  | fuel + 1, st, k =>
    if st.cur < dataSize then message chk st fun st => messages chk dataSize fuel st k
    else k st

/-- `decodeCRC`: `ReadN(2)` straight from the buffer (not folded into the checksum) -/
def fileCrc (chk : Bool) (st : St) (k : Nat → P) : P :=
  .read 2 fun
    | .error e => .ret (fail st (.io e))
    | .ok b =>
      if chk ∧ st.crc ≠ le16 b then .ret (fail st .crc) else k (le16 b)

/-- what `Next()` does with an error of the header read of a second or later sequence: end of input and invalid bytes
(`io.EOF`, `io.ErrUnexpectedEOF`, `ErrNotFITFile`, `ErrCRCChecksumMismatch`) make it return false — the loop ends
silently; any other error is a failure of the reader itself: `Next()` returns true and the following `Decode()` returns
it (the decoder's error is sticky) -/
def Err.endsIteration : Err → Bool
  | .io .eof => true
  | .io .unexpectedEof => true
  | .notFit => true
  | .crc => true
  | _ => false

/-- `for dec.Next() { fit, err := dec.Decode(); if err != nil { break } }` on a fresh decoder.
`Next()` is true for the first sequence and afterwards when a file header decodes or the header read met a
failure of the reader (`Err.endsIteration`). `fuel` bounds the number of sequences. -/
def decodeLoop (chk : Bool) : Nat → Bool → List Ev → P
  | 0, _, evs => .ret { evs := evs.reverse, status := none }
  | fuel + 1, first, evs =>
    fileHeader chk
      (fun e => if first || !(Err.io e).endsIteration then .ret { evs := evs.reverse, status := some (.io e) }
                else .ret { evs := evs.reverse, status := none, clean := e == .eof, swallowed := some (.io e) })
      (fun e => if first || !e.endsIteration then .ret { evs := evs.reverse, status := some e }
                else .ret { evs := evs.reverse, status := none, swallowed := some e })
      fun h =>
        messages chk h.dataSize h.dataSize { evs := evs } fun st =>
          fileCrc chk st fun c =>
            decodeLoop chk fuel false (.seq h.size h.protoVer h.profileVer h.dataSize h.crc c st.msgs :: st.evs)

/-- `discardMessages`: chunks of at most `reservedbuf` bytes through `readN` -/
def discard (chk : Bool) (dataSize : Nat) : Nat → St → (St → P) → P
  | 0, st, k => k st
  | fuel + 1, st, k =>
    if st.cur < dataSize then
      rdN chk (min (dataSize - st.cur) reservedbuf) st fun _ st => discard chk dataSize fuel st k
    else k st

/-- result of `CheckIntegrity`: sequences completed and the error -/
structure CiOut where
  seq : Nat
  status : Option Err
  deriving DecidableEq, Repr, Inhabited

def CiOut.merge (o : CiOut) : CiOut := { o with status := o.status.map Err.merge }

/-- `CheckIntegrity` on a fresh decoder (checksum forced on): header, `discardMessages`, `decodeCRC`, until the
reader reports `io.EOF` exactly at the first byte after a completed sequence -/
def checkIntegrity : Nat → Nat → Prog CiOut
  | 0, seq => .ret ⟨seq, none⟩
  | fuel + 1, seq =>
    .read 1 fun
      | .error e => if seq ≠ 0 ∧ e = .eof then .ret ⟨seq, none⟩ else .ret ⟨seq, some (.io e)⟩
      | .ok b0 =>
        let size := b0.headD 0
        if size ≠ 12 ∧ size ≠ 14 then .ret ⟨seq, some .notFit⟩
        else
          .read (size - 1) fun
            | .error e => .ret ⟨seq, some (.io e)⟩
            | .ok b =>
              if (b.drop 7).take 4 ≠ dataTypeFIT then .ret ⟨seq, some .notFit⟩
              else
                let dataSize := le32 (b.drop 3)
                if dataSize = 0 then .ret ⟨seq, some .notFit⟩
                else
                  let crc := if size = 14 then le16 (b.drop 11) else 0
                  if crc ≠ 0 ∧ write (write 0 [size]) (b.take (size - 1 - 2)) ≠ crc then .ret ⟨seq, some .crc⟩
                  else ciBody seq dataSize dataSize 0 0 fun crc' =>
                    .read 2 fun
                      | .error e => .ret ⟨seq, some (.io e)⟩
                      | .ok c => if crc' ≠ le16 c then .ret ⟨seq, some .crc⟩ else checkIntegrity fuel (seq + 1)
where
  /-- `discardMessages` with the checksum on: (fuel, cur, crc) -/
  ciBody (seq dataSize : Nat) : Nat → Nat → Nat → (Nat → Prog CiOut) → Prog CiOut
    | 0, _, crc, k => k crc
    | fuel + 1, cur, crc, k =>
      if cur < dataSize then
        .read (min (dataSize - cur) reservedbuf) fun
          | .error e => .ret ⟨seq, some (.io e)⟩
          | .ok b => ciBody seq dataSize fuel (cur + min (dataSize - cur) reservedbuf) (write crc b) k
      else k crc

end Fit.DecProg
