import FitModel.F64
import FitModel.Value
/-!
Model of /repo/kit/scaleoffset/scaleoffset.go and of the other places where the SDK converts between a raw
integer and its scaled (physical) float64 representation:

* `apply`, `discard`, `applySlice`, `discardSlice`, `applyValue`, `discardValue`, `applyAny`, `discardAny`
  — kit/scaleoffset, case by case;
* `validatorRestore` — encoder/validator.go:113-121 (and :187-207 for developer fields): the condition under
  which `DiscardValue` is called;
* `getScaled` / `setScaled` — the generated `XxxScaled` / `SetXxxScaled` of profile/mesgdef
  (internal/cmd/fitgen/profile/mesgdef/mesgdef.tmpl:188-300): their own arithmetic and their own conversion;
* `csvParseScaled` — cmd/fitconv/fitcsv/csv_to_fit.go:496-560, the scaled path of `parseValue`.

Numbers are bit patterns (`FitModel/F64.lean`, `FitModel/Value.lean`). Every float→integer conversion is Go's
conversion on amd64 (`F64.cvt`), flagged by `F64.cvtFlag` where the Go specification leaves it to the platform.
-/
namespace Fit.ScaleOffset
open Fit.F64 Fit.Value Fit.Gen

/-- the Go numeric types of `scaleoffset.Numeric` -/
inductive Num where
  | int (ty : IntTy)
  | f32
  | f64
  deriving DecidableEq, Repr, Inhabited

/-- `float64(v)` for `v` of numeric type `t` given as bit pattern -/
def toF64 (t : Num) (p : Nat) : Nat :=
  match t with
  | .int ty => ofInt (ty.toInt p)
  | .f32 => ofF32 p
  | .f64 => p

/-- `T(x)` for a float64 `x`: the pattern of the result in `T` (`math.Round` inserted by the caller where the code has it) -/
def conv (t : Num) (x : Nat) : Nat :=
  match t with
  | .int ty => cvt ty x
  | .f32 => toF32 x
  | .f64 => if isNaN x then nanBits else x

/-- the conversion is left to the platform by the Go specification -/
def convFlag (t : Num) (x : Nat) : Bool :=
  match t with
  | .int ty => cvtFlag ty x
  | _ => false

/-- `scale == 1 && offset == 0` -/
def isUnit (scale offset : Nat) : Bool := feq scale oneBits && feq offset 0

/-- `Apply(value, scale, offset)` on `x = float64(value)`: `x/scale - offset` -/
def apply (x scale offset : Nat) : Nat := sub (div x scale) offset

/-- `Discard(value, scale, offset)` -/
def discard (x scale offset : Nat) : Nat :=
  if isUnit scale offset then x else mul (add x offset) scale

/-- `ApplySlice` -/
def applySlice (t : Num) (ps : List Nat) (scale offset : Nat) : List Nat :=
  ps.map fun p => apply (toF64 t p) scale offset

/-- `isInteger := T(half) == 0` of `DiscardSlice` -/
def Num.isInteger : Num → Bool
  | .int _ => true
  | _ => false

/-- `DiscardSlice[T]`: its own unit test and its own conversion; for an integer `T` the product is rounded to
the nearest integer (`math.Round`) before the conversion -/
def discardSlice (t : Num) (xs : List Nat) (scale offset : Nat) : List Nat :=
  if isUnit scale offset then xs.map (conv t)
  else if t.isInteger then xs.map fun x => conv t (round (mul (add x offset) scale))
  else xs.map fun x => conv t (mul (add x offset) scale)

/-! ### proto.Value level -/

def scalarOf : Value → Option (Num × Nat)
  | .int8 v => some (.int .i8, v) | .uint8 v => some (.int .u8, v)
  | .int16 v => some (.int .i16, v) | .uint16 v => some (.int .u16, v)
  | .int32 v => some (.int .i32, v) | .uint32 v => some (.int .u32, v)
  | .int64 v => some (.int .i64, v) | .uint64 v => some (.int .u64, v)
  | .float32 v => some (.f32, v) | .float64 v => some (.f64, v)
  | _ => none

def sliceOf : Value → Option (Num × List Nat)
  | .sliceInt8 v => some (.int .i8, v) | .sliceUint8 v => some (.int .u8, v)
  | .sliceInt16 v => some (.int .i16, v) | .sliceUint16 v => some (.int .u16, v)
  | .sliceInt32 v => some (.int .i32, v) | .sliceUint32 v => some (.int .u32, v)
  | .sliceInt64 v => some (.int .i64, v) | .sliceUint64 v => some (.int .u64, v)
  | .sliceFloat32 v => some (.f32, v) | .sliceFloat64 v => some (.f64, v)
  | _ => none

def mkScalar : Num → Nat → Value
  | .int .i8, p => .int8 p | .int .u8, p => .uint8 p | .int .i16, p => .int16 p | .int .u16, p => .uint16 p
  | .int .i32, p => .int32 p | .int .u32, p => .uint32 p | .int .i64, p => .int64 p | .int .u64, p => .uint64 p
  | .f32, p => .float32 p | .f64, p => .float64 p

def mkSlice : Num → List Nat → Value
  | .int .i8, p => .sliceInt8 p | .int .u8, p => .sliceUint8 p | .int .i16, p => .sliceInt16 p
  | .int .u16, p => .sliceUint16 p | .int .i32, p => .sliceInt32 p | .int .u32, p => .sliceUint32 p
  | .int .i64, p => .sliceInt64 p | .int .u64, p => .sliceUint64 p
  | .f32, p => .sliceFloat32 p | .f64, p => .sliceFloat64 p

/-- `ApplyValue` -/
def applyValue (v : Value) (scale offset : Nat) : Value :=
  if isUnit scale offset then v
  else match scalarOf v with
    | some (t, p) => .float64 (apply (toF64 t p) scale offset)
    | none => match sliceOf v with
      | some (t, ps) => .sliceFloat64 (applySlice t ps scale offset)
      | none => v

/-- the `switch baseType` of `DiscardValue` / `DiscardAny` (the same list in all four places; `enum` and
`string` are absent: the value is returned unchanged) -/
def tgtOfBaseType (bt : Nat) : Option Num :=
  if bt = btSint8 then some (.int .i8)
  else if bt = btByte ∨ bt = btUint8 ∨ bt = btUint8z then some (.int .u8)
  else if bt = btSint16 then some (.int .i16)
  else if bt = btUint16 ∨ bt = btUint16z then some (.int .u16)
  else if bt = btSint32 then some (.int .i32)
  else if bt = btUint32 ∨ bt = btUint32z then some (.int .u32)
  else if bt = btFloat32 then some .f32
  else if bt = btFloat64 then some .f64
  else if bt = btSint64 then some (.int .i64)
  else if bt = btUint64 ∨ bt = btUint64z then some (.int .u64)
  else none

/-- `DiscardValue` / `DiscardAny` on a float64: `dv := Discard(...)`; `if baseType != Float32 && baseType != Float64
{ dv = math.Round(dv) }`; then the conversion of the base type (`t` is the type the base type selects) -/
def discardScalar (t : Num) (x scale offset : Nat) : Nat :=
  let dv := discard x scale offset
  conv t (if t.isInteger then round dv else dv)

/-- `DiscardValue` -/
def discardValue (v : Value) (bt scale offset : Nat) : Value :=
  match v with
  | .float64 x =>
    match tgtOfBaseType bt with
    | some t => mkScalar t (discardScalar t x scale offset)
    | none => v
  | .sliceFloat64 xs =>
    match tgtOfBaseType bt with
    | some t => mkSlice t (discardSlice t xs scale offset)
    | none => v
  | _ => v

/-- some conversion inside `discardValue` is platform-defined -/
def discardValueFlag (v : Value) (bt scale offset : Nat) : Bool :=
  match tgtOfBaseType bt with
  | none => false
  | some t =>
    match v with
    | .float64 x => convFlag t (if t.isInteger then round (discard x scale offset) else discard x scale offset)
    | .sliceFloat64 xs =>
      if isUnit scale offset then xs.any (convFlag t)
      else xs.any fun x => convFlag t (if t.isInteger then round (mul (add x offset) scale) else mul (add x offset) scale)
    | _ => false

/-! ### `any` level -/

def goScalarOf : GoVal → Option (Num × Nat)
  | .int8 v => some (.int .i8, v) | .uint8 v => some (.int .u8, v)
  | .int16 v => some (.int .i16, v) | .uint16 v => some (.int .u16, v)
  | .int32 v => some (.int .i32, v) | .uint32 v => some (.int .u32, v)
  | .int64 v => some (.int .i64, v) | .uint64 v => some (.int .u64, v)
  | .float32 v => some (.f32, v) | .float64 v => some (.f64, v)
  | _ => none

def goSliceOf : GoVal → Option (Num × List Nat)
  | .int8s v => some (.int .i8, v) | .uint8s v => some (.int .u8, v)
  | .int16s v => some (.int .i16, v) | .uint16s v => some (.int .u16, v)
  | .int32s v => some (.int .i32, v) | .uint32s v => some (.int .u32, v)
  | .int64s v => some (.int .i64, v) | .uint64s v => some (.int .u64, v)
  | .float32s v => some (.f32, v) | .float64s v => some (.f64, v)
  | _ => none

def goMkScalar : Num → Nat → GoVal
  | .int .i8, p => .int8 p | .int .u8, p => .uint8 p | .int .i16, p => .int16 p | .int .u16, p => .uint16 p
  | .int .i32, p => .int32 p | .int .u32, p => .uint32 p | .int .i64, p => .int64 p | .int .u64, p => .uint64 p
  | .f32, p => .float32 p | .f64, p => .float64 p

def goMkSlice : Num → List Nat → GoVal
  | .int .i8, p => .int8s p | .int .u8, p => .uint8s p | .int .i16, p => .int16s p
  | .int .u16, p => .uint16s p | .int .i32, p => .int32s p | .int .u32, p => .uint32s p
  | .int .i64, p => .int64s p | .int .u64, p => .uint64s p
  | .f32, p => .float32s p | .f64, p => .float64s p

/-- `ApplyAny` (a named type matches no case of the type switch and is returned as it is) -/
def applyAny (g : GoVal) (scale offset : Nat) : GoVal :=
  if isUnit scale offset then g
  else match g with
    | .value v => toAny (applyValue v scale offset)
    | _ => match goScalarOf g with
      | some (t, p) => .float64 (apply (toF64 t p) scale offset)
      | none => match goSliceOf g with
        | some (t, ps) => .float64s (applySlice t ps scale offset)
        | none => g

/-- `DiscardAny` -/
def discardAny (g : GoVal) (bt scale offset : Nat) : GoVal :=
  match g with
  | .value v => toAny (discardValue v bt scale offset)
  | .float64 x =>
    match tgtOfBaseType bt with
    | some t => goMkScalar t (discardScalar t x scale offset)
    | none => g
  | .float64s xs =>
    match tgtOfBaseType bt with
    | some t => goMkSlice t (discardSlice t xs scale offset)
    | none => g
  | _ => g

/-! ### encoder validator -/

/-- encoder/validator.go:113: `if field.Scale != 1 || field.Offset != 0 { field.Value = DiscardValue(...) }` -/
def validatorRestore (v : Value) (bt scale offset : Nat) : Value :=
  if !(feq scale oneBits) || !(feq offset 0) then discardValue v bt scale offset else v

/-! ### generated typed accessors (profile/mesgdef) -/

/-- `XxxScaled()` of a scalar field: the invalid sentinel maps to the float64 invalid pattern, anything else to
`float64(raw)/scale - offset` (no unit short-cut: the accessor exists only for non-unit pairs) -/
def getScaled (ty : IntTy) (invalid raw scale offset : Nat) : Nat :=
  if raw = invalid then float64Invalid else sub (div (ofInt (ty.toInt raw)) scale) offset

/-- `SetXxxScaled(v)`: `unscaled := (v + offset) * scale`; NaN, ±Inf or `> float64(invalid)` store the invalid
sentinel, everything else is rounded to the nearest integer (`math.Round`) and converted -/
def setScaled (ty : IntTy) (invalid v scale offset : Nat) : Nat :=
  let u := mul (add v offset) scale
  if isNaN u || isInf u || fgt u (ofInt (ty.toInt invalid)) then invalid else cvt ty (round u)

def setScaledFlag (ty : IntTy) (invalid v scale offset : Nat) : Bool :=
  let u := mul (add v offset) scale
  !(isNaN u || isInf u || fgt u (ofInt (ty.toInt invalid))) && cvtFlag ty (round u)

/-! ### CSV reader, scaled path -/

/-- the `switch baseType` of fitcsv `parseValue` (enum and byte are read as uint8; string has no scaled path) -/
def csvTgt (bt : Nat) : Option Num :=
  if bt = btEnum ∨ bt = btByte ∨ bt = btUint8 ∨ bt = btUint8z then some (.int .u8)
  else if bt = btSint8 then some (.int .i8)
  else if bt = btSint16 then some (.int .i16)
  else if bt = btUint16 ∨ bt = btUint16z then some (.int .u16)
  else if bt = btSint32 then some (.int .i32)
  else if bt = btUint32 ∨ bt = btUint32z then some (.int .u32)
  else if bt = btFloat32 then some .f32
  else if bt = btFloat64 then some .f64
  else if bt = btSint64 then some (.int .i64)
  else if bt = btUint64 ∨ bt = btUint64z then some (.int .u64)
  else none

/-- `parseValue` for a cell that contains a '.', after `strconv.ParseFloat` returned `x`:
`Discard(x, scale, offset)`, `math.Round` unless the base type is float32/float64, then the conversion of the
base type; `none` = the zero `proto.Value` -/
def csvParseScaled (x bt scale offset : Nat) : Option Value :=
  (csvTgt bt).map fun t =>
    let dv := discard x scale offset
    mkScalar t (conv t (if t.isInteger then round dv else dv))

end Fit.ScaleOffset
