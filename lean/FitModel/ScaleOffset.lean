import FitModel.F64
import FitModel.Value
/-!
Model of /repo/kit/scaleoffset/scaleoffset.go and of the other places where the SDK converts between a raw
integer and its scaled (physical) float64 representation:

* `apply`, `discard`, `applySlice`, `discardSlice`, `applyValue`, `discardValue`, `applyAny`, `discardAny`
  — kit/scaleoffset, case by case;
* `validatorRestore` — encoder/validator.go:113-121 (and :187-207 for developer fields): the condition under
  which `DiscardValue` is called;
* `getScaled` / `setScaled` — the generated `XxxScaled` / `SetXxxScaled` of profile/mesgdef
  (internal/cmd/fitgen/profile/mesgdef/mesgdef.tmpl:188-300): their own arithmetic and their own conversion;
* `getScaledSlice` / `setScaledSlice`, `getScaledArray` / `setScaledArray` — the generated accessors of slice (`[]T`)
  and fixed-array (`[N]T`) fields (mesgdef.tmpl: the loops over the elements, the nil / whole-array sentinel tests);
* `validatorRestoreDev`, `validatorDevField`, `validatorSeq` — encoder/validator.go:157-227: a developer field is restored with
  the base type / scale / offset of the native field its field description designates (looked up per field), else
  with the description's own scale / offset; the validator's memory (developer data ids, field descriptions) over
  a sequence of messages;
* `csvParseScaled` — cmd/fitconv/fitcsv/csv_to_fit.go:496-560, the scaled path of `parseValue`;
* `csvHasDot`, `csvCell` — what decides between that path and the integer path: `strings.Contains(cell, ".")` on
  the text `format` (formatter.go:50-55) wrote for the float64.

Numbers are bit patterns (`FitModel/F64.lean`, `FitModel/Value.lean`). Every float→integer conversion is Go's
conversion on amd64 (`F64.cvt`), flagged by `F64.cvtFlag` where the Go specification leaves it to the platform.
-/
namespace Fit.ScaleOffset
open Fit.F64 Fit.Value Fit.Gen

/-- the Go numeric types of `scaleoffset.Numeric` -/
inductive Num where
  | int (ty : IntTy)
  | f32
  | f64
  deriving DecidableEq, Repr, Inhabited

/-- `float64(v)` for `v` of numeric type `t` given as bit pattern -/
def toF64 (t : Num) (p : Nat) : Nat :=
  match t with
  | .int ty => ofInt (ty.toInt p)
  | .f32 => ofF32 p
  | .f64 => p

/-- `T(x)` for a float64 `x`: the pattern of the result in `T` (`math.Round` inserted by the caller where the code has it) -/
def conv (t : Num) (x : Nat) : Nat :=
  match t with
  | .int ty => cvt ty x
  | .f32 => toF32 x
  | .f64 => if isNaN x then nanBits else x

/-- the conversion is left to the platform by the Go specification -/
def convFlag (t : Num) (x : Nat) : Bool :=
  match t with
  | .int ty => cvtFlag ty x
  | _ => false

/-- `scale == 1 && offset == 0` -/
def isUnit (scale offset : Nat) : Bool := feq scale oneBits && feq offset 0

/-- `Apply(value, scale, offset)` on `x = float64(value)`: `x/scale - offset` -/
def apply (x scale offset : Nat) : Nat := sub (div x scale) offset

/-- `Discard(value, scale, offset)` -/
def discard (x scale offset : Nat) : Nat :=
  if isUnit scale offset then x else mul (add x offset) scale

/-- `ApplySlice` -/
def applySlice (t : Num) (ps : List Nat) (scale offset : Nat) : List Nat :=
  ps.map fun p => apply (toF64 t p) scale offset

/-- `isInteger := T(half) == 0` of `DiscardSlice` -/
def Num.isInteger : Num → Bool
  | .int _ => true
  | _ => false

/-- `DiscardSlice[T]`: its own unit test and its own conversion; for an integer `T` the product is rounded to
the nearest integer (`math.Round`) before the conversion -/
def discardSlice (t : Num) (xs : List Nat) (scale offset : Nat) : List Nat :=
  if isUnit scale offset then xs.map (conv t)
  else if t.isInteger then xs.map fun x => conv t (round (mul (add x offset) scale))
  else xs.map fun x => conv t (mul (add x offset) scale)

/-! ### proto.Value level -/

def scalarOf : Value → Option (Num × Nat)
  | .int8 v => some (.int .i8, v) | .uint8 v => some (.int .u8, v)
  | .int16 v => some (.int .i16, v) | .uint16 v => some (.int .u16, v)
  | .int32 v => some (.int .i32, v) | .uint32 v => some (.int .u32, v)
  | .int64 v => some (.int .i64, v) | .uint64 v => some (.int .u64, v)
  | .float32 v => some (.f32, v) | .float64 v => some (.f64, v)
  | _ => none

def sliceOf : Value → Option (Num × List Nat)
  | .sliceInt8 v => some (.int .i8, v) | .sliceUint8 v => some (.int .u8, v)
  | .sliceInt16 v => some (.int .i16, v) | .sliceUint16 v => some (.int .u16, v)
  | .sliceInt32 v => some (.int .i32, v) | .sliceUint32 v => some (.int .u32, v)
  | .sliceInt64 v => some (.int .i64, v) | .sliceUint64 v => some (.int .u64, v)
  | .sliceFloat32 v => some (.f32, v) | .sliceFloat64 v => some (.f64, v)
  | _ => none

def mkScalar : Num → Nat → Value
  | .int .i8, p => .int8 p | .int .u8, p => .uint8 p | .int .i16, p => .int16 p | .int .u16, p => .uint16 p
  | .int .i32, p => .int32 p | .int .u32, p => .uint32 p | .int .i64, p => .int64 p | .int .u64, p => .uint64 p
  | .f32, p => .float32 p | .f64, p => .float64 p

def mkSlice : Num → List Nat → Value
  | .int .i8, p => .sliceInt8 p | .int .u8, p => .sliceUint8 p | .int .i16, p => .sliceInt16 p
  | .int .u16, p => .sliceUint16 p | .int .i32, p => .sliceInt32 p | .int .u32, p => .sliceUint32 p
  | .int .i64, p => .sliceInt64 p | .int .u64, p => .sliceUint64 p
  | .f32, p => .sliceFloat32 p | .f64, p => .sliceFloat64 p

/-- `ApplyValue` -/
def applyValue (v : Value) (scale offset : Nat) : Value :=
  if isUnit scale offset then v
  else match scalarOf v with
    | some (t, p) => .float64 (apply (toF64 t p) scale offset)
    | none => match sliceOf v with
      | some (t, ps) => .sliceFloat64 (applySlice t ps scale offset)
      | none => v

/-- the `switch baseType` of `DiscardValue` / `DiscardAny` (the same list in all four places; `enum` and
`string` are absent: the value is returned unchanged) -/
def tgtOfBaseType (bt : Nat) : Option Num :=
  if bt = btSint8 then some (.int .i8)
  else if bt = btByte ∨ bt = btUint8 ∨ bt = btUint8z then some (.int .u8)
  else if bt = btSint16 then some (.int .i16)
  else if bt = btUint16 ∨ bt = btUint16z then some (.int .u16)
  else if bt = btSint32 then some (.int .i32)
  else if bt = btUint32 ∨ bt = btUint32z then some (.int .u32)
  else if bt = btFloat32 then some .f32
  else if bt = btFloat64 then some .f64
  else if bt = btSint64 then some (.int .i64)
  else if bt = btUint64 ∨ bt = btUint64z then some (.int .u64)
  else none

/-- `DiscardValue` / `DiscardAny` on a float64: `dv := Discard(...)`; `if baseType != Float32 && baseType != Float64
{ dv = math.Round(dv) }`; then the conversion of the base type (`t` is the type the base type selects) -/
def discardScalar (t : Num) (x scale offset : Nat) : Nat :=
  let dv := discard x scale offset
  conv t (if t.isInteger then round dv else dv)

/-- `DiscardValue` -/
def discardValue (v : Value) (bt scale offset : Nat) : Value :=
  match v with
  | .float64 x =>
    match tgtOfBaseType bt with
    | some t => mkScalar t (discardScalar t x scale offset)
    | none => v
  | .sliceFloat64 xs =>
    match tgtOfBaseType bt with
    | some t => mkSlice t (discardSlice t xs scale offset)
    | none => v
  | _ => v

/-- some conversion inside `discardValue` is platform-defined -/
def discardValueFlag (v : Value) (bt scale offset : Nat) : Bool :=
  match tgtOfBaseType bt with
  | none => false
  | some t =>
    match v with
    | .float64 x => convFlag t (if t.isInteger then round (discard x scale offset) else discard x scale offset)
    | .sliceFloat64 xs =>
      if isUnit scale offset then xs.any (convFlag t)
      else xs.any fun x => convFlag t (if t.isInteger then round (mul (add x offset) scale) else mul (add x offset) scale)
    | _ => false

/-! ### `any` level -/

def goScalarOf : GoVal → Option (Num × Nat)
  | .int8 v => some (.int .i8, v) | .uint8 v => some (.int .u8, v)
  | .int16 v => some (.int .i16, v) | .uint16 v => some (.int .u16, v)
  | .int32 v => some (.int .i32, v) | .uint32 v => some (.int .u32, v)
  | .int64 v => some (.int .i64, v) | .uint64 v => some (.int .u64, v)
  | .float32 v => some (.f32, v) | .float64 v => some (.f64, v)
  | _ => none

def goSliceOf : GoVal → Option (Num × List Nat)
  | .int8s v => some (.int .i8, v) | .uint8s v => some (.int .u8, v)
  | .int16s v => some (.int .i16, v) | .uint16s v => some (.int .u16, v)
  | .int32s v => some (.int .i32, v) | .uint32s v => some (.int .u32, v)
  | .int64s v => some (.int .i64, v) | .uint64s v => some (.int .u64, v)
  | .float32s v => some (.f32, v) | .float64s v => some (.f64, v)
  | _ => none

def goMkScalar : Num → Nat → GoVal
  | .int .i8, p => .int8 p | .int .u8, p => .uint8 p | .int .i16, p => .int16 p | .int .u16, p => .uint16 p
  | .int .i32, p => .int32 p | .int .u32, p => .uint32 p | .int .i64, p => .int64 p | .int .u64, p => .uint64 p
  | .f32, p => .float32 p | .f64, p => .float64 p

def goMkSlice : Num → List Nat → GoVal
  | .int .i8, p => .int8s p | .int .u8, p => .uint8s p | .int .i16, p => .int16s p
  | .int .u16, p => .uint16s p | .int .i32, p => .int32s p | .int .u32, p => .uint32s p
  | .int .i64, p => .int64s p | .int .u64, p => .uint64s p
  | .f32, p => .float32s p | .f64, p => .float64s p

/-- `ApplyAny` (a named type matches no case of the type switch and is returned as it is) -/
def applyAny (g : GoVal) (scale offset : Nat) : GoVal :=
  if isUnit scale offset then g
  else match g with
    | .value v => toAny (applyValue v scale offset)
    | _ => match goScalarOf g with
      | some (t, p) => .float64 (apply (toF64 t p) scale offset)
      | none => match goSliceOf g with
        | some (t, ps) => .float64s (applySlice t ps scale offset)
        | none => g

/-- `DiscardAny` -/
def discardAny (g : GoVal) (bt scale offset : Nat) : GoVal :=
  match g with
  | .value v => toAny (discardValue v bt scale offset)
  | .float64 x =>
    match tgtOfBaseType bt with
    | some t => goMkScalar t (discardScalar t x scale offset)
    | none => g
  | .float64s xs =>
    match tgtOfBaseType bt with
    | some t => goMkSlice t (discardSlice t xs scale offset)
    | none => g
  | _ => g

/-! ### encoder validator -/

/-- encoder/validator.go:113: `if field.Scale != 1 || field.Offset != 0 { field.Value = DiscardValue(...) }` -/
def validatorRestore (v : Value) (bt scale offset : Nat) : Value :=
  if !(feq scale oneBits) || !(feq offset 0) then discardValue v bt scale offset else v

/-! ### generated typed accessors (profile/mesgdef) -/

/-- `XxxScaled()` of a scalar field: the invalid sentinel maps to the float64 invalid pattern, anything else to
`float64(raw)/scale - offset` (no unit short-cut: the accessor exists only for non-unit pairs) -/
def getScaled (ty : IntTy) (invalid raw scale offset : Nat) : Nat :=
  if raw = invalid then float64Invalid else sub (div (ofInt (ty.toInt raw)) scale) offset

/-- `SetXxxScaled(v)`: `unscaled := (v + offset) * scale`; NaN, ±Inf or `> float64(invalid)` store the invalid
sentinel, everything else is rounded to the nearest integer (`math.Round`) and converted -/
def setScaled (ty : IntTy) (invalid v scale offset : Nat) : Nat :=
  let u := mul (add v offset) scale
  if isNaN u || isInf u || fgt u (ofInt (ty.toInt invalid)) then invalid else cvt ty (round u)

def setScaledFlag (ty : IntTy) (invalid v scale offset : Nat) : Bool :=
  let u := mul (add v offset) scale
  !(isNaN u || isInf u || fgt u (ofInt (ty.toInt invalid))) && cvtFlag ty (round u)

/-! ### CSV reader, scaled path -/

/-- the `switch baseType` of fitcsv `parseValue` (enum and byte are read as uint8; string has no scaled path) -/
def csvTgt (bt : Nat) : Option Num :=
  if bt = btEnum ∨ bt = btByte ∨ bt = btUint8 ∨ bt = btUint8z then some (.int .u8)
  else if bt = btSint8 then some (.int .i8)
  else if bt = btSint16 then some (.int .i16)
  else if bt = btUint16 ∨ bt = btUint16z then some (.int .u16)
  else if bt = btSint32 then some (.int .i32)
  else if bt = btUint32 ∨ bt = btUint32z then some (.int .u32)
  else if bt = btFloat32 then some .f32
  else if bt = btFloat64 then some .f64
  else if bt = btSint64 then some (.int .i64)
  else if bt = btUint64 ∨ bt = btUint64z then some (.int .u64)
  else none

/-- `parseValue` for a cell that contains a '.', after `strconv.ParseFloat` returned `x`:
`Discard(x, scale, offset)`, `math.Round` unless the base type is float32/float64, then the conversion of the
base type; `none` = the zero `proto.Value` -/
def csvParseScaled (x bt scale offset : Nat) : Option Value :=
  (csvTgt bt).map fun t =>
    let dv := discard x scale offset
    mkScalar t (conv t (if t.isInteger then round dv else dv))

/-! ### generated accessors of slice and fixed-array fields -/

/-- Go kind code of the regenerated accessor table (`Generated/ProfileArith.lean`, `Typed.ty`): 0..7 =
int8, uint8, int16, uint16, int32, uint32, int64, uint64 -/
def intTyOfCode : Nat → IntTy
  | 0 => .i8 | 1 => .u8 | 2 => .i16 | 3 => .u16 | 4 => .i32 | 5 => .u32 | 6 => .i64 | _ => .u64

/-- `XxxScaled()` of a slice field `[]T` (`none` = Go's nil slice): `if m.X == nil { return nil }`, else
`make([]float64, len)` and per element the scalar rule (the element's own sentinel test included) -/
def getScaledSlice (ty : IntTy) (invalid : Nat) (xs : Option (List Nat)) (scale offset : Nat) : Option (List Nat) :=
  match xs with
  | none => none
  | some xs => some (xs.map fun x => getScaled ty invalid x scale offset)

/-- `SetXxxScaled(vs []float64)`: `if vs == nil { m.X = nil }`, else `make([]T, len(vs))` and per element:
NaN, ±Inf or `> float64(invalid)` store the sentinel, everything else is rounded and converted -/
def setScaledSlice (ty : IntTy) (invalid : Nat) (vs : Option (List Nat)) (scale offset : Nat) : Option (List Nat) :=
  match vs with
  | none => none
  | some vs => some (vs.map fun v => setScaled ty invalid v scale offset)

/-- `XxxScaled()` of a fixed-array field `[N]T` (`xs.length = N`): the whole array equal to `[N]T{invalid, …}` returns
`[N]float64{float64 invalid, …}`; otherwise per element the scalar rule -/
def getScaledArray (ty : IntTy) (invalid : Nat) (xs : List Nat) (scale offset : Nat) : List Nat :=
  if xs = List.replicate xs.length invalid then List.replicate xs.length float64Invalid
  else xs.map fun x => getScaled ty invalid x scale offset

/-- `SetXxxScaled(vs [N]float64)`: the field is first filled with the sentinel; an element whose product is NaN,
±Inf or `> float64(invalid)` is skipped (keeps the sentinel), every other one is rounded and converted -/
def setScaledArray (ty : IntTy) (invalid : Nat) (vs : List Nat) (scale offset : Nat) : List Nat :=
  (List.replicate vs.length invalid).zipWith (fun keep v =>
    let u := mul (add v offset) scale
    if isNaN u || isInf u || fgt u (ofInt (ty.toInt invalid)) then keep else cvt ty (round u)) vs

/-! ### encoder validator: developer fields -/

/-- what `Validate` reads of a field description (`mesgdef.FieldDescription`): developer data index, field
definition number, fit base type id, scale (uint8), offset (int8 bit pattern), native message / field number -/
structure DevDesc where
  devIdx : Nat
  num : Nat
  btId : Nat
  scale : Nat
  offset : Nat
  nativeMesg : Nat
  nativeField : Nat
  deriving DecidableEq, Repr, Inhabited

/-- `Factory.CreateField(mesgNum, fieldNum)` as far as the restoration reads it: `some (baseType, scale, offset)` for a
field the factory knows (`Name != factory.NameUnknown`), `none` for an unknown one -/
abbrev Factory := Nat → Nat → Option (Nat × Nat × Nat)

/-- encoder/validator.go:187-207. A field description with a valid native message AND field number: the value is
restored with the base type, scale and offset of `factory.CreateField(NativeMesgNum, NativeFieldNum)` — looked up
for THIS description — if that field is known and its pair is not the unit pair; otherwise, if the description
carries a scale and an offset of its own, with `float64(Scale)`, `float64(Offset)` and its fit base type id. -/
def validatorRestoreDev (fac : Factory) (d : DevDesc) (v : Value) : Value :=
  if d.nativeMesg ≠ mesgNumInvalid ∧ d.nativeField ≠ uint8Invalid then
    match fac d.nativeMesg d.nativeField with
    | some (bt, s, o) => if !(feq s oneBits) || !(feq o 0) then discardValue v bt s o else v
    | none => v
  else if d.scale ≠ uint8Invalid ∧ d.offset ≠ sint8Invalid then
    discardValue v d.btId (ofInt d.scale) (ofInt (IntTy.i8.toInt d.offset))
  else v

/-- what the validator remembers between messages: the developer data indexes and the field descriptions seen, in order -/
structure VState where
  ddis : List Nat := []
  descs : List DevDesc := []
  deriving Repr, Inhabited

inductive DevErr where
  | missingDdi      -- errMissingDeveloperDataId
  | missingDesc     -- errMissingFieldDescription
  | typeMismatch    -- errValueTypeMismatch (valueIntegrity against the description's fit base type id)
  deriving DecidableEq, Repr, Inhabited

/-- lines 160-215 for one developer field `(developer data index, number, value)` under the state `st`, validator made
with `ValidatorWithPreserveInvalidValues` (nothing is omitted): the index must have been announced, the FIRST matching
description is taken, the value is restored and must align with the description's base type.
(Numeric scalar values: the UTF-8 and the 255-byte size tests of `valueIntegrity` cannot fail.) -/
def validatorDevField (fac : Factory) (st : VState) (devIdx num : Nat) (v : Value) : Except DevErr Value :=
  if !(st.ddis.contains devIdx) then .error .missingDdi
  else
    match st.descs.find? fun d => d.devIdx == devIdx && d.num == num with
    | none => .error .missingDesc
    | some d =>
      let v' := validatorRestoreDev fac d v
      if !(align v' d.btId) then .error .typeMismatch else .ok v'

/-- one message handed to the validator: a developer_data_id message (its developer data index), a field_description
message, or any other message carrying developer fields `(developer data index, number, value)` and no native field -/
inductive VItem where
  | ddi (idx : Nat)
  | desc (d : DevDesc)
  | mesg (devs : List (Nat × Nat × Value))
  deriving Repr, Inhabited

/-- `Validate` on one such message: new state, and the developer field values left in the message (or the error) -/
def validatorStep (fac : Factory) (st : VState) : VItem → VState × Except DevErr (List Value)
  | .ddi i => ({ st with ddis := st.ddis ++ [i] }, .ok [])
  | .desc d => ({ st with descs := st.descs ++ [d] }, .ok [])
  | .mesg devs => (st, devs.mapM fun d => validatorDevField fac st d.1 d.2.1 d.2.2)

/-- ONE validator over a sequence of messages -/
def validatorSeq (fac : Factory) : VState → List VItem → List (Except DevErr (List Value))
  | _, [] => []
  | st, it :: rest => let r := validatorStep fac st it; r.2 :: validatorSeq fac r.1 rest

/-! ### CSV: which cells are read through the scaled path -/

/-- `|x|` on bit patterns -/
def fabs (x : Nat) : Nat := x % 2 ^ 63

/-- fitcsv `format` on a float64: `value == float64(int64(value))` (then the text is `FormatFloat(value, 'f', 1, 64)`: "x.0") -/
def csvIsWhole (x : Nat) : Bool := feq x (ofInt (IntTy.i64.toInt (cvt .i64 x)))

/-- the float64 nearest to `d · 10^k` -/
def decBits (d : Nat) (k : Int) : Nat :=
  if k ≥ 0 then roundPos b64 (d * 10 ^ k.toNat) 1 0 else roundPos b64 d (10 ^ (-k).toNat) 0

/-- the shortest decimal that reads back as `|x|` has ONE significant digit, `d·10^k` with `lo ≤ k ≤ hi`
(candidates: the decimal exponents within 2 of the estimate of `log10 |x|` obtained from the binary exponent) -/
def oneDigit (x : Nat) (lo hi : Int) : Bool :=
  match decode x with
  | .fin _ m e =>
    if m = 0 then false else
    let l2 : Int := (m.log2 : Int) + e
    let k0 : Int := l2 * 30103 / 100000
    [k0 - 2, k0 - 1, k0, k0 + 1, k0 + 2].any fun k =>
      decide (lo ≤ k) && decide (k ≤ hi) && (List.range 9).any fun j => decBits (j + 1) k == fabs x
  | _ => false

/-- the float64 nearest to 10^-4 -/
def tenM4Bits : Nat := 0x3f1a36e2eb1c432d

/-- **the text `format` writes for the float64 `x` contains a '.'** (formatter.go:50-55 + strconv): a whole value is
written with `'f', 1` ("x.0"); any other finite value with `'g', -1` (shortest digits `d₁d₂…dₙ`, decimal exponent `exp`):
`%e` form iff `exp < -4 || exp >= eprec`, where strconv takes `eprec = 6` for the shortest precision (`exp >= 6` can
only happen to a value the first test did not find whole when `|x| > 2^63`: the int64 conversion is out of range);
the `%e` form has a '.' iff `n > 1`; the `%f` form of a value that is not whole always has one.
NaN and ±Inf are written "NaN", "+Inf", "-Inf" (no '.'). -/
def csvHasDot (x : Nat) : Bool :=
  match decode x with
  | .fin _ _ _ =>
    csvIsWhole x ||
      !((flt (fabs x) tenM4Bits && oneDigit x (-400) (-5)) || (fgt (fabs x) two63Bits && oneDigit x 6 400))
  | _ => false

/-- `parseValue` on the cell `format` wrote for the float64 `x` (a scaled column), integer / float base type:
with a '.' the scaled path; without one `strconv.ParseUint` / `ParseInt` of a text that is not an integer
numeral fails (`none`; the cell's field is dropped by the reader) -/
def csvCell (x bt scale offset : Nat) : Option (Option Value) :=
  if csvHasDot x then some (csvParseScaled x bt scale offset) else none

end Fit.ScaleOffset
