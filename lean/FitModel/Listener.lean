import FitModel.FileDef
/-! Model of `filedef.Listener` (/repo/profile/filedef/listener.go) as a transition system (C14, second half).

Two threads: the **producer** (the goroutine that calls `OnMesg` / `File` / `Close` / `Reset`: the decoder) and the
**worker** (`loop`, started by `reset()`). Shared state: `poolc` (buffered channel of field slices, capacity
P = `cap(l.poolc)` = max(N, 1) where N = `options.channelBuffer`), `mesgc` (channel of messages, capacity N: buffered for
N ≥ 1, **unbuffered for N = 0**), `done` (closed by the worker when it leaves `loop`), the cell `l.file`, the flag
`l.active`, and the memory of the pooled slices.

Every pooled slice has an identity (`Nat` token); `mem t` is what the slice currently holds. A message travels through
`mesgc` as its token: the worker reads the message *through the slice* (`mem`), so a slice that is handed back or
overwritten too early shows up as a wrong file. (Reallocation by `append` when a pooled slice is too short gives the
token a new backing array; ownership of the token is what matters.)

Channel semantics (Go spec): a send on a buffered channel proceeds iff the buffer is not full, a receive proceeds iff
the buffer is not empty; a receive on a closed empty channel proceeds (the worker's `range` ends); a send on an
**unbuffered** channel proceeds iff a receiver is waiting, and then both move at once (rendezvous: the `onSend` step
with N = 0 requires the worker at `recv` and hands the slice straight into the worker's hands, `c := proc t`; nothing is
ever queued); a receive from an empty channel nobody sends on blocks forever.

Buffer size 0 (`WithChannelBuffer(0)`), after the repair of known finding KF-C14-1 (F15): `Reset` sizes the pool as
`max(channelBuffer, 1)` and re-makes it whenever `cap(l.poolc)` differs from that (a nil channel has capacity 0, so the
first `Reset`, made by `NewListener`, always allocates); `Close` cycles `cap(l.poolc)` slices. So with N = 0 exactly one
slice circulates: `OnMesg` takes it (waiting until the worker has returned it), hands the message over synchronously,
and the worker's `l.poolc <- mesg.Fields` finds the one-slot pool empty. (Before the repair the pool had capacity N = 0
/ was nil and the first `OnMesg` blocked forever.)

Code ↔ steps
* `OnMesg`:  `if !l.active { l.reset() }` (in the `idle` fetch step) · `<-l.poolc` + copy (`onTake`) · `l.mesgc <- mesg` (`onSend`)
* `Close`:   `if !l.active return` · `close(l.mesgc)` (fetch step) · P × [`<-l.poolc`, clear (`closing`) · `l.poolc <-` (`closingPut`)] ·
             `<-l.done`; `l.active = false` (`closeWait`)
* `File` = Close, then read `l.file`;  `Reset(WithChannelBuffer n)` = Close, re-make `poolc` if `cap(l.poolc) ≠ max(n, 1)`, `reset()`
* `loop`:    `range l.mesgc` (`recv`, or exit + `close(l.done)`) · `processMesg` (`proc`) · `l.poolc <- mesg.Fields` (`ret`) -/
namespace Fit.Listener

/-- calls made by the producer thread -/
inductive Cmd (M : Type) where
  | onMesg (m : M)
  | file
  | close
  | reset (n : Nat)
  deriving Repr

/-- what follows the `Close()` that `File`, `Close` and `Reset` begin with -/
inductive After where
  | file
  | close
  | reset (n : Nat)
  deriving Repr, DecidableEq

/-- program counter of the producer -/
inductive PC (M : Type) where
  | idle
  | onTake (m : M)
  | onSend (m : M) (t : Nat)
  | closing (k : Nat) (a : After)
  | closingPut (k : Nat) (t : Nat) (a : After)
  | closeWait (a : After)
  | fin
  deriving Repr

/-- program counter of the worker -/
inductive WC where
  | recv
  | proc (t : Nat)
  | ret (t : Nat)
  | exited
  deriving Repr, DecidableEq

structure St (M σ : Type) where
  script : List (Cmd M)
  p : PC M
  c : WC
  /-- `l.options.channelBuffer` = capacity of `mesgc` (0 = unbuffered) -/
  N : Nat
  /-- `cap(l.poolc)` -/
  P : Nat
  pool : List Nat
  queue : List Nat
  mem : Nat → Option M
  closed : Bool
  done : Bool
  active : Bool
  file : σ
  results : List σ
  nextId : Nat

section
variable {M σ : Type} (proc : σ → M → σ) (init : σ)

def update (mem : Nat → Option M) (t : Nat) (v : Option M) : Nat → Option M :=
  fun x => if x = t then v else mem x

/-- `processMesg` applied to what the slice holds -/
def procO (f : σ) : Option M → σ
  | some m => proc f m
  | none => f

/-- `reset()`: new file cell, new `mesgc` and `done`, a new worker -/
def respawn (s : St M σ) : St M σ :=
  { s with file := init, queue := [], closed := false, done := false, active := true, c := .recv }

/-- `poolSize := max(l.options.channelBuffer, 1)` -/
def poolSize (n : Nat) : Nat := max n 1

/-- the part of `Reset` that takes the new options (`channelBuffer := n`) and re-makes `poolc` when its capacity is not
the pool size wanted: as many of the old slices as fit, then nil slices -/
def resize (s : St M σ) (n : Nat) : St M σ :=
  if poolSize n = s.P then { s with N := n } else
    { s with pool := s.pool.take (poolSize n) ++ List.range' s.nextId (poolSize n - s.pool.length),
             nextId := s.nextId + (poolSize n - s.pool.length), N := n, P := poolSize n }

/-- end of `Close()` (`l.active = false`) and the rest of the call that began with it -/
def finishClose (a : After) (s : St M σ) : St M σ :=
  let s := { s with active := false }
  match a with
  | .file => { s with results := s.results ++ [s.file], p := .idle }
  | .close => { s with p := .idle }
  | .reset n => { respawn init (resize s n) with p := .idle }

/-- beginning of `Close()` -/
def startClose (a : After) (s : St M σ) : St M σ :=
  if s.active then { s with closed := true, p := if s.P = 0 then .closeWait a else .closing 0 a }
  else finishClose init a s

/-- one step of the producer, if it is not blocked -/
def stepP (s : St M σ) : Option (St M σ) :=
  match s.p with
  | .idle =>
    match s.script with
    | [] => some { s with p := .fin }
    | .onMesg m :: cs =>
      let s' := if s.active then s else respawn init s
      some { s' with script := cs, p := .onTake m }
    | .file :: cs => some (startClose init .file { s with script := cs })
    | .close :: cs => some (startClose init .close { s with script := cs })
    | .reset n :: cs => some (startClose init (.reset n) { s with script := cs })
  | .onTake m =>
    match s.pool with
    | [] => none
    | t :: pool' => some { s with pool := pool', mem := update s.mem t (some m), p := .onSend m t }
  | .onSend _ t =>
    if s.queue.length < s.N then some { s with queue := s.queue ++ [t], p := .idle }
    else if s.N = 0 ∧ s.c = .recv then
      -- unbuffered `mesgc`: the send proceeds only together with the worker's receive (rendezvous)
      some { s with p := .idle, c := .proc t }
    else none
  | .closing k a =>
    match s.pool with
    | [] => none
    | t :: pool' => some { s with pool := pool', mem := update s.mem t none, p := .closingPut k t a }
  | .closingPut k t a =>
    if s.pool.length < s.P then
      some { s with pool := s.pool ++ [t], p := if k + 1 < s.P then .closing (k + 1) a else .closeWait a }
    else none
  | .closeWait a => if s.done then some (finishClose init a s) else none
  | .fin => none

/-- one step of the worker on its own, if it is not blocked (its receive from an unbuffered `mesgc` happens inside the
producer's `onSend` step) -/
def stepC (s : St M σ) : Option (St M σ) :=
  match s.c with
  | .recv =>
    match s.queue with
    | t :: q => some { s with queue := q, c := .proc t }
    | [] => if s.closed then some { s with done := true, c := .exited } else none
  | .proc t => some { s with file := procO proc s.file (s.mem t), c := .ret t }
  | .ret t => if s.pool.length < s.P then some { s with pool := s.pool ++ [t], c := .recv } else none
  | .exited => none

/-- the transition relation: any enabled thread may move (every interleaving) -/
def Step (s s' : St M σ) : Prop := stepP init s = some s' ∨ stepC proc s = some s'

/-- state right after `NewListener(WithChannelBuffer(N))` (= `Reset` of the zero Listener: `poolc` is nil, capacity 0 ≠
`poolSize N`, so the pool is made with `poolSize N` nil slices; `reset()` starts the worker) -/
def initSt (N : Nat) (script : List (Cmd M)) : St M σ :=
  { script, p := .idle, c := .recv, N, P := poolSize N, pool := List.range (poolSize N), queue := [], mem := fun _ => none,
    closed := false, done := false, active := true, file := init, results := [], nextId := poolSize N }

inductive Reachable (N : Nat) (script : List (Cmd M)) : St M σ → Prop where
  | init : Reachable N script (initSt init N script)
  | step {s s'} : Reachable N script s → Step proc init s s' → Reachable N script s'

/-- the same calls executed by one thread, without pool, queue or worker: the specification -/
def seqRun : Bool → σ → List (Cmd M) → List σ
  | _, _, [] => []
  | a, f, .onMesg m :: cs => seqRun true (proc (if a then f else init) m) cs
  | _, f, .file :: cs => f :: seqRun false f cs
  | _, f, .close :: cs => seqRun false f cs
  | _, _, .reset _ :: cs => seqRun true init cs

/-- run under a given scheduler (`pick i` = prefer the producer at step i); stops when nobody can move or fuel ends.
Used by the driver; every run is a path of `Step` (`run_reachable`). -/
def run (pick : Nat → Bool) : Nat → Nat → St M σ → St M σ
  | 0, _, s => s
  | fuel + 1, i, s =>
    let first := if pick i then stepP init s else stepC proc s
    match first with
    | some s' => run pick fuel (i + 1) s'
    | none =>
      match (if pick i then stepC proc s else stepP init s) with
      | some s' => run pick fuel (i + 1) s'
      | none => s

def isFin : PC M → Bool
  | .fin => true
  | _ => false

/-- nobody can move although the producer has not finished its calls -/
def Deadlocked (s : St M σ) : Prop := isFin s.p = false ∧ stepP init s = none ∧ stepC proc s = none

end

/-! ### the listener on top of the file types: `processMesg` -/

open Fit.FileDef in
/-- `l.file` : nil, or a file of some type -/
abbrev FileCell := Option (FileDef.FileType × FileDef.File)

open Fit.FileDef in
/-- `processMesg` (listener.go:139-152): a file_id message whose type is in the file sets starts a new file (an unknown
type leaves `l.file` as it is and skips the message); without a file the message is skipped; otherwise `Add`. -/
def processMesg (cur : FileCell) (m : Msg) : FileCell :=
  if m.num = Generated.mesgNumFileId then
    match fileTypeOf m.ft with
    | none => cur
    | some T => some (T, add T [] m)
  else
    match cur with
    | none => none
    | some (T, f) => some (T, add T f m)

end Fit.Listener
