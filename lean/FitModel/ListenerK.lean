import FitModel.FileDef
/-! Model of `filedef.Listener` (/repo/profile/filedef/listener.go) as a transition system, **with the listener's options**
(`WithChannelBuffer`, `WithFileSets`, `WithFileFunc`) — C14, second half. It is `FitModel/Listener.lean` (kept as it is for the
theorems of C03 that are stated on it; `FitProps/ListenerKLegacyLemmas.lean` proves that it is this model with the trivial
configuration type) plus one more shared cell:

`cfg : κ` = `l.options.fileSets`, the table from the `type` field of a file_id message to the constructor of the file —
`defaultFileSets()` unless `WithFileSets(map)` (replaces the table) or `WithFileFunc(t, fn)` (overrides one entry) were given
to `NewListener` / `Reset`. **`Reset` writes it** (`l.options = defaultOptions(); opts[i](&l.options)`, after its `Close()`),
**the worker reads it** (`processMesg`: `l.options.fileSets[fileType]`) every time it processes a file_id message. The model
is generic in `κ` and in `proc : κ → σ → M → σ` (= `processMesg` under the file sets `k`), so a user-defined `File`
implementation returned by a custom constructor is covered as well; `processMesg` below instantiates it for file sets whose
constructors build file types of the regenerated table (or any other table).

Everything else is as in `FitModel/Listener.lean`:

Two threads: the **producer** (the goroutine that calls `OnMesg` / `File` / `Close` / `Reset`: the decoder) and the
**worker** (`loop`, started by `reset()`). Shared state: `poolc` (buffered channel of field slices, capacity
P = `cap(l.poolc)` = max(N, 1) where N = `options.channelBuffer`), `mesgc` (channel of messages, capacity N: buffered for
N ≥ 1, **unbuffered for N = 0**), `done` (closed by the worker when it leaves `loop`), the cells `l.file` and
`l.options.fileSets`, the flag `l.active` (producer only), and the memory of the pooled slices.

Every pooled slice has an identity (`Nat` token); `mem t` is what the slice currently holds. A message travels through
`mesgc` as its token: the worker reads the message *through the slice* (`mem`), so a slice that is handed back or
overwritten too early shows up as a wrong file.

Channel semantics (Go spec): a send on a buffered channel proceeds iff the buffer is not full, a receive proceeds iff
the buffer is not empty; a receive on a closed empty channel proceeds (the worker's `range` ends); a send on an
**unbuffered** channel proceeds iff a receiver is waiting, and then both move at once (rendezvous); a receive from an empty
channel nobody sends on blocks forever.

Code ↔ steps
* `OnMesg`:  `if !l.active { l.reset() }` (in the `idle` fetch step) · `<-l.poolc` + copy (`onTake`) · `l.mesgc <- mesg` (`onSend`)
* `Close`:   `if !l.active return` · `close(l.mesgc)` (fetch step) · P × [`<-l.poolc`, clear (`closing`) · `l.poolc <-` (`closingPut`)] ·
             `<-l.done`; `l.active = false` (`closeWait`)
* `File` = Close, then read `l.file`;  `Reset(opts)` = Close, `l.options = defaults + opts`, re-make `poolc` if
  `cap(l.poolc) ≠ max(n, 1)`, `reset()`
* `loop`:    `range l.mesgc` (`recv`, or exit + `close(l.done)`) · `processMesg` (`proc`: reads `fileSets`, reads and writes
  `l.file`, reads the slice) · `l.poolc <- mesg.Fields` (`ret`) -/
namespace Fit.ListenerK

/-- calls made by the producer thread -/
inductive Cmd (M κ : Type) where
  | onMesg (m : M)
  | file
  | close
  /-- `Reset(opts...)`: the options are reset to the defaults and the given ones applied — what matters of the result is the
  channel buffer size `n` and the file sets `k` -/
  | reset (n : Nat) (k : κ)

/-- what follows the `Close()` that `File`, `Close` and `Reset` begin with -/
inductive After (κ : Type) where
  | file
  | close
  | reset (n : Nat) (k : κ)

/-- program counter of the producer -/
inductive PC (M κ : Type) where
  | idle
  | onTake (m : M)
  | onSend (m : M) (t : Nat)
  | closing (k : Nat) (a : After κ)
  | closingPut (k : Nat) (t : Nat) (a : After κ)
  | closeWait (a : After κ)
  | fin

/-- program counter of the worker -/
inductive WC where
  | recv
  | proc (t : Nat)
  | ret (t : Nat)
  | exited
  deriving Repr, DecidableEq

structure St (M σ κ : Type) where
  script : List (Cmd M κ)
  p : PC M κ
  c : WC
  /-- `l.options.fileSets`: written by `Reset` (producer), read by `processMesg` (worker) -/
  cfg : κ
  /-- `l.options.channelBuffer` = capacity of `mesgc` (0 = unbuffered) -/
  N : Nat
  /-- `cap(l.poolc)` -/
  P : Nat
  pool : List Nat
  queue : List Nat
  mem : Nat → Option M
  closed : Bool
  done : Bool
  active : Bool
  file : σ
  results : List σ
  nextId : Nat

section
variable {M σ κ : Type} (proc : κ → σ → M → σ) (init : σ)

def update (mem : Nat → Option M) (t : Nat) (v : Option M) : Nat → Option M :=
  fun x => if x = t then v else mem x

/-- `processMesg` applied to what the slice holds -/
def procO (k : κ) (f : σ) : Option M → σ
  | some m => proc k f m
  | none => f

/-- `reset()`: new file cell, new `mesgc` and `done`, a new worker -/
def respawn (s : St M σ κ) : St M σ κ :=
  { s with file := init, queue := [], closed := false, done := false, active := true, c := .recv }

/-- `poolSize := max(l.options.channelBuffer, 1)` -/
def poolSize (n : Nat) : Nat := max n 1

/-- the part of `Reset` that takes the new options (`channelBuffer := n`, `fileSets := k`) and re-makes `poolc` when its capacity is not
the pool size wanted: as many of the old slices as fit, then nil slices -/
def resize (s : St M σ κ) (n : Nat) (k : κ) : St M σ κ :=
  if poolSize n = s.P then { s with N := n, cfg := k } else
    { s with pool := s.pool.take (poolSize n) ++ List.range' s.nextId (poolSize n - s.pool.length),
             nextId := s.nextId + (poolSize n - s.pool.length), N := n, P := poolSize n, cfg := k }

/-- end of `Close()` (`l.active = false`) and the rest of the call that began with it -/
def finishClose (a : After κ) (s : St M σ κ) : St M σ κ :=
  let s := { s with active := false }
  match a with
  | .file => { s with results := s.results ++ [s.file], p := .idle }
  | .close => { s with p := .idle }
  | .reset n k => { respawn init (resize s n k) with p := .idle }

/-- beginning of `Close()` -/
def startClose (a : After κ) (s : St M σ κ) : St M σ κ :=
  if s.active then { s with closed := true, p := if s.P = 0 then .closeWait a else .closing 0 a }
  else finishClose init a s

/-- one step of the producer, if it is not blocked -/
def stepP (s : St M σ κ) : Option (St M σ κ) :=
  match s.p with
  | .idle =>
    match s.script with
    | [] => some { s with p := .fin }
    | .onMesg m :: cs =>
      let s' := if s.active then s else respawn init s
      some { s' with script := cs, p := .onTake m }
    | .file :: cs => some (startClose init .file { s with script := cs })
    | .close :: cs => some (startClose init .close { s with script := cs })
    | .reset n k :: cs => some (startClose init (.reset n k) { s with script := cs })
  | .onTake m =>
    match s.pool with
    | [] => none
    | t :: pool' => some { s with pool := pool', mem := update s.mem t (some m), p := .onSend m t }
  | .onSend _ t =>
    if s.queue.length < s.N then some { s with queue := s.queue ++ [t], p := .idle }
    else if s.N = 0 ∧ s.c = .recv then
      -- unbuffered `mesgc`: the send proceeds only together with the worker's receive (rendezvous)
      some { s with p := .idle, c := .proc t }
    else none
  | .closing k a =>
    match s.pool with
    | [] => none
    | t :: pool' => some { s with pool := pool', mem := update s.mem t none, p := .closingPut k t a }
  | .closingPut k t a =>
    if s.pool.length < s.P then
      some { s with pool := s.pool ++ [t], p := if k + 1 < s.P then .closing (k + 1) a else .closeWait a }
    else none
  | .closeWait a => if s.done then some (finishClose init a s) else none
  | .fin => none

/-- one step of the worker on its own, if it is not blocked (its receive from an unbuffered `mesgc` happens inside the
producer's `onSend` step) -/
def stepC (s : St M σ κ) : Option (St M σ κ) :=
  match s.c with
  | .recv =>
    match s.queue with
    | t :: q => some { s with queue := q, c := .proc t }
    | [] => if s.closed then some { s with done := true, c := .exited } else none
  | .proc t => some { s with file := procO proc s.cfg s.file (s.mem t), c := .ret t }
  | .ret t => if s.pool.length < s.P then some { s with pool := s.pool ++ [t], c := .recv } else none
  | .exited => none

/-- the transition relation: any enabled thread may move (every interleaving) -/
def Step (s s' : St M σ κ) : Prop := stepP init s = some s' ∨ stepC proc s = some s'

/-- state right after `NewListener(WithChannelBuffer(N))` (= `Reset` of the zero Listener: `poolc` is nil, capacity 0 ≠
`poolSize N`, so the pool is made with `poolSize N` nil slices; `reset()` starts the worker) -/
def initSt (N : Nat) (k0 : κ) (script : List (Cmd M κ)) : St M σ κ :=
  { script, p := .idle, c := .recv, cfg := k0, N, P := poolSize N, pool := List.range (poolSize N), queue := [], mem := fun _ => none,
    closed := false, done := false, active := true, file := init, results := [], nextId := poolSize N }

inductive Reachable (N : Nat) (k0 : κ) (script : List (Cmd M κ)) : St M σ κ → Prop where
  | init : Reachable N k0 script (initSt init N k0 script)
  | step {s s'} : Reachable N k0 script s → Step proc init s s' → Reachable N k0 script s'

/-- the same calls executed by one thread, without pool, queue or worker: the specification -/
def seqRun : κ → Bool → σ → List (Cmd M κ) → List σ
  | _, _, _, [] => []
  | k, a, f, .onMesg m :: cs => seqRun k true (proc k (if a then f else init) m) cs
  | k, _, f, .file :: cs => f :: seqRun k false f cs
  | k, _, f, .close :: cs => seqRun k false f cs
  | _, _, _, .reset _ k :: cs => seqRun k true init cs

/-- run under a given scheduler (`pick i` = prefer the producer at step i); stops when nobody can move or fuel ends.
Used by the driver; every run is a path of `Step` (`run_reachable`). -/
def run (pick : Nat → Bool) : Nat → Nat → St M σ κ → St M σ κ
  | 0, _, s => s
  | fuel + 1, i, s =>
    let first := if pick i then stepP init s else stepC proc s
    match first with
    | some s' => run pick fuel (i + 1) s'
    | none =>
      match (if pick i then stepC proc s else stepP init s) with
      | some s' => run pick fuel (i + 1) s'
      | none => s

def isFin : PC M κ → Bool
  | .fin => true
  | _ => false

/-- nobody can move although the producer has not finished its calls -/
def Deadlocked (s : St M σ κ) : Prop := isFin s.p = false ∧ stepP init s = none ∧ stepC proc s = none

end

/-! ### the listener on top of the file types: `processMesg` under given file sets -/

open Fit.FileDef in
/-- `l.options.fileSets`: from the `type` byte of a file_id message to the file type its constructor builds (`none` = no
constructor: the file is skipped) -/
abbrev FileSets := Nat → Option FileDef.FileType

open Fit.FileDef in
/-- `l.file` : nil, or a file of some type -/
abbrev FileCell := Option (FileDef.FileType × FileDef.File)

open Fit.FileDef in
/-- `defaultFileSets()`: the 17 predefined file types -/
def defaultSets : FileSets := fileTypeOf

/-- `WithFileFunc(t, fn)` on top of file sets: overrides the entry of `t` -/
def withFileFunc (fs : FileSets) (t : Nat) (T : Option FileDef.FileType) : FileSets := fun b => if b = t then T else fs b

/-- `WithFileSets(map)`: clears the table and enters the map (`map` as an association list; a later entry of the same key
wins, as when a Go map is built by successive assignments) -/
def withFileSets (entries : List (Nat × Option FileDef.FileType)) : FileSets :=
  entries.foldl (fun fs e => withFileFunc fs e.1 e.2) (fun _ => none)

open Fit.FileDef in
/-- `processMesg` (listener.go): a file_id message whose type has a constructor in the file sets starts a new file (no
constructor: `l.file` stays as it is and the message is skipped); without a file the message is skipped; otherwise `Add`. -/
def processMesg (fs : FileSets) (cur : FileCell) (m : Msg) : FileCell :=
  if m.num = Generated.mesgNumFileId then
    match fs m.ft with
    | none => cur
    | some T => some (T, add T [] m)
  else
    match cur with
    | none => none
    | some (T, f) => some (T, add T f m)

end Fit.ListenerK
