import FitModel.Bits
import FitModel.Accum
import FitModel.ScaleOffset
import FitModel.Message
import FitModel.ProfileArithTypes
/-!
Model of component expansion in /repo/decoder/decoder.go: the tail of `decodeFields` (collection of
accumulable values, the loop over the decoded fields with sub-field substitution), `expandComponents`
(recursive), `collectAccumulableValues`, `convertUint32ToValue`, `valueAppend`; and
`proto.Field.SubFieldSubtitution` / `isValueEqualTo` (/repo/proto/proto.go).

The factory is a parameter (`Profile`: the regenerated `Generated/ProfileArith.lean` in the driver and in the
side conditions of the theorems). A message is `Fit.Msg.Message`: the wire fields carry the `FieldBase`
attributes the decoder attached to them. Recursion into destination components is bounded by `fuel`
(`expandFuel` = 8 at the top; the regenerated profile nests to depth ≤ 3 — a `decide`d side condition).
-/
namespace Fit.Expand
open Fit.Value Fit.Msg Fit.F64 Fit.PA Fit.Gen

abbrev Profile := List (Nat × List Fld)

/-- the factory's entry for (message, field), `none` = unknown field -/
def lookup (p : Profile) (mesgNum num : Nat) : Option Fld :=
  match p.find? (·.1 == mesgNum) with
  | some (_, fs) => fs.find? (·.num == num)
  | none => none

def baseOf (f : Fld) : FieldBase :=
  { num := f.num, baseType := f.baseType, array := f.array, accumulate := f.accumulate, scale := f.scale,
    offset := f.offset, nameKnown := true, profileBool := f.profileBool }

/-- `createUnknownField(num)`: name unknown, base type 0 (enum), scale 1, offset 0 -/
def unknownBase (num : Nat) : FieldBase :=
  { num := num, baseType := 0, scale := f64One, offset := 0 }

/-- `factory.CreateField(mesgNum, num)`: the base plus components and sub-fields -/
def createField (p : Profile) (mesgNum num : Nat) : FieldBase × List Comp × List SubF :=
  match lookup p mesgNum num with
  | some f => (baseOf f, f.comps, f.subs)
  | none => (unknownBase num, [], [])

/-- `convertUint32ToValue(val, baseType)` -/
def convertU32 (val bt : Nat) : Value :=
  if bt = btSint8 then .int8 (val % 2 ^ 8)
  else if bt = btEnum ∨ bt = btByte ∨ bt = btUint8 ∨ bt = btUint8z then .uint8 (val % 2 ^ 8)
  else if bt = btSint16 then .int16 (val % 2 ^ 16)
  else if bt = btUint16 ∨ bt = btUint16z then .uint16 (val % 2 ^ 16)
  else if bt = btSint32 then .int32 (val % 2 ^ 32)
  else if bt = btUint32 ∨ bt = btUint32z then .uint32 (val % 2 ^ 32)
  else if bt = btSint64 then .int64 (val % 2 ^ 32)
  else if bt = btUint64 ∨ bt = btUint64z then .uint64 (val % 2 ^ 32)
  else if bt = btFloat32 then .float32 (toF32 (ofInt (val % 2 ^ 32 : Nat)))
  else if bt = btFloat64 then .float64 (ofInt (val % 2 ^ 32 : Nat))
  else .invalid

/-- `valueAppend(slice, elem)`: the accessor of the element's slice type returns nil for a value of another type -/
def valueAppend (slice elem : Value) : Value :=
  match elem with
  | .int8 x => .sliceInt8 ((match slice with | .sliceInt8 xs => xs | _ => []) ++ [x])
  | .uint8 x => .sliceUint8 ((match slice with | .sliceUint8 xs => xs | _ => []) ++ [x])
  | .int16 x => .sliceInt16 ((match slice with | .sliceInt16 xs => xs | _ => []) ++ [x])
  | .uint16 x => .sliceUint16 ((match slice with | .sliceUint16 xs => xs | _ => []) ++ [x])
  | .int32 x => .sliceInt32 ((match slice with | .sliceInt32 xs => xs | _ => []) ++ [x])
  | .uint32 x => .sliceUint32 ((match slice with | .sliceUint32 xs => xs | _ => []) ++ [x])
  | .int64 x => .sliceInt64 ((match slice with | .sliceInt64 xs => xs | _ => []) ++ [x])
  | .uint64 x => .sliceUint64 ((match slice with | .sliceUint64 xs => xs | _ => []) ++ [x])
  | .float32 x => .sliceFloat32 ((match slice with | .sliceFloat32 xs => xs | _ => []) ++ [x])
  | .float64 x => .sliceFloat64 ((match slice with | .sliceFloat64 xs => xs | _ => []) ++ [x])
  | _ => slice

def fieldNum (f : Field) : Option Nat := f.base.map (·.num)

/-- `convertToInt64(val)` of proto.go: `int64(val.num)` for the eight integer scalar types -/
def toInt64? : Value → Option Int
  | .int8 v => some (IntTy.i8.toInt v) | .uint8 v => some (IntTy.u8.toInt v)
  | .int16 v => some (IntTy.i16.toInt v) | .uint16 v => some (IntTy.u16.toInt v)
  | .int32 v => some (IntTy.i32.toInt v) | .uint32 v => some (IntTy.u32.toInt v)
  | .int64 v => some (IntTy.i64.toInt v) | .uint64 v => some (IntTy.i64.toInt v)
  | _ => none

/-- `Field.SubFieldSubtitution(mesg)`: the first sub-field one of whose maps matches the first field with
the referenced number -/
def subFieldSubst (fields : List Field) (subs : List SubF) : Option SubF :=
  subs.find? fun sf => sf.maps.any fun m =>
    match fields.find? (fun f => fieldNum f == some m.1) with
    | some f => toInt64? f.value == some m.2
    | none => false

/-- index of the last field with the given number (`for j := len-1; j >= 0; j--`) -/
def lastIdx (fields : List Field) (num : Nat) : Option Nat :=
  let rec go (fs : List Field) (i : Nat) (acc : Option Nat) : Option Nat :=
    match fs with
    | [] => acc
    | f :: rest => go rest (i + 1) (if fieldNum f == some num then some i else acc)
  go fields 0 none

/-- decoder.go:881-883: scale/offset of the component removed, those of the destination applied,
`uint32(math.Round(·))` -/
def componentValue (val cScale cOffset dScale dOffset : Nat) : Nat :=
  cvt .u32 (round (Fit.ScaleOffset.discard (Fit.ScaleOffset.apply (ofInt (val : Nat)) cScale cOffset) dScale dOffset))

/-- the arithmetic of one component (decoder.go:881-883) is a parameter: `componentValue` for the model of the
code, `Fit.Physical.specValue` for the specification -/
abbrev CV := Nat → Nat → Nat → Nat → Nat → Nat

structure St where
  acc : Fit.Accum.Acc
  fields : List Field
  deriving Repr, Inhabited

/-- the `for i := range components` loop of `expandComponents`; `recur` is `expandComponents` itself one level down
(for the destination's own components). Kept as a separate structural recursion over the component list so that
`expandComponents` is structurally recursive on its fuel (and evaluates in the kernel). -/
def compLoopWith (recur : St → Value → Nat → List Comp → St) (cv : CV) (p : Profile) (mesgNum : Nat) :
    Bool → St → List Nat → List Comp → St
  | _, st, _, [] => st
  | multi, st, bits, c :: rest =>
    let pr := Fit.Bits.pull bits c.bits
    if pr.1 = 0 ∧ multi then st            -- `break`
    else
      let av := if c.accumulate then Fit.Accum.accumulate st.acc mesgNum c.fieldNum pr.1 c.bits else (pr.1, st.acc)
      let cf := createField p mesgNum c.fieldNum
      let val := cv av.1 c.scale c.offset cf.1.scale cf.1.offset
      let value := convertU32 val cf.1.baseType
      let fields :=
        match lastIdx st.fields c.fieldNum with
        | some j =>
          st.fields.modify j fun f =>
            { f with value := if (f.base.map (·.array)).getD false then valueAppend f.value value else value }
        | none =>
          st.fields ++ [{ base := some cf.1, value := if cf.1.array then valueAppend .invalid value else value, isExpanded := true }]
      let comps' := match subFieldSubst fields cf.2.2 with
        | some sf => sf.comps
        | none => cf.2.1
      let st' := recur { acc := av.2, fields := fields } value cf.1.baseType comps'
      compLoopWith recur cv p mesgNum multi st' pr.2 rest

/-- `expandComponents(mesg, containingValue, baseType, components)` -/
def expandComponents (cv : CV) (p : Profile) (mesgNum : Nat) : Nat → St → Value → Nat → List Comp → St
  | 0, st, _, _, _ => st
  | fuel + 1, st, containing, bt, comps =>
    if comps.isEmpty then st
    else if !(valid containing bt) then st
    else match Fit.Bits.makeBits containing with
      | none => st
      | some bits => compLoopWith (expandComponents cv p mesgNum fuel) cv p mesgNum (comps.length > 1) st bits comps

/-- the `for i := range components` loop at recursion budget `fuel` -/
def compLoop (cv : CV) (p : Profile) (mesgNum : Nat) (fuel : Nat) : Bool → St → List Nat → List Comp → St :=
  compLoopWith (expandComponents cv p mesgNum fuel) cv p mesgNum

theorem expandComponents_zero_eq (cv : CV) (p : Profile) (mesgNum : Nat) (st : St) (v : Value) (bt : Nat) (comps : List Comp) :
    expandComponents cv p mesgNum 0 st v bt comps = st := rfl

theorem expandComponents_succ_eq (cv : CV) (p : Profile) (mesgNum fuel : Nat) (st : St) (containing : Value) (bt : Nat)
    (comps : List Comp) :
    expandComponents cv p mesgNum (fuel + 1) st containing bt comps =
      if comps.isEmpty then st
      else if !(valid containing bt) then st
      else match Fit.Bits.makeBits containing with
        | none => st
        | some bits => compLoop cv p mesgNum fuel (comps.length > 1) st bits comps := rfl

theorem compLoop_nil_eq (cv : CV) (p : Profile) (mesgNum fuel : Nat) (multi : Bool) (st : St) (bits : List Nat) :
    compLoop cv p mesgNum fuel multi st bits [] = st := rfl

theorem compLoop_cons_eq (cv : CV) (p : Profile) (mesgNum fuel : Nat) (multi : Bool) (st : St) (bits : List Nat) (c : Comp)
    (rest : List Comp) :
    compLoop cv p mesgNum fuel multi st bits (c :: rest) =
      (let pr := Fit.Bits.pull bits c.bits
      if pr.1 = 0 ∧ multi then st
      else
        let av := if c.accumulate then Fit.Accum.accumulate st.acc mesgNum c.fieldNum pr.1 c.bits else (pr.1, st.acc)
        let cf := createField p mesgNum c.fieldNum
        let val := cv av.1 c.scale c.offset cf.1.scale cf.1.offset
        let value := convertU32 val cf.1.baseType
        let fields :=
          match lastIdx st.fields c.fieldNum with
          | some j =>
            st.fields.modify j fun f =>
              { f with value := if (f.base.map (·.array)).getD false then valueAppend f.value value else value }
          | none =>
            st.fields ++ [{ base := some cf.1, value := if cf.1.array then valueAppend .invalid value else value, isExpanded := true }]
        let comps' := match subFieldSubst fields cf.2.2 with
          | some sf => sf.comps
          | none => cf.2.1
        let st' := expandComponents cv p mesgNum fuel { acc := av.2, fields := fields } value cf.1.baseType comps'
        compLoop cv p mesgNum fuel multi st' pr.2 rest) := rfl

/-- `uint32(x)` of a scalar as `collectAccumulableValues` computes it -/
def toU32 (v : Value) : List Nat :=
  match v with
  | .int8 x => [sext 8 x % 2 ^ 32] | .uint8 x => [x % 2 ^ 8] | .int16 x => [sext 16 x % 2 ^ 32] | .uint16 x => [x % 2 ^ 16]
  | .int32 x => [x % 2 ^ 32] | .uint32 x => [x % 2 ^ 32] | .int64 x => [x % 2 ^ 32] | .uint64 x => [x % 2 ^ 32]
  | .float32 x => [cvt .u32 (ofF32 x)] | .float64 x => [cvt .u32 x]
  | .sliceInt8 xs => xs.map fun x => sext 8 x % 2 ^ 32
  | .sliceUint8 xs => xs.map (· % 2 ^ 8)
  | .sliceInt16 xs => xs.map fun x => sext 16 x % 2 ^ 32
  | .sliceUint16 xs => xs.map (· % 2 ^ 16)
  | .sliceInt32 xs | .sliceUint32 xs | .sliceInt64 xs | .sliceUint64 xs => xs.map (· % 2 ^ 32)
  | .sliceFloat32 xs => xs.map fun x => cvt .u32 (ofF32 x)
  | .sliceFloat64 xs => xs.map (cvt .u32)
  | _ => []

/-- `collectAccumulableValues`: every element is collected in turn (the last one stays) -/
def collectValues (a : Fit.Accum.Acc) (mesgNum num : Nat) (v : Value) : Fit.Accum.Acc :=
  (toU32 v).foldl (fun a x => Fit.Accum.collect a mesgNum num x) a

def expandFuel : Nat := 8

/-- components of the field at index `i` as the decoder's loop sees them, after sub-field substitution -/
def fieldComps (p : Profile) (mesgNum : Nat) (fields : List Field) (f : Field) : List Comp :=
  match f.base with
  | none => []
  | some b =>
    match lookup p mesgNum b.num with
    | none => []
    | some fl =>
      match subFieldSubst fields fl.subs with
      | some sf => sf.comps
      | none => fl.comps

/-- the loop `for i := range mesg.Fields` of `decodeFields` (the range is fixed when the loop starts; the
field is read from the current state) -/
def expandAll (cv : CV) (p : Profile) (mesgNum : Nat) (st : St) : Nat → Nat → St
  | 0, _ => st
  | k + 1, i =>
    match st.fields[i]? with
    | none => st
    | some f =>
      let st' := expandComponents cv p mesgNum expandFuel st f.value ((f.base.map (·.baseType)).getD 0) (fieldComps p mesgNum st.fields f)
      expandAll cv p mesgNum st' k (i + 1)

/-- what `decodeFields` does to a message once its wire fields are read: with expansion off nothing; with
expansion on, accumulable wire values are collected, then every wire field is expanded in order. -/
def decodeTail (cv : CV) (p : Profile) (expand : Bool) (acc : Fit.Accum.Acc) (m : Message) : Fit.Accum.Acc × Message :=
  if !expand then (acc, m)
  else
    let acc := m.fields.foldl (fun a f =>
      match f.base with
      | some b => if b.accumulate then collectValues a m.num b.num f.value else a
      | none => a) acc
    let st := expandAll cv p m.num { acc := acc, fields := m.fields } m.fields.length 0
    (st.acc, { m with fields := st.fields })

/-- a sequence of messages through one decoder (the accumulator lives for the sequence) -/
def decodeSeq (cv : CV) (p : Profile) (expand : Bool) (ms : List Message) : List Message :=
  (ms.foldl (fun (s : Fit.Accum.Acc × List Message) m =>
    let r := decodeTail cv p expand s.1 m
    (r.1, s.2 ++ [r.2])) ([], [])).2

/-! ### which wire fields expansion may change (specification side of `C05_untouched`) -/

/-- all components a profile field may expand with (its own and those of its sub-fields) -/
def compsAll (f : Fld) : List Comp := f.comps ++ f.subs.flatMap (·.comps)

def compsOfNum (p : Profile) (mesgNum num : Nat) : List Comp :=
  match lookup p mesgNum num with
  | some f => compsAll f
  | none => []

/-- destinations that `comps` can write within `k` levels of nesting -/
def reach (p : Profile) (mesgNum : Nat) : Nat → List Comp → List Nat
  | 0, _ => []
  | k + 1, comps => comps.flatMap fun c => c.fieldNum :: reach p mesgNum k (compsOfNum p mesgNum c.fieldNum)

/-- destinations of the components of the fields PRESENT in the message (field- or sub-field-level), transitively
through the destinations' own components, as deep as the decoder's recursion is modelled -/
def destsPresent (p : Profile) (mesgNum : Nat) (fields : List Field) : List Nat :=
  fields.flatMap fun f =>
    match f.base with
    | some b => reach p mesgNum expandFuel (compsOfNum p mesgNum b.num)
    | none => []

end Fit.Expand
