import FitModel.Activity
/-!
Specification vocabulary of C20 (core Lean, executable where it is a decision): what the theorems of
`FitProps/C20.lean` say about the model of `FitModel/Activity.lean`, and the same predicates as `Bool`
functions so that the driver can evaluate them on the implementation's output (`--prop`).
-/
namespace Fit.Activity
open Fit.Value Fit.Msg Fit.Gen Fit.Gen.Tool

/-- uint32 difference `d - k` as Go computes it -/
def wrapSub (d k : Nat) : Nat := (d + 2 ^ 32 - k) % 2 ^ 32


/-- `Reduced key diff th prev ms out`: `out` is `ms` with some RECORDS left out — every other message stays, in
order; the first record stays; a later record is left out exactly when it lies closer than `th` (difference
`diff`) to the record kept before it, whose key is `prev`. -/
inductive Reduced (key : Message → Nat) (diff : Nat → Nat → Nat) (th : Nat) :
    Option Nat → List Message → List Message → Prop
  | nil (p) : Reduced key diff th p [] []
  | other (p m ms out) : isRecord m = false → Reduced key diff th p ms out → Reduced key diff th p (m :: ms) (m :: out)
  | first (m ms out) : isRecord m = true → Reduced key diff th (some (key m)) ms out →
      Reduced key diff th none (m :: ms) (m :: out)
  | keep (k m ms out) : isRecord m = true → th ≤ diff (key m) k → Reduced key diff th (some (key m)) ms out →
      Reduced key diff th (some k) (m :: ms) (m :: out)
  | drop (k m ms out) : isRecord m = true → diff (key m) k < th → Reduced key diff th (some k) ms out →
      Reduced key diff th (some k) (m :: ms) out

/-- `ReducedI key diff th ref reached ms out` — what the interval reducers do on EVERY message list, records without a
valid key included (no hypothesis): `out` is `ms` with some RECORDS left out — every other message stays, in order; the
first record stays whatever its key (`first`); a later record WITHOUT a valid key (no distance / no timestamp: it has no
place on the axis the interval is measured on) is left out (`noKey`: the code's `if d == Uint32Invalid { continue }`); a
later record with a valid key is left out exactly when it lies closer than `th` to the reference `ref` — the key of the
last kept record that has a valid key (0 while there is none: only when the first record has no valid key).
`reached` = a record has been met. Under `KeysValid` this is `Reduced` (`ReducedI.toReduced`). -/
inductive ReducedI (key : Message → Nat) (diff : Nat → Nat → Nat) (th : Nat) :
    Nat → Bool → List Message → List Message → Prop
  | nil (ref reached) : ReducedI key diff th ref reached [] []
  | other (ref reached m ms out) : isRecord m = false → ReducedI key diff th ref reached ms out →
      ReducedI key diff th ref reached (m :: ms) (m :: out)
  | first (ref m ms out) : isRecord m = true →
      ReducedI key diff th (if key m = uint32Invalid then ref else key m) true ms out →
      ReducedI key diff th ref false (m :: ms) (m :: out)
  | noKey (ref m ms out) : isRecord m = true → key m = uint32Invalid → ReducedI key diff th ref true ms out →
      ReducedI key diff th ref true (m :: ms) out
  | keep (ref m ms out) : isRecord m = true → key m ≠ uint32Invalid → th ≤ diff (key m) ref →
      ReducedI key diff th (key m) true ms out → ReducedI key diff th ref true (m :: ms) (m :: out)
  | drop (ref m ms out) : isRecord m = true → key m ≠ uint32Invalid → diff (key m) ref < th →
      ReducedI key diff th ref true ms out → ReducedI key diff th ref true (m :: ms) out

/-- every record carries a valid key (distance / timestamp) -/
def KeysValid (key : Message → Nat) (ms : List Message) : Prop :=
  ∀ m ∈ ms, isRecord m = true → key m ≠ uint32Invalid


/-- the fields whose number is none of `nums` -/
def other (nums : List Nat) (f : Field) : Bool := !(nums.any fun n => hasNum n f)


/-- the position fields of a message, by message number -/
def posNums (mesgNum : Nat) : List Nat :=
  if mesgNum == mnRecord then [fnRecordPositionLat, fnRecordPositionLong]
  else if mesgNum == mnLap then [fnLapStartPositionLat, fnLapStartPositionLong, fnLapEndPositionLat, fnLapEndPositionLong]
  else if mesgNum == mnSession then
    [fnSessionStartPositionLat, fnSessionStartPositionLong, fnSessionEndPositionLat, fnSessionEndPositionLong]
  else []

/-- `m'` is `m` except possibly for position fields: same number, same developer fields, and the fields
other than position_lat/long (records) or start/end_position_lat/long (laps, sessions) are the same, in order.
For any other message this says `m' = m` (`Touch.eq_of_other`). -/
def Touch (m m' : Message) : Prop :=
  m'.num = m.num ∧ m'.devFields = m.devFields ∧
  m'.fields.filter (other (posNums m.num)) = m.fields.filter (other (posNums m.num))


/-- the distances of the records, in order -/
def recDists (ms : List Message) : List Nat := (ms.filter isRecord).map dist

/-- "records carry valid, non-decreasing distances" -/
def DistOK (ms : List Message) : Prop :=
  (∀ d ∈ recDists ms, d ≠ uint32Invalid) ∧ (recDists ms).Pairwise (· ≤ ·)

/-- distance of the last record (0 if there is none) -/
def lastDist (ms : List Message) : Nat := (recDists ms).getLast?.getD 0

/-- strip the position of the records satisfying `p` -/
def hideIf (p : Message → Bool) (m : Message) : Message := if isRecord m && p m then stripPos m else m


/-- the message has no position_lat / position_long field at all -/
def posFree (m : Message) : Bool :=
  m.fields.all fun f => !hasNum fnRecordPositionLat f && !hasNum fnRecordPositionLong f

/-- field numbers occur at most once in the message (what a message definition of a valid FIT file gives) -/
def UniqueNum (n : Nat) (m : Message) : Prop := (m.fields.filter (hasNum n)).length ≤ 1


/-! ### the same as decisions (evaluated by the driver on the implementation's output) -/

def touchB (m m' : Message) : Bool :=
  m'.num == m.num && m'.devFields == m.devFields &&
  m'.fields.filter (other (posNums m.num)) == m.fields.filter (other (posNums m.num))

def sortedLeB : List Nat → Bool
  | a :: b :: rest => a ≤ b && sortedLeB (b :: rest)
  | _ => true

def distOKB (ms : List Message) : Bool := (recDists ms).all (· != uint32Invalid) && sortedLeB (recDists ms)

def uniqueNumB (n : Nat) (m : Message) : Bool := (m.fields.filter (hasNum n)).length ≤ 1

/-- the record lies in the first `first` units of distance -/
def inStart (first : Nat) (m : Message) : Bool := dist m < first
/-- the record lies in the last `last` units of distance of the activity `ms` -/
def inEnd (last : Nat) (ms : List Message) (m : Message) : Bool := lastDist ms - dist m < last

/-- decision procedure for `Reduced` (which is deterministic) -/
def reducedB (key : Message → Nat) (diff : Nat → Nat → Nat) (th : Nat) : Option Nat → List Message → List Message → Bool
  | _, [], out => out.isEmpty
  | p, m :: ms, out =>
    if !isRecord m then
      match out with
      | o :: os => o == m && reducedB key diff th p ms os
      | [] => false
    else
      match p with
      | none =>
        match out with
        | o :: os => o == m && reducedB key diff th (some (key m)) ms os
        | [] => false
      | some k =>
        if diff (key m) k < th then reducedB key diff th (some k) ms out
        else
          match out with
          | o :: os => o == m && reducedB key diff th (some (key m)) ms os
          | [] => false

/-- decision procedure for `ReducedI` (which is deterministic) -/
def reducedIB (key : Message → Nat) (diff : Nat → Nat → Nat) (th : Nat) : Nat → Bool → List Message → List Message → Bool
  | _, _, [], out => out.isEmpty
  | ref, reached, m :: ms, out =>
    if !isRecord m then
      match out with
      | o :: os => o == m && reducedIB key diff th ref reached ms os
      | [] => false
    else if !reached then
      match out with
      | o :: os => o == m && reducedIB key diff th (if key m = uint32Invalid then ref else key m) true ms os
      | [] => false
    else if key m = uint32Invalid then reducedIB key diff th ref true ms out
    else if diff (key m) ref < th then reducedIB key diff th ref true ms out
    else
      match out with
      | o :: os => o == m && reducedIB key diff th (key m) true ms os
      | [] => false

def keysValidB (key : Message → Nat) (ms : List Message) : Bool :=
  ms.all fun m => !isRecord m || key m != uint32Invalid

/-- the messages `Remove` is asked to delete -/
def selected (o : RemoveOpts) (m : Message) : Bool :=
  (o.unknown && !isKnownNum m.num) || o.nums.contains m.num || (o.devData && isDevDataMesg m)

/-! ### laps and sessions: no start/end position pointing into a concealed stretch

A lap (session) covers the time from its start_time to start_time + total_timer_time/1000 (the profile scale
of total_timer_time). Its start position is the position at the first instant, its end position the one at
the last. After concealing, a position that is still present must be justified: either the instant it belongs
to lies between the first revealed record (first record at or beyond `first`) and the last revealed record
(last record at least `last` before the end), or it has been replaced by the coordinates of one of these
two records and that record is revealed (not concealed by the other stretch). -/

def firstRevealed (first : Nat) (ms : List Message) : Option Message :=
  ms.find? fun m => isRecord m && !inStart first m

def lastRevealed (last : Nat) (ms : List Message) : Option Message :=
  ms.reverse.find? fun m => isRecord m && !inEnd last ms m

/-- `t` is not before the first revealed record (no constraint when nothing is concealed at the start) -/
def afterStart (first : Nat) (ms : List Message) (t : Nat) : Bool :=
  first == 0 || match firstRevealed first ms with
    | some r => tstamp r ≤ t
    | none => false

def beforeEnd (last : Nat) (ms : List Message) (t : Nat) : Bool :=
  last == 0 || match lastRevealed last ms with
    | some r => t ≤ tstamp r
    | none => false

def inWindow (first last : Nat) (ms : List Message) (t : Nat) : Bool := afterStart first ms t && beforeEnd last ms t

def lapStartTime (ph : PH) (m : Message) : Nat := u32 (fval m ph.startTime)
/-- end of the lap in seconds: start_time + total_timer_time / 1000 -/
def lapEndTime (ph : PH) (m : Message) : Nat := lapStartTime ph m + u32 (fval m ph.totalTimerTime) / timerScale

/-- the record whose coordinates a rewritten start position may carry -/
def startAnchor (first last : Nat) (ms : List Message) : Option Message :=
  if first == 0 then none else (firstRevealed first ms).filter fun r => !inEnd last ms r
/-- the record whose coordinates a rewritten end position may carry -/
def endAnchor (first last : Nat) (ms : List Message) : Option Message :=
  if last == 0 then none else (lastRevealed last ms).filter fun r => !inStart first r

/-- every field `n` of `m'` is justified by time or carries the anchor's coordinate -/
def posFieldOK (anchor : Option Message) (coord : Nat) (justified : Bool) (m' : Message) (n : Nat) : Bool :=
  m'.fields.all fun f => !hasNum n f || justified ||
    match anchor with
    | some r => i32 (fval r coord) != sint32Invalid && f.value == .int32 (i32 (fval r coord))
    | none => false

/-- the lap / session `m` (input) and what became of it (`m'`) -/
def lapOK (ph : PH) (first last : Nat) (ms : List Message) (m m' : Message) : Bool :=
  let js := inWindow first last ms (lapStartTime ph m)
  let je := inWindow first last ms (lapEndTime ph m)
  let sa := startAnchor first last ms
  let ea := endAnchor first last ms
  posFieldOK sa fnRecordPositionLat js m' ph.sLat && posFieldOK sa fnRecordPositionLong js m' ph.sLong &&
  posFieldOK ea fnRecordPositionLat je m' ph.eLat && posFieldOK ea fnRecordPositionLong je m' ph.eLong

/-- no lap/session start/end position of `out` points into a concealed stretch -/
def noLeakB (ph : PH) (first last : Nat) (ms out : List Message) : Bool :=
  (ms.zip out).all fun p => !(p.1.num == ph.mesgNum) || lapOK ph first last ms p.1 p.2

/-- laps (sessions) carry valid start_time and total_timer_time, without uint32 overflow, and follow each other:
a later one starts no earlier than an earlier one ends -/
def lapsSeqB (ph : PH) (ms : List Message) : Bool :=
  let ls := ms.filter (·.num == ph.mesgNum)
  ls.all (fun m => lapStartTime ph m != uint32Invalid && u32 (fval m ph.totalTimerTime) != uint32Invalid &&
    lapStartTime ph m + u32 (fval m ph.totalTimerTime) < uint32Invalid) &&
  sortedLeB (ls.flatMap fun m => [lapStartTime ph m, lapEndTime ph m])

/-- design finding F17: `updateStartPosition` compares `start_time + total_timer_time` — seconds plus raw
milliseconds — with the first revealed record's timestamp. The class: some lap/session on which this test
differs from the one in seconds. -/
def unitsDisagree (ph : PH) (first : Nat) (ms : List Message) : Bool :=
  first != 0 &&
  let ts := match firstRevealed first ms with
    | some r => tstamp r
    | none => uint32Invalid
  (ms.filter (·.num == ph.mesgNum)).any fun m =>
    decide ((lapStartTime ph m + u32 (fval m ph.totalTimerTime)) % 2 ^ 32 < ts) != decide (lapEndTime ph m < ts)

/-- the class of finding KF-C20-4: the two stretches OVERLAP — the first record left revealed by the start stage is
concealed by the end stage — and the last record left revealed by the end stage (which then lies before it in the
file) does not carry a SMALLER timestamp: two records written in the same second (or a clock stepping back) at the
boundary. `updateStartPosition` and `updateEndPosition` each go by time: with equal timestamps the lap that the start
stage rewrites (first lap reaching T) can be an earlier one than the lap the end stage handles (last lap starting at
or before T), and it keeps the coordinates of a record the end stage conceals. Implied to be `false` by strictly
increasing record timestamps (`overlapTie_false_of_inc`). -/
def overlapTie (first last : Nat) (ms : List Message) : Bool :=
  first != 0 && last != 0 &&
  match firstRevealed first ms, lastRevealed last ms with
  | some r0, some rl => inEnd last ms r0 && !decide (tstamp rl < tstamp r0)
  | _, _ => false

def sortedLtB : List Nat → Bool
  | a :: b :: rest => a < b && sortedLtB (b :: rest)
  | _ => true

/-- the records' timestamps strictly increase in file order: the activity is recorded forward in time. The reading of
"a lap position points into a stretch" by time (`noLeakB`) presupposes it — with two records carrying the same or a
decreasing timestamp "before the first revealed record" in time and in file order are different things. -/
def recTimesIncB (ms : List Message) : Bool := sortedLtB ((ms.filter isRecord).map tstamp)

/-- laps (sessions) carry at most one field of each of the four position numbers (`RemoveFieldByNum` removes the first
field with a number only; same restriction as `UniqueNum` for the records) -/
def lapUniqueB (ph : PH) (ms : List Message) : Bool :=
  ms.all fun m => !(m.num == ph.mesgNum) ||
    (uniqueNumB ph.sLat m && uniqueNumB ph.sLong m && uniqueNumB ph.eLat m && uniqueNumB ph.eLong m)

/-- the records carry at most one position_lat and one position_long field -/
def recUniqueB (ms : List Message) : Bool :=
  ms.all fun m => !isRecord m || (uniqueNumB fnRecordPositionLat m && uniqueNumB fnRecordPositionLong m)

/-- the situation of finding KF-C20-2 (fixed by /repo commit bd79ab7): NO record is left revealed by the end stage
(`last` reaches back to the first record). Before the fix `updateEndPosition` ran with `recordIndex = -1`, whose
timestamp reads as 0xFFFFFFFF: only the last lap/session was handled and every earlier one kept all its positions. -/
def allConcealedAtEnd (last : Nat) (ms : List Message) : Bool :=
  last != 0 && (lastRevealed last ms).isNone

/-! ### reducer by RDP, with the simplifier's contract; combiner -/

def isSublistNat : List Nat → List Nat → Bool
  | [], _ => true
  | _ :: _, [] => false
  | a :: as, b :: bs => if a == b then isSublistNat as bs else isSublistNat (a :: as) bs

/-- what `reduceByRDP` must return when the simplifier answers with a sublist of the points it was given: every
non-record, and exactly the records whose point the simplifier kept (a record without a valid position has no point) -/
def rdpExpected (simplified : List Nat) (ms : List Message) : List Message :=
  (ms.zipIdx.filter fun p => !isRecord p.1 || simplified.contains p.2).map (·.1)

/-- the messages of each input that belong to the body of the combined activity, inputs in creation-time order: the
first file without its session/activity/sport/split_summary messages, the later ones also without file_id/file_creator -/
def bodyInputs (fits : List (List Message)) : List (List Message) :=
  match sortByCreation (fits.filter (!·.isEmpty)) with
  | [] => []
  | f0 :: rest => (f0.filter fun m => !isTrailerNum m.num) ::
      rest.map fun f => f.filter fun m => !isTrailerNum m.num && !(m.num == mnFileId || m.num == mnFileCreator)

def hasAccFlag (f : Field) : Bool := match f.base with | some b => b.accumulate | none => false

/-- the message with the values of its accumulable fields blanked -/
def blankAcc (m : Message) : Message :=
  { m with fields := m.fields.map fun f => if hasAccFlag f then { f with value := .invalid } else f }

/-- last valid accumulable value of the key in a file -/
def lastIn (mn fn : Nat) (file : List Message) : Option Value :=
  ((file.filter (·.num == mn)).flatMap fun m => (m.fields.filter fun f => accumulable f && fieldNumOf f == fn).map (·.value)).getLast?

/-- `v` plus the last values of the key in the earlier files (those that have it) -/
def continueAcc (earlier : List (List Message)) (mn : Nat) (f : Field) : Option Field :=
  if !accumulable f then some f else
  (earlier.foldl (fun acc file => match acc, lastIn mn (fieldNumOf f) file with
      | some v, some l => sumValue v l
      | some v, none => some v
      | none, _ => none) (some f.value)).map fun v => { f with value := v }

/-- the body `Combine` must produce: every message of every input in creation-time order, accumulated quantities
continued across the file boundaries (`out = in + Σ last values of the earlier files`); `none` = a float accumulable -/
def expectedBody (fits : List (List Message)) : Option (List Message) :=
  let ins := bodyInputs fits
  let rec go : List (List Message) → List (List Message) → Option (List Message)
    | _, [] => some []
    | earlier, file :: rest =>
      match file.mapM (fun m => (m.fields.mapM (continueAcc earlier m.num)).map fun fs => { m with fields := fs }), go (earlier ++ [file]) rest with
      | some a, some b => some (a ++ b)
      | _, _ => none
  go [] ins

/-- the situation of finding KF-C20-3 (fixed in /repo): an accumulable quantity (message number, field number) has its first valid value in a
file other than the first one (creation-time order). Before the fix `accumulator.Accumulate` stored that first value as
the "value of the previous sequences", and every later value of the same file got it added. -/
def freshKeyLater (fits : List (List Message)) : Bool :=
  let rec go : List (List Message) → List (List Message) → Bool
    | _, [] => false
    | earlier, file :: rest =>
      (!earlier.isEmpty && file.any fun m => m.fields.any fun f =>
        accumulable f && earlier.all fun e => (lastIn m.num (fieldNumOf f) e).isNone) || go (earlier ++ [file]) rest
  go [] (bodyInputs fits)

end Fit.Activity
