/-!
Model of /repo/decoder/accumulator.go: `Collect`, `Accumulate`, `Reset`. The table is a list of entries in
insertion order; all arithmetic is uint32 (`% 2^32`); `(1 << bits) - 1` on a uint32 is all ones for `bits ≥ 32`.
-/
namespace Fit.Accum

structure Entry where
  mesgNum : Nat
  fieldNum : Nat
  last : Nat
  value : Nat
  deriving DecidableEq, Repr, Inhabited

abbrev Acc := List Entry

def U32 : Nat := 2 ^ 32

/-- `var mask uint32 = (1 << bits) - 1` -/
def mask (bits : Nat) : Nat := if bits ≥ 32 then U32 - 1 else 2 ^ bits - 1

/-- `Collect(mesgNum, destFieldNum, val)`: replace the first matching entry or append -/
def collect (a : Acc) (mesgNum fieldNum val : Nat) : Acc :=
  match a with
  | [] => [⟨mesgNum, fieldNum, val, val⟩]
  | e :: es =>
    if e.mesgNum = mesgNum ∧ e.fieldNum = fieldNum then { e with last := val, value := val } :: es
    else e :: collect es mesgNum fieldNum val

/-- `Accumulate(mesgNum, destFieldNum, val, bits)`: the returned value and the new table -/
def accumulate (a : Acc) (mesgNum fieldNum val bits : Nat) : Nat × Acc :=
  match a with
  | [] => (val, [⟨mesgNum, fieldNum, val, val⟩])
  | e :: es =>
    if e.mesgNum = mesgNum ∧ e.fieldNum = fieldNum then
      let v := (e.value + ((val + U32 - e.last) % U32 &&& mask bits)) % U32
      (v, { e with last := val, value := v } :: es)
    else
      let r := accumulate es mesgNum fieldNum val bits
      (r.1, e :: r.2)

/-- `Reset()` -/
def reset : Acc := []

end Fit.Accum
