import FitModel.DecProg
import FitModel.Generated.DecApiConsts
/-!
The decoder's whole PUBLIC API as a CLIENT OF THE READ BUFFER: a history of calls — `Decode`, `DecodeWithContext`
(context live, cancelled before the call, cancelled after `k` records of the call), `PeekFileHeader`, `PeekFileId`,
`Discard`, `Next`, `CheckIntegrity` — on ONE decoder object over ONE reader is a `Fit.ReadBuffer.Prog`: every byte comes
through a `ReadN` request, so the refinement theorems about the read buffer (C08) lift to every history at once.

It is `FitModel/DecProg.lean` (the `Next`/`Decode` loop and `CheckIntegrity` of a new decoder) generalised to the
decoder object between calls (`Dec`: sticky error, the `sync.Once` of the file header, position inside the sequence,
running checksum, definitions, field descriptions, "file_id seen", "a byte was consumed") — the framing-level shadow of
`FitModel/DecoderApi.lean` (values, profile look-ups and component expansion do not touch the reader and are not here).
The record-level functions are those of `DecProg` with the failure continuation as a parameter (`fl`): a failing request
must not end the program — the remaining calls of the history still return the sticky error.

`Reset` (a new reader) and the re-seek after `CheckIntegrity` start a new program on a new read-buffer state: a history
with them is a sequence of such programs (after either the decoder is new — `C07_reset_is_new`,
`C07_integrity_check_is_new` — and `RB.reset` of ANY previous buffer state is what the refinement theorems start from).
So the program ends with `CheckIntegrity`: calls listed after it are not executed.
-/
namespace Fit.DecHist
open Fit.ReadBuffer Fit.Crc Fit.Gen.Integ
open Fit.DecProg (Err Ev St Hdr Def Triplet le16 be16 le32 triplets validBaseType lastVal)

inductive Op
  | decode
  | decodeCtx (cancelled : Bool)
  /-- `DecodeWithContext`, the context first seen cancelled after `k` records of this call (see `DecApi.decodeMessagesCtx`) -/
  | decodeCtxAt (k : Nat)
  | peekHeader
  | peekFileId
  | discard
  | next
  /-- `CheckIntegrity()`; the reader has to be re-seeked afterwards: the program ends here -/
  | checkIntegrity
  deriving DecidableEq, Repr, Inhabited

/-- the decoder's sticky error: an error of decoding, or the context's -/
inductive HErr
  | dec (e : Err)
  | ctx
  deriving DecidableEq, Repr, Inhabited

/-- what a call returns, at framing level -/
inductive OpRes
  | fit (h : Hdr) (crc nMsgs : Nat)
  | header (h : Hdr)
  /-- `PeekFileId` succeeded: with a file_id message of the sequence, or (none in the sequence) with the all-invalid one -/
  | fileId (found : Bool)
  | done
  | bool (b : Bool)
  | integrity (seq : Nat) (e : Option HErr)
  | err (e : HErr)
  deriving DecidableEq, Repr, Inhabited

structure Out where
  /-- one result per call executed, in order -/
  res : List OpRes
  /-- the listener calls (definitions, messages with the bytes of their fields) and, per decoded sequence, header and CRCs -/
  evs : List Ev
  /-- the decoder's error at the end (`d.err`), resp. the verdict of the final `CheckIntegrity` -/
  err : Option HErr
  deriving DecidableEq, Repr, Inhabited

def HErr.merge : HErr → HErr
  | .dec e => .dec e.merge
  | .ctx => .ctx

def OpRes.merge : OpRes → OpRes
  | .integrity n e => .integrity n (e.map HErr.merge)
  | .err e => .err e.merge
  | r => r

/-- forget which of the two end-of-stream errors it was -/
def Out.merge (o : Out) : Out := { o with res := o.res.map OpRes.merge, err := o.err.map HErr.merge }

/-- the decoder object between two calls -/
structure Dec where
  /-- `options.shouldChecksum` -/
  chk : Bool
  /-- `d.err` -/
  err : Option HErr := none
  /-- the `sync.Once` has fired and the header decoded -/
  hdr : Option Hdr := none
  /-- `d.cur`, `d.crc16`, definitions, field descriptions, messages so far; the events of the whole history -/
  st : St := { evs := [] }
  /-- `d.fileId != nil` -/
  fileId : Bool := false
  /-- `d.n != 0` -/
  moved : Bool := false
  /-- results of the calls so far, newest first -/
  res : List OpRes := []
  deriving Inhabited

/-- what a dead decoder answers -/
def stickyRes (e : HErr) : Op → OpRes
  | .next => .bool false
  | .checkIntegrity => .integrity 0 (some e)
  | _ => .err e

/-- the history ends: calls left (the decoder is dead, or none) get the sticky answer -/
def finish (d : Dec) (ops : List Op) : Out :=
  { res := d.res.reverse ++ (match d.err with | some e => ops.map (stickyRes e) | none => []),
    evs := d.st.evs.reverse, err := d.err }

/-- a call fails with `e` in record-level state `st`: the error is sticky, nothing more is read -/
def failOp (d : Dec) (ops : List Op) (st : St) (e : Err) : Prog Out :=
  .ret (finish { d with st := st, err := some (.dec e), res := .err (.dec e) :: d.res } ops)

/-! ### the record level of `DecProg`, failure continuation as a parameter -/

section Records
variable {α : Type} (fl : St → Err → Prog α)

/-- `(*Decoder).readN` -/
def rdN (chk : Bool) (n : Nat) (st : St) (k : Bytes → St → Prog α) : Prog α :=
  .read n fun
    | .error e => fl st (.io e)
    | .ok b => k b { st with cur := st.cur + n, crc := if chk then write st.crc b else st.crc }

/-- `decodeMessageDefinition` -/
def definition (chk : Bool) (header : Nat) (st : St) (k : St → Prog α) : Prog α :=
  rdN fl chk 5 st fun b st =>
    let arch := (b.drop 1).headD 0
    let mesgNum := if arch = littleEndian then le16 (b.drop 2) else be16 (b.drop 2)
    let n := (b.drop 4).headD 0
    rdN fl chk (n * 3) st fun fb st =>
      let fields := triplets fb
      if fields.any (fun t => !validBaseType t.2.2) then fl st .invalidBaseType
      else if header &&& devDataMask = devDataMask then
        rdN fl chk 1 st fun nb st =>
          rdN fl chk (nb.headD 0 * 3) st fun db st =>
            let d : Def := { arch := arch, mesgNum := mesgNum, fields := fields, devFields := triplets db }
            k { st with defs := (header &&& localMesgNumMask, d) :: st.defs,
                        evs := .def_ header arch mesgNum fields (triplets db) :: st.evs }
      else
        let d : Def := { arch := arch, mesgNum := mesgNum, fields := fields, devFields := [] }
        k { st with defs := (header &&& localMesgNumMask, d) :: st.defs,
                    evs := .def_ header arch mesgNum fields [] :: st.evs }

/-- `decodeFields`, framing part -/
def fields (chk : Bool) : List Triplet → St → List (Nat × Bytes) → (St → List (Nat × Bytes) → Prog α) → Prog α
  | [], st, acc, k => k st acc
  | (num, size, _) :: fs, st, acc, k =>
    if size = 0 then fields chk fs st acc k
    else rdN fl chk size st fun b st => fields chk fs st (acc ++ [(num, b)]) k

/-- `decodeDeveloperFields`, framing part -/
def devFields (chk : Bool) (descs : List Triplet) : List Triplet → St → List (Nat × Nat × Bytes) →
    (St → List (Nat × Nat × Bytes) → Prog α) → Prog α
  | [], st, acc, k => k st acc
  | (num, size, ddi) :: fs, st, acc, k =>
    match descs.find? fun d => d.1 = ddi ∧ d.2.1 = num with
    | none => rdN fl chk size st fun _ st => devFields chk descs fs st acc k
    | some d =>
      if !validBaseType d.2.2 then fl st .invalidBaseType
      else if size = 0 then devFields chk descs fs st acc k
      else rdN fl chk size st fun b st => devFields chk descs fs st (acc ++ [(num, ddi, b)]) k

/-- `decodeMessageData`; the continuation also learns the global message number -/
def data (chk : Bool) (header : Nat) (st : St) (k : Nat → St → Prog α) : Prog α :=
  let compressed := header &&& mesgCompressedHeaderMask = mesgCompressedHeaderMask
  let localNum := if compressed then (header &&& compressedLocalMesgNumMask) >>> compressedBitShift else header
  match st.lookup (localNum &&& localMesgNumMask) with
  | none => fl st .defMissing
  | some d =>
    fields fl chk d.fields st [] fun st vals =>
      let descs := if d.mesgNum = mesgNumFieldDescription
        then st.descs ++ [(lastVal vals fdDeveloperDataIndex, lastVal vals fdFieldDefinitionNumber, lastVal vals fdFitBaseTypeId)]
        else st.descs
      let st := { st with descs := descs }
      devFields fl chk descs d.devFields st [] fun st devs =>
        let ev : Ev := .msg header d.mesgNum (vals.length + (if compressed then 1 else 0)) devs.length vals devs
        k d.mesgNum { st with msgs := st.msgs + 1, evs := ev :: st.evs }

/-- `decodeMessage`; the continuation learns whether a file_id message was decoded (`d.fileId` is set by the first one) -/
def message (chk : Bool) (st : St) (k : Bool → St → Prog α) : Prog α :=
  rdN fl chk 1 st fun b st =>
    let header := b.headD 0
    if header &&& (mesgCompressedHeaderMask ||| mesgDefinitionMask) = mesgDefinitionMask
    then definition fl chk header st (k false)
    else data fl chk header st fun mesgNum st => k (decide (mesgNum = Fit.Gen.DecApi.mesgNumFileId)) st

/-- `decodeMessages`: `for d.cur < d.fileHeader.DataSize { decodeMessage }`; `fid` = a file_id message was seen -/
def messages (chk : Bool) (dataSize : Nat) : Nat → Bool → St → (Bool → St → Prog α) → Prog α
  | 0, fid, st, k => k fid st
  | fuel + 1, fid, st, k =>
    if st.cur < dataSize then message fl chk st fun f st => messages chk dataSize fuel (fid || f) st k
    else k fid st

/-- `decodeMessagesWithContext` + the `checkContext` after it, the cancellation first seen after `n` records of the call:
`onCtx` then; a loop that ends earlier never sees it -/
def messagesCtx (chk : Bool) (dataSize : Nat) (onCtx : St → Prog α) : Nat → Nat → Bool → St → (Bool → St → Prog α) → Prog α
  | _, 0, _, st, _ => onCtx st
  | 0, _ + 1, fid, st, k => k fid st
  | fuel + 1, n + 1, fid, st, k =>
    if st.cur < dataSize then message fl chk st fun f st => messagesCtx chk dataSize onCtx fuel n (fid || f) st k
    else k fid st

/-- the loop of `PeekFileId`: `for d.fileId == nil { if d.cur >= DataSize { return invalid }; decodeMessage }` -/
def peekLoop (chk : Bool) (dataSize : Nat) : Nat → Bool → St → (Bool → St → Prog α) → Prog α
  | 0, fid, st, k => k fid st
  | fuel + 1, fid, st, k =>
    if !fid ∧ st.cur < dataSize then message fl chk st fun f st => peekLoop chk dataSize fuel (fid || f) st k
    else k fid st

/-- `decodeCRC`: `ReadN(2)` straight from the buffer -/
def fileCrc (chk : Bool) (st : St) (k : Nat → Prog α) : Prog α :=
  .read 2 fun
    | .error e => fl st (.io e)
    | .ok b => if chk ∧ st.crc ≠ le16 b then fl st .crc else k (le16 b)

/-- `discardMessages` -/
def discard (chk : Bool) (dataSize : Nat) : Nat → St → (St → Prog α) → Prog α
  | 0, st, k => k st
  | fuel + 1, st, k =>
    if st.cur < dataSize then
      rdN fl chk (min (dataSize - st.cur) reservedbuf) st fun _ st => discard chk dataSize fuel st k
    else k st

end Records

/-- `decodeFileHeader`: `onFirst` gets the error of the very first `ReadN(1)` (nothing consumed), `onErr` every other
failure, `k` the decoded header (as `DecProg.fileHeader`, any result type) -/
def fileHeader {α : Type} (chk : Bool) (onFirst : RErr → Prog α) (onErr : Err → Prog α) (k : Hdr → Prog α) : Prog α :=
  .read 1 fun
    | .error e => onFirst e
    | .ok b0 =>
      let size := b0.headD 0
      if size ≠ 12 ∧ size ≠ 14 then onErr .notFit
      else
        .read (size - 1) fun
          | .error e => onErr (.io e)
          | .ok b =>
            if (b.drop 7).take 4 ≠ dataTypeFIT then onErr .notFit
            else
              let dataSize := le32 (b.drop 3)
              if dataSize = 0 then onErr .notFit
              else
                let crc := if size = 14 then le16 (b.drop 11) else 0
                let h : Hdr := ⟨size, b.headD 0, le16 (b.drop 1), dataSize, crc⟩
                if crc = 0 ∨ chk = false then k h
                else if write (write 0 [size]) (b.take (size - 1 - 2)) ≠ crc then onErr .crc
                else k h

/-- `decodeFileHeaderOnce` inside a call, with the checksum setting `chk` of the moment: `onFirst` — the very first
`ReadN(1)` failed (nothing consumed); `onErr` — any other failure (something was consumed); `k` — decoded (now or by an
earlier call). A decoded header starts the sequence: `d.cur = 0`, running checksum 0. -/
def headerOnce {α : Type} (chk : Bool) (d : Dec) (onFirst : RErr → Prog α) (onErr : Err → Dec → Prog α)
    (k : Hdr → Dec → Prog α) : Prog α :=
  match d.hdr with
  | some h => k h d
  | none =>
    fileHeader chk onFirst (fun e => onErr e { d with moved := true })
      (fun h => k h { d with hdr := some h, moved := true, st := { d.st with cur := 0, crc := 0 } })

/-- `reset()` at the end of a sequence: everything per sequence is new; the events and results go on -/
def Dec.renew (d : Dec) (evs : List Ev) (r : OpRes) : Dec :=
  { chk := d.chk, moved := true, st := { evs := evs }, res := r :: d.res }

/-- a header failure inside `Decode` / `PeekFileHeader` / `PeekFileId` / `Discard`: the error is sticky -/
def hdrFail (d : Dec) (ops : List Op) (e : Err) : Prog Out := failOp d ops d.st e

/-- `CheckIntegrity` returns: `seq` sequences completed and the error, if any. The program ends with it. -/
def ciVerdict (seq : Nat) (d : Dec) (st : St) (e : Option Err) : Prog Out :=
  .ret { res := (OpRes.integrity seq (e.map .dec) :: d.res).reverse, evs := st.evs.reverse, err := e.map .dec }

/-- the loop of `CheckIntegrity` from the decoder's state (checksum forced on): header (unless already decoded by a peek),
`discardMessages` from where the decoder stands, CRC; ends when the first byte of a would-be next header meets `io.EOF`
after at least one byte was consumed. -/
def ciLoop : Nat → Nat → Dec → Prog Out
  | 0, seq, d => ciVerdict seq d d.st none
  | fuel + 1, seq, d =>
    headerOnce true d
      (fun e => if d.moved ∧ e = .eof then ciVerdict seq d d.st none else ciVerdict seq d d.st (some (.io e)))
      (fun e d => ciVerdict seq d d.st (some e))
      fun h d =>
        discard (fun st e => ciVerdict seq d st (some e)) true h.dataSize h.dataSize d.st fun st =>
          fileCrc (fun st e => ciVerdict seq d st (some e)) true st fun _ =>
            ciLoop fuel (seq + 1) { d with hdr := none, st := { st with cur := 0, crc := 0 } }

/-- **a history of calls on one decoder over one reader** (`fuelCi` bounds the sequences `CheckIntegrity` walks) -/
def run (fuelCi : Nat) : List Op → Dec → Prog Out
  | [], d => .ret (finish d [])
  | op :: ops, d =>
    match d.err with
    | some _ => .ret (finish d (op :: ops))
    | none =>
      -- the tail of `Decode` / `DecodeWithContext`: CRC, `reset()`
      let tail (h : Hdr) (d : Dec) (st : St) : Prog Out :=
        fileCrc (failOp d ops) d.chk st fun c =>
          run fuelCi ops (d.renew (.seq h.size h.protoVer h.profileVer h.dataSize h.crc c st.msgs :: st.evs) (.fit h c st.msgs))
      match op with
      | .decode | .decodeCtx false =>
        headerOnce d.chk d (fun e => hdrFail d ops (.io e)) (fun e d => hdrFail d ops e) fun h d =>
          messages (failOp d ops) d.chk h.dataSize h.dataSize d.fileId d.st fun _ st => tail h d st
      | .decodeCtx true =>
        .ret (finish { d with err := some .ctx, res := .err .ctx :: d.res } ops)
      | .decodeCtxAt n =>
        headerOnce d.chk d (fun e => hdrFail d ops (.io e)) (fun e d => hdrFail d ops e) fun h d =>
          messagesCtx (failOp d ops) d.chk h.dataSize
            (fun st => .ret (finish { d with st := st, err := some .ctx, res := .err .ctx :: d.res } ops))
            h.dataSize n d.fileId d.st fun _ st => tail h d st
      | .peekHeader =>
        headerOnce d.chk d (fun e => hdrFail d ops (.io e)) (fun e d => hdrFail d ops e) fun h d =>
          run fuelCi ops { d with res := .header h :: d.res }
      | .peekFileId =>
        headerOnce d.chk d (fun e => hdrFail d ops (.io e)) (fun e d => hdrFail d ops e) fun h d =>
          peekLoop (failOp d ops) d.chk h.dataSize h.dataSize d.fileId d.st fun fid st =>
            run fuelCi ops { d with st := st, fileId := fid, res := .fileId fid :: d.res }
      | .discard =>
        -- checksum off for the duration of the call
        headerOnce false d (fun e => hdrFail d ops (.io e)) (fun e d => hdrFail d ops e) fun h d =>
          discard (failOp d ops) false h.dataSize h.dataSize d.st fun st =>
            rdN (failOp d ops) false 2 st fun _ st => run fuelCi ops (d.renew st.evs .done)
      | .next =>
        if !d.moved then run fuelCi ops { d with res := .bool true :: d.res }
        else
          let dead (d : Dec) (e : Err) : Prog Out :=
            .ret (finish { d with err := some (.dec e), res := .bool (!e.endsIteration) :: d.res } ops)
          headerOnce d.chk d (fun e => dead d (.io e)) (fun e d => dead d e) fun _ d =>
            run fuelCi ops { d with res := .bool true :: d.res }
      | .checkIntegrity => ciLoop fuelCi 0 d

/-- `decoder.New(r, opts)` (`chk` = checksums not ignored), then the calls -/
def history (chk : Bool) (fuelCi : Nat) (ops : List Op) : Prog Out := run fuelCi ops { chk := chk }

end Fit.DecHist
