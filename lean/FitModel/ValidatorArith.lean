import FitModel.Validator
import FitModel.ScaleOffset
import FitModel.Generated.ValidatorFactory
/-!
The message validator with its arithmetic and its factory look-ups INSIDE the model (C10, composed with C12).

`Fit.Validator.validate` takes the float64 arithmetic of `scaleoffset.DiscardValue` and `Factory.CreateField` as
parameters (`D : Discard`, `Options.factory`). Here both are instantiated by models of the code they stand for:

* `D` — `Fit.ScaleOffset.discardValue`, the model of kit/scaleoffset's `DiscardValue` over the binary64 model
  `Fit.F64` (the definitions C12's theorems are about);
* `stdFactory` — `factory.StandardFactory().CreateField` read from `Generated/ValidatorFactory.lean`, which
  `fitharness regen validatorfac` prints from the compiled factory of /repo on every run (name known, base type,
  scale, offset of every field of every message).

So an operation line of the validator families no longer has to carry results of the real code (`dv:=`, `fac:s/=`):
the model computes the restored values and resolves the native-field overrides of developer fields itself.
A custom factory (`encoder.ValidatorWithFactory`) stays what it is for the code: an input (option) of the validator.

Guards. Go leaves float→integer conversion of NaN / ±Inf / out-of-range values to the platform; `Fit.F64.cvt`
reproduces amd64 and `ScaleOffset.discardValueFlag` says when that happened. `flagged` lifts the flag to a message
(under the validator state it is validated in): the theorems that state exact results exclude nothing by it — they
PROVE it false on their domain (`C10_restore_exact`) — and the correspondence check reports how many lines were flagged.
-/
namespace Fit.ValidatorA
open Fit.Gen Fit.Value Fit.Msg Fit.Validator

/-- `factory.StandardFactory().CreateField(mesgNum, num)` as far as `Validate` reads it; a field the factory does not
know has the name `factory.NameUnknown` -/
def stdFactory (mesgNum num : Nat) : FacEntry :=
  match Fit.Gen.VF.stdFields.find? (fun e => e.1 == mesgNum && e.2.1 == num) with
  | some e => { nameKnown := true, baseType := e.2.2.1, scale := e.2.2.2.1, offset := e.2.2.2.2 }
  | none => {}

/-- `scaleoffset.DiscardValue` itself (model of C12) -/
def D : Discard := Fit.ScaleOffset.discardValue

/-- the options of `encoder.NewMessageValidator()` (standard factory), with or without `ValidatorWithPreserveInvalidValues` -/
def stdOptions (omitInvalid : Bool) : Options := { omitInvalid := omitInvalid, factory := stdFactory }

/-- `Validate` with the arithmetic inside -/
def validateA (o : Options) (st : State) (m : Message) : Except Err Message × State := validate D o st m

/-! ### guards: platform-defined conversions -/

/-- restoring this field converts a NaN / ±Inf / out-of-range float64 to an integer type -/
def fieldFlag (f : Field) : Bool :=
  match f.base with
  | some b => !f.isExpanded && (scaleNotOne b.scale || offsetNotZero b.offset) &&
      Fit.ScaleOffset.discardValueFlag f.value b.baseType b.scale b.offset
  | none => false

/-- the same for a developer field under its field description (native override through `o.factory`, else the
description's own scale / offset) -/
def devFlag (o : Options) (fd : FieldDesc) (d : DevField) : Bool :=
  if fd.nativeMesgNum != mesgNumInvalid && fd.nativeFieldNum != uint8Invalid then
    let e := o.factory fd.nativeMesgNum fd.nativeFieldNum
    e.nameKnown && (scaleNotOne e.scale || offsetNotZero e.offset) &&
      Fit.ScaleOffset.discardValueFlag d.value e.baseType e.scale e.offset
  else if fd.scale != uint8Invalid && fd.offset != sint8Invalid then
    Fit.ScaleOffset.discardValueFlag d.value fd.btId (f64OfNat fd.scale) (f64OfInt8 fd.offset)
  else false

/-- some conversion made while validating `m` in state `st` is platform-defined -/
def flagged (o : Options) (st : State) (m : Message) : Bool :=
  m.fields.any fieldFlag ||
    (let st1 := (validate D o st m).2
     m.devFields.any fun d => match lookupFd st1.fds d with
       | some fd => devFlag o fd d
       | none => false)

end Fit.ValidatorA
