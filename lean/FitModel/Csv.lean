import FitModel.Message
import FitModel.Generated.CsvProfile
/-!
Model of the fitconv converters (/repo/cmd/fitconv/fitcsv: fit_to_csv.go, csv_to_fit.go, formatter.go) at the level
of CELLS: a CSV data line is the message name and a list of (field name, value, units) triples; a value is the list
of its `|`-separated pieces (`Atom`s).

* The TEXT layer is abstracted: decimal text ↔ integer and shortest float text ↔ float64 are taken as bijections
  (strconv contract), quoting as transparent (`encoding/csv`); text that matters as text (names, units, strings) is a
  byte list. What the reader decides from the text of a number — "contains a dot ⇒ scaled" — is kept as a fact of the atom.
* The ARITHMETIC of the scaled mode (`float64(raw)/scale − offset` written as text, read back as
  `T((x + offset)·scale)`) and of the degrees option is a PARAMETER (`Arith`): the theorems state the hypothesis
  "the round trip of the arithmetic is the identity on the values present" explicitly; the check tests that hypothesis
  on the implementation (op `csvarith`, through the two verif hooks of package fitcsv).
* The profile (names, units, base types, scales, components, sub-fields) and the reader's two lookup tables are the
  regenerated `Generated/CsvProfile.lean`.
* Messages are `Fit.Msg.Message`s as the decoder hands them over; only `num`, `baseType` of the field base are read (the
  rest comes from the profile table), plus `isExpanded`.
-/
namespace Fit.Csv
open Fit.Value Fit.Msg Fit.Gen Fit.Gen.Csv

abbrev Txt := List Nat

def txt (s : String) : Txt := s.toUTF8.toList.map (·.toNat)

structure Opts where
  raw : Bool := false
  verbose : Bool := false
  degrees : Bool := false
  trim : Bool := false
  deriving Repr, DecidableEq

/-- outcome of a step of the reader -/
inductive R (α : Type)
  | ok (a : α)
  | err          -- Convert returns an error
  | unmodelled   -- a path outside the model (text of one kind read as another)
  deriving Repr, DecidableEq

/-- the arithmetic of the scaled mode and of the degrees option, composed writer∘reader, per scalar:
`scaled v bt scale offset` = what `parseValue(format(ApplyValue(v, scale, offset)), bt, …, scale, offset)` returns
(`none` = error), `degrees s` = `ToSemicircles(ParseFloat(format(ToDegrees(s))))` on int32 patterns. -/
structure Arith where
  scaled : Value → Nat → Nat → Nat → Option Value
  degrees : Nat → Nat
  /-- a FLOAT cell (float64 bits of the text) read for a float32/float64 field WITH a scale or offset:
  `T(Discard(x, scale, offset))` (`none` = outside the model) -/
  fscaled : Nat → Nat → Nat → Nat → Option Value := fun _ _ _ _ => none
  /-- `parseValue(text, baseType, profileType == Bool, scale, offset, units)` on the TEXT of a piece as it stands in the CSV
  (an `Atom.raw`): the text layer, `parseValueT` of FitModel/CsvText.lean -/
  raw : List Nat → Nat → Bool → Nat → Nat → List Nat → R Value := fun _ _ _ _ _ _ => .unmodelled

/-- the hypothesis under which the converters can round-trip at all: the arithmetic gives every value back -/
def Arith.id : Arith := { scaled := fun v _ _ _ => some v, degrees := fun s => s, fscaled := fun _ _ _ _ => none }

/-- one `|`-separated piece of a value cell -/
inductive Atom
  | int (i : Int)                              -- decimal text of an integer
  | flt (bits : Nat)                           -- text of a float64: "x.0" for integral values, shortest 'g' otherwise
  | str (s : Txt)                              -- any other text
  | scaled (v : Value) (scale offset : Nat)    -- text of float64(v)/scale − offset, v a numeric scalar
  | degrees (semi : Nat)                       -- text of ToDegrees(int32 pattern)
  | raw (t : List Nat)                         -- the text of a piece as read from a CSV file (text layer: FitModel/CsvText.lean)
  deriving Repr, DecidableEq

structure Cell where
  name : Txt
  val : List Atom
  units : Txt
  deriving Repr, DecidableEq

inductive Line
  | data (mesgName : Txt) (cells : List Cell)
  | definition (nFields : Nat)
  deriving Repr, DecidableEq

/-! ### profile access -/

def f64One : Nat := 0x3FF0000000000000

def pmesg (n : Nat) : Option PMesg := profile.find? (·.num == n)

/-- `factory.CreateField(mesgNum, num)` when the field is known -/
def pfield (mesgNum num : Nat) : Option PField :=
  match pmesg mesgNum with
  | some m => m.fields.find? (·.num == num)
  | none => none

def unknownTxt : Txt := txt nameUnknown

/-- decimal digits of `n` as bytes (`strconv.Itoa`; the text layer is taken per contract, see the header) -/
def natDigits (n : Nat) : Txt := if n < 10 then [48 + n] else natDigits (n / 10) ++ [48 + n % 10]
termination_by n
decreasing_by omega

/-- `strconv.FormatInt(i, 10)` / `FormatUint`: the decimal text of an integer -/
def intText (i : Int) : Txt := if i < 0 then 45 :: natDigits i.natAbs else natDigits i.natAbs

/-- `formatUnknown(n)` = "unknown(n)" -/
def formatUnknown (n : Nat) : Txt := unknownTxt ++ txt "(" ++ natDigits n ++ txt ")"

/-- message name as the writer prints it: `MesgNum.String()`, or unknown / unknown(N) for an unlisted number -/
def mesgNameOf (o : Opts) (n : Nat) : Txt :=
  match (if n ≥ mfgRangeMin then none else mesgNames.lookup n) with   -- manufacturer specific numbers are written as unknown
  | some s => txt s
  | none => if o.verbose then formatUnknown n else unknownTxt

def baseTypeName (bt : Nat) : Txt :=
  match baseTypeNames.lookup bt with
  | some s => txt s
  | none => txt "invalid"   -- BaseType.String() of an invalid base type: never taken for a decoded field

/-- `basetype.FromString(units)` (255 when it is no base type name) -/
def baseTypeFromName (u : Txt) : Nat :=
  match baseTypeNames.find? (fun p => txt p.2 == u) with
  | some p => p.1
  | none => 255

/-! ### values → atoms (formatter.go) -/

/-- the value of an intN pattern -/
def sint (w v : Nat) : Int := if v % 2 ^ w ≥ 2 ^ (w - 1) then (v % 2 ^ w : Int) - 2 ^ w else (v % 2 ^ w : Int)

/-- float32 bits → bits of the same number as float64 (`float64(value)`; NaNs keep sign and the top payload bits) -/
def widen32 (b : Nat) : Nat :=
  let s := b / 2 ^ 31 % 2
  let e := b / 2 ^ 23 % 256
  let m := b % 2 ^ 23
  if e == 255 then s * 2 ^ 63 + 2047 * 2 ^ 52 + (if m == 0 then 0 else (m * 2 ^ 29) ||| 2 ^ 51)
  else if e == 0 then
    if m == 0 then s * 2 ^ 63
    else
      -- subnormal float32: normalise
      let k := m.log2            -- position of the leading one, 0..22
      s * 2 ^ 63 + (1023 - 126 - (23 - k)) * 2 ^ 52 + ((m - 2 ^ k) * 2 ^ (52 - k))
  else s * 2 ^ 63 + (e + 1023 - 127) * 2 ^ 52 + m * 2 ^ 29

/-- the text of the float64 surely contains a '.', which is what sends a cell through the reader's scaled path: a finite
value below 2^63 in magnitude that is 0 or at least 1e-4 is printed "x.0" (integral) or in positional notation with a
fraction. (Outside: 'g' prints a one-digit mantissa as "1e-05" / "1e+20", without one.) -/
def dotSure (b : Nat) : Bool :=
  let a := b % 2 ^ 63
  a / 2 ^ 52 < 1023 + 63 && (a == 0 || a ≥ 0x3F1A36E2EB1C432D)

def isNaN64 (b : Nat) : Bool := b / 2 ^ 52 % 2048 == 2047 && b % 2 ^ 52 != 0
def isNaN32 (b : Nat) : Bool := b / 2 ^ 23 % 256 == 255 && b % 2 ^ 23 != 0

/-- the filter of `format` on strings: `unicode.IsPrint(r) && r != '"'`, on ASCII bytes; bytes ≥ 0x80 are kept
(printable multi-byte runes; other content is outside the modelled alphabet) -/
def keepByte (b : Nat) : Bool := (32 ≤ b && b ≤ 126 && b != 34) || b ≥ 128

def fmtStr (s : Txt) : Txt := s.filter keepByte

def natAtom (n : Nat) : Atom := .int (n : Int)

/-- `format(val)`: the pieces of the value cell. -/
def formatAtoms : Value → List Atom
  | .invalid => [.str (txt "{0 <nil>}")]        -- fmt.Sprintf("%v", val); no decoded field carries it
  | .bool v => [.int (v % 256)]
  | .int8 v => [.int (sint 8 v)]
  | .uint8 v => [.int (v % 2 ^ 8)]
  | .int16 v => [.int (sint 16 v)]
  | .uint16 v => [.int (v % 2 ^ 16)]
  | .int32 v => [.int (sint 32 v)]
  | .uint32 v => [.int (v % 2 ^ 32)]
  | .int64 v => [.int (sint 64 v)]
  | .uint64 v => [.int (v % 2 ^ 64)]
  | .float32 b => [.flt (widen32 b)]
  | .float64 b => [.flt b]
  | .string s => [.str (fmtStr s)]
  | .sliceBool vs => vs.map fun v => natAtom (v % 256)
  | .sliceInt8 vs => vs.map fun v => .int (sint 8 v)
  | .sliceUint8 vs => vs.map fun v => natAtom (v % 2 ^ 8)
  | .sliceInt16 vs => vs.map fun v => .int (sint 16 v)
  | .sliceUint16 vs => vs.map fun v => natAtom (v % 2 ^ 16)
  | .sliceInt32 vs => vs.map fun v => .int (sint 32 v)
  | .sliceUint32 vs => vs.map fun v => natAtom (v % 2 ^ 32)
  | .sliceInt64 vs => vs.map fun v => .int (sint 64 v)
  | .sliceUint64 vs => vs.map fun v => natAtom (v % 2 ^ 64)
  | .sliceFloat32 vs => vs.map fun b => .flt (widen32 b)
  | .sliceFloat64 vs => vs.map fun b => .flt b
  | .sliceString vs => vs.map fun s => .str (fmtStr s)

/-- `strings.Split(s, "|")` on bytes -/
def splitBar : Txt → List Txt
  | [] => [[]]
  | b :: bs =>
    match splitBar bs with
    | [] => [[b]]     -- not reached
    | p :: ps => if b == 124 then [] :: p :: ps else (b :: p) :: ps

/-- `strings.Split(text, "|")` of the formatted cell: an empty slice prints as "" = one empty piece, and a `|` inside
a string separates pieces like the `|` between elements -/
def cellPieces (as : List Atom) : List Atom :=
  if as.isEmpty then [.str []] else
  as.flatMap fun a => match a with
    | .str s => (splitBar s).map .str
    | a => [a]

/-- the scalars of a numeric value (what `ApplyValue` scales one by one); `none` for bool / string / invalid values -/
def scalarsOf : Value → Option (List Value)
  | .int8 v => some [.int8 v] | .uint8 v => some [.uint8 v] | .int16 v => some [.int16 v] | .uint16 v => some [.uint16 v]
  | .int32 v => some [.int32 v] | .uint32 v => some [.uint32 v] | .int64 v => some [.int64 v] | .uint64 v => some [.uint64 v]
  | .float32 v => some [.float32 v] | .float64 v => some [.float64 v]
  | .sliceInt8 vs => some (vs.map .int8) | .sliceUint8 vs => some (vs.map .uint8)
  | .sliceInt16 vs => some (vs.map .int16) | .sliceUint16 vs => some (vs.map .uint16)
  | .sliceInt32 vs => some (vs.map .int32) | .sliceUint32 vs => some (vs.map .uint32)
  | .sliceInt64 vs => some (vs.map .int64) | .sliceUint64 vs => some (vs.map .uint64)
  | .sliceFloat32 vs => some (vs.map .float32) | .sliceFloat64 vs => some (vs.map .float64)
  | _ => none

def isScaledField (scale offset : Nat) : Bool := !(scale == f64One && (offset == 0 || offset == 2 ^ 63))

def semicirclesTxt : Txt := txt "semicircles"
def degreesTxt : Txt := txt "degrees"

/-- `Value.Int32()` -/
def int32Of : Value → Nat
  | .int32 v => v % 2 ^ 32
  | _ => sint32Invalid

/-- the value cell of a native field: raw, scaled (`ApplyValue`), or in degrees -/
def fieldAtoms (o : Opts) (units : Txt) (scale offset : Nat) (v : Value) : List Atom :=
  let scaledMode := !o.raw && isScaledField scale offset
  if o.degrees && units == semicirclesTxt then
    -- value = proto.Float64(ToDegrees(value.Int32())) on the possibly scaled value
    if scaledMode && (scalarsOf v).isSome then [.degrees sint32Invalid] else [.degrees (int32Of v)]
  else if scaledMode then
    match scalarsOf v with
    | some ss => cellPieces (ss.map fun s => .scaled s scale offset)
    | none => cellPieces (formatAtoms v)
  else cellPieces (formatAtoms v)

/-! ### sub-field substitution on output (`Field.SubFieldSubtitution`) -/

def hasNum (n : Nat) (f : Field) : Bool :=
  match f.base with
  | some b => b.num == n
  | none => false

/-- `convertToInt64(value)` of package proto: `int64(val.num)` — sign-extended for signed types -/
def toInt64 : Value → Option Int
  | .int8 v => some (sint 8 v) | .uint8 v => some (v % 2 ^ 8) | .int16 v => some (sint 16 v) | .uint16 v => some (v % 2 ^ 16)
  | .int32 v => some (sint 32 v) | .uint32 v => some (v % 2 ^ 32) | .int64 v => some (sint 64 v) | .uint64 v => some (sint 64 v)
  | _ => none

def mapMatches (fields : List Field) (mp : Nat × Int) : Bool :=
  match fields.find? (hasNum mp.1) with
  | some f => toInt64 f.value == some mp.2
  | none => false

/-- the first sub-field one of whose maps matches -/
def substitute (fields : List Field) (subs : List PSub) : Option PSub :=
  subs.find? fun s => s.maps.any (mapMatches fields)

/-! ### field descriptions (`mesgdef.NewFieldDescription`) -/

structure Desc where
  devIdx : Nat
  num : Nat
  name : Txt          -- strings.Join(FieldName, "|")
  units : Txt
  bt : Nat
  scale : Nat         -- uint8, 255 = invalid
  offset : Nat        -- int8 pattern, 127 = invalid
  deriving Repr, DecidableEq

def fvalOf (m : Message) (n : Nat) : Value :=
  match m.fields.reverse.find? (hasNum n) with   -- `vals[num] = value`: the LAST field with the number wins
  | some f => f.value
  | none => .invalid

def joinBar : List Txt → Txt
  | [] => []
  | [s] => s
  | s :: rest => s ++ [124] ++ joinBar rest

def sliceStringOf : Value → List Txt
  | .sliceString vs => vs
  | _ => []

def u8Of : Value → Nat
  | .uint8 v => v % 256
  | _ => 255

def i8Of : Value → Nat
  | .int8 v => v % 256
  | _ => 127

def fnFieldDescDevIdx : Nat := 0
def fnFieldDescNum : Nat := 1
def fnFieldDescBaseType : Nat := 2
def fnFieldDescName : Nat := 3
def fnFieldDescScale : Nat := 6
def fnFieldDescOffset : Nat := 7
def fnFieldDescUnits : Nat := 8

/-- only fields the factory knows by name reach `vals` (the others go to UnknownFields) -/
def knownFieldsOnly (m : Message) : Message :=
  { m with fields := m.fields.filter fun f => match f.base with
      | some b => (pfield m.num b.num).isSome
      | none => false }

def descOf (m0 : Message) : Desc :=
  let m := knownFieldsOnly m0
  { devIdx := u8Of (fvalOf m fnFieldDescDevIdx), num := u8Of (fvalOf m fnFieldDescNum),
    name := joinBar (sliceStringOf (fvalOf m fnFieldDescName)), units := joinBar (sliceStringOf (fvalOf m fnFieldDescUnits)),
    bt := u8Of (fvalOf m fnFieldDescBaseType), scale := u8Of (fvalOf m fnFieldDescScale), offset := i8Of (fvalOf m fnFieldDescOffset) }

/-- `getFieldDescription`: the MOST RECENT description of the pair wins -/
def findDesc (ds : List Desc) (devIdx num : Nat) : Option Desc := ds.reverse.find? fun d => d.devIdx == devIdx && d.num == num

/-! ### FIT → CSV (`writeMesg`) -/

def fieldNumOf (f : Field) : Nat := match f.base with | some b => b.num | none => 0
def fieldBtOf (f : Field) : Nat := match f.base with | some b => b.baseType | none => 0

/-- the (name, value, units) triple of a native field -/
def writeField (o : Opts) (m : Message) (f : Field) : Cell :=
  match pfield m.num (fieldNumOf f) with
  | some p =>
    let (name, units) := match substitute m.fields p.subs with
      | some s => (txt s.name, txt s.units)
      | none => (txt p.name, txt p.units)
    let units' := if o.degrees && txt p.units == semicirclesTxt then degreesTxt else units
    ⟨name, fieldAtoms o (txt p.units) p.scale p.offset f.value, units'⟩
  | none =>
    -- unknown field: scale 1, offset 0, no units
    if o.verbose then ⟨formatUnknown (fieldNumOf f), cellPieces (formatAtoms f.value), baseTypeName (fieldBtOf f)⟩
    else ⟨unknownTxt, cellPieces (formatAtoms f.value), []⟩

def writeDev (o : Opts) (ds : List Desc) (d : DevField) : Cell :=
  match findDesc ds d.devIdx d.num with
  | some desc => ⟨desc.name, cellPieces (formatAtoms d.value), desc.units⟩
  | none => ⟨if o.verbose then formatUnknown d.num else unknownTxt, cellPieces (formatAtoms d.value), []⟩

def mnFieldDescription : Nat := 206
def mnFileId : Nat := 0

/-- one data line; the description list grows on every field_description message (and is never reset) -/
def writeMesg (o : Opts) (ds : List Desc) (m : Message) : Line × List Desc :=
  let ds' := if m.num == mnFieldDescription then ds ++ [descOf m] else ds
  (.data (mesgNameOf o m.num) (m.fields.map (writeField o m) ++ m.devFields.map (writeDev o ds')), ds')

def writeMesgs (o : Opts) : List Desc → List Message → List Line
  | _, [] => []
  | ds, m :: ms => let r := writeMesg o ds m; r.1 :: writeMesgs o r.2 ms

/-- the data lines of a chain of files, in order (the definition lines only matter for the column count) -/
def toCsv (o : Opts) (files : List (List Message)) : List Line := writeMesgs o [] files.flatten

/-! ### column counts -/

def nTriples : Line → Nat
  | .data _ cells => cells.length
  | .definition n => n

def commasIn (t : Txt) : Nat := t.count 44

/-- columns of a line as written to the temporary buffer: 3 + 3·k (a name or units cell containing a comma or a quote
is written quoted — `writeCell` — and stays one column) -/
def lineCells (l : Line) : Nat := 3 + 3 * nTriples l

def maxFields (ls : List Line) : Nat := ls.foldl (fun a l => max a (nTriples l)) 0

/-- number of columns of each line of the final CSV, header first: padded to the header's count unless trimming -/
def columns (o : Opts) (ls : List Line) : List Nat :=
  let hdr := 3 + 3 * maxFields ls
  hdr :: ls.map fun l => if o.trim then lineCells l else lineCells l + (hdr - lineCells l)

/-! ### CSV → FIT: values (`parseValue`, `packValues`) -/

def btIsUint8 (bt : Nat) : Bool := bt == btEnum || bt == btByte || bt == btUint8 || bt == btUint8z

def inRangeU (w : Nat) (i : Int) : Bool := 0 ≤ i && i < 2 ^ w
def inRangeS (w : Nat) (i : Int) : Bool := -(2 ^ (w - 1) : Int) ≤ i && i < 2 ^ (w - 1)
/-- two's-complement pattern of an in-range integer -/
def pat (w : Nat) (i : Int) : Nat := (i % (2 ^ w : Int)).toNat

/-- float64 bits → float32 bits for a value that IS a float32 (inverse of `widen32`); "NaN" reads back as the invalid value -/
def narrow32 (b : Nat) : Nat :=
  let s := b / 2 ^ 63 % 2
  let e := b / 2 ^ 52 % 2048
  let m := b % 2 ^ 52
  if e == 2047 then (if m == 0 then s * 2 ^ 31 + 255 * 2 ^ 23 else float32Invalid)
  else if e == 0 then s * 2 ^ 31
  else if e + 127 ≤ 1023 then
    -- subnormal float32: e + 127 - 1023 ≤ 0
    let shift := 1023 - 126 - e       -- 1..23 for values produced by `widen32`
    s * 2 ^ 31 + ((2 ^ 52 + m) / 2 ^ (29 + shift))
  else s * 2 ^ 31 + (e + 127 - 1023) * 2 ^ 23 + m / 2 ^ 29

/-- what the text "NaN" parses to before `parseValue` replaces it by the invalid value -/
def canonNaN64 : Nat := 0x7FF8000000000001

/-- "contains a '.'": what sends a text through the reader's scaled path -/
def hasDot (s : Txt) : Bool := s.contains 46

/-- `parseValue(piece, baseType, profileType, scale, offset, units)` -/
def parseAtom (ar : Arith) (a : Atom) (bt : Nat) (isBool : Bool) (scale offset : Nat) (units : Txt) : R Value :=
  if let .raw t := a then ar.raw t bt isBool scale offset units else
  if units == degreesTxt && bt == btSint32 then
    match a with
    | .degrees s => .ok (.int32 (ar.degrees s))
    | _ => .unmodelled
  else if isBool then
    match a with
    | .int i => if inRangeU 8 i then .ok (mkBool i.toNat) else .err
    | _ => .unmodelled
  else
  match a with
  | .int i =>
    if btIsUint8 bt then (if inRangeU 8 i then .ok (.uint8 i.toNat) else .err)
    else if bt == btSint8 then (if inRangeS 8 i then .ok (.int8 (pat 8 i)) else .err)
    else if bt == btSint16 then (if inRangeS 16 i then .ok (.int16 (pat 16 i)) else .err)
    else if bt == btUint16 || bt == btUint16z then (if inRangeU 16 i then .ok (.uint16 i.toNat) else .err)
    else if bt == btSint32 then (if inRangeS 32 i then .ok (.int32 (pat 32 i)) else .err)
    else if bt == btUint32 || bt == btUint32z then (if inRangeU 32 i then .ok (.uint32 i.toNat) else .err)
    else if bt == btSint64 then (if inRangeS 64 i then .ok (.int64 (pat 64 i)) else .err)
    else if bt == btUint64 || bt == btUint64z then (if inRangeU 64 i then .ok (.uint64 i.toNat) else .err)
    else if bt == btString then .ok (.string (intText i))
    else if bt == btFloat32 || bt == btFloat64 then .unmodelled
    else .ok .invalid       -- no case of the switch: the zero Value, no error
  | .flt b =>
    if bt == btFloat32 then
      if isScaledField scale offset then
        (if dotSure b then (match ar.fscaled b bt scale offset with | some v => .ok v | none => .unmodelled) else .unmodelled)
      else .ok (.float32 (narrow32 b))
    else if bt == btFloat64 then
      if isScaledField scale offset then
        (if dotSure b then (match ar.fscaled b bt scale offset with | some v => .ok v | none => .unmodelled) else .unmodelled)
      else .ok (.float64 (if isNaN64 b then float64Invalid else b))
    else if bt == btString then .unmodelled
    else if b / 2 ^ 52 % 2048 == 2047 then .err     -- "NaN", "+Inf", "-Inf" have no dot: ParseInt / ParseUint fail
    else .unmodelled
  | .str s =>
    if bt == btString then .ok (.string s)
    else if bt == btFloat32 || bt == btFloat64 || btIsUint8 bt || bt == btSint8 || bt == btSint16 || bt == btUint16 || bt == btUint16z ||
      bt == btSint32 || bt == btUint32 || bt == btUint32z || bt == btSint64 || bt == btUint64 || bt == btUint64z then
      (if s.isEmpty then .err else .unmodelled)
    else if hasDot s then .unmodelled      -- no case of the switch, but a text with a '.' goes through ParseFloat first
    else .ok .invalid
  | .scaled v sc off =>
    if bt == btString then .unmodelled      -- a string field takes the text as it is, which this piece does not carry
    else if sc == scale && off == offset then
      match ar.scaled v bt scale offset with
      | some r => .ok r
      | none => .err
    else .unmodelled
  | .degrees _ => .unmodelled
  | .raw t => ar.raw t bt isBool scale offset units

def mapR {α β : Type} (f : α → R β) : List α → R (List β)
  | [] => .ok []
  | a :: as =>
    match f a with
    | .ok b =>
      match mapR f as with
      | .ok bs => .ok (b :: bs)
      | .err => .err
      | .unmodelled => .unmodelled
    | .err => .err
    | .unmodelled => .unmodelled

/-- `packValues(vals)`: the slice type is the first element's; the others are read with that type's accessor -/
def packValues (vs : List Value) : Value :=
  match vs with
  | [] => .invalid
  | .bool _ :: _ => .sliceBool (vs.map fun | .bool v => v % 256 | _ => boolInvalid)
  | .int8 _ :: _ => .sliceInt8 (vs.map fun | .int8 v => v % 2 ^ 8 | _ => sint8Invalid)
  | .uint8 _ :: _ => .sliceUint8 (vs.map fun | .uint8 v => v % 2 ^ 8 | _ => uint8Invalid)
  | .int16 _ :: _ => .sliceInt16 (vs.map fun | .int16 v => v % 2 ^ 16 | _ => sint16Invalid)
  | .uint16 _ :: _ => .sliceUint16 (vs.map fun | .uint16 v => v % 2 ^ 16 | _ => uint16Invalid)
  | .int32 _ :: _ => .sliceInt32 (vs.map fun | .int32 v => v % 2 ^ 32 | _ => sint32Invalid)
  | .uint32 _ :: _ => .sliceUint32 (vs.map fun | .uint32 v => v % 2 ^ 32 | _ => uint32Invalid)
  | .int64 _ :: _ => .sliceInt64 (vs.map fun | .int64 v => v % 2 ^ 64 | _ => sint64Invalid)
  | .uint64 _ :: _ => .sliceUint64 (vs.map fun | .uint64 v => v % 2 ^ 64 | _ => uint64Invalid)
  | .float32 _ :: _ => .sliceFloat32 (vs.map fun | .float32 v => v | _ => float32Invalid)
  | .float64 _ :: _ => .sliceFloat64 (vs.map fun | .float64 v => v | _ => float64Invalid)
  | .string _ :: _ => .sliceString (vs.map fun | .string s => s | _ => [])
  | _ => .invalid

/-- value of a cell: an array when it has several pieces or the field is an array field -/
def parseCellValue (ar : Arith) (val : List Atom) (bt : Nat) (isBool array : Bool) (scale offset : Nat) (units : Txt) : R Value :=
  if val.length != 1 || array then
    match mapR (fun a => parseAtom ar a bt isBool scale offset units) val with
    | .ok vs => .ok (packValues vs)
    | .err => .err
    | .unmodelled => .unmodelled
  else
    match val with
    | [a] => parseAtom ar a bt isBool scale offset units
    | _ => .unmodelled

/-! ### CSV → FIT: names -/

def isDigit (b : Nat) : Bool := 48 ≤ b && b ≤ 57

/-- the ASCII digits of a name (`strings.Map(unicode.IsDigit …)`; names outside ASCII are outside the model) -/
def digitsOf (s : Txt) : Txt := s.filter isDigit

def natOfDigits (s : Txt) : Nat := s.foldl (fun a d => a * 10 + (d - 48)) 0

def lookupMesgNum (name : Txt) : Option Nat := (mesgNumLookup.find? fun p => txt p.1 == name).map (·.2)

def lookupFieldNum (mesgNum : Nat) (name : Txt) : Option Nat :=
  if mesgNum < fieldNumLookupLen then
    match fieldNumLookup.lookup mesgNum with
    | some row => (row.find? fun p => txt p.1 == name).map (·.2)
    | none => none
  else none

def isPrefixOf' (p s : Txt) : Bool := s.take p.length == p

/-- what a cell turns into -/
inductive Parsed
  | field (f : Field)
  | dev (d : DevField)
  | placeholder (name : Txt) (val : List Atom)
  | skip
  deriving Repr

def mkField (num bt : Nat) (v : Value) : Field := { base := some { num := num, baseType := bt }, value := v }

/-- `createField` / `createDeveloperField` / placeholder for one (name, value, units) triple of message `mesgNum` -/
def readCell (ar : Arith) (ds : List Desc) (mesgNum : Nat) (c : Cell) : R Parsed :=
  if c.name.isEmpty then .ok .skip else
  let native : Option (Nat × Bool) :=
    match lookupFieldNum mesgNum c.name with
    | some n => some (n, false)
    | none =>
      if isPrefixOf' unknownTxt c.name then
        let ds := digitsOf c.name
        if ds.isEmpty then none else some (natOfDigits ds, true)
      else none
  match native with
  | some (num, recoverable) =>
    if recoverable && num ≥ 256 then .err else
    -- factory.CreateField: known → its base; unknown → {BaseType: 0, Scale: 1}
    let p := pfield mesgNum num
    let bt := if recoverable then baseTypeFromName c.units else (match p with | some p => p.bt | none => 0)
    let isBool := if recoverable then false else (match p with | some p => p.isBool | none => false)
    let array := match p with | some p => p.array | none => false
    let scale := match p with | some p => p.scale | none => f64One
    let offset := match p with | some p => p.offset | none => 0
    match parseCellValue ar c.val bt isBool array scale offset c.units with
    | .ok v => .ok (.field (mkField num bt v))
    | .err => .err
    | .unmodelled => .unmodelled
  | none =>
    if isPrefixOf' unknownTxt c.name then .ok .skip else     -- unknown without a number: unknownField++
    -- the most recent description with that name; its scale and offset are NOT used: the writer prints developer
    -- field values as they are (/repo fix of KF-C19-6)
    match ds.reverse.find? (fun d => d.name == c.name) with
    | some d =>
      let r := if c.val.length != 1 then
          match mapR (fun a => parseAtom ar a d.bt false f64One 0 c.units) c.val with
          | .ok vs => R.ok (packValues vs)
          | .err => .err
          | .unmodelled => .unmodelled
        else match c.val with
          | [a] => parseAtom ar a d.bt false f64One 0 c.units
          | _ => .unmodelled
      match r with
      | .ok .invalid => .ok (.placeholder c.name c.val)
      | .ok v => .ok (.dev ⟨d.devIdx, d.num, v⟩)
      | .err => .err
      | .unmodelled => .unmodelled
    | none => .ok (.placeholder c.name c.val)

/-! ### CSV → FIT: messages (`createMesg`) -/

def fvalFirst (fs : List Field) (n : Nat) : Value :=
  match fs.find? (hasNum n) with
  | some f => f.value
  | none => .invalid

/-- `revertSubFieldSubtitution`: the main field whose sub-field carries the name and one of whose maps matches the
message as read so far; the value is parsed with the MAIN field's base type, scale, offset and units -/
def revert (ar : Arith) (mesgNum : Nat) (fields : List Field) (name : Txt) (val : List Atom) : R (Option Field) :=
  match pmesg mesgNum with
  | none => .ok none
  | some pm =>
    let cands := pm.fields.flatMap fun p => (p.subs.filter fun s => txt s.name == name).flatMap fun s => s.maps.map fun mp => (p, mp)
    match cands.find? (fun c => toInt64 (fvalFirst fields c.2.1) == some c.2.2) with
    | some (p, _) =>
      -- a single `parseValue` on the whole text (no split at `|`)
      match val with
      | [a] =>
        match parseAtom ar a p.bt p.isBool p.scale p.offset (txt p.units) with
        | .ok v => .ok (some (mkField p.num p.bt v))
        | .err => .err
        | .unmodelled => .unmodelled
      | _ => .unmodelled
    | none => .ok none

/-- placeholder slots are `none` until reverted -/
abbrev Slot := Field ⊕ (Txt × List Atom)

def placeholderField : Field := { base := some { num := 255, baseType := 0 }, value := .invalid }

def slotField : Slot → Field
  | .inl f => f
  | .inr _ => placeholderField

/-- a placeholder that has not been looked at yet -/
def pendingSlot (s : Slot) : Bool :=
  match s with
  | .inr (n, _) => !n.isEmpty
  | _ => false

/-- the field of a slot that is not a placeholder -/
def slotDone (s : Slot) : Option Field :=
  match s with
  | .inl f => some f
  | .inr _ => none

/-- revert the placeholders one after the other (each sees the earlier replacements) -/
def revertAll (ar : Arith) (mesgNum : Nat) : Nat → List Slot → R (List Slot)
  | 0, slots => .ok slots
  | fuel + 1, slots =>
    match slots.findIdx? pendingSlot with
    | none => .ok slots
    | some i =>
      match slots[i]? with
      | some (.inr (name, val)) =>
        match revert ar mesgNum (slots.map slotField) name val with
        | .ok (some f) => revertAll ar mesgNum fuel (slots.set i (.inl f))
        | .ok none => revertAll ar mesgNum fuel (slots.set i (.inr ([], val)))   -- stays a placeholder (unknownDynamicField++)
        | .err => .err
        | .unmodelled => .unmodelled
      | _ => .ok slots

/-- `removeExpandedComponents`: every present field that is a component target of a present field (or of one of its
sub-fields) is removed — `RemoveFieldByNum`, the first field with that number -/
def removeField (n : Nat) : List Field → List Field
  | [] => []
  | f :: fs => if hasNum n f then fs else f :: removeField n fs

/-- component targets of a field: its own components and those of all its sub-fields -/
def targetsOf (mesgNum : Nat) (f : Field) : List Nat :=
  match pfield mesgNum (fieldNumOf f) with
  | some p => p.comps ++ p.subs.flatMap (·.comps)
  | none => []

def removeExpanded (mesgNum : Nat) (fields : List Field) : List Field :=
  let present := fields.map fieldNumOf
  let targets := fields.flatMap (targetsOf mesgNum)
  let cands := (targets.filter present.contains).eraseDups
  cands.foldl (fun fs n => removeField n fs) fields

def parseCells (ar : Arith) (ds : List Desc) (mesgNum : Nat) : List Cell → R (List Slot × List DevField)
  | [] => .ok ([], [])
  | c :: cs =>
    match readCell ar ds mesgNum c with
    | .err => .err
    | .unmodelled => .unmodelled
    | .ok p =>
      match parseCells ar ds mesgNum cs with
      | .err => .err
      | .unmodelled => .unmodelled
      | .ok (slots, devs) =>
        match p with
        | .field f => .ok (.inl f :: slots, devs)
        | .dev d => .ok (slots, d :: devs)
        | .placeholder n v => .ok (.inr (n, v) :: slots, devs)
        | .skip => .ok (slots, devs)

def createMesg (ar : Arith) (ds : List Desc) (mesgNum : Nat) (cells : List Cell) : R Message :=
  match parseCells ar ds mesgNum cells with
  | .err => .err
  | .unmodelled => .unmodelled
  | .ok (slots, devs) =>
    match revertAll ar mesgNum slots.length slots with
    | .err => .err
    | .unmodelled => .unmodelled
    | .ok slots' =>
      let fields := slots'.filterMap slotDone
      .ok { num := mesgNum, fields := removeExpanded mesgNum fields, devFields := devs }

/-! ### CSV → FIT: lines and sequences (`convert`) -/

structure RState where
  ds : List Desc := []
  seq : Nat := 0
  cur : List Message := []          -- messages of the sequence being built (reversed)
  done : List (List Message) := []  -- finished sequences (reversed)
  deriving Repr

def readLine (ar : Arith) (s : RState) : Line → R RState
  | .definition _ => .ok s
  | .data name cells =>
    let num? : R (Option Nat) :=
      match lookupMesgNum name with
      | some n => .ok (some n)
      | none =>
        let d := digitsOf name
        if d.isEmpty then .ok none
        else if natOfDigits d < 65536 then .ok (some (natOfDigits d)) else .err
    match num? with
    | .err => .err
    | .unmodelled => .unmodelled
    | .ok none => .ok s                       -- unknownMesg++
    | .ok (some num) =>
      let s1 := if num == mnFileId then
          (if s.seq != 0 then { s with done := s.cur.reverse :: s.done, cur := [], seq := s.seq + 1 } else { s with seq := s.seq + 1 })
        else s
      if cells.isEmpty then .ok s1 else        -- `len(record) < 6`
      match createMesg ar s1.ds num cells with
      | .err => .err
      | .unmodelled => .unmodelled
      | .ok m =>
        if m.fields.isEmpty && m.devFields.isEmpty then .ok s1 else
        let ds' := if num == mnFieldDescription then s1.ds ++ [descOf m] else s1.ds
        .ok { s1 with ds := ds', cur := m :: s1.cur }

def readLines (ar : Arith) : RState → List Line → R RState
  | s, [] => .ok s
  | s, l :: ls =>
    match readLine ar s l with
    | .ok s' => readLines ar s' ls
    | .err => .err
    | .unmodelled => .unmodelled

/-! ### the encoder's gate (encoder/validator.go `Validate`, only what decides success here) -/

def mnDeveloperDataId : Nat := 207

/-- `valueIntegrity` per field (`Value.Align`), developer fields need their developer_data_id and field_description
earlier in the SAME sequence (first match) and a value aligned with the description's base type -/
def gateSeq : List Nat → List Desc → List Message → Bool
  | _, _, [] => true
  | ids, ds, m :: ms =>
    m.fields.all (fun f => f.isExpanded || align f.value (fieldBtOf f)) &&
    (let ids' := if m.num == mnDeveloperDataId then ids ++ [u8Of (fvalFirst m.fields 3)] else ids
     let ds' := if m.num == mnFieldDescription then ds ++ [descOf m] else ds
     m.devFields.all (fun d => ids'.contains d.devIdx &&
        match ds'.find? (fun e => e.devIdx == d.devIdx && e.num == d.num) with   -- the validator's own (first) match
        | some desc => align d.value desc.bt
        | none => false) &&
     gateSeq ids' ds' ms)

structure Back where
  seqs : List (List Message)   -- the sequences handed to the encoder, in order (the last one also when it is empty)
  seq : Nat                    -- `ResultInfo().Sequence`
  deriving Repr

/-- what `CSVToFITConv.convert` hands to the encoder: the sequences, in order -/
def fromCsvPre (ar : Arith) (ls : List Line) : R Back :=
  match readLines ar {} ls with
  | .ok s => .ok ⟨(s.cur.reverse :: s.done).reverse, s.seq⟩
  | .err => .err
  | .unmodelled => .unmodelled

/-- `CSVToFITConv.Convert`: an empty sequence or a message the validator rejects makes Encode return an error -/
def fromCsv (ar : Arith) (ls : List Line) : R Back :=
  match fromCsvPre ar ls with
  | .ok b => if b.seqs.all (fun q => !q.isEmpty && gateSeq [] [] q) then .ok b else .err
  | .err => .err
  | .unmodelled => .unmodelled

end Fit.Csv
