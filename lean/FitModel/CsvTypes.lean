/-! Shapes of the regenerated profile table the CSV model reads (`Generated/CsvProfile.lean`). -/
namespace Fit.Csv

/-- a sub-field: name, units, the (reference field number, reference value) maps, component targets -/
structure PSub where
  name : String
  units : String
  maps : List (Nat × Int)
  comps : List Nat
  deriving Repr, DecidableEq, Inhabited

/-- what the converters read from a field's `FieldBase`: scale and offset are float64 bit patterns -/
structure PField where
  num : Nat
  name : String
  units : String
  bt : Nat
  isBool : Bool
  array : Bool
  scale : Nat
  offset : Nat
  comps : List Nat
  subs : List PSub
  deriving Repr, DecidableEq, Inhabited

structure PMesg where
  num : Nat
  fields : List PField
  deriving Repr, Inhabited

end Fit.Csv
