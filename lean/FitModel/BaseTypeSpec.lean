/-!
The base types of the FIT protocol, written down from the protocol document — a fixed reference that does not move with
the code. The definitions translated from profile/basetype/basetype.go are compared with it (FitProps/Go2LeanBasetype.lean).
-/
namespace Fit.BaseTypeSpec

/-- the base types of the FIT protocol ("FIT Base Types" table of the protocol document): base type field, size in bytes,
name. The base type field is the type number (bits 0–4) with bit 7 set when the type is more than one byte wide. -/
def fitBaseTypes : List (Nat × Nat × String) :=
  [(0x00, 1, "enum"), (0x01, 1, "sint8"), (0x02, 1, "uint8"), (0x83, 2, "sint16"), (0x84, 2, "uint16"), (0x85, 4, "sint32"),
   (0x86, 4, "uint32"), (0x07, 1, "string"), (0x88, 4, "float32"), (0x89, 8, "float64"), (0x0A, 1, "uint8z"),
   (0x8B, 2, "uint16z"), (0x8C, 4, "uint32z"), (0x0D, 1, "byte"), (0x8E, 8, "sint64"), (0x8F, 8, "uint64"), (0x90, 8, "uint64z")]

end Fit.BaseTypeSpec
