import FitModel.F64
import FitModel.Generated.Consts
/-!
Model of /repo/kit/datetime/datetime.go (`ToTime`, `ToUint32`) and /repo/kit/semicircles/semicircles.go
(`ToDegrees`, `ToSemicircles`).

A `time.Time` without monotonic reading is an instant: whole seconds relative to the FIT epoch
(1989-12-31T00:00:00Z) and nanoseconds in [0, 10^9); the zero `time.Time{}` is the instant
0001-01-01T00:00:00Z. Location does not take part in `Before`/`Sub`. `time.Time.Sub` saturates at
±(2^63−1) ns; `Duration.Seconds()` is `float64(d/1e9) + float64(d%1e9)/1e9`.
-/
namespace Fit.TimeAngle
open Fit.F64 Fit.Gen

/-! ### datetime -/

structure Time where
  /-- seconds since the FIT epoch (may be negative) -/
  sec : Int
  /-- nanoseconds, `< 10^9` -/
  nsec : Nat
  deriving DecidableEq, Repr, Inhabited

/-- `time.Time{}`: 0001-01-01T00:00:00Z, i.e. −62135596800 s Unix, and the FIT epoch is 631065600 s Unix -/
def zeroTime : Time := ⟨-62135596800 - 631065600, 0⟩

def nsPerSec : Nat := 1000000000
def e9Bits : Nat := 0x41CDCD6500000000
def maxDuration : Int := 2 ^ 63 - 1

/-- `ToTime(value)` -/
def toTime (v : Nat) : Time :=
  if v = uint32Invalid then zeroTime else ⟨v, 0⟩

/-- `t.Sub(epoch)` for `t` not before the epoch: exact nanoseconds, saturated at `maxDuration` -/
def subEpoch (t : Time) : Int :=
  let d : Int := t.sec * nsPerSec + t.nsec
  if d > maxDuration then maxDuration else d

/-- `Duration.Seconds()` -/
def seconds (d : Int) : Nat :=
  add (ofInt (Int.tdiv d nsPerSec)) (div (ofInt (Int.tmod d nsPerSec)) e9Bits)

/-- `ToUint32(t)` -/
def toUint32 (t : Time) : Nat :=
  if t.sec < 0 then uint32Invalid
  else cvt .u32 (seconds (subEpoch t))

/-! ### semicircles -/

/-- `conversionFactor = 180.0 / (1 << 31)`: an exact constant expression, 45·2^-29 -/
def conversionFactor : Nat := div (ofInt 180) (ofInt 2147483648)

/-- `ToDegrees(semicircles)` on the int32 pattern -/
def toDegrees (s : Nat) : Nat :=
  if s = sint32Invalid then float64Invalid
  else mul (ofInt (IntTy.i32.toInt s)) conversionFactor

/-- `ToSemicircles(degrees)` → int32 pattern -/
def toSemicircles (d : Nat) : Nat :=
  if d = float64Invalid || isNaN d || isInf d then sint32Invalid
  else cvt .i32 (div d conversionFactor)

end Fit.TimeAngle
