/-! Types of the file-type model (C14). The tables of type `FileType` are regenerated on every run
(`FitModel/Generated/FileDefs.lean`) by black-box probing of the real `filedef.NewXxx().Add / ToFIT`. -/
namespace Fit.FileDef

/-- One of the three fields a sort key can come from (numbers 1, 253, 254): absent, a uint32 value,
or a value of another type (for which Go's `Value.Uint32()` answers "invalid" = 0xFFFFFFFF). -/
inductive TsF where
  | absent
  | u32 (v : Nat)
  | other
  deriving DecidableEq, Repr, Inhabited

/-- A message as far as C14 is concerned: its number, the three candidate key fields, and an opaque payload
(`tag` identifies the message, `dg` is the digest of its content after the typed-message normalisation of
C13, `ft` the `type` field of a file_id message — 255 when absent; only the listener looks at it). -/
structure Msg where
  num : Nat
  f1 : TsF
  f253 : TsF
  f254 : TsF
  tag : Nat
  dg : Nat
  ft : Nat
  deriving DecidableEq, Repr, Inhabited

/-- how a file type stores the messages of one number:
`value` = a struct field that always exists (file_id: emitted even if never added; an added one replaces it),
`single` = pointer field (the last added one wins), `list` = appended, `dropped` = not given back at all. -/
inductive Kind where
  | value | single | list | dropped
  deriving DecidableEq, Repr

/-- what the typed struct of a slot does to a candidate key field: keeps it verbatim (unknown field),
treats it as a `time.Time` (only a valid uint32 survives), or something else (`opaque`: a known field of
another type — the generators never populate it and the model leaves it alone). -/
inductive FMode where
  | verbatim | time | opaque
  deriving DecidableEq, Repr

structure Slot where
  num : Nat
  /-- the kind the exported struct DECLARES (field of type `mesgdef.X` / `*mesgdef.X` / `[]*mesgdef.X`; `dropped` = no such field) -/
  decl : Kind
  /-- the kind the probe OBSERVED (two tagged messages added: which come back) -/
  kind : Kind
  m1 : FMode
  m253 : FMode
  m254 : FMode
  deriving DecidableEq, Repr

/-- A file type: typed slots in emission order; messages of other numbers are "unrelated" and emitted after the
slots in arrival order. `sortFrom` = index of the first group (slots, then the unrelated group) that takes part in
the stable sort: 3 = everything after file_id / developer_data_id / field_description; `slots.length` = only the
unrelated messages; `slots.length + 1` = nothing. -/
structure FileType where
  name : String
  gotype : String
  ftype : Nat
  slots : List Slot
  sortFrom : Nat
  defaultDg : Nat
  d1 : TsF
  d253 : TsF
  d254 : TsF
  dropped : List Nat
  /-- message numbers for which the exported struct DECLARES a typed field (`mesgdef.X` / `*mesgdef.X` / `[]*mesgdef.X`)
  although `Add` keeps messages of that number as unrelated ones (the field is never filled); empty on a sound file type -/
  declOnly : List Nat := []
  deriving DecidableEq, Repr

end Fit.FileDef
