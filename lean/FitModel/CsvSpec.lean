import FitModel.Csv
/-!
Specification vocabulary of C19 (core Lean, decidable): which values a decoded field can hold, what a value is
expected to come back as, which inputs are unambiguous in CSV.
-/
namespace Fit.Csv
open Fit.Value Fit.Msg Fit.Gen Fit.Gen.Csv

/-- bytes a string keeps through the formatter and the `|` split: printable, no `"`, no `|` -/
def safeByte (b : Nat) : Bool := keepByte b && b != 124

/-- what a decoded scalar of a field with base type `bt` (a `typedef.Bool` field if `isBool`) looks like;
strings within the safe alphabet -/
def scalarOK (bt : Nat) (isBool : Bool) : Value → Bool
  | .bool v => isBool && bt == btEnum && v < 256
  | .uint8 v => !isBool && btIsUint8 bt && v < 2 ^ 8
  | .int8 v => !isBool && bt == btSint8 && v < 2 ^ 8
  | .int16 v => !isBool && bt == btSint16 && v < 2 ^ 16
  | .uint16 v => !isBool && (bt == btUint16 || bt == btUint16z) && v < 2 ^ 16
  | .int32 v => !isBool && bt == btSint32 && v < 2 ^ 32
  | .uint32 v => !isBool && (bt == btUint32 || bt == btUint32z) && v < 2 ^ 32
  | .int64 v => !isBool && bt == btSint64 && v < 2 ^ 64
  | .uint64 v => !isBool && (bt == btUint64 || bt == btUint64z) && v < 2 ^ 64
  | .float32 b => !isBool && bt == btFloat32 && b < 2 ^ 32 && (!isNaN32 b || b == float32Invalid)
  | .float64 b => !isBool && bt == btFloat64 && b < 2 ^ 64 && (!isNaN64 b || b == float64Invalid)
  | .string s => !isBool && bt == btString && s.all safeByte
  | _ => false


/-- what a scalar is expected to come back as: itself, except that a `typedef.Bool` other than 0/1 is the invalid 255;
for floats: the float32 seen through float64 text, and "NaN" read as the invalid value (the only NaN `scalarOK` admits) -/
def csvNormS : Value → Value
  | .bool v => mkBool v
  | .float32 b => .float32 (narrow32 (widen32 b))
  | .float64 b => .float64 (if isNaN64 b then float64Invalid else b)
  | v => v


/-! ### which inputs are unambiguous in CSV, and what they are expected to come back as -/

/-- a message the CSV has no name for: an unlisted number, or a manufacturer specific one (≥ MfgRangeMin: written as
unknown / unknown(N) since /repo 6c7d170, whatever `MesgNum.String()` says) -/
def isUnknownMesg (n : Nat) : Bool := decide (n ≥ mfgRangeMin) || (mesgNames.lookup n).isNone
def isUnknownField (m : Message) (f : Field) : Bool := (pfield m.num (fieldNumOf f)).isNone

/-- the elements of a value with the flag "is a slice" -/
def elemsOf : Value → List Value × Bool
  | .sliceBool vs => (vs.map .bool, true) | .sliceInt8 vs => (vs.map .int8, true) | .sliceUint8 vs => (vs.map .uint8, true)
  | .sliceInt16 vs => (vs.map .int16, true) | .sliceUint16 vs => (vs.map .uint16, true) | .sliceInt32 vs => (vs.map .int32, true)
  | .sliceUint32 vs => (vs.map .uint32, true) | .sliceInt64 vs => (vs.map .int64, true) | .sliceUint64 vs => (vs.map .uint64, true)
  | .sliceFloat32 vs => (vs.map .float32, true) | .sliceFloat64 vs => (vs.map .float64, true) | .sliceString vs => (vs.map .string, true)
  | v => ([v], false)

/-- what a value is expected to come back as: element by element (`packValues`: the reader's slice constructor) -/
def csvNorm (v : Value) : Value :=
  if (elemsOf v).2 then packValues ((elemsOf v).1.map csvNormS) else csvNormS v

/-- a decoded value of a field with base type `bt`: scalars as `scalarOK`, arrays non-empty with such elements -/
def valueOK (bt : Nat) (isBool : Bool) (v : Value) : Bool :=
  let (es, _) := elemsOf v
  !es.isEmpty && es.all (scalarOK bt isBool)

/-- an array with exactly one element: for a field without a profile entry (unknown field, developer field) the cell has
one piece and is read as a scalar — and the decoder too makes a scalar of a one-element payload -/
def oneElemArray (v : Value) : Bool := (elemsOf v).2 && (elemsOf v).1.length == 1

def fieldOK (m : Message) (f : Field) : Bool :=
  match pfield m.num (fieldNumOf f) with
  | some p => fieldBtOf f == p.bt && valueOK p.bt p.isBool f.value && (elemsOf f.value).2 == p.array
  | none => valueOK (fieldBtOf f) false f.value && !oneElemArray f.value

/-- the field descriptions of ONE file, in order -/
def descsOf (file : List Message) : List Desc := (file.filter (·.num == mnFieldDescription)).map descOf

/-- no element occurs twice -/
def nodupB {α : Type} [BEq α] : List α → Bool
  | [] => true
  | a :: as => !as.contains a && nodupB as

/-- every sub-field name of the profile: a cell under such a name is a substituted native field for the reader only as
long as no developer field carries the name -/
def allSubNames : List Txt := profile.flatMap fun m => m.fields.flatMap fun p => p.subs.map fun s => txt s.name

/-- the model looks at a field's number, base type, expanded flag and value only: the rest of `FieldBase` is at its
default (what the driver parses; the converters take everything else from the factory) -/
def plainField (f : Field) : Bool := f.base == some { num := fieldNumOf f, baseType := fieldBtOf f }

/-- one field within scope: number a byte, the value what the decoder produces for the base type (`fieldOK`) and in the
decoder's normal form (`csvNorm v = v`: a `typedef.Bool` is 0, 1 or invalid; a float is not a NaN other than the invalid
value) -/
def fieldScopeB (m : Message) (f : Field) : Bool :=
  plainField f && decide (fieldNumOf f < 256) && fieldOK m f && csvNorm f.value == f.value

/-- the property's own condition, as the decoder produces it: the fields flagged expanded are EXACTLY the fields that
are the expansion target of a component of a field present in the same message — components of the field itself or of
any of its sub-fields, which is what the reader's `removeExpandedComponents` looks at. (⇐: no written field is such a
target, the property's "no field that is also the expansion target of another field present".) -/
def targetsExact (m : Message) : Bool :=
  let targets := m.fields.flatMap (targetsOf m.num)
  m.fields.all fun f => f.isExpanded == targets.contains (fieldNumOf f)

/-- one message within scope -/
def mesgScopeB (m : Message) : Bool :=
  decide (m.num < 65536) && m.fields.all (fieldScopeB m) && nodupB (m.fields.map fieldNumOf) && targetsExact m

/-- one field description within scope: name non-empty, not "unknown…", not the name of a sub-field of the profile
(names unique also against the native names), name and units within the alphabet the writer keeps (`|` joins the parts
of a name; separators and spaces are fine: `writeCell` quotes the cell — KF-C19-2, `C19_csv_quoting_roundtrip`) -/
def descScopeB (d : Desc) : Bool :=
  !d.name.isEmpty && !isPrefixOf' unknownTxt d.name && !allSubNames.contains d.name && d.name.all keepByte && d.units.all keepByte

/-- a developer field of message `m`, the descriptions `cur` of the SAME file seen so far: described there, the name not
that of a native field of the message, the value of the described base type and in normal form -/
def devFieldScopeB (cur : List Desc) (m : Message) (dv : DevField) : Bool :=
  match findDesc cur dv.devIdx dv.num with
  | some d => (lookupFieldNum m.num d.name).isNone && valueOK d.bt false dv.value && !oneElemArray dv.value &&
      !(d.units == degreesTxt && d.bt == btSint32) && csvNorm dv.value == dv.value
  | none => false

/-- the developer fields of a file, message by message: each described EARLIER in the same file -/
def devsWalk : List Desc → List Message → Bool
  | _, [] => true
  | cur, m :: ms =>
    m.devFields.all (devFieldScopeB cur m) && devsWalk (if m.num == mnFieldDescription then cur ++ [descOf m] else cur) ms

/-- developer fields of the file: described earlier in the same file, names non-empty, unique within the file, not
the name of a native field of the message, of a sub-field, nor an "unknown…" name; values of the described base type -/
def devsOK (file : List Message) : Bool :=
  let ds := descsOf file
  ds.all descScopeB && nodupB (ds.map (·.name)) && nodupB (ds.map fun d => (d.devIdx, d.num)) && devsWalk [] file

/-- what a message is expected to come back as (as written, before the decoder expands components again): without its
expanded component fields and — unless verbose — without unknown fields; nothing for an unknown message unless verbose,
and nothing if no field is left -/
def expectedMesg (o : Opts) (m : Message) : Option Message :=
  if !o.verbose && isUnknownMesg m.num then none else
  let fs := m.fields.filter fun f => !f.isExpanded && (o.verbose || !isUnknownField m f)
  if fs.isEmpty && m.devFields.isEmpty then none else some { m with fields := fs }

def expected (o : Opts) (files : List (List Message)) : List (List Message) := files.map (·.filterMap (expectedMesg o))

/-- the encoder's validator, which `CSVToFITConv` hands every sequence to, asks for the developer data index of a
developer field to be announced by a developer_data_id message EARLIER IN THE SAME SEQUENCE: the indexes collected from
the messages that come back (`expectedMesg`), message by message -/
def idsWalkB (o : Opts) : List Nat → List Message → Bool
  | _, [] => true
  | ids, m :: ms =>
    match expectedMesg o m with
    | some m' =>
      let ids' := if m'.num == mnDeveloperDataId then ids ++ [u8Of (fvalFirst m'.fields 3)] else ids
      m'.devFields.all (fun d => ids'.contains d.devIdx) && idsWalkB o ids' ms
    | none => idsWalkB o ids ms

/-- what the encoder's gate needs beyond well-typed values: something of the file comes back (an empty sequence is an
encoder error), developer data indexes announced -/
def gateScopeB (o : Opts) (file : List Message) : Bool :=
  !(file.filterMap (expectedMesg o)).isEmpty && idsWalkB o [] file

/-- `CsvUnambiguous`: every file starts with its only file_id; every message as `mesgScopeB` (field values as the
decoder produces them and in its normal form, strings within the safe alphabet, arrays non-empty, field numbers distinct,
expanded flags = component targets); developer fields as `devsOK`; what the encoder's gate needs (`gateScopeB`). Every option: raw, verbose, trim, degrees. -/
def csvUnambiguousB (o : Opts) (files : List (List Message)) : Bool :=
  files.all fun file =>
    (match file with
     | m :: rest => m.num == mnFileId && rest.all (·.num != mnFileId)
     | [] => false) &&
    file.all mesgScopeB && devsOK file && gateScopeB o file

/-- which conjunct of `csvUnambiguousB` fails first (evidence: the driver counts the reasons) -/
def csvScopeWhy (o : Opts) (files : List (List Message)) : String :=
  if !(files.all fun file => match file with | m :: rest => m.num == mnFileId && rest.all (·.num != mnFileId) | [] => false) then "file-shape" else
  if !(files.all fun file => file.all fun m => m.fields.all (fun f => plainField f && decide (fieldNumOf f < 256) && fieldOK m f)) then "field-value" else
  if !(files.all fun file => file.all fun m => m.fields.all (fun f => csvNorm f.value == f.value)) then "normal-form" else
  if !(files.all fun file => file.all fun m => decide (m.num < 65536) && nodupB (m.fields.map fieldNumOf)) then "field-dup" else
  if !(files.all fun file => file.all targetsExact) then "targets" else
  if !(files.all fun file => (descsOf file).all descScopeB) then "desc" else
  if !(files.all fun file => nodupB ((descsOf file).map (·.name)) && nodupB ((descsOf file).map fun d => (d.devIdx, d.num))) then "desc-dup" else
  if !(files.all fun file => devsWalk [] file) then "dev-field" else
  if !(files.all fun file => gateScopeB o file) then "gate" else "in"

/-! ### classes of the known findings -/

def anyValue (p : Value → Bool) (files : List (List Message)) : Bool :=
  files.any fun file => file.any fun m => m.fields.any (fun f => p f.value) || m.devFields.any (fun d => p d.value)

/-- the class of KF-C19-1 (fixed): a sint64 SCALAR used to be printed through `val.Uint64()` → "-1" -/
def hasInt64Scalar : List (List Message) → Bool := anyValue fun v => match v with | .int64 _ => true | _ => false

/-- KF-C19-5: a float whose bit pattern is a NaN other than the canonical one (text "NaN" has no payload): includes the
FIT invalid float sentinels 0xFFFFFFFF / 0xFFFFFFFFFFFFFFFF -/
def hasPayloadNaN : List (List Message) → Bool := anyValue fun v =>
  (elemsOf v).1.any fun e => match e with
    | .float32 b => isNaN32 b && b != 0x7FC00000
    | .float64 b => isNaN64 b && b != canonNaN64
    | _ => false

/-- KF-C19-6: a developer field of a float base type whose (most recent) description carries a scale or an offset: the
writer prints developer field values as they are, the reader un-scales every cell whose text contains a '.' -/
def hasScaledFloatDev (files : List (List Message)) : Bool :=
  files.any fun file =>
    let ds := descsOf file
    file.any fun m => m.devFields.any fun dv =>
      match findDesc ds dv.devIdx dv.num with
      | some d => (d.bt == btFloat32 || d.bt == btFloat64) && (d.scale != 255 || d.offset != 127)
      | none => false

/-- KF-C19-4: a message number of the manufacturer-range marks: `MesgNum.String()` names it but the reader's lookup
leaves numbers ≥ MfgRangeMin out and the name has no digits -/
def hasMfgRangeName (files : List (List Message)) : Bool :=
  files.any fun file => file.any fun m => m.num ≥ mfgRangeMin && (mesgNames.lookup m.num).isSome

/-- KF-C19-3: a later file of a chain describes a (developer data index, field number) pair again, differently -/
def redefinesDesc (files : List (List Message)) : Bool :=
  let rec go : List Desc → List (List Message) → Bool
    | _, [] => false
    | seen, f :: fs =>
      let ds := descsOf f
      ds.any (fun d => seen.any fun e => e.devIdx == d.devIdx && e.num == d.num && e != d) || go (seen ++ ds) fs
  go [] files

end Fit.Csv
