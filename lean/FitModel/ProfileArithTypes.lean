/-!
Record types of the regenerated profile extract `Generated/ProfileArith.lean` (written on every run by
`fitharness regen profilearith` from the compiled factory of /repo). Scales and offsets are float64
**bit patterns**.
-/
namespace Fit.PA

/-- `proto.Component` -/
structure Comp where
  fieldNum : Nat
  accumulate : Bool
  bits : Nat
  scale : Nat
  offset : Nat
  deriving DecidableEq, Repr, Inhabited

/-- `proto.SubField` (what expansion reads: its components and the maps that select it) -/
structure SubF where
  scale : Nat
  offset : Nat
  comps : List Comp
  /-- `(RefFieldNum, RefFieldValue)` -/
  maps : List (Nat × Int)
  deriving DecidableEq, Repr, Inhabited

/-- `proto.FieldBase` of a profile field -/
structure Fld where
  num : Nat
  baseType : Nat
  array : Bool
  accumulate : Bool
  scale : Nat
  offset : Nat
  profileBool : Bool
  comps : List Comp
  subs : List SubF
  deriving DecidableEq, Repr, Inhabited

/-- a generated `XxxScaled` / `SetXxxScaled` pair of `profile/mesgdef`: Go kind of the struct field's
element (`IntTy` code 0..7 = i8,u8,i16,u16,i32,u32,i64,u64), its invalid sentinel, the scale/offset of the
factory field the struct field maps to (found by probing `ToMesg`), `arr` = 0 scalar, 1 slice, n+1 fixed array of n -/
structure Typed where
  mesg : String
  field : String
  mesgNum : Nat
  fieldNum : Nat
  ty : Nat
  invalid : Nat
  scale : Nat
  offset : Nat
  arr : Nat
  deriving DecidableEq, Repr, Inhabited

end Fit.PA
