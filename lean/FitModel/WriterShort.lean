import FitModel.Writer
/-!
The writer model over destinations that may BREAK `io.Writer`'s contract: a `Write` (or `WriteAt`) that takes fewer bytes
than it was given and returns a NIL error (`Resp.short`). `FitModel/Writer.lean` assumes the contract (its `Faults`
always pair `n < len(p)` with an error) and may therefore unroll `(*bufio.Writer).Write`; here the loop of `bufio.Write` is
modelled as it is written (Go 1.23 `bufio.go`), because a short write without error makes it go round again:

* `(*bufio.Writer).Flush`: `n < b.n && err == nil` becomes `io.ErrShortWrite` (sticky, the unwritten tail stays buffered);
* `(*bufio.Writer).Write`, large write on an empty buffer: `n, b.err = b.wr.Write(p)`, then `p = p[n:]` and the loop
  continues — the remainder is written again (directly or into the buffer): a short write is RETRIED, not reported;
  a destination that keeps answering `(0, nil)` would keep the loop spinning for ever (`Sched.extra` bounds the
  zero-progress answers of a schedule; running out of fuel is reported as a failed write and never happens below that bound);
* the unbuffered encoder (`WithWriteBufferSize(0)`): `n, err = e.w.Write(b)` with `err == nil` goes on whatever `n` is —
  `e.n` and the data size advance by `n`, the CRC covers all of `b`;
* `WriteAt`: `_, err = w.WriteAt(b, off)` — the count is ignored.

Everything else is `FitModel/Writer.lean` again with the schedule type changed; `FitProps/WriterShortLemmas.lean`
proves that on contract-abiding schedules (`Sched.ofFaults`) every function here equals its counterpart there.
-/
namespace Fit.Writer
open Fit.Wire Fit.Crc

/-- answer of the destination to one operation -/
inductive Resp
  | ok
  /-- takes at most `j` bytes and returns an error -/
  | fail (j : Nat)
  /-- takes at most `j` bytes and returns NO error (a seek: succeeds) -/
  | short (j : Nat)
  deriving DecidableEq, Repr

structure Sched where
  resp : Nat → Resp
  /-- bound on the number of operations answered `(0, nil)` -/
  extra : Nat := 0

def Sched.ofFaults (F : Faults) : Sched where
  resp := fun i => match F i with
    | none => .ok
    | some j => .fail j

def Dest.writeR (R : Sched) (d : Dest) (p : Bytes) : Dest × Nat × Bool :=
  match R.resp d.log.length with
  | .ok =>
    ({ content := overwrite d.content d.pos p, pos := d.pos + p.length, log := .write p p.length true :: d.log }, p.length, true)
  | .fail j =>
    let t := min j p.length
    ({ content := overwrite d.content d.pos (p.take t), pos := d.pos + t, log := .write p t false :: d.log }, t, false)
  | .short j =>
    let t := min j p.length
    ({ content := overwrite d.content d.pos (p.take t), pos := d.pos + t, log := .write p t true :: d.log }, t, true)

def Dest.writeAtR (R : Sched) (d : Dest) (p : Bytes) (off : Nat) : Dest × Nat × Bool :=
  match R.resp d.log.length with
  | .ok =>
    ({ d with content := overwrite d.content off p, log := .writeAt p off p.length true :: d.log }, p.length, true)
  | .fail j =>
    let t := min j p.length
    ({ d with content := overwrite d.content off (p.take t), log := .writeAt p off t false :: d.log }, t, false)
  | .short j =>
    let t := min j p.length
    ({ d with content := overwrite d.content off (p.take t), log := .writeAt p off t true :: d.log }, t, true)

def Dest.seekCurR (R : Sched) (d : Dest) (delta : Int) : Dest × Bool :=
  match R.resp d.log.length with
  | .fail _ => ({ d with log := .seek delta false :: d.log }, false)
  | _ =>
    if (d.pos : Int) + delta < 0 then ({ d with log := .seek delta false :: d.log }, false)
    else ({ d with pos := ((d.pos : Int) + delta).toNat, log := .seek delta true :: d.log }, true)

/-- `(*bufio.Writer).Flush` -/
def W.bflushR (R : Sched) (w : W) : W × Bool :=
  if w.berr then (w, false)
  else if w.buf.isEmpty then (w, true)
  else
    let r := w.d.writeR R w.buf
    -- `if n < b.n && err == nil { err = io.ErrShortWrite }`
    if r.2.2 && r.2.1 == w.buf.length then ({ w with d := r.1, buf := [] }, true)
    else ({ w with d := r.1, buf := w.buf.drop r.2.1, berr := true }, false)

/-- the loop of `(*bufio.Writer).Write` (`nn` = bytes accepted so far) -/
def W.bwriteLoop (R : Sched) : Nat → W → Bytes → Nat → W × Nat × Bool
  | 0, w, _, nn => (w, nn, false)                      -- out of fuel (see the header)
  | fuel + 1, w, p, nn =>
    if p.length > w.size - w.buf.length && !w.berr then
      if w.buf.isEmpty then
        let r := w.d.writeR R p
        W.bwriteLoop R fuel { w with d := r.1, berr := !r.2.2 } (p.drop r.2.1) (nn + r.2.1)
      else
        let n := w.size - w.buf.length
        let f := W.bflushR R { w with buf := w.buf ++ p.take n }
        W.bwriteLoop R fuel f.1 (p.drop n) (nn + n)
    else if w.berr then (w, nn, false)
    else ({ w with buf := w.buf ++ p }, nn + p.length, true)

/-- `e.w.Write(p)` -/
def W.writeR (R : Sched) (w : W) (p : Bytes) : W × Nat × Bool :=
  if w.size = 0 then
    let r := w.d.writeR R p
    ({ w with d := r.1 }, r.2.1, r.2.2)
  else W.bwriteLoop R (p.length + R.extra + 3) w p 0

def W.flushR (R : Sched) (w : W) : W × Bool :=
  if w.size = 0 then (w, true) else w.bflushR R

def W.seekCurR (R : Sched) (w : W) (delta : Int) : W × Bool :=
  let f := w.flushR R
  if !f.2 then f
  else
    let r := f.1.d.seekCurR R delta
    ({ f.1 with d := r.1 }, r.2)

def W.writeAtR (R : Sched) (w : W) (p : Bytes) (off : Nat) : W × Bool :=
  let f := w.flushR R
  if !f.2 then f
  else
    let r := f.1.d.writeAtR R p off
    ({ f.1 with d := r.1 }, r.2.2)

def encodeFileHeaderR (R : Sched) (e : Enc) (h : Hdr) (ds : Nat) : Enc × Bool :=
  let r := e.w.writeR R (hdrBytesFrom e.crc h ds)
  ({ e with lastHdrPos := e.n, w := r.1, n := e.n + r.2.1, crc := if h.size = 14 then 0 else e.crc }, r.2.2)

def writeRecordR (R : Sched) (e : Enc) (b : Bytes) : Enc × Bool :=
  let r := e.w.writeR R b
  let e' := { e with w := r.1, n := e.n + r.2.1, dataSize := (e.dataSize + r.2.1) % 4294967296 }
  if r.2.2 then ({ e' with crc := write e'.crc b }, true) else (e', false)

def encodeMessageR (R : Sched) (o : Opts) (e : Enc) (m : WMsg) : Enc × Bool :=
  let parts := encodeMsgParts o e.es m
  let e1 := { e with es := parts.1 }
  match parts.2.1 with
  | some db =>
    let r := writeRecordR R e1 db
    if r.2 then writeRecordR R r.1 parts.2.2 else r
  | none => writeRecordR R e1 parts.2.2

def encodeMessagesR (R : Sched) (o : Opts) : Enc → List WMsg → Enc × Bool
  | e, [] => (e, true)
  | e, m :: ms =>
    let r := encodeMessageR R o e m
    if r.2 then encodeMessagesR R o r.1 ms else r

def encodeCRCR (R : Sched) (e : Enc) : Enc × Bool :=
  let r := e.w.writeR R (le16 e.crc)
  let e' := { e with w := r.1, n := e.n + r.2.1 }
  if r.2.2 then ({ e' with crc := 0 }, true) else (e', false)

def W.rewriteSeekR (R : Sched) (w : W) (b : Bytes) (size : Int) : W × Bool :=
  let s1 := w.seekCurR R (-size)
  if !s1.2 then s1
  else
    let r := s1.1.writeR R b
    if !r.2.2 then (r.1, false)
    else r.1.seekCurR R (size - r.2.1)

def updateFileHeaderR (R : Sched) (e : Enc) (h : Hdr) (hdrDs : Nat) : Enc × Nat × Bool :=
  if hdrDs = e.dataSize then (e, hdrDs, true)
  else
    let b := hdrBytesFrom e.crc h e.dataSize
    let e := { e with crc := if h.size = 14 then 0 else e.crc }
    if e.w.kind.seeker then
      let r := e.w.rewriteSeekR R b ((e.n : Int) - e.lastHdrPos)
      ({ e with w := r.1 }, e.dataSize, r.2)
    else if e.w.kind = .at then
      let r := e.w.writeAtR R b e.lastHdrPos
      ({ e with w := r.1 }, e.dataSize, r.2)
    else (e, e.dataSize, false)

def encodeBodyR (R : Sched) (o : Opts) (e : Enc) (h : Hdr) (ds : Nat) (ms : List WMsg) : Enc × Bool :=
  let r1 := encodeFileHeaderR R e h ds
  if !r1.2 then r1 else
  let r2 := encodeMessagesR R o r1.1 ms
  if !r2.2 then r2 else
  encodeCRCR R r2.1

def encodeDirectR (R : Sched) (o : Opts) (e : Enc) (h : Hdr) (ds0 : Nat) (ms : List WMsg) : Enc × Bool :=
  let r3 := encodeBodyR R o e h ds0 ms
  if !r3.2 then r3 else
  let r4 := updateFileHeaderR R r3.1 h ds0
  (r4.1, r4.2.2)

def encodeEarlyR (R : Sched) (o : Opts) (e : Enc) (h : Hdr) (ms : List WMsg) : Enc × Bool :=
  let dry := dryPass o e.es e.dataSize ms
  let e := e.reset o
  encodeBodyR R o e h dry.1 dry.2

def encodeR (R : Sched) (o : Opts) (e : Enc) (f : FitIn) : Enc × Bool :=
  let r := if e.w.kind.direct then encodeDirectR R o e f.hdr f.ds0 f.msgs else encodeEarlyR R o e f.hdr f.msgs
  let e' := r.1.reset o
  if !r.2 then (e', false)
  else
    let fl := e'.w.flushR R
    ({ e' with w := fl.1 }, fl.2)

def encodeChainR (R : Sched) (o : Opts) : Enc → List FitIn → Enc × Nat × Bool
  | e, [] => (e, 0, true)
  | e, f :: fs =>
    let r := encodeR R o e f
    if !r.2 then (r.1, 0, false)
    else
      let rest := encodeChainR R o r.1 fs
      (rest.1, rest.2.1 + 1, rest.2.2)

/-- `Encode` with the validators in front (as `encodeV`) -/
def encodeVR {σ : Type} (V : MsgValidator σ) (R : Sched) (o : Opts) (e : Enc) (f : FitIn) : Enc × Res :=
  if f.msgs.isEmpty then (e, .ee)
  else if !f.msgs.all (protoOK f.hdr.protoVer) then (e, .ep)
  else
    match validateAll V V.init f.msgs with
    | none => (e, .ev)
    | some ms' =>
      let r := encodeR R o e { f with msgs := ms' }
      (r.1, if r.2 then .ok else .err)

/-! ### stream encoder (as in `FitModel/Writer.lean`) -/

def Stream.ensureHeaderR (R : Sched) (h : Hdr) (s : Stream) : Stream × Bool :=
  if s.written then (s, true)
  else
    let r := encodeFileHeaderR R s.e h s.hdrDs
    ({ s with e := r.1, written := r.2 }, r.2)

def Stream.sequenceCompletedR (R : Sched) (c : StreamCfg) (o : Opts) (h : Hdr) (s : Stream) : Stream × Bool :=
  let r1 := encodeCRCR R s.e
  if !r1.2 then ({ s with e := r1.1 }, false) else
  let r2 := updateFileHeaderR R r1.1 h s.hdrDs
  if !r2.2.2 then ({ s with e := r2.1, hdrDs := r2.2.1 }, false) else
  let e' := r2.1.reset o
  let fl := e'.w.flushR R
  ({ e := { e' with w := fl.1 }, hdrDs := if c.clearsHeader then 0 else r2.2.1, written := false }, fl.2)

def Stream.writeMessageVR {σ : Type} (V : MsgValidator σ) (R : Sched) (o : Opts) (h : Hdr) (s : Stream) (vs : σ) (m : WMsg) :
    Stream × σ × Res :=
  let r := s.ensureHeaderR R h
  if !r.2 then (r.1, vs, .err)
  else if !protoOK h.protoVer m then (r.1, vs, .ep)
  else
    match V.step vs m with
    | (vs', none) => (r.1, vs', .ev)
    | (vs', some m') =>
      let r2 := encodeMessageR R o r.1.e m'
      ({ r.1 with e := r2.1 }, vs', if r2.2 then .ok else .err)

def Stream.sequenceCompletedVR {σ : Type} (V : MsgValidator σ) (R : Sched) (c : StreamCfg) (o : Opts) (h : Hdr) (s : Stream) (vs : σ) :
    Stream × σ × Res :=
  let r1 := encodeCRCR R s.e
  if !r1.2 then ({ s with e := r1.1 }, vs, .err) else
  let r2 := updateFileHeaderR R r1.1 h s.hdrDs
  if !r2.2.2 then ({ s with e := r2.1, hdrDs := r2.2.1 }, vs, .err) else
  let r := s.sequenceCompletedR R c o h
  (r.1, V.init, if r.2 then .ok else .err)

end Fit.Writer
