import FitModel.Shared
import FitModel.Generated.SharedState
/-! C15: the hand-written lists that go with the regenerated inventory (exceptions with their reasons, tables whose
references may leave the library) and the definitions that turn the regenerated touch classes into model programs.
The theorems about them are in `FitProps/C15.lean`; the driver executes these very definitions. -/
namespace Fit.SharedGen
open Fit.Shared Fit.SharedInv
open Fit.Gen

/-- the writes of package-level state after initialisation that are accepted without `sync.Once` / mutex / pool, each
with the reason. Every other unguarded write fails `C15_inventory_writes_guarded`. -/
def exceptions : List Exception := [
  -- the decoder (and the CSV reader) complete a field description IN PLACE when the factory did not know the field:
  -- `if field.Name == factory.NameUnknown { field.BaseType = …; field.Type = …; field.Array = … }`. The `FieldBase` they
  -- write is the one `createUnknownField` has just allocated for this call (never a table entry): the factory returns a
  -- pointer into its tables only for known fields, and no table entry carries that name
  -- (`C15_no_table_entry_named_unknown`). The analysis cannot see the path condition, hence the listing.
  { pkg := "profile/factory", name := "mesgs", fn := "(*decoder.Decoder).decodeFields",
    reason := "completes a freshly allocated FieldBase (Name == NameUnknown), never a table entry" },
  { pkg := "profile/factory", name := "mesgs", fn := "(*decoder.Decoder).decodeMessageData",
    reason := "completes a freshly allocated FieldBase (Name == NameUnknown), never a table entry" },
  { pkg := "profile/factory", name := "mesgs", fn := "(*cmd/fitconv/fitcsv.CSVToFITConv).createField",
    reason := "completes a freshly allocated FieldBase (Name == NameUnknown), never a table entry" },
  { pkg := "profile/factory", name := "std", fn := "(*decoder.Decoder).decodeFields",
    reason := "same write, seen through the standard factory the decoder holds" },
  { pkg := "profile/factory", name := "std", fn := "(*decoder.Decoder).decodeMessageData",
    reason := "same write, seen through the standard factory the decoder holds" },
  { pkg := "profile/factory", name := "std", fn := "(*cmd/fitconv/fitcsv.CSVToFITConv).createField",
    reason := "same write, seen through the standard factory" },
  -- registration API: documented as not synchronised and meant for start-up ("we don't use mutex for efficiency, since
  -- this is intended to be used on instantiation"). Not among the operations C15 quantifies over; listed as an
  -- assumption of the property: registration is finished before objects are used concurrently.
  { pkg := "profile/factory", name := "std", fn := "profile/factory.RegisterMesg",
    reason := "registration API, documented unsynchronised, start-up only (assumption of C15)" },
  { pkg := "profile/typedef", name := "fileToString", fn := "profile/typedef.FileRegister",
    reason := "registration API of manufacturer specific values, start-up only (assumption of C15)" },
  { pkg := "profile/typedef", name := "stringToFile", fn := "profile/typedef.FileRegister",
    reason := "registration API of manufacturer specific values, start-up only (assumption of C15)" },
  { pkg := "profile/typedef", name := "mesgnumToString", fn := "profile/typedef.MesgNumRegister",
    reason := "registration API of manufacturer specific values, start-up only (assumption of C15)" },
  { pkg := "profile/typedef", name := "stringToMesgNum", fn := "profile/typedef.MesgNumRegister",
    reason := "registration API of manufacturer specific values, start-up only (assumption of C15)" },
  -- combiner.Combine overwrites field VALUES of the messages of its own argument (`field.Value = accumu.Accumulate(…)`,
  -- the caller's FITs, consumed by the call). The analysis collapses everything reachable from the argument into one
  -- object; messages built with the standard factory put references to it there, so the store is attributed to it
  -- although a `proto.Value` inside a caller's message is never factory memory.
  { pkg := "profile/factory", name := "std", fn := "cmd/fitactivity/combiner.Combine",
    reason := "writes Value of the caller's own messages; attributed to the factory only by the collapse of the argument" },
  { pkg := "profile/mesgdef", name := "defaultOptions", fn := "cmd/fitactivity/combiner.Combine",
    reason := "writes Value of the caller's own messages; attributed to defaultOptions.Factory only by the collapse of the argument" }]

/-- package-level variables a reference into which may leave the library (result of an exported function, stored into
an object): all of them tables nobody writes (`C15_inventory_writes_guarded`), handed out on purpose -/
def allowedEscapes : List (String × String × String) := [
  ("profile/factory", "mesgs", "proto.Field carries a *FieldBase into the table; documented read-only"),
  ("profile/factory", "protoMesgs", "CreateMesg copies the Fields slice; the FieldBase pointers inside point into the tables"),
  ("profile/factory", "std", "StandardFactory() hands out the package's factory; fields created by it point into its messages"),
  ("profile/mesgdef", "defaultOptions", "ToMesg(nil) uses it; its Factory is the standard factory"),
  ("cmd/fitconv/fitcsv", "placeholderField", "a Field value (copy) whose FieldBase is the placeholder's"),
  ("kit/datetime", "epoch", "time.Time values derived from it share its *Location (UTC)"),
  ("proto", "ptrBool", "type tag of proto.Value"), ("proto", "ptrInt8", "type tag of proto.Value"),
  ("proto", "ptrUint8", "type tag of proto.Value"), ("proto", "ptrInt16", "type tag of proto.Value"),
  ("proto", "ptrUint16", "type tag of proto.Value"), ("proto", "ptrInt32", "type tag of proto.Value"),
  ("proto", "ptrUint32", "type tag of proto.Value"), ("proto", "ptrInt64", "type tag of proto.Value"),
  ("proto", "ptrUint64", "type tag of proto.Value"), ("proto", "ptrFloat32", "type tag of proto.Value"),
  ("proto", "ptrFloat64", "type tag of proto.Value")]

/-- the environment of the model read off the inventory -/
def genEnv : Env := envOfRows SharedState.funcs exceptions SharedState.rows


/-- the program of an entry point of touch class `k` -/
def classProg (k : Nat) : List Act :=
  progOfTouches SharedState.funcs exceptions SharedState.rows (SharedState.classes.getD k [])

/-- the access of an operation to a caller-supplied options object number `o`: only a read, unless the inventory says
the entry point writes through a pointer to an options type -/
def optionActs (entry : String) (o : Nat) : List Act :=
  if SharedState.paramWrites.any (fun w => SharedState.funcs.getD w.fn "" == entry && isOptionsType SharedState.optionTypes w)
  then [.optWrite o 0, .optRead o] else [.optRead o]

end Fit.SharedGen
