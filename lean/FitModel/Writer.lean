import FitModel.Wire
/-!
Model of where the encoder's bytes go: the destination, the write buffer between the encoder and the
destination, and the encoder's output paths.

* `Dest` — the caller's destination as the encoder can act on it: a byte array with a write position
  (`Write` at the position, `WriteAt` at an absolute offset — holes zero-filled —, `Seek` relative to the
  position), an operation log, and a **fault schedule** `Faults`: the `k`-th operation issued on the
  destination may fail after having taken at most `j` bytes (`io.Writer` contract: `n < len(p)` comes with an error).
* `W` — what `Encoder.w` is after `newWriteBuffer` (/repo/encoder/writebuffer.go): the raw destination
  (size ≤ 0) or a `bufio.Writer` in front of it (modelled from bufio's documented behaviour: copy while it
  fits, flush-and-continue when it does not, direct write of a chunk larger than the empty buffer, sticky
  error, `Flush`), with the wrappers `writerAt` / `writeSeeker` that flush before `WriteAt` / `Seek`.
* `Enc` — `encoder.Encoder` as far as output goes (/repo/encoder/encoder.go): `encodeFileHeader`,
  `encodeMessage` (definition record and data record are two `Write` calls), `encodeMessages`, `encodeCRC`,
  `updateFileHeader` (relative seeks, or `WriteAt` at `lastFileHeaderPos`), `calculateDataSize` (dry run with
  the compressed-timestamp revert), the two strategies and `Encode` (strategy by capability, `reset`, final `Flush`).
* `Stream` — `encoder.StreamEncoder` (/repo/encoder/stream.go): `WriteMessage`, `SequenceCompleted`, with the
  header value it keeps between sequences.

Every function takes the fault schedule `F`; `noFault` is the schedule of a healthy destination.
A Go error is `ok = false`. The operations of these paths that CAN panic (slices with a computed bound, indexing, a nil
writer, offset arithmetic) are guarded one by one in `FitModel/WriterPanic.lean` (outcome `Run.panic`), which delegates
the effect of an operation whose guard holds to the functions of this file; `C11_no_panic` proves that no guard ever fails.
`EncodeWithContext` (cancellation points, what a cancelled call leaves behind) is at the end of this file.
`e.n` is an int64 and never wraps here; `dataSize` is a uint32 (`% 2^32`).
-/
namespace Fit.Writer
open Fit.Wire Fit.Crc

/-! ### destination -/

/-- fault schedule: operation number `k` on the destination succeeds (`none`) or fails after having taken
at most `j` bytes (`some j`; a seek just fails) -/
abbrev Faults := Nat → Option Nat

def noFault : Faults := fun _ => none

/-- one operation as the destination saw it -/
inductive DOp
  | write (p : Bytes) (taken : Nat) (ok : Bool)
  | writeAt (p : Bytes) (off : Nat) (taken : Nat) (ok : Bool)
  | seek (delta : Int) (ok : Bool)
  deriving DecidableEq, Repr

def DOp.ok : DOp → Bool
  | .write _ _ ok => ok
  | .writeAt _ _ _ ok => ok
  | .seek _ ok => ok

structure Dest where
  content : Bytes
  pos : Nat
  /-- newest first -/
  log : List DOp := []
  deriving Repr

/-- `p` stored at offset `pos` of `c` (a hole between the end of `c` and `pos` is zero-filled) -/
def overwrite (c : Bytes) (pos : Nat) (p : Bytes) : Bytes :=
  let c' := c ++ List.replicate (pos - c.length) 0
  c'.take pos ++ p ++ c'.drop (pos + p.length)

def Dest.write (F : Faults) (d : Dest) (p : Bytes) : Dest × Nat × Bool :=
  match F d.log.length with
  | none =>
    ({ content := overwrite d.content d.pos p, pos := d.pos + p.length, log := .write p p.length true :: d.log }, p.length, true)
  | some j =>
    let t := min j p.length
    ({ content := overwrite d.content d.pos (p.take t), pos := d.pos + t, log := .write p t false :: d.log }, t, false)

def Dest.writeAt (F : Faults) (d : Dest) (p : Bytes) (off : Nat) : Dest × Nat × Bool :=
  match F d.log.length with
  | none =>
    ({ d with content := overwrite d.content off p, log := .writeAt p off p.length true :: d.log }, p.length, true)
  | some j =>
    let t := min j p.length
    ({ d with content := overwrite d.content off (p.take t), log := .writeAt p off t false :: d.log }, t, false)

/-- `Seek(delta, io.SeekCurrent)`; a position before the start is an error -/
def Dest.seekCur (F : Faults) (d : Dest) (delta : Int) : Dest × Bool :=
  match F d.log.length with
  | none =>
    if (d.pos : Int) + delta < 0 then ({ d with log := .seek delta false :: d.log }, false)
    else ({ d with pos := ((d.pos : Int) + delta).toNat, log := .seek delta true :: d.log }, true)
  | some _ => ({ d with log := .seek delta false :: d.log }, false)

/-! ### the writer the encoder holds (`newWriteBuffer`) -/

/-- capabilities of the caller's destination -/
inductive Kind | plain | at | seek | both
  deriving DecidableEq, Repr

/-- `case io.WriteSeeker` comes first, in `newWriteBuffer` and in `updateFileHeader` -/
def Kind.seeker : Kind → Bool
  | .seek | .both => true
  | _ => false

/-- `case io.WriterAt, io.WriteSeeker` of `Encode` -/
def Kind.direct : Kind → Bool
  | .plain => false
  | _ => true

structure W where
  kind : Kind
  /-- buffer size; 0 = the encoder holds the raw destination (`WithWriteBufferSize(n ≤ 0)`) -/
  size : Nat
  buf : Bytes := []
  /-- bufio's sticky error -/
  berr : Bool := false
  d : Dest
  deriving Repr

/-- `(*bufio.Writer).Flush` -/
def W.bflush (F : Faults) (w : W) : W × Bool :=
  if w.berr then (w, false)
  else if w.buf.isEmpty then (w, true)
  else
    let r := w.d.write F w.buf
    if r.2.2 then ({ w with d := r.1, buf := [] }, true)
    else ({ w with d := r.1, buf := w.buf.drop r.2.1, berr := true }, false)

/-- the tail of `(*bufio.Writer).Write` after the buffer was filled up with the first `n` bytes and flushed
(`f` = writer and outcome of that flush): the rest `p'` is buffered or, still too large, written directly -/
def W.writeRest (F : Faults) (size n plen : Nat) (p' : Bytes) (f : W × Bool) : W × Nat × Bool :=
  if !f.2 then (f.1, n, false)
  else if p'.length ≤ size then ({ f.1 with buf := p' }, plen, true)
  else
    let r := f.1.d.write F p'
    ({ f.1 with d := r.1, berr := !r.2.2 }, n + r.2.1, r.2.2)

/-- `e.w.Write(p)`: bytes accepted, success -/
def W.write (F : Faults) (w : W) (p : Bytes) : W × Nat × Bool :=
  if w.size = 0 then
    let r := w.d.write F p
    ({ w with d := r.1 }, r.2.1, r.2.2)
  else if w.berr then (w, 0, false)
  else if p.length ≤ w.size - w.buf.length then ({ w with buf := w.buf ++ p }, p.length, true)
  else if w.buf.isEmpty then
    -- large write, empty buffer: written directly
    let r := w.d.write F p
    ({ w with d := r.1, berr := !r.2.2 }, r.2.1, r.2.2)
  else
    -- fill the buffer, flush, then the rest
    let n := w.size - w.buf.length
    W.writeRest F w.size n p.length (p.drop n) (W.bflush F { w with buf := w.buf ++ p.take n })

/-- `f.Flush()` when `e.w` is a flusher (only the buffered writers are) -/
def W.flush (F : Faults) (w : W) : W × Bool :=
  if w.size = 0 then (w, true) else w.bflush F

/-- `w.Seek(delta, io.SeekCurrent)` on `writeSeeker` (flushes first) or on the raw destination -/
def W.seekCur (F : Faults) (w : W) (delta : Int) : W × Bool :=
  let f := w.flush F
  if !f.2 then f
  else
    let r := f.1.d.seekCur F delta
    ({ f.1 with d := r.1 }, r.2)

/-- `w.WriteAt(p, off)` on `writerAt` (flushes first) or on the raw destination -/
def W.writeAt (F : Faults) (w : W) (p : Bytes) (off : Nat) : W × Bool :=
  let f := w.flush F
  if !f.2 then f
  else
    let r := f.1.d.writeAt F p off
    ({ f.1 with d := r.1 }, r.2.2)

/-! ### the encoder -/

structure Enc where
  w : W
  /-- `e.n`: bytes the writer accepted so far -/
  n : Nat := 0
  lastHdrPos : Nat := 0
  /-- state of `e.crc16` -/
  crc : Nat := 0
  es : EncState
  dataSize : Nat := 0
  deriving Repr

/-- `FileHeader.MarshalAppend` with the header CRC computed by the encoder's running hash (which is in its
reset state whenever the code gets here; the model does not assume it) -/
def hdrBytesFrom (crc0 : Nat) (h : Hdr) (ds : Nat) : Bytes :=
  let b12 := [h.size, h.protoVer] ++ le16 h.profileVer ++ le32 ds ++ [0x2E, 0x46, 0x49, 0x54]
  if h.size = 14 then b12 ++ le16 (write crc0 b12) else b12

/-- `encodeFileHeader` with the caller's header already normalised (`mkHdr`) and its `DataSize` = `ds` -/
def encodeFileHeader (F : Faults) (e : Enc) (h : Hdr) (ds : Nat) : Enc × Bool :=
  let r := e.w.write F (hdrBytesFrom e.crc h ds)
  ({ e with lastHdrPos := e.n, w := r.1, n := e.n + r.2.1, crc := if h.size = 14 then 0 else e.crc }, r.2.2)

/-- `encodeMessage` up to the writes: new encoder state, the definition record when it is new, the data record
(the same computation as `Wire.encodeMsg`, which concatenates the two: `encodeMsg_parts`) -/
def encodeMsgParts (o : Opts) (s : EncState) (m : WMsg) : EncState × Option Bytes × Bytes :=
  let (tsRef', tsLast', off) := if o.compress then compressTs o.arch s.tsRef s.tsLast m else (s.tsRef, s.tsLast, none)
  let m' : WMsg := match off with
    | some _ => { m with fields := removeFirst tsFieldNum m.fields }
    | none => m
  let db := defBytes o.arch m'
  let (lru', i, isNew) := s.lru.put db
  let hdr := match off with
    | some t => (0x80 ||| t) ||| ((i <<< 5) % 256)
    | none => i
  ({ lru := lru', tsRef := tsRef', tsLast := tsLast' }, (if isNew then some (defRecord o.arch i m') else none), hdr :: payload m')

/-- one `n, err = e.w.Write(b); e.n, e.dataSize = e.n+n, e.dataSize+uint32(n); if err … ; crc16.Write(b)` -/
def writeRecord (F : Faults) (e : Enc) (b : Bytes) : Enc × Bool :=
  let r := e.w.write F b
  let e' := { e with w := r.1, n := e.n + r.2.1, dataSize := (e.dataSize + r.2.1) % 4294967296 }
  if r.2.2 then ({ e' with crc := write e'.crc b }, true) else (e', false)

/-- `encodeMessage` -/
def encodeMessage (F : Faults) (o : Opts) (e : Enc) (m : WMsg) : Enc × Bool :=
  let parts := encodeMsgParts o e.es m
  let e1 := { e with es := parts.1 }        -- LRU and timestamp reference move before anything is written
  match parts.2.1 with
  | some db =>
    let r := writeRecord F e1 db
    if r.2 then writeRecord F r.1 parts.2.2 else r
  | none => writeRecord F e1 parts.2.2

/-- `encodeMessages` -/
def encodeMessages (F : Faults) (o : Opts) : Enc → List WMsg → Enc × Bool
  | e, [] => (e, true)
  | e, m :: ms =>
    let r := encodeMessage F o e m
    if r.2 then encodeMessages F o r.1 ms else r

/-- `encodeCRC` -/
def encodeCRC (F : Faults) (e : Enc) : Enc × Bool :=
  let r := e.w.write F (le16 e.crc)
  let e' := { e with w := r.1, n := e.n + r.2.1 }
  if r.2.2 then ({ e' with crc := 0 }, true) else (e', false)

/-- the `io.WriteSeeker` branch of `updateFileHeader`: seek back over the encoder's own `size` bytes, write the
header, seek forward to where the writer was -/
def W.rewriteSeek (F : Faults) (w : W) (b : Bytes) (size : Int) : W × Bool :=
  let s1 := w.seekCur F (-size)
  if !s1.2 then s1
  else
    let r := s1.1.write F b
    if !r.2.2 then (r.1, false)
    else r.1.seekCur F (size - r.2.1)

/-- `updateFileHeader`; `hdrDs` is the `DataSize` the header value holds. Gives the header's `DataSize` afterwards. -/
def updateFileHeader (F : Faults) (e : Enc) (h : Hdr) (hdrDs : Nat) : Enc × Nat × Bool :=
  if hdrDs = e.dataSize then (e, hdrDs, true)
  else
    let b := hdrBytesFrom e.crc h e.dataSize
    let e := { e with crc := if h.size = 14 then 0 else e.crc }
    if e.w.kind.seeker then
      let r := e.w.rewriteSeek F b ((e.n : Int) - e.lastHdrPos)
      ({ e with w := r.1 }, e.dataSize, r.2)
    else if e.w.kind = .at then
      let r := e.w.writeAt F b e.lastHdrPos
      ({ e with w := r.1 }, e.dataSize, r.2)
    else (e, e.dataSize, false)      -- errInternal

/-- `e.reset()` -/
def Enc.reset (o : Opts) (e : Enc) : Enc := { e with crc := 0, es := freshEnc o, dataSize := 0 }

/-! #### dry run of the early-check strategy -/

/-- index of the first field numbered 253 (the loop variable `i` of the dry-run branch stays at the last
index when there is none) -/
def tsIndex : List WField → Nat
  | [] => 0
  | f :: fs => if f.num == tsFieldNum then 0 else if fs.isEmpty then 0 else tsIndex fs + 1

/-- the deferred revert: `Fields = Fields[:prevLen]; copy(Fields[i+1:], Fields[i:]); Fields[i] = timestampField`
applied to the field list after the removal -/
def revertTs (i : Nat) (ts : WField) (fs : List WField) : List WField := fs.take i ++ ts :: fs.drop i

/-- one message of the dry run (`e.w == io.Discard`): new state, bytes counted, and the message as the dry run
leaves it in the caller's slice -/
def dryMessage (o : Opts) (s : EncState) (m : WMsg) : EncState × Nat × WMsg :=
  let parts := encodeMsgParts o s m
  let len := (match parts.2.1 with | some db => db.length | none => 0) + parts.2.2.length
  let compressed := o.compress && (compressTs o.arch s.tsRef s.tsLast m).2.2.isSome
  let left : WMsg :=
    if compressed then
      match m.fields[tsIndex m.fields]? with
      | some ts => { m with fields := revertTs (tsIndex m.fields) ts (removeFirst tsFieldNum m.fields) }
      | none => { m with fields := removeFirst tsFieldNum m.fields }
    else m
  (parts.1, len, left)

/-- `calculateDataSize`: the data size it stores into the header, and the messages as it leaves them -/
def dryPass (o : Opts) : EncState → Nat → List WMsg → Nat × List WMsg
  | _, ds, [] => (ds, [])
  | s, ds, m :: ms =>
    let r := dryMessage o s m
    let rest := dryPass o r.1 ((ds + r.2.1) % 4294967296) ms
    (rest.1, r.2.2 :: rest.2)

/-! #### the two strategies and `Encode` -/

/-- the part the two strategies share: `encodeFileHeader`, `encodeMessages`, `encodeCRC`, each result checked -/
def encodeBody (F : Faults) (o : Opts) (e : Enc) (h : Hdr) (ds : Nat) (ms : List WMsg) : Enc × Bool :=
  let r1 := encodeFileHeader F e h ds
  if !r1.2 then r1 else
  let r2 := encodeMessages F o r1.1 ms
  if !r2.2 then r2 else
  encodeCRC F r2.1

/-- `encodeWithDirectUpdateStrategy`; `ds0` is the `DataSize` of the caller's header -/
def encodeDirect (F : Faults) (o : Opts) (e : Enc) (h : Hdr) (ds0 : Nat) (ms : List WMsg) : Enc × Bool :=
  let r3 := encodeBody F o e h ds0 ms
  if !r3.2 then r3 else
  let r4 := updateFileHeader F r3.1 h ds0
  (r4.1, r4.2.2)

/-- `encodeWithEarlyCheckStrategy` -/
def encodeEarly (F : Faults) (o : Opts) (e : Enc) (h : Hdr) (ms : List WMsg) : Enc × Bool :=
  let dry := dryPass o e.es e.dataSize ms
  let e := e.reset o                       -- `calculateDataSize` ends with `e.reset()`; `e.n`, `e.w` restored
  encodeBody F o e h dry.1 dry.2

/-- a FIT value as `Encode` takes it after validation: normalised header, the caller's `DataSize`, messages -/
structure FitIn where
  hdr : Hdr
  ds0 : Nat := 0
  msgs : List WMsg
  deriving Repr

/-- `Encode` after `validateMessages`: strategy by capability, `reset`, final flush -/
def encode (F : Faults) (o : Opts) (e : Enc) (f : FitIn) : Enc × Bool :=
  let r := if e.w.kind.direct then encodeDirect F o e f.hdr f.ds0 f.msgs else encodeEarly F o e f.hdr f.msgs
  let e' := r.1.reset o
  if !r.2 then (e', false)
  else
    let fl := e'.w.flush F
    ({ e' with w := fl.1 }, fl.2)

/-- the documented chaining loop `for _, fit := range fits { err := enc.Encode(fit) }`, stopping at the first error;
gives the number of sequences completed -/
def encodeChainW (F : Faults) (o : Opts) : Enc → List FitIn → Enc × Nat × Bool
  | e, [] => (e, 0, true)
  | e, f :: fs =>
    let r := encode F o e f
    if !r.2 then (r.1, 0, false)
    else
      let rest := encodeChainW F o r.1 fs
      (rest.1, rest.2.1 + 1, rest.2.2)

/-- `encoder.New(w, opts…)` on a destination -/
def Enc.new (o : Opts) (kind : Kind) (size : Nat) (d : Dest) : Enc :=
  { w := { kind := kind, size := size, d := d }, es := freshEnc o }

/-! ### stream encoder -/

structure Stream where
  e : Enc
  /-- `fileHeader.DataSize` as kept between calls -/
  hdrDs : Nat := 0
  written : Bool := false
  deriving Repr

/-- does `SequenceCompleted` clear the data size of the header value it keeps (the repaired code) or leave the
previous sequence's data size in it (the code as pinned: DESIGN §4 F13)? Both variants are modelled so that the
theorems can speak about either; `pinnedStreamCfg` is the one the driver runs against /repo. -/
structure StreamCfg where
  clearsHeader : Bool
  deriving Repr, DecidableEq

/-- /repo/encoder/stream.go as it is now -/
def pinnedStreamCfg : StreamCfg := ⟨true⟩

/-- the start of `WriteMessage`: the file header is written when it is due (first use, or right after `SequenceCompleted`) -/
def Stream.ensureHeader (F : Faults) (h : Hdr) (s : Stream) : Stream × Bool :=
  if s.written then (s, true)
  else
    let r := encodeFileHeader F s.e h s.hdrDs
    ({ s with e := r.1, written := r.2 }, r.2)

/-- `WriteMessage` when the two validators accept the message (`m` is the message as the validator leaves it) -/
def Stream.writeMessage (F : Faults) (o : Opts) (h : Hdr) (s : Stream) (m : WMsg) : Stream × Bool :=
  let r := s.ensureHeader F h
  if !r.2 then r
  else
    let r2 := encodeMessage F o r.1.e m
    ({ r.1 with e := r2.1 }, r2.2)

/-- `WriteMessage` when a validator rejects the message: the header has been written if it was due -/
def Stream.rejectMessage (F : Faults) (h : Hdr) (s : Stream) : Stream × Bool :=
  ((s.ensureHeader F h).1, false)

/-- `SequenceCompleted` -/
def Stream.sequenceCompleted (F : Faults) (c : StreamCfg) (o : Opts) (h : Hdr) (s : Stream) : Stream × Bool :=
  let r1 := encodeCRC F s.e
  if !r1.2 then ({ s with e := r1.1 }, false) else
  let r2 := updateFileHeader F r1.1 h s.hdrDs
  if !r2.2.2 then ({ s with e := r2.1, hdrDs := r2.2.1 }, false) else
  let e' := r2.1.reset o
  let fl := e'.w.flush F
  ({ e := { e' with w := fl.1 }, hdrDs := if c.clearsHeader then 0 else r2.2.1, written := false }, fl.2)

/-- one sequence through the stream encoder, stopping at the first error -/
def Stream.writeAll (F : Faults) (o : Opts) (h : Hdr) : Stream → List WMsg → Stream × Bool
  | s, [] => (s, true)
  | s, m :: ms =>
    let r := s.writeMessage F o h m
    if r.2 then Stream.writeAll F o h r.1 ms else r

def Stream.sequence (F : Faults) (c : StreamCfg) (o : Opts) (h : Hdr) (s : Stream) (ms : List WMsg) : Stream × Bool :=
  let r := s.writeAll F o h ms
  if r.2 then r.1.sequenceCompleted F c o h else r

/-- several sequences through one stream encoder, stopping at the first error; number of sequences completed -/
def Stream.chain (F : Faults) (c : StreamCfg) (o : Opts) (h : Hdr) : Stream → List (List WMsg) → Stream × Nat × Bool
  | s, [] => (s, 0, true)
  | s, ms :: rest =>
    let r := s.sequence F c o h ms
    if !r.2 then (r.1, 0, false)
    else
      let t := Stream.chain F c o h r.1 rest
      (t.1, t.2.1 + 1, t.2.2)

def Stream.new (o : Opts) (kind : Kind) (size : Nat) (d : Dest) : Stream := { e := Enc.new o kind size d }

/-! ### the two validators in front of the output paths (order of calls only; what they check is C10's subject) -/

/-- result classes of an API call -/
inductive Res | ok | err | ep | ee | ev
  /-- `ctx.Err()` of a cancelled context (`EncodeWithContext` only) -/
  | ec
  deriving DecidableEq, Repr

/-- a message validator as the encoder uses it: `Reset()` = back to `init`; `Validate(&m)` advances the state and
either rejects or leaves the (possibly changed) message -/
structure MsgValidator (σ : Type) where
  init : σ
  step : σ → WMsg → σ × Option WMsg

def passThrough : MsgValidator Unit := ⟨(), fun _ m => ((), some m)⟩

/-- `proto.Validator.ValidateMessage` at wire level (the test of `Wire.validateFile` for one message) -/
def protoOK (pv : Nat) (m : WMsg) : Bool :=
  !(pv == 16 && (!m.devs.isEmpty || m.fields.any (fun f => f.bt &&& 0x1F > 13)))

/-- the message-validator loop of `validateMessages` -/
def validateAll {σ : Type} (V : MsgValidator σ) : σ → List WMsg → Option (List WMsg)
  | _, [] => some []
  | vs, m :: ms =>
    match V.step vs m with
    | (_, none) => none
    | (vs', some m') => (validateAll V vs' ms).map (m' :: ·)

/-- `Encode`: `validateMessages` (empty list, protocol validator over all messages, then the message validator over
all messages, which is reset afterwards either way), then the output path -/
def encodeV {σ : Type} (V : MsgValidator σ) (F : Faults) (o : Opts) (e : Enc) (f : FitIn) : Enc × Res :=
  if f.msgs.isEmpty then (e, .ee)
  else if !f.msgs.all (protoOK f.hdr.protoVer) then (e, .ep)
  else
    match validateAll V V.init f.msgs with
    | none => (e, .ev)
    | some ms' =>
      let r := encode F o e { f with msgs := ms' }
      (r.1, if r.2 then .ok else .err)

/-- `WriteMessage`: header when due, protocol validator, message validator, `encodeMessage` -/
def Stream.writeMessageV {σ : Type} (V : MsgValidator σ) (F : Faults) (o : Opts) (h : Hdr) (s : Stream) (vs : σ) (m : WMsg) :
    Stream × σ × Res :=
  let r := s.ensureHeader F h
  if !r.2 then (r.1, vs, .err)
  else if !protoOK h.protoVer m then (r.1, vs, .ep)
  else
    match V.step vs m with
    | (vs', none) => (r.1, vs', .ev)
    | (vs', some m') =>
      let r2 := encodeMessage F o r.1.e m'
      ({ r.1 with e := r2.1 }, vs', if r2.2 then .ok else .err)

/-- `WriteMessage` for each message of a list, stopping at the first call that does not succeed -/
def Stream.writeAllV {σ : Type} (V : MsgValidator σ) (F : Faults) (o : Opts) (h : Hdr) : Stream → σ → List WMsg → Stream × σ × Res
  | s, vs, [] => (s, vs, .ok)
  | s, vs, m :: ms =>
    let r := s.writeMessageV V F o h vs m
    if r.2.2 = .ok then Stream.writeAllV V F o h r.1 r.2.1 ms else r

/-- `SequenceCompleted` with the validator state: `e.enc.reset()` resets the validator only when it is reached -/
def Stream.sequenceCompletedV {σ : Type} (V : MsgValidator σ) (F : Faults) (c : StreamCfg) (o : Opts) (h : Hdr) (s : Stream) (vs : σ) :
    Stream × σ × Res :=
  let r1 := encodeCRC F s.e
  if !r1.2 then ({ s with e := r1.1 }, vs, .err) else
  let r2 := updateFileHeader F r1.1 h s.hdrDs
  if !r2.2.2 then ({ s with e := r2.1, hdrDs := r2.2.1 }, vs, .err) else
  let r := s.sequenceCompleted F c o h
  (r.1, V.init, if r.2 then .ok else .err)


/-! ### `EncodeWithContext` (encoder.go: the `…WithContext` duplicates of the output paths)

The context is polled once per message, before the message is encoded (`select { case <-ctx.Done(): return ctx.Err() … }` at the
top of the loop body of `encodeMessagesWithContext`) — in the dry run of the early-check strategy and in the real pass.
A context is modelled by the number of polls that still find it open. -/

/-- `none`: never cancelled (e.g. `context.Background()`); `some k`: the first `k` polls of `ctx.Done()` find the context open,
every later one finds it cancelled -/
abbrev Ctx := Option Nat

/-- the context after one poll that found it open -/
def Ctx.tick : Ctx → Ctx
  | some (k + 1) => some k
  | c => c

def Ctx.cancelled : Ctx → Bool
  | some 0 => true
  | _ => false

/-- `encodeMessagesWithContext`: `.ok`, `.err` (a write failed) or `.ec` (`ctx.Err()`); nothing is written, flushed or
undone when the cancellation is observed -/
def encodeMessagesCtx (F : Faults) (o : Opts) : Ctx → Enc → List WMsg → Enc × Ctx × Res
  | c, e, [] => (e, c, .ok)
  | c, e, m :: ms =>
    if c.cancelled then (e, c, .ec)
    else
      let r := encodeMessage F o e m
      if r.2 then encodeMessagesCtx F o c.tick r.1 ms else (r.1, c.tick, .err)

/-- the dry run under a context (`calculateDataSizeWithContext`): `none` when the cancellation is observed -/
def dryPassCtx (o : Opts) : Ctx → EncState → Nat → List WMsg → Ctx × Option (Nat × List WMsg)
  | c, _, ds, [] => (c, some (ds, []))
  | c, s, ds, m :: ms =>
    if c.cancelled then (c, none)
    else
      let r := dryMessage o s m
      let rest := dryPassCtx o c.tick r.1 ((ds + r.2.1) % 4294967296) ms
      (rest.1, rest.2.map fun t => (t.1, r.2.2 :: t.2))

/-- header, messages under the context, CRC (the part the two `…WithContext` strategies share) -/
def encodeBodyCtx (F : Faults) (o : Opts) (c : Ctx) (e : Enc) (h : Hdr) (ds : Nat) (ms : List WMsg) : Enc × Ctx × Res :=
  let r1 := encodeFileHeader F e h ds
  if !r1.2 then (r1.1, c, .err) else
  let r2 := encodeMessagesCtx F o c r1.1 ms
  if r2.2.2 != .ok then r2 else
  let r3 := encodeCRC F r2.1
  (r3.1, r2.2.1, if r3.2 then .ok else .err)

/-- `encodeWithDirectUpdateStrategyWithContext` -/
def encodeDirectCtx (F : Faults) (o : Opts) (c : Ctx) (e : Enc) (h : Hdr) (ds0 : Nat) (ms : List WMsg) : Enc × Ctx × Res :=
  let r3 := encodeBodyCtx F o c e h ds0 ms
  if r3.2.2 != .ok then r3 else
  let r4 := updateFileHeader F r3.1 h ds0
  (r4.1, r3.2.1, if r4.2.2 then .ok else .err)

/-- the encoder together with the one thing a cancelled dry run left behind in the code as it was pinned (`CtxCfg.restoresWriter
= false`): `calculateDataSizeWithContext` returned the context's error WITHOUT restoring `e.w` (and `e.n`), so the encoder kept
writing to `io.Discard` — from then on, until `Reset`, no call issued any destination operation. With the repaired code the
flag is never set. -/
structure EncC where
  e : Enc
  discard : Bool := false
  deriving Repr

/-- does `calculateDataSizeWithContext` put `e.w` (and `e.n`) back when the dry run is cancelled (the repaired code, /repo 4876fc8)
or return with `e.w == io.Discard` (the code as it was pinned: finding KF-C09-ctx-discard)? Both variants are modelled, as for
`StreamCfg`; `pinnedCtxCfg` is the one the driver runs against /repo. -/
structure CtxCfg where
  restoresWriter : Bool
  deriving Repr, DecidableEq

/-- /repo/encoder/encoder.go as it is now -/
def pinnedCtxCfg : CtxCfg := ⟨true⟩

/-- `encodeWithEarlyCheckStrategyWithContext`; the flag: the encoder is left on `io.Discard` (the cancellation was observed in
the dry run and the writer is not restored) -/
def encodeEarlyCtx (cc : CtxCfg) (F : Faults) (o : Opts) (c : Ctx) (e : Enc) (h : Hdr) (ms : List WMsg) : Enc × Ctx × Res × Bool :=
  match dryPassCtx o c e.es e.dataSize ms with
  | (c', none) => (e, c', .ec, !cc.restoresWriter)   -- pinned: `e.w` stays `io.Discard`; `Encode…` resets the rest
  | (c', some dry) =>
    let r := encodeBodyCtx F o c' (e.reset o) h dry.1 dry.2
    (r.1, r.2.1, r.2.2, false)

/-- `EncodeWithContext` after `validateMessages` (as `encode`); on an encoder stuck on `io.Discard` the early-check strategy
runs against `io.Discard`: no destination operation, success unless the context is cancelled within its `2·len` polls -/
def encodeCtx (cc : CtxCfg) (F : Faults) (o : Opts) (c : Ctx) (x : EncC) (f : FitIn) : EncC × Res :=
  if x.discard then
    let polls := 2 * f.msgs.length
    ({ x with e := x.e.reset o }, match c with
      | some k => if k < polls then .ec else .ok
      | none => .ok)
  else
    let r : Enc × Ctx × Res × Bool :=
      if x.e.w.kind.direct then
        let d := encodeDirectCtx F o c x.e f.hdr f.ds0 f.msgs
        (d.1, d.2.1, d.2.2, false)
      else encodeEarlyCtx cc F o c x.e f.hdr f.msgs
    let e' := r.1.reset o
    if r.2.2.1 != .ok then ({ e := e', discard := r.2.2.2 }, r.2.2.1)
    else
      let fl := e'.w.flush F
      ({ e := { e' with w := fl.1 }, discard := false }, if fl.2 then .ok else .err)

/-- `EncodeWithContext` with the validators in front (as `encodeV`; `c = none` is also what plain `Encode` does on an encoder
that an earlier cancelled call left on `io.Discard`) -/
def encodeCtxV {σ : Type} (V : MsgValidator σ) (cc : CtxCfg) (F : Faults) (o : Opts) (c : Ctx) (x : EncC) (f : FitIn) : EncC × Res :=
  if f.msgs.isEmpty then (x, .ee)
  else if !f.msgs.all (protoOK f.hdr.protoVer) then (x, .ep)
  else
    match validateAll V V.init f.msgs with
    | none => (x, .ev)
    | some ms' => encodeCtx cc F o c x { f with msgs := ms' }

/-- number of context polls of one uncancelled `EncodeWithContext` of `n` messages -/
def ctxPolls (kind : Kind) (n : Nat) : Nat := if kind.direct then n else 2 * n

/-! ### crash states (what C11's crash-prefix theorems and the sweep's self-check are stated with) -/

/-- the single-fault schedule "operation number `k` takes `j` bytes and fails" (a seek just fails) -/
def single (k j : Nat) : Faults := fun i => if i = k then some j else none

/-- the operation as the destination logs it when it fails after `j` bytes -/
def DOp.fail (j : Nat) : DOp → DOp
  | .write p _ _ => .write p (min j p.length) false
  | .writeAt p off _ _ => .writeAt p off (min j p.length) false
  | .seek delta _ => .seek delta false

/-- effect of one logged operation on a destination: the bytes it took are stored, the position moves, the operation is logged -/
def Dest.apply (d : Dest) : DOp → Dest
  | .write p t ok => { content := overwrite d.content d.pos (p.take t), pos := d.pos + t, log := .write p t ok :: d.log }
  | .writeAt p off t ok => { d with content := overwrite d.content off (p.take t), log := .writeAt p off t ok :: d.log }
  | .seek delta ok =>
    if ok then { d with pos := ((d.pos : Int) + delta).toNat, log := .seek delta ok :: d.log }
    else { d with log := .seek delta ok :: d.log }

/-- replay of an operation sequence (oldest first) on a destination -/
def Dest.run (d : Dest) (ops : List DOp) : Dest := ops.foldl Dest.apply d

/-- the crash state (k, j) of an operation sequence (oldest first): the first `k` operations in full, operation `k`
cut to `j` bytes and failed, nothing afterwards; the sequence itself when it has no operation `k` -/
def crashOps (k j : Nat) (ops : List DOp) : List DOp :=
  match ops[k]? with
  | some op => ops.take k ++ [op.fail j]
  | none => ops

/-! ### a destination opened with O_APPEND (the first caveat of `encoder.New`: "the behavior of the Encoder is not specified") -/

/-- effect of one logged operation on a file opened with `O_APPEND`: every `Write` goes to the END of the file wherever
the position is (and leaves the position there); a seek moves the position only. (`(*os.File).WriteAt` refuses such a
file; an `*os.File` is an `io.WriteSeeker` for the encoder, which never calls its `WriteAt`.) -/
def Dest.applyAppend (d : Dest) : DOp → Dest
  | .write p t ok => { content := d.content ++ p.take t, pos := d.content.length + t, log := .write p t ok :: d.log }
  | .writeAt p off t ok => { d with log := .writeAt p off t ok :: d.log }
  | .seek delta ok =>
    if ok then { d with pos := ((d.pos : Int) + delta).toNat, log := .seek delta ok :: d.log }
    else { d with log := .seek delta ok :: d.log }

/-- replay of an operation sequence (oldest first) on an `O_APPEND` file -/
def Dest.runAppend (d : Dest) (ops : List DOp) : Dest := ops.foldl Dest.applyAppend d

/-! ### what `Encode` stores back into the caller's `proto.FIT`, step by step (appended for C02's write-back clause)

The assignments to `fit.FileHeader` / `fit.CRC` in the order the code makes them, on either strategy, under any fault
schedule (a failing step returns with what has been assigned so far): `encodeFileHeader` sets `header.CRC` (computed from
the running hash for a 14-byte header, 0 for a 12-byte one) before it writes; `fit.CRC = e.crc16.Sum16()` sits between
`encodeMessages` and `encodeCRC`; `updateFileHeader` — direct-update strategy only, and only when the header's data size
differs from the bytes written — sets `header.DataSize` and recomputes `header.CRC`; `calculateDataSize` sets
`header.DataSize` before the header is written. `crcIn` is `fit.CRC` as the caller passed it. -/

/-- the steps both strategies share, given the data size the header value holds when `encodeFileHeader` runs -/
def encodeBodyWB (F : Faults) (o : Opts) (e : Enc) (h : Hdr) (ds : Nat) (ms : List WMsg) (crcIn : Nat) : WriteBack × Enc × Bool :=
  let wb0 : WriteBack := ⟨h.size, h.protoVer, h.profileVer, ds, hdrCrcBack e.crc h ds, crcIn⟩
  let r1 := encodeFileHeader F e h ds
  if !r1.2 then (wb0, r1) else
  let r2 := encodeMessages F o r1.1 ms
  if !r2.2 then (wb0, r2) else
  ({ wb0 with crc := r2.1.crc }, encodeCRC F r2.1)

def encodeDirectWB (F : Faults) (o : Opts) (e : Enc) (f : FitIn) (crcIn : Nat) : WriteBack :=
  let r := encodeBodyWB F o e f.hdr f.ds0 f.msgs crcIn
  if !r.2.2 then r.1
  else if f.ds0 = r.2.1.dataSize then r.1                       -- `if header.DataSize == e.dataSize { return nil }`
  else { r.1 with dataSize := r.2.1.dataSize,
                  hcrc := if f.hdr.size = 14 then hdrCrcBack r.2.1.crc f.hdr r.2.1.dataSize else r.1.hcrc }

def encodeEarlyWB (F : Faults) (o : Opts) (e : Enc) (f : FitIn) (crcIn : Nat) : WriteBack :=
  let dry := dryPass o e.es e.dataSize f.msgs
  (encodeBodyWB F o (e.reset o) f.hdr dry.1 dry.2 crcIn).1

/-- `Encode` after `validateMessages`: the caller's `fit.FileHeader` / `fit.CRC` when it returns -/
def encodeWB (F : Faults) (o : Opts) (e : Enc) (f : FitIn) (crcIn : Nat) : WriteBack :=
  if e.w.kind.direct then encodeDirectWB F o e f crcIn else encodeEarlyWB F o e f crcIn

end Fit.Writer
