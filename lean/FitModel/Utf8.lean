import FitModel.Generated.Consts
/-!
Model of the three functions of Go's standard package `unicode/utf8` that muktihari/fit uses
(`DecodeRune`, `AppendRune`, `ValidString`) and of `proto.utf8String` (proto/value_unmarshal.go:233-249).

`unicode/utf8` is outside the repository: it is modelled after its documented behaviour (the Unicode
"well-formed UTF-8 byte sequences" table; an invalid or short encoding decodes to `(RuneError, 1)`,
the empty input to `(RuneError, 0)`) and tied to the real package by the correspondence family `utf8`.
Bytes are `Nat` (< 256 where it matters); runes are `Nat`; the bit operations of the Go code are
written with `/ % * +` (equal on the ranges in which they are used), so that `omega` applies.
-/
namespace Fit.Utf8

def runeError : Nat := Fit.Gen.runeError

/-- `utf8.DecodeRune(p)`: the first rune of `p` and its width in bytes. -/
def decodeRune : List Nat → Nat × Nat
  | [] => (runeError, 0)
  | b0 :: rest =>
    if b0 < 0x80 then (b0, 1)                                  -- ASCII
    else if b0 < 0xC2 then (runeError, 1)                      -- continuation byte or overlong lead
    else if b0 < 0xE0 then                                     -- two bytes
      match rest with
      | b1 :: _ =>
        if 0x80 ≤ b1 ∧ b1 ≤ 0xBF then (b0 % 32 * 64 + b1 % 64, 2) else (runeError, 1)
      | _ => (runeError, 1)
    else if b0 < 0xF0 then                                     -- three bytes
      match rest with
      | b1 :: b2 :: _ =>
        if (if b0 = 0xE0 then 0xA0 else 0x80) ≤ b1 ∧ b1 ≤ (if b0 = 0xED then 0x9F else 0xBF) then
          if 0x80 ≤ b2 ∧ b2 ≤ 0xBF then (b0 % 16 * 4096 + b1 % 64 * 64 + b2 % 64, 3) else (runeError, 1)
        else (runeError, 1)
      | _ => (runeError, 1)
    else if b0 < 0xF5 then                                     -- four bytes
      match rest with
      | b1 :: b2 :: b3 :: _ =>
        if (if b0 = 0xF0 then 0x90 else 0x80) ≤ b1 ∧ b1 ≤ (if b0 = 0xF4 then 0x8F else 0xBF) then
          if 0x80 ≤ b2 ∧ b2 ≤ 0xBF then
            if 0x80 ≤ b3 ∧ b3 ≤ 0xBF then
              (b0 % 8 * 262144 + b1 % 64 * 4096 + b2 % 64 * 64 + b3 % 64, 4)
            else (runeError, 1)
          else (runeError, 1)
        else (runeError, 1)
      | _ => (runeError, 1)
    else (runeError, 1)

/-- `utf8.AppendRune(nil, r)`: the UTF-8 encoding of `r` (of U+FFFD when `r` is not a scalar value). -/
def appendRune (r : Nat) : List Nat :=
  if r ≤ 0x7F then [r]
  else if r ≤ 0x7FF then [0xC0 + r / 64, 0x80 + r % 64]
  else if r > Fit.Gen.maxRune ∨ (0xD800 ≤ r ∧ r ≤ 0xDFFF) then [0xEF, 0xBF, 0xBD]
  else if r ≤ 0xFFFF then [0xE0 + r / 4096, 0x80 + r / 64 % 64, 0x80 + r % 64]
  else [0xF0 + r / 262144, 0x80 + r / 4096 % 64, 0x80 + r / 64 % 64, 0x80 + r % 64]

/-- the first encoding of `p` is invalid (`DecodeRune` answers `(RuneError, 1)`); `p` non-empty -/
def invalidAt (p : List Nat) : Bool :=
  let d := decodeRune p
  d.1 == runeError && d.2 == 1

/-- `utf8.Valid(p)` / `utf8.ValidString(s)`: `p` consists entirely of valid encodings
(`fuel` ≥ length; the public entry point is `valid`). -/
def validAux : Nat → List Nat → Bool
  | 0, p => p.isEmpty
  | fuel + 1, p =>
    if p.isEmpty then true
    else if invalidAt p then false
    else validAux fuel (p.drop (decodeRune p).2)

def valid (p : List Nat) : Bool := validAux p.length p

/-- some rune of `p` is a *well-formed* U+FFFD (encoded EF BF BD), reading `p` as `utf8String` does
(up to the first NUL). -/
def hasFFFDAux : Nat → List Nat → Bool
  | 0, _ => false
  | fuel + 1, p =>
    if p.isEmpty then false
    else
      let d := decodeRune p
      if d.1 == 0 then false
      else if d.1 == runeError && d.2 == 3 then true
      else hasFFFDAux fuel (p.drop d.2)

def hasFFFD (p : List Nat) : Bool := hasFFFDAux p.length p

/-- `proto.utf8String(b)`: decode rune by rune; stop at the end or at the first NUL rune; drop every
`RuneError` (that of an invalid byte **and** a well-formed U+FFFD); re-encode the others.
The Go loop appends to a buffer; the model returns the same bytes by structural recursion
(`fuel` ≥ length: every iteration consumes `size ≥ 1` bytes). -/
def utf8StringAux : Nat → List Nat → List Nat
  | 0, _ => []
  | fuel + 1, b =>
    if b.isEmpty then []
    else
      let d := decodeRune b
      if d.1 == 0 then []
      else (if d.1 != runeError then appendRune d.1 else []) ++ utf8StringAux fuel (b.drop d.2)

def utf8String (b : List Nat) : List Nat := utf8StringAux b.length b

end Fit.Utf8
