import Driver.Util
import Driver.Crc
