import FitProps.DecProgLemmas
import FitProps.DecHistLemmas
/-!
# C08 — Decoding is independent of how the reader fragments the stream

PROPERTY THEOREMS (audited by ./check): see `checklib/props/C08.py`.

Setting. The reader is a *schedule* (`Fit.ReadBuffer.Sched`): what each successive `Read` call returns — some bytes and
possibly an error together with them; `Clean` = no failure (no error, except `io.EOF` with the last chunk; after the
schedule `(0, io.EOF)`), so the clean schedules over a byte string are exactly its partitions into short reads with
end-of-stream reported together with or after the last bytes. `RB.fresh s size` is the read buffer of
`decoder.New(r, WithReadBufferSize(size))`, any `size : Int` (clamped as `Reset` does). A decoder is a `Prog`: it sees
the stream only through `ReadN`. The reference is the exact-n reader over the byte string (`exactRead`, `runExact`).
-/
namespace Fit.C08
open Fit.ReadBuffer Fit.DecProg Fit.Gen.Reader

instance (bs : Bytes) : Decidable (IsBytes bs) := inferInstanceAs (Decidable (∀ b ∈ bs, b < 256))

/-! ## the read buffer refines the exact-n reader -/

theorem readMany_refines (ns : List Nat) (hns : ∀ n ∈ ns, n ≤ reservedbuf) :
    ∀ (b : RB) (rest : Bytes), Inv b rest → Clean b.src →
      (b.readMany ns).1.map Res.merge = (exactMany rest ns).map Res.merge ∧
      ((exactMany rest ns).getLast? ≠ some (.err .unexpectedEof) → (b.readMany ns).1 = exactMany rest ns) := by
  induction ns with
  | nil => intro b rest _ _; exact ⟨rfl, fun _ => rfl⟩
  | cons n ns ih =>
    intro b rest hinv hc
    have hn : n ≤ reservedbuf := hns n (by simp)
    have hns' : ∀ m ∈ ns, m ≤ reservedbuf := fun m hm => hns m (by simp [hm])
    by_cases hlen : n ≤ rest.length
    · obtain ⟨b', hr, hinv', hc'⟩ := readN_clean_ok hinv hc n hn hlen
      obtain ⟨h1, h2⟩ := ih hns' b' (rest.drop n) hinv' hc'
      simp only [RB.readMany, hr, exactMany, exactRead, hlen, if_true, List.map_cons]
      refine ⟨by rw [h1], fun hl => ?_⟩
      rw [h2]
      intro hx; apply hl
      rw [List.getLast?_cons]
      cases hm : exactMany (rest.drop n) ns with
      | nil => rw [hm] at hx; simp at hx
      | cons x xs => rw [hm] at hx; simp [hx]
    · obtain ⟨e, b', hr, he, h0⟩ := readN_clean_short hinv hc n hn (by omega)
      have hrm : (b.readMany (n :: ns)).1 = [.err e] := by simp only [RB.readMany, hr]
      rw [hrm]
      by_cases hempty : rest = []
      · obtain ⟨hee, _, _⟩ := h0 hempty
        subst hee hempty
        have hn0 : n ≠ 0 := by simpa using hlen
        simp [exactMany, exactRead, hn0]
      · have hie : rest.isEmpty = false := by cases rest with | nil => exact absurd rfl hempty | cons _ _ => rfl
        simp only [exactMany, exactRead, hlen, if_false, hie, List.map_cons, List.map_nil]
        refine ⟨?_, fun hl => by simp at hl⟩
        rcases he with rfl | rfl <;> rfl

/-- READ BUFFER = EXACT-N READER. Whatever clean schedule delivers the stream and whatever the buffer size (also a
buffer re-used after other work: any `b`), a sequence of `ReadN` requests of at most `reservedbuf` bytes each
(stopped at the first that fails) returns what the exact-n reader over the byte string returns: the same bytes for
every successful request, an end-of-stream error exactly where the stream is exhausted — and even the same
end-of-stream error unless the stream ends inside a request. -/
theorem C08_readN_refines (b : RB) (s : Sched) (size : Int) (ns : List Nat) (hs : Clean s)
    (hns : ∀ n ∈ ns, n ≤ reservedbuf) :
    ((b.reset s size).readMany ns).1.map Res.merge = (exactMany (bytesOf s) ns).map Res.merge ∧
    ((exactMany (bytesOf s) ns).getLast? ≠ some (.err .unexpectedEof) →
      ((b.reset s size).readMany ns).1 = exactMany (bytesOf s) ns) :=
  readMany_refines ns hns _ _ (reset_inv b s size) hs

/-- ANY READER, failing ones included: `ReadN` never panics, and when it reports success the bytes are exactly the next
`n` bytes of what the reader delivers — nothing skipped, repeated or out of order; anything else is an error. -/
theorem C08_readN_sound (b : RB) (s : Sched) (size : Int) (ns : List Nat) (hns : ∀ n ∈ ns, n ≤ reservedbuf) :
    ∀ (i : Nat) (r : Res), ((b.reset s size).readMany ns).1[i]? = some r →
      r ≠ .panic ∧ ∀ bs, r = .ok bs →
        bs = ((bytesOf s).drop ((ns.take i).foldl (· + ·) 0)).take (ns.getD i 0) ∧
        (ns.take (i + 1)).foldl (· + ·) 0 ≤ (bytesOf s).length := by
  suffices H : ∀ (ns : List Nat), (∀ n ∈ ns, n ≤ reservedbuf) → ∀ (b : RB) (rest : Bytes), Inv b rest →
      ∀ (i : Nat) (r : Res), (b.readMany ns).1[i]? = some r →
        r ≠ .panic ∧ ∀ bs, r = .ok bs → bs = (rest.drop ((ns.take i).foldl (· + ·) 0)).take (ns.getD i 0) ∧
          (ns.take (i + 1)).foldl (· + ·) 0 ≤ rest.length from
    H ns hns _ _ (reset_inv b s size)
  intro ns
  induction ns with
  | nil => intro _ b rest _ i r h; simp [RB.readMany] at h
  | cons n ns ih =>
    intro hns b rest hinv i r h
    have hn : n ≤ reservedbuf := hns n (by simp)
    have hns' : ∀ m ∈ ns, m ≤ reservedbuf := fun m hm => hns m (by simp [hm])
    have hfold : ∀ (l : List Nat) (a : Nat), l.foldl (· + ·) a = a + l.foldl (· + ·) 0 := by
      intro l; induction l with
      | nil => intro a; simp
      | cons x xs ihx => intro a; simp only [List.foldl_cons]; rw [ihx (a + x), ihx (0 + x)]; omega
    rcases readN_sound hinv n hn with ⟨b', hr, hlen, hinv'⟩ | ⟨e, b', hr⟩
    · simp only [RB.readMany, hr] at h
      cases i with
      | zero =>
        simp at h; subst h
        exact ⟨by simp, fun bs hbs => by cases hbs; simp; omega⟩
      | succ i =>
        simp only [List.getElem?_cons_succ] at h
        obtain ⟨h1, h2⟩ := ih hns' b' (rest.drop n) hinv' i r h
        refine ⟨h1, fun bs hbs => ?_⟩
        obtain ⟨h3, h4⟩ := h2 bs hbs
        simp only [List.take_succ_cons, List.foldl_cons, List.getD_cons_succ]
        rw [hfold _ (0 + n)]
        refine ⟨by rw [h3, List.drop_drop]; congr 2; omega, ?_⟩
        rw [List.length_drop] at h4
        rw [hfold]; omega
    · simp only [RB.readMany, hr] at h
      cases i with
      | zero => simp at h; subst h; exact ⟨by simp, fun bs hbs => by cases hbs⟩
      | succ i => simp at h

/-! ## lifting to decode outcomes -/

/-- the decode loop over a reader `s` with buffer size `size` -/
def decodeOver (chk : Bool) (fuel : Nat) (s : Sched) (size : Int) : Outcome Out :=
  runRB (decodeLoop chk fuel true []) (RB.fresh s size)

/-- REQUEST BOUND: every `ReadN` the decoder issues (file header, record headers, definitions with up to 255 field
and 255 developer field definitions, field values, developer field values, CRC) asks for at most `reservedbuf`
bytes; and a request cut short by the end of the stream ends the run at once. -/
theorem C08_request_bound (chk : Bool) (fuel : Nat) (first : Bool) (evs : List Ev) :
    Good Out.merge reservedbuf (decodeLoop chk fuel first evs) := good_decodeLoop chk fuel first evs

/-- the decode loop over the read buffer never panics and gives the outcome of the exact-n reader: headers, messages
(listener events), CRCs and error — up to the end-of-stream error class, and exactly when the stream does not end
inside a request -/
theorem decodeOver_exact (chk : Bool) (fuel : Nat) (s : Sched) (size : Int) (hs : Clean s) (hb : IsBytes (bytesOf s)) :
    ∃ o, decodeOver chk fuel s size = .done o ∧ o.merge = (runExact (decodeLoop chk fuel true []) (bytesOf s)).merge ∧
      (truncated (decodeLoop chk fuel true []) (bytesOf s) = false → o = runExact (decodeLoop chk fuel true []) (bytesOf s)) :=
  runRB_refines Out.merge _ (good_decodeLoop chk fuel true []) _ _ (reset_inv RB.zero s size) hs hb

/-- the full statement of chunk independence: ANY two clean schedules over the same bytes, ANY two buffer sizes, give
the same outcome, end-of-stream error class included. FALSE on the pinned tree (`C08_full_false`, DESIGN §4 F12). -/
def C08_full : Prop :=
  ∀ (chk : Bool) (fuel : Nat) (s₁ s₂ : Sched) (size₁ size₂ : Int), Clean s₁ → Clean s₂ → IsBytes (bytesOf s₁) →
    bytesOf s₁ = bytesOf s₂ → decodeOver chk fuel s₁ size₁ = decodeOver chk fuel s₂ size₂

/-- CHUNK INDEPENDENCE (up to the end-of-stream error class): any partition of the stream into short reads — down to
one byte at a time, zero-length reads in between, end-of-stream together with or after the last bytes — and any
read-buffer size give the same headers, messages (listener events with, for every message, the bytes of each field
and developer field as handed to the value decoder), CRCs and errors, where the two end-of-stream errors count as
one; and nothing panics. -/
theorem C08_chunk_indep_partial (chk : Bool) (fuel : Nat) (s₁ s₂ : Sched) (size₁ size₂ : Int)
    (h₁ : Clean s₁) (h₂ : Clean s₂) (hb : IsBytes (bytesOf s₁)) (heq : bytesOf s₁ = bytesOf s₂) :
    ∃ o₁ o₂, decodeOver chk fuel s₁ size₁ = .done o₁ ∧ decodeOver chk fuel s₂ size₂ = .done o₂ ∧ o₁.merge = o₂.merge := by
  obtain ⟨o₁, e₁, m₁, _⟩ := decodeOver_exact chk fuel s₁ size₁ h₁ hb
  obtain ⟨o₂, e₂, m₂, _⟩ := decodeOver_exact chk fuel s₂ size₂ h₂ (heq ▸ hb)
  exact ⟨o₁, o₂, e₁, e₂, by rw [m₁, m₂, heq]⟩

/-- CHUNK INDEPENDENCE, exact: when the stream does not end inside a request of the decoder (complete files, files
rejected for any reason other than truncation, streams ending exactly between requests) the outcomes are EQUAL —
error class included. The excluded class is the known finding KF-C08-1. -/
theorem C08_chunk_indep (chk : Bool) (fuel : Nat) (s₁ s₂ : Sched) (size₁ size₂ : Int)
    (h₁ : Clean s₁) (h₂ : Clean s₂) (hb : IsBytes (bytesOf s₁)) (heq : bytesOf s₁ = bytesOf s₂)
    (hnt : truncated (decodeLoop chk fuel true []) (bytesOf s₁) = false) :
    decodeOver chk fuel s₁ size₁ = decodeOver chk fuel s₂ size₂ := by
  obtain ⟨o₁, e₁, _, x₁⟩ := decodeOver_exact chk fuel s₁ size₁ h₁ hb
  obtain ⟨o₂, e₂, _, x₂⟩ := decodeOver_exact chk fuel s₂ size₂ h₂ (heq ▸ hb)
  rw [e₁, e₂, x₁ hnt, x₂ (heq ▸ hnt), heq]

/-- … and the same for a decoder whose read buffer has been used before (`Decoder.Reset` re-slices or re-allocates the
buffer of the previous reader: whatever state and contents `b₁`, `b₂` it was left in) -/
theorem C08_chunk_indep_reused_buffer (chk : Bool) (fuel : Nat) (b₁ b₂ : RB) (s₁ s₂ : Sched) (size₁ size₂ : Int)
    (h₁ : Clean s₁) (h₂ : Clean s₂) (hb : IsBytes (bytesOf s₁)) (heq : bytesOf s₁ = bytesOf s₂) :
    ∃ o₁ o₂, runRB (decodeLoop chk fuel true []) (b₁.reset s₁ size₁) = .done o₁ ∧
      runRB (decodeLoop chk fuel true []) (b₂.reset s₂ size₂) = .done o₂ ∧ o₁.merge = o₂.merge ∧
      (truncated (decodeLoop chk fuel true []) (bytesOf s₁) = false → o₁ = o₂) := by
  obtain ⟨o₁, e₁, m₁, x₁⟩ := runRB_refines Out.merge _ (good_decodeLoop chk fuel true []) _ _ (reset_inv b₁ s₁ size₁) h₁ hb
  obtain ⟨o₂, e₂, m₂, x₂⟩ := runRB_refines Out.merge _ (good_decodeLoop chk fuel true []) _ _ (reset_inv b₂ s₂ size₂) h₂ (heq ▸ hb)
  exact ⟨o₁, o₂, e₁, e₂, by rw [m₁, m₂, heq], fun hnt => by rw [x₁ hnt, x₂ (heq ▸ hnt), heq]⟩

/-- the witness of KF-C08-1: a 24-byte stream (14-byte header, one definition record, first byte of the file CRC) -/
def kfBytes : Bytes := [14, 32, 0, 0, 9, 0, 0, 0, 46, 70, 73, 84, 0, 0,  64, 0, 0, 0, 0, 1, 0, 1, 2,  7]
def kfOneByte : Sched := kfBytes.map fun b => ⟨[b], none⟩

/-- KF-C08-1, `decide`d on the model: the stream cut inside its file CRC ends with `io.EOF` when read from one
contiguous buffer and with `io.ErrUnexpectedEOF` when read one byte at a time -/
theorem C08_full_false : ¬ C08_full := by
  intro h
  have := h false 2 (contiguous kfBytes) kfOneByte 765 765 (by decide) (by decide) (by decide) (by decide)
  revert this
  decide +kernel

/-- non-vacuity of the exact theorem: a complete one-record file (CRC bytes present) is not truncated, and decodes -/
example : truncated (decodeLoop false 2 true []) (kfBytes ++ [9]) = false ∧
    (runExact (decodeLoop false 2 true []) (kfBytes ++ [9])).status = none := by decide +kernel

/-- `CheckIntegrity` over a reader `s` with buffer size `size` -/
def checkOver (fuel : Nat) (s : Sched) (size : Int) : Outcome CiOut := runRB (checkIntegrity fuel 0) (RB.fresh s size)

/-- `CheckIntegrity` is chunk independent too: same number of completed sequences and same error for any two clean
schedules and buffer sizes — up to the end-of-stream error class, exactly when the stream does not end inside a
request (its `discardMessages` requests are at most `reservedbuf` bytes: part of the `Good` proof) -/
theorem C08_checkIntegrity_indep (fuel : Nat) (s₁ s₂ : Sched) (size₁ size₂ : Int)
    (h₁ : Clean s₁) (h₂ : Clean s₂) (hb : IsBytes (bytesOf s₁)) (heq : bytesOf s₁ = bytesOf s₂) :
    ∃ o₁ o₂, checkOver fuel s₁ size₁ = .done o₁ ∧ checkOver fuel s₂ size₂ = .done o₂ ∧ o₁.merge = o₂.merge ∧
      (truncated (checkIntegrity fuel 0) (bytesOf s₁) = false → o₁ = o₂) := by
  obtain ⟨o₁, e₁, m₁, x₁⟩ := runRB_refines CiOut.merge _ (good_checkIntegrity fuel 0) _ _ (reset_inv RB.zero s₁ size₁) h₁ hb
  obtain ⟨o₂, e₂, m₂, x₂⟩ := runRB_refines CiOut.merge _ (good_checkIntegrity fuel 0) _ _ (reset_inv RB.zero s₂ size₂) h₂ (heq ▸ hb)
  exact ⟨o₁, o₂, e₁, e₂, by rw [m₁, m₂, heq], fun hnt => by rw [x₁ hnt, x₂ (heq ▸ hnt), heq]⟩

/-! ## reader failures -/

/-- READER ERRORS ARE RETURNED. The reader delivers `pre` (any chunks without error), then fails with error `e` —
with or without some more bytes in the same call — before the `n` requested bytes are there: `ReadN` returns that
error (`io.EOF` after some bytes of the refill becomes `io.ErrUnexpectedEOF`, as `io.ReadAtLeast` documents) and
no bytes; whatever the buffer state and size. -/
theorem C08_reader_error (b : RB) (rest : Bytes) (hinv : Inv b rest) (n : Nat) (hn : n ≤ reservedbuf)
    (pre post : Sched) (c : Chunk) (e : RErr) (hsrc : b.src = pre ++ c :: post) (hpre : ∀ p ∈ pre, p.err = none)
    (hc : c.err = some e) (hshort : (b.last - b.cur) + (bytesOf pre).length + c.data.length < n) :
    ∃ b', b.readN n = (.err (if e = .eof ∧ 0 < (bytesOf pre).length + c.data.length then .unexpectedEof else e), b') := by
  have h2 := hinv.last_le; have h4 := hinv.big
  have hlt : b.last - b.cur < n := by omega
  -- the refill loop runs through `pre` and stops at `c`
  have hral : ∀ (pre : Sched) (acc : Bytes), (∀ p ∈ pre, p.err = none) →
      acc.length + (bytesOf pre).length + c.data.length < n - (b.last - b.cur) →
      ral (b.len - reservedbuf) (n - (b.last - b.cur)) acc (pre ++ c :: post) = (acc ++ bytesOf pre ++ c.data, some e, post) := by
    intro pre
    induction pre with
    | nil =>
      intro acc _ hl
      simp only [bytesOf_nil, List.length_nil, Nat.add_zero] at hl
      have h1 : acc.length < n - (b.last - b.cur) := by omega
      have h3 : c.data.length ≤ b.len - reservedbuf - acc.length := by omega
      simp [ral, h1, h3, hc, bytesOf_nil]
    | cons p pre ih =>
      intro acc hp hl
      rw [bytesOf_cons, List.length_append] at hl
      have h1 : acc.length < n - (b.last - b.cur) := by omega
      have h3 : p.data.length ≤ b.len - reservedbuf - acc.length := by omega
      have hpe : p.err = none := hp p (by simp)
      simp only [List.cons_append, ral, h1, if_true, h3, hpe]
      rw [ih (acc ++ p.data) (fun q hq => hp q (by simp [hq])) (by simp only [List.length_append]; omega)]
      simp [bytesOf_cons, List.append_assoc]
  have hr := hral pre [] hpre (by simp; omega)
  simp only [List.nil_append] at hr
  have hnlt : ¬ (b.len - reservedbuf < n - (b.last - b.cur)) := by omega
  have hdl : ¬ (n - (b.last - b.cur) ≤ (bytesOf pre ++ c.data).length) := by simp only [List.length_append]; omega
  have hral2 : readAtLeast (b.len - reservedbuf) (n - (b.last - b.cur)) b.src =
      (bytesOf pre ++ c.data, some (if e = .eof ∧ 0 < (bytesOf pre).length + c.data.length then .unexpectedEof else e), post) := by
    rw [hsrc]
    simp only [readAtLeast, hnlt, if_false, hr, hdl]
    by_cases hcond : e = .eof ∧ 0 < (bytesOf pre).length + c.data.length
    · obtain ⟨he, hp⟩ := hcond
      subst he
      simp [List.length_append, hp]
    · simp only [hcond, if_false]
      by_cases he : e = .eof
      · subst he
        have : ¬ 0 < (bytesOf pre ++ c.data).length := by
          simp only [List.length_append]; intro h; exact hcond ⟨rfl, h⟩
        simp only [this, false_and, if_false]
      · have : ¬ (0 < (bytesOf pre ++ c.data).length ∧ some e = some RErr.eof) := by
          intro ⟨_, h⟩; injection h with h; exact he h
        simp only [this, if_false]
  have hcat : (bytesOf pre ++ c.data) ++ bytesOf post = bytesOf b.src := by
    rw [hsrc, bytesOf_append, bytesOf_cons, List.append_assoc]
  obtain ⟨b', hb', _⟩ := (readN_refill hinv n hn hlt hral2 hcat (by simp only [List.length_append]; omega)).1 _ rfl
  exact ⟨b', hb'⟩

/-- non-vacuity: the reader delivers 2 bytes, then fails with error 7 together with a third byte; asked for 5 bytes,
`ReadN` returns error 7 -/
example : ((RB.fresh [⟨[1, 2], none⟩, ⟨[3], some (.custom 7)⟩, ⟨[4, 5, 6], none⟩] 0).readN 5).1 = .err (.custom 7) := by decide +kernel

/-- THE LOOP RETURNS THE READER'S ERROR. The documented loop `for dec.Next() { dec.Decode() }` of a fresh decoder over ANY
reader and any buffer size: if `ReadN` hands the decoder a failure of the reader, at whatever point — file header of
the first or of a later sequence (where `Next()` reads it), record header, definition, field value, developer field,
CRC — the loop ends with exactly that error: no success, no silent end, no other error class.
(Before the `fix:` commit of KF-C08-2 `Next()` swallowed such an error met in the header of a later sequence.) -/
theorem C08_reader_error_loop (chk : Bool) (fuel : Nat) (s : Sched) (size : Int) (e : RErr)
    (h : firstReaderErr (decodeLoop chk fuel true []) (RB.fresh s size) = some e) :
    ∃ o, decodeOver chk fuel s size = .done o ∧ o.status = some (.io e) := by
  obtain ⟨o, ho, hq⟩ := keeps_run _ (keeps_decodeLoop chk fuel true []) _ e h
  exact ⟨o, ho, hq (firstReaderErr_isFailure _ _ e h)⟩

/-- one `Decode()` of a fresh decoder (`fuel = 1`) -/
theorem C08_reader_error_decode (chk : Bool) (s : Sched) (size : Int) (e : RErr)
    (h : firstReaderErr (decodeLoop chk 1 true []) (RB.fresh s size) = some e) :
    ∃ o, runRB (decodeLoop chk 1 true []) (RB.fresh s size) = .done o ∧ o.status = some (.io e) :=
  C08_reader_error_loop chk 1 s size e h

/-- the former witness of KF-C08-2 (a complete one-record sequence, then the reader fails with error 7 instead of end
of stream): the hypothesis is met and the loop ends with error 7 -/
def kf2Sched : Sched := [⟨kfBytes ++ [9], none⟩, ⟨[], some (.custom 7)⟩]

example : firstReaderErr (decodeLoop false 3 true []) (RB.fresh kf2Sched 0) = some (.custom 7) ∧
    (match decodeOver false 3 kf2Sched 0 with | .done o => o.status | .panic => none) = some (.io (.custom 7)) := by
  decide +kernel

/-! ## the raw decoder reads with `io.ReadFull` straight from the reader -/

/-- every client of `io.ReadFull` — `RawDecoder.Decode` is one (`FitModel/Raw.lean`) — gets, over any clean schedule, exactly
what the exact-n reader over the byte string gives: here even the end-of-stream error class is independent of the fragmentation -/
theorem C08_raw_chunk_indep {α : Type} (p : Prog α) (s₁ s₂ : Sched) (h₁ : Clean s₁) (h₂ : Clean s₂)
    (heq : bytesOf s₁ = bytesOf s₂) : runFull p s₁ = runFull p s₂ := by
  rw [runFull_eq_exact p s₁ h₁, runFull_eq_exact p s₂ h₂, heq]

/-! ## every entry point, every history of calls (FitModel/DecHist.lean)

`DecHist.history chk fuelCi ops` is the decoder object of `decoder.New(r, opts)` driven through the calls `ops` — `Decode`,
`DecodeWithContext` (context live / cancelled before the call / cancelled after k records of the call), `PeekFileHeader`,
`PeekFileId`, `Discard`, `Next`, and a final `CheckIntegrity` — as a client of the read buffer. `Reset` onto a new reader and
the re-seek after `CheckIntegrity` start a new program on `b.reset s size` for the buffer state `b` they find: the theorems
hold from ANY such `b`. -/

/-- the calls `ops` on the decoder of `decoder.New(r, WithReadBufferSize(size))`, `r` delivering `s` -/
def histOver (chk : Bool) (fuelCi : Nat) (ops : List Fit.DecHist.Op) (s : Sched) (size : Int) : Outcome Fit.DecHist.Out :=
  runRB (Fit.DecHist.history chk fuelCi ops) (RB.fresh s size)

/-- REQUEST BOUND for every history: whatever is called in whatever order, every `ReadN` the decoder issues asks for at most
`reservedbuf` bytes, and a request cut short by the end of the stream ends the reading at once (the error is sticky) -/
theorem C08_request_bound_ops (chk : Bool) (fuelCi : Nat) (ops : List Fit.DecHist.Op) :
    Good Fit.DecHist.Out.merge reservedbuf (Fit.DecHist.history chk fuelCi ops) :=
  (Fit.DecHist.s_history chk fuelCi ops).good

/-- **CHUNK INDEPENDENCE OF EVERY HISTORY OF CALLS.** For every list of calls, any two clean fragmentations of the same bytes
(any partition into short reads, down to one byte at a time, zero-length reads, EOF with or after the last bytes), any two
read-buffer sizes and any two previous states of the buffer (a decoder re-used through `Reset`): nothing panics, and every
call returns the same — FIT header / CRC / message count, file header, "file_id found", nil, `Next`'s bool, the verdict of
`CheckIntegrity`, error — with the same listener events (definitions; messages with the bytes of every field), where the two
end-of-stream errors count as one class (KF-C08-1); and EXACTLY the same when the stream does not end inside a request. -/
theorem C08_chunk_indep_ops (chk : Bool) (fuelCi : Nat) (ops : List Fit.DecHist.Op) (b₁ b₂ : RB) (s₁ s₂ : Sched)
    (size₁ size₂ : Int) (h₁ : Clean s₁) (h₂ : Clean s₂) (hb : IsBytes (bytesOf s₁)) (heq : bytesOf s₁ = bytesOf s₂) :
    ∃ o₁ o₂, runRB (Fit.DecHist.history chk fuelCi ops) (b₁.reset s₁ size₁) = .done o₁ ∧
      runRB (Fit.DecHist.history chk fuelCi ops) (b₂.reset s₂ size₂) = .done o₂ ∧ o₁.merge = o₂.merge ∧
      (truncated (Fit.DecHist.history chk fuelCi ops) (bytesOf s₁) = false → o₁ = o₂) := by
  have hg := C08_request_bound_ops chk fuelCi ops
  obtain ⟨o₁, e₁, m₁, x₁⟩ := runRB_refines Fit.DecHist.Out.merge _ hg _ _ (reset_inv b₁ s₁ size₁) h₁ hb
  obtain ⟨o₂, e₂, m₂, x₂⟩ := runRB_refines Fit.DecHist.Out.merge _ hg _ _ (reset_inv b₂ s₂ size₂) h₂ (heq ▸ hb)
  exact ⟨o₁, o₂, e₁, e₂, by rw [m₁, m₂, heq], fun hnt => by rw [x₁ hnt, x₂ (heq ▸ hnt), heq]⟩

theorem clean_contiguous (bs : Bytes) : Clean (contiguous bs) := by simp [Clean, cleanB, contiguous]
theorem bytesOf_contiguous (bs : Bytes) : bytesOf (contiguous bs) = bs := by simp [bytesOf, contiguous]

/-- … in the form of the property: every clean fragmentation and buffer size give the per-call outcomes of the contiguous
reader (`bytes.NewReader`) with the default buffer size -/
theorem C08_chunk_indep_ops_contiguous (chk : Bool) (fuelCi : Nat) (ops : List Fit.DecHist.Op) (s : Sched) (size : Int)
    (hs : Clean s) (hb : IsBytes (bytesOf s)) :
    ∃ o r, histOver chk fuelCi ops s size = .done o ∧
      histOver chk fuelCi ops (contiguous (bytesOf s)) (defaultReadBufferSize : Int) = .done r ∧ o.merge = r.merge ∧
      (truncated (Fit.DecHist.history chk fuelCi ops) (bytesOf s) = false → o = r) :=
  C08_chunk_indep_ops chk fuelCi ops RB.zero RB.zero s (contiguous (bytesOf s)) size _ hs (clean_contiguous _) hb
    (bytesOf_contiguous _).symm

/-- **READER FAILURES ARE RETURNED, whatever is called.** Over ANY reader and buffer: if `ReadN` hands the decoder a failure of
the reader during some call of the history, no further byte is requested and that failure is the decoder's error at the
end (`d.err`, which every later call returns; after a swallowing `Next()` the following call; for `CheckIntegrity` its verdict). -/
theorem C08_reader_error_ops (chk : Bool) (fuelCi : Nat) (ops : List Fit.DecHist.Op) (b : RB) (s : Sched) (size : Int)
    (hb : IsBytes (bytesOf s)) (e : RErr)
    (h : firstReaderErr (Fit.DecHist.history chk fuelCi ops) (b.reset s size) = some e) :
    ∃ o, runRB (Fit.DecHist.history chk fuelCi ops) (b.reset s size) = .done o ∧ o.err = some (.dec (.io e)) := by
  obtain ⟨o, ho, hq⟩ := (Fit.DecHist.s_history chk fuelCi ops).keeps _ _ (reset_inv b s size) hb e h
  exact ⟨o, ho, hq (firstReaderErr_isFailure _ _ e h)⟩

/-- non-vacuity: on the complete one-record file the history PeekFileHeader, PeekFileId, Discard, Next, Decode over the
one-byte-at-a-time reader with the smallest buffer returns what it returns over the contiguous reader — a header, "no
file_id", nil, and (the stream is exhausted) `Next` = false with the sticky end-of-stream error for `Decode` -/
example : histOver false 3 [.peekHeader, .peekFileId, .discard, .next, .decode] ((kfBytes ++ [9]).map fun b => ⟨[b], none⟩) 0 =
      histOver false 3 [.peekHeader, .peekFileId, .discard, .next, .decode] (contiguous (kfBytes ++ [9])) 4096 ∧
    (match histOver false 3 [.peekHeader, .peekFileId, .discard, .next, .decode] (contiguous (kfBytes ++ [9])) 4096 with
      | .done o => o.res.drop 1 | .panic => []) = [.fileId false, .done, .bool false, .err (.dec (.io .eof))] := by
  decide +kernel

end Fit.C08
