import FitProps.DecoderApiLemmas
import FitProps.WireLemmas
/-! invariant of `Fit.DecApi.expandAll` (component expansion of the decoder-API model): it only appends fields marked
expanded, or changes the VALUE of a field whose number is the destination of a component -/
namespace Fit.DecApi
open Fit.Wire (AllMatch)

/-- the field numbers of message `m` that are destinations of a component of some field of that message -/
def compDests (fac : Factory) (m : Nat) : List Nat :=
  (fac.filter (·.mesgNum == m)).flatMap fun e => e.info.comps.map (·.fieldNum)

def FieldSim (dests : List Nat) (f g : DField) : Prop :=
  f.num = g.num ∧ f.bt = g.bt ∧ f.known = g.known ∧ f.isBool = g.isBool ∧ f.array = g.array ∧
    (dests.contains g.num = false → f.value = g.value)

theorem create_comps_dest (fac : Factory) (m n : Nat) :
    ∀ c ∈ (fac.create m n).comps, (compDests fac m).contains c.fieldNum = true := by
  unfold Factory.create
  cases hf : fac.find? (fun e => e.mesgNum == m && e.num == n) with
  | none => intro c hc; simp [FieldInfo.unknown] at hc
  | some e =>
    have hm := List.mem_of_find?_eq_some hf
    have hp := List.find?_some hf
    simp only [Bool.and_eq_true, beq_iff_eq] at hp
    intro c hc
    simp only [List.contains_iff_mem, compDests, List.mem_flatMap, List.mem_filter, List.mem_map, beq_iff_eq]
    exact ⟨e, ⟨hm, hp.1⟩, c, hc, rfl⟩

theorem FieldSim.refl (dests : List Nat) (f : DField) : FieldSim dests f f :=
  ⟨rfl, rfl, rfl, rfl, rfl, fun _ => rfl⟩

theorem FieldSim.trans {dests : List Nat} {f g h : DField} (h1 : FieldSim dests f g) (h2 : FieldSim dests g h) :
    FieldSim dests f h := by
  obtain ⟨a1, a2, a3, a4, a5, a6⟩ := h1
  obtain ⟨b1, b2, b3, b4, b5, b6⟩ := h2
  refine ⟨a1.trans b1, a2.trans b2, a3.trans b3, a4.trans b4, a5.trans b5, fun hd => ?_⟩
  rw [a6 (by rw [b1]; exact hd), b6 hd]

theorem AllMatch_refl {α : Type} {R : α → α → Prop} (hr : ∀ a, R a a) : ∀ l : List α, AllMatch R l l
  | [] => .nil
  | a :: l => .cons (hr a) (AllMatch_refl hr l)

theorem AllMatch_trans {α : Type} {R : α → α → Prop} (ht : ∀ a b c, R a b → R b c → R a c) :
    ∀ {l1 l2 l3 : List α}, AllMatch R l1 l2 → AllMatch R l2 l3 → AllMatch R l1 l3 := by
  intro l1 l2 l3 h1
  induction h1 generalizing l3 with
  | nil => intro h2; cases h2; exact .nil
  | cons hab _ ih =>
    intro h2
    cases h2 with
    | cons hbc h2' => exact .cons (ht _ _ _ hab hbc) (ih h2')

/-- one step: the non-expanded fields after are similar to the non-expanded fields before -/
def Step (dests : List Nat) (fields fields' : List DField) : Prop :=
  AllMatch (FieldSim dests) (fields'.filter (fun f => !f.expanded)) (fields.filter (fun f => !f.expanded))

theorem Step.refl (dests : List Nat) (l : List DField) : Step dests l l :=
  AllMatch_refl (FieldSim.refl dests) _

theorem Step.trans {dests : List Nat} {a b c : List DField} (h1 : Step dests a b) (h2 : Step dests b c) :
    Step dests a c := by
  unfold Step at *
  exact AllMatch_trans (R := FieldSim dests) (fun _ _ _ x y => FieldSim.trans x y) h2 h1

theorem pw_filter (dests : List Nat) {l1 l2 : List DField}
    (h : AllMatch (fun f g => f.expanded = g.expanded ∧ FieldSim dests f g) l1 l2) :
    AllMatch (FieldSim dests) (l1.filter (fun f => !f.expanded)) (l2.filter (fun f => !f.expanded)) := by
  induction h with
  | nil => exact .nil
  | @cons a b as bs hab _ ih =>
    obtain ⟨he, hs⟩ := hab
    cases hb : b.expanded with
    | true =>
      have ha : a.expanded = true := by rw [he, hb]
      simpa [List.filter_cons, ha, hb] using ih
    | false =>
      have ha : a.expanded = false := by rw [he, hb]
      simpa [List.filter_cons, ha, hb] using AllMatch.cons hs ih

theorem pw_refl (dests : List Nat) (l : List DField) :
    AllMatch (fun f g => f.expanded = g.expanded ∧ FieldSim dests f g) l l :=
  AllMatch_refl (fun a => ⟨rfl, FieldSim.refl dests a⟩) l

theorem modify_pw (dests : List Nat) (g : DField → DField)
    (hg : ∀ f, (g f).num = f.num ∧ (g f).bt = f.bt ∧ (g f).known = f.known ∧ (g f).isBool = f.isBool ∧
      (g f).array = f.array ∧ (g f).expanded = f.expanded) :
    ∀ (fields : List DField) (j : Nat), (∀ f, fields[j]? = some f → dests.contains f.num = true) →
      AllMatch (fun f g => f.expanded = g.expanded ∧ FieldSim dests f g) (fields.modify j g) fields
  | [], j, _ => by simp only [List.modify_nil]; exact .nil
  | a :: l, 0, h => by
    simp only [List.modify_zero_cons]
    have hd := h a (by simp)
    obtain ⟨g1, g2, g3, g4, g5, g6⟩ := hg a
    exact .cons ⟨g6, g1, g2, g3, g4, g5, fun hn => by rw [hd] at hn; cases hn⟩ (pw_refl dests l)
  | a :: l, j + 1, h => by
    simp only [List.modify_succ_cons]
    exact .cons ⟨rfl, FieldSim.refl dests a⟩ (modify_pw dests g hg l j (fun f hf => h f (by simpa using hf)))

theorem lastIdx_some {fields : List DField} {num j : Nat} (h : lastIdx fields num = some j) :
    ∃ f, fields[j]? = some f ∧ f.num = num := by
  unfold lastIdx at h
  simp only [Option.map_eq_some_iff] at h
  obtain ⟨p, hp, rfl⟩ := h
  have hm := List.mem_of_getLast? hp
  rw [List.mem_filter] at hm
  obtain ⟨hz, hn⟩ := hm
  rw [List.mem_zipIdx_iff_getElem?] at hz
  exact ⟨p.1, hz, by simpa using hn⟩

theorem filter_append_expanded (fields : List DField) (f : DField) (h : f.expanded = true) :
    (fields ++ [f]).filter (fun f => !f.expanded) = fields.filter (fun f => !f.expanded) := by
  simp [List.filter_append, h]

theorem expandOne_step (fac : Factory) (m : Nat) (many : Bool) (c : Comp) (x x' : ExpSt)
    (r : Option (Fit.Value.Value × FieldInfo)) (dests : List Nat) (hd : dests.contains c.fieldNum = true)
    (h : expandOne fac m many c x = (x', r)) : Step dests x.fields x'.fields := by
  unfold expandOne at h
  split at h
  · cases h; exact Step.refl _ _
  · simp only at h
    split at h
    · cases h; exact Step.refl _ _
    · cases h
      simp only
      cases hl : lastIdx x.fields c.fieldNum with
      | some j =>
        simp only
        obtain ⟨f, hf, hn⟩ := lastIdx_some hl
        apply pw_filter
        apply modify_pw
        · intro f; exact ⟨rfl, rfl, rfl, rfl, rfl, rfl⟩
        · intro f' hf'
          rw [hf] at hf'; cases hf'
          rw [hn]; exact hd
      | none =>
        simp only
        unfold Step
        rw [filter_append_expanded _ _ rfl]
        exact AllMatch_refl (FieldSim.refl dests) _

theorem expandComps_step (fac : Factory) (m : Nat) :
    ∀ (fuel : Nat) (v : Fit.Value.Value) (bt : Nat) (comps : List Comp) (st st' : List DField × List AccEntry),
      (∀ c ∈ comps, (compDests fac m).contains c.fieldNum = true) →
      expandComps fac m fuel v bt comps st = some st' → Step (compDests fac m) st.1 st'.1
  | 0, v, bt, comps, st, st', hc, h => by
    unfold expandComps at h
    split at h
    · cases h; exact Step.refl _ _
    · cases h
  | fuel + 1, v, bt, comps, st, st', hc, h => by
    unfold expandComps at h
    split at h
    · cases h; exact Step.refl _ _
    split at h
    · cases h; exact Step.refl _ _
    split at h
    · cases h; exact Step.refl _ _
    rename_i bits _
    have key : ∀ (cs : List Comp) (r r' : ExpSt), (∀ c ∈ cs, (compDests fac m).contains c.fieldNum = true) →
        cs.foldl (fun (r : Option ExpSt) c =>
          match r with
          | none => none
          | some x =>
            match expandOne fac m (decide (comps.length > 1)) c x with
            | (x', none) => some x'
            | (x', some (value, info)) =>
              match expandComps fac m fuel value info.bt info.comps (x'.fields, x'.acc) with
              | none => none
              | some (fields, acc) => some { x' with fields := fields, acc := acc }) (some r) = some r' →
        Step (compDests fac m) r.fields r'.fields := by
      intro cs
      induction cs with
      | nil => intro r r' _ hr; simp only [List.foldl_nil, Option.some.injEq] at hr; subst hr; exact Step.refl _ _
      | cons c cs ih =>
        intro r r' hcs hr
        simp only [List.foldl_cons] at hr
        rcases he : expandOne fac m (decide (comps.length > 1)) c r with ⟨x', o⟩
        rw [he] at hr
        have h1 := expandOne_step fac m _ c r x' o (compDests fac m) (hcs c (by simp)) he
        cases o with
        | none =>
          simp only at hr
          exact Step.trans h1 (ih x' r' (fun c' hc' => hcs c' (by simp [hc'])) hr)
        | some p =>
          obtain ⟨value, info⟩ := p
          simp only at hr
          have hinfo := expandOne_info fac m _ c r x' value info he
          cases hx : expandComps fac m fuel value info.bt info.comps (x'.fields, x'.acc) with
          | none =>
            rw [hx] at hr
            simp only at hr
            have hnone : ∀ (l : List Comp), l.foldl (fun (r : Option ExpSt) c =>
                match r with
                | none => none
                | some x =>
                  match expandOne fac m (decide (comps.length > 1)) c x with
                  | (x', none) => some x'
                  | (x', some (value, info)) =>
                    match expandComps fac m fuel value info.bt info.comps (x'.fields, x'.acc) with
                    | none => none
                    | some (fields, acc) => some { x' with fields := fields, acc := acc }) none = none := by
              intro l; induction l with
              | nil => rfl
              | cons a l ihl => simp only [List.foldl_cons]; exact ihl
            rw [hnone] at hr; cases hr
          | some q =>
            obtain ⟨qf, qa⟩ := q
            rw [hx] at hr
            simp only at hr
            have h2 := expandComps_step fac m fuel value info.bt info.comps (x'.fields, x'.acc) (qf, qa)
              (by rw [hinfo]; exact create_comps_dest fac m c.fieldNum) hx
            have h3 := ih _ r' (fun c' hc' => hcs c' (by simp [hc'])) hr
            exact Step.trans h1 (Step.trans h2 h3)
    simp only [Option.map_eq_some_iff] at h
    obtain ⟨xr, hxr, rfl⟩ := h
    exact key comps _ xr hc hxr

theorem expandAll_sim (fac : Factory) (m : Nat) :
    ∀ (n i : Nat) (fields : List DField) (acc : List AccEntry) (fields' : List DField) (acc' : List AccEntry),
      expandAll fac m n i (fields, acc) = some (fields', acc') →
      AllMatch (FieldSim (compDests fac m)) (fields'.filter (fun f => !f.expanded)) (fields.filter (fun f => !f.expanded))
  | 0, i, fields, acc, fields', acc', h => by
    unfold expandAll at h
    cases h
    exact Step.refl _ _
  | n + 1, i, fields, acc, fields', acc', h => by
    unfold expandAll at h
    cases hfi : fields[i]? with
    | none =>
      rw [hfi] at h; simp only at h
      cases h
      exact Step.refl _ _
    | some f =>
      rw [hfi] at h; simp only at h
      cases hx : expandComps fac m 256 f.value f.bt (fac.create m f.num).comps (fields, acc) with
      | none => rw [hx] at h; cases h
      | some st =>
        obtain ⟨sf, sa⟩ := st
        rw [hx] at h; simp only at h
        have h1 := expandComps_step fac m 256 f.value f.bt _ (fields, acc) (sf, sa) (create_comps_dest fac m f.num) hx
        have h2 := expandAll_sim fac m n (i + 1) sf sa fields' acc' h
        exact Step.trans (dests := compDests fac m) h1 h2

theorem expandAll_nocomps (fac : Factory) (m : Nat) (h : ∀ n, (fac.create m n).comps = []) :
    ∀ (n i : Nat) (st : List DField × List AccEntry), expandAll fac m n i st = some st
  | 0, _, _ => rfl
  | n + 1, i, (fields, acc) => by
    unfold expandAll
    cases hfi : fields[i]? with
    | none => rfl
    | some f =>
      simp only
      have hx : expandComps fac m 256 f.value f.bt (fac.create m f.num).comps (fields, acc) = some (fields, acc) := by
        rw [h f.num]; unfold expandComps; rfl
      rw [hx]
      exact expandAll_nocomps fac m h n (i + 1) (fields, acc)
end Fit.DecApi
